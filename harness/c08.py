"""C08 — decorated functions get Python's binding with conforming arguments and result.

A case is data: a signature descriptor (parameters over the five kinds, annotations, defaults, Param settings),
a class context, a wrapper kind, Options, and a call (positional values + keyword pairs) — or, for the generator
clause, a generator script (what the raw generator yields / returns as a function of what it is sent) and the list
of values sent.  The adapter renders the descriptor to Python source, `exec`s it in a fresh namespace, decorates it
with the public `@utype.parse`, calls it and records the binding the body saw.

Oracle (spec): CPython's own call of the *undecorated* function (same parameters, Param objects replaced by their
declared default / no default; accepted alias names replaced by the parameter name) — `inspect.Signature.bind` of
3.12.1 wrongly rejects a positional-only name passed into **kwargs, the interpreter itself is exact — + an independent
conversion function for the two annotation types used (int, str) on a value universe where conversion is unambiguous.
"""
from __future__ import annotations

import itertools
import json
import random

from .common import Check

KINDS = ("po", "pk", "vp", "ko", "vk")
TYPES = ("int", "str")


# ------------------------------------------------------------------------------------------------
# independent conversion oracle on the value universe {small ints, short strings}
# ------------------------------------------------------------------------------------------------

STRICT = [False]     # Options(no_explicit_cast=True) of the case being evaluated: a value converts only within its type


def strict_for(case):
    STRICT[0] = bool((case.get("options") or {}).get("no_explicit_cast"))


def conv(ty, v):
    """(ok, value) — what a conforming conversion of v to ty is; ok=False when v has no int/str reading."""
    if ty is None:
        return True, v
    if ":" in ty:
        base, cons = ty.split(":")
        ok, c = conv(base, v)
        if not ok:
            return False, None
        if cons == "ge0" and not c >= 0:
            return False, None
        if cons == "max3" and not len(c) <= 3:
            return False, None
        return True, c
    if STRICT[0] and ((ty == "int" and not isinstance(v, int)) or (ty == "str" and not isinstance(v, str))):
        return False, None
    if ty == "int":
        if isinstance(v, bool):
            return False, None
        if isinstance(v, int):
            return True, v
        if isinstance(v, str) and v.isascii() and (v.isdigit() or (v[:1] == "-" and v[1:].isdigit())):
            return True, int(v)
        return False, None
    if ty == "str":
        if isinstance(v, str):
            return True, v
        if isinstance(v, int) and not isinstance(v, bool):
            return True, str(v)
        return False, None
    raise ValueError(ty)


# ------------------------------------------------------------------------------------------------
# descriptor -> source
# ------------------------------------------------------------------------------------------------

def lit(v):
    return repr(v)


CONS_SRC = {"ge0": "ge=0", "max3": "max_length=3"}


def has_param(p):
    return bool(p.get("alias") or p.get("alias_from") or p.get("ci") is not None or p.get("use_param") or p.get("cons"))


def param_settings_src(p, with_default):
    parts = []
    if with_default and p.get("default"):
        parts.append(lit(p["default"]["v"]))
    if p.get("alias"):
        parts.append(f"alias={p['alias']!r}")
    if p.get("alias_from"):
        parts.append(f"alias_from={list(p['alias_from'])!r}")
    if p.get("ci") is not None:
        parts.append(f"case_insensitive={bool(p['ci'])!r}")
    if p.get("cons"):
        parts.append(CONS_SRC[p["cons"]])
    return "Param(" + ", ".join(parts) + ")"


def attach_of(p):
    """how the Param is attached: as the default value, or inside Annotated[...] (first, after a doc string, nested)"""
    return p.get("attach") if has_param(p) and p.get("ann") else None


def param_default_src(p):
    """source of the `= ...` part, or None"""
    if not has_param(p) or attach_of(p):
        return lit(p["default"]["v"]) if p.get("default") else None
    return param_settings_src(p, True)


def param_ann_src(p):
    a = attach_of(p)
    if not a:
        return p["ann"]
    prm = param_settings_src(p, False)
    if a == "annotated":
        return f"typing.Annotated[{p['ann']}, {prm}]"
    if a == "annotated_doc":
        return f"typing.Annotated[{p['ann']}, 'doc', {prm}]"
    if a == "annotated_docs":
        return f"typing.Annotated[{p['ann']}, 'doc', 7, {prm}, 'more']"
    if a == "nested":
        return f"typing.Annotated[typing.Annotated[{p['ann']}, 'doc'], {prm}]"
    raise ValueError(a)


META = {"annotated": ["param"], "annotated_doc": ["doc", "param"], "annotated_docs": ["doc", "doc", "param", "doc"],
        "nested": ["doc", "param"]}


def ann_id(p):
    """the type id the oracle / model convert to: the annotation plus the constraint its Param carries"""
    if not p.get("ann"):
        return None
    return p["ann"] + (":" + p["cons"] if p.get("cons") and p["kind"] in ("po", "pk", "ko") else "")


def sig_src(params, first=None):
    out = [first] if first else []
    seen_slash = False
    kinds = [p["kind"] for p in params]
    star_done = False
    for i, p in enumerate(params):
        k = p["kind"]
        if k != "po" and not seen_slash and "po" in kinds[:i]:
            out.append("/")
            seen_slash = True
        if k == "ko" and not star_done:
            if "vp" not in kinds:
                out.append("*")
            star_done = True
        s = {"vp": "*", "vk": "**"}.get(k, "") + p["name"]
        if p.get("ann"):
            s += ": " + (param_ann_src(p) if k in ("po", "pk", "ko") else p["ann"])
        d = param_default_src(p) if k in ("po", "pk", "ko") else None
        if d is not None:
            s += " = " + d
        out.append(s)
        if k == "vp":
            star_done = True
    if "po" in kinds and not seen_slash:
        out.append("/")
    return ", ".join(out)


# class contexts: plain function; instance method; `@classmethod @parse` / `@parse @classmethod`;
# `@parse @staticmethod` / `@staticmethod @parse`; method of a class decorated as a whole (apply_class)
FIRST = {"func": None, "static": None, "static_inner": None, "inst": "self", "cls": "cls", "cls_outer": "cls",
         "klass": "self", "klass_static": None, "klass_cls": "cls"}


def options_src(opts):
    return "Options(" + ", ".join(f"{k}={v['type'] if isinstance(v, dict) else repr(v)}" for k, v in sorted(opts.items())) + ")"


def build_type(d, utype, typing):
    """a return annotation from its descriptor, with the real operators: leaves int/str/none/posint/short,
    ["or"|"and"|"xor", a, b, …], ["not", a], ["opt", a]"""
    from utype.parser.rule import LogicalType, Rule
    if isinstance(d, str):
        if d == "posint":
            return type("PosInt", (int, Rule), {"gt": 0})
        if d == "short":
            return type("Short", (str, Rule), {"max_length": 3})
        return {"int": int, "str": str, "none": type(None)}[d]
    op, args = d[0], [build_type(a, utype, typing) for a in d[1:]]
    if op == "opt":
        return typing.Optional[args[0]]
    if op == "not":
        return LogicalType.not_of(args[0])
    return {"or": LogicalType.any_of, "and": LogicalType.all_of, "xor": LogicalType.one_of}[op](*args)


def build_source(case):
    """Python source of the declaration (decorated function or class)."""
    params = case["params"]
    ctx = case.get("ctx", "func")
    wrapper = case.get("wrapper", "sync")
    first = FIRST[ctx]
    sig = sig_src(params, first)
    ret = case.get("ret")
    gen = case.get("gen")
    ann = ""
    if gen is not None:
        y, s, r = gen.get("yt"), gen.get("st"), gen.get("rt")
        if gen.get("annot", "generator") == "generator":
            if wrapper == "agen":
                ann = f" -> typing.AsyncGenerator[{y or 'typing.Any'}, {s or 'typing.Any'}]"
            else:
                ann = f" -> typing.Generator[{y or 'typing.Any'}, {s or 'typing.Any'}, {r or 'typing.Any'}]"
        elif gen.get("annot") == "iterator":
            ann = f" -> typing.{'AsyncIterator' if wrapper == 'agen' else 'Iterator'}[{y or 'typing.Any'}]"
    elif ret:
        ann = f" -> {ret}" if isinstance(ret, str) else " -> __RET__"
    opts = case.get("options") or {}
    dec_args = []
    if opts:
        dec_args.append("options=" + options_src(opts))
    if case.get("eager"):
        dec_args.append("eager=True")
    dec = "@utype.parse" + (f"({', '.join(dec_args)})" if dec_args else "")
    names = [p["name"] for p in params]
    rec = "__rec__({" + ", ".join(f"{n!r}: {n}" for n in names) + "}" + (f", {first}" if first else ", None") + ")"
    is_async = wrapper in ("coro", "agen")
    body = []
    body.append(rec)
    pre = ""
    if gen is not None:
        # Mealy machine: state = last value received; a yield is a constant or an echo of the last sent value.  `chain`:
        # further (undecorated) generators; each generator but the last ends by yielding the next one (tail delegation)
        segs = [gen["steps"]] + list(gen.get("chain") or [])

        def seg_body(j):
            out = ["__x = None"]
            for st in segs[j]:
                e = lit(st["v"]) if "v" in st else f"__echo__(__x, {lit(st['echo'])})"
                out.append(f"__x = yield {e}")
                out.append("__sent__(__x)")
            if j + 1 < len(segs):
                out.append(f"yield __seg{j + 1}()")
            else:
                if not segs[j]:
                    out.append("if False: yield")   # a generator function needs a yield somewhere
                if wrapper == "gen" and "ret" in gen:
                    out.append(f"return {lit(gen['ret']['v'])}" if "v" in gen["ret"] else f"return __echo__(__x, {lit(gen['ret']['echo'])})")
            return out
        body += seg_body(0)
        for j in range(len(segs) - 1, 0, -1):
            pre += ("async def" if is_async else "def") + f" __seg{j}():\n" + "".join("    " + b + "\n" for b in seg_body(j))
    else:
        if wrapper in ("gen", "agen"):
            body.append("yield 0")
        else:
            body.append(f"return {lit(case['retval']['v'])}" if case.get("retval") else "return None")
    d = ("async def" if is_async else "def") + f" f({sig}){ann}:\n" + "".join("    " + b + "\n" for b in body)
    if ctx in ("func",):
        return pre + dec + "\n" + d
    ind = lambda s: "".join("    " + l + "\n" for l in s.splitlines())
    if ctx == "klass":
        # the whole class is decorated: apply_class patches every public method
        return dec + "\nclass K:\n" + ind(d)
    if ctx == "klass_static":
        return dec + "\nclass K:\n" + ind("@staticmethod\n" + d)
    if ctx == "klass_cls":
        return dec + "\nclass K:\n" + ind("@classmethod\n" + d)
    if ctx == "static":
        return "class K:\n" + ind(dec + "\n" + "@staticmethod\n" + d)
    if ctx == "static_inner":
        return "class K:\n" + ind("@staticmethod\n" + dec + "\n" + d)
    if ctx == "cls":
        return "class K:\n" + ind("@classmethod\n" + dec + "\n" + d)
    if ctx == "cls_outer":
        return "class K:\n" + ind(dec + "\n" + "@classmethod\n" + d)
    return "class K:\n" + ind(dec + "\n" + d)


# ------------------------------------------------------------------------------------------------
# adapter (runs in the worker, real utype)
# ------------------------------------------------------------------------------------------------

def _exc_name(e):
    from utype.utils import exceptions as exc
    if isinstance(e, exc.ParseError):
        return "ParseError"       # the subclass is kept separately (never compared by the spec)
    if isinstance(e, exc.ConfigError):
        return "ConfigError"
    for t in (TypeError, ValueError, SyntaxError, StopIteration, StopAsyncIteration, RuntimeError, KeyError,
              AttributeError, IndexError):
        if type(e) is t:
            return t.__name__
    return "Other:" + type(e).__name__


def enc(v):
    """JSON form of a recorded value: ints, strs, None, tuples, dicts, else opaque"""
    if v is None or isinstance(v, bool):
        return {"o": repr(v)}
    if isinstance(v, int):
        return {"i": v}
    if isinstance(v, str):
        return {"s": v}
    if isinstance(v, tuple):
        return {"t": [enc(x) for x in v]}
    if isinstance(v, dict):
        return {"d": [[k, enc(x)] for k, x in sorted(v.items())]}
    return {"o": type(v).__name__}


def dec(j):
    if "i" in j:
        return j["i"]
    if "s" in j:
        return j["s"]
    if "t" in j:
        return tuple(dec(x) for x in j["t"])
    if "d" in j:
        return {k: dec(x) for k, x in j["d"]}
    if j.get("o") == "None":
        return None
    return ("opaque", j.get("o"))


def impl(case):
    import asyncio
    import typing
    import warnings

    import utype
    from utype import Options, Param

    warnings.simplefilter("ignore")
    log = {"body": 0, "binding": None, "first_ok": None, "sent": []}
    ctx = case.get("ctx", "func")
    ns = {"utype": utype, "Param": Param, "Options": Options, "typing": typing, "__name__": "c08case"}

    def rec(b, first):
        log["body"] += 1
        log["binding"] = {k: enc(v) for k, v in b.items()}
        if ctx in ("inst", "klass"):
            log["first_ok"] = isinstance(first, ns["K"])
        elif ctx in ("cls", "cls_outer", "klass_cls"):
            log["first_ok"] = first is ns["K"]

    def echo(x, dflt):
        # what the raw generator yields in response to the value it was sent: the value itself (or dflt when None)
        return dflt if x is None else x

    ns["__rec__"] = rec
    ns["__echo__"] = echo
    ns["__sent__"] = lambda x: log["sent"].append(enc(x))
    ret_d = case.get("ret")
    RET = None
    if ret_d:
        RET = build_type(ret_d, utype, typing)
        ns["__RET__"] = RET
    src = build_source(case)
    try:
        exec(src, ns)
    except BaseException as e:
        return {"decl_err": _exc_name(e), "src": src}
    if ctx == "func":
        target = ns["f"]
    elif ctx == "klass" and case.get("wrong_self"):
        target = ns["K"].f                 # the patched function itself, called with a first argument that is no instance
    elif ctx in ("inst", "klass"):
        target = ns["K"]().f
    elif case.get("via_instance"):
        target = ns["K"]().f
    else:
        target = ns["K"].f
    args = [dec(a) for a in case["args"]]
    if ctx == "klass" and case.get("wrong_self"):
        args = [5] + args
    kwargs = {k: dec(v) for k, v in case["kwargs"]}
    wrapper = case.get("wrapper", "sync")
    gen = case.get("gen")
    sends = [None if s is None else dec(s) for s in (gen or {}).get("sends", [])]
    out = {}

    def drive_sync(g):
        trace = []
        try:
            item = next(g)
            trace.append(["y", enc(item)])
            for s in sends:
                item = g.send(s) if s is not None else next(g)
                trace.append(["y", enc(item)])
        except StopIteration as e:
            trace.append(["r", enc(e.value)])
        except BaseException as e:
            trace.append(["e", _exc_name(e)])
        return trace

    async def drive_async(g):
        trace = []
        try:
            item = await g.__anext__()
            trace.append(["y", enc(item)])
            for s in sends:
                item = await g.asend(s) if s is not None else await g.__anext__()
                trace.append(["y", enc(item)])
        except StopAsyncIteration:
            trace.append(["r", enc(None)])
        except BaseException as e:
            trace.append(["e", _exc_name(e)])
        return trace

    try:
        if wrapper == "sync":
            r = target(*args, **kwargs)
            out["ret"] = enc(r)
        elif wrapper == "coro":
            try:
                co = target(*args, **kwargs)
            except BaseException:
                out["err_at"] = "call"        # eager: the parameters are parsed when the function is called
                raise
            out["at_call"] = log["body"]      # … the body still runs on await
            r = asyncio.run(_await(co))
            out["ret"] = enc(r)
        elif wrapper == "gen":
            g = target(*args, **kwargs)
            out["trace"] = drive_sync(g)
        elif wrapper == "agen":
            g = target(*args, **kwargs)
            out["trace"] = asyncio.run(drive_async(g))
    except BaseException as e:
        out["err"] = _exc_name(e)
        out["err_cls"] = type(e).__name__
    if RET is not None and case.get("retval") is not None and wrapper in ("sync", "coro"):
        # the return annotation measured in isolation: what the type itself makes of the body's result, and whether the
        # value the caller got conforms to it (the type accepts it unchanged)
        ropts = eval(options_src({k: v for k, v in (case.get("options") or {}).items() if k != "addition"}), ns)
        rv = case["retval"]["v"]
        from utype.parser.rule import Rule
        RETT = Rule.parse_annotation(annotation=RET)      # typing constructs (Optional[...]) as utype reads them
        try:
            out["ret_direct"] = {"ok": enc(utype.type_transform(rv, RETT, options=ropts))}
        except BaseException as e:
            out["ret_direct"] = {"err": _exc_name(e)}
        if "ret" in out:
            # Conforms (DESIGN C01): a leaf accepts the value unchanged; `|` / `^`: some argument does; `&`: the last
            # argument does; `~t`: t rejects it; Optional: None or the argument
            def accepts(d, v):
                try:
                    r = utype.type_transform(v, Rule.parse_annotation(annotation=build_type(d, utype, typing)), options=ropts)
                    return type(r) is type(v) and r == v
                except BaseException:
                    return False

            def conforms(d, v):
                if isinstance(d, str):
                    return accepts(d, v)
                if d[0] in ("or", "xor"):
                    return any(conforms(a, v) for a in d[1:])
                if d[0] == "and":
                    return conforms(d[-1], v)
                if d[0] == "opt":
                    return v is None or conforms(d[1], v)
                if d[0] == "not":
                    try:
                        utype.type_transform(v, Rule.parse_annotation(annotation=build_type(d[1], utype, typing)), options=ropts)
                        return False
                    except BaseException:
                        return True
            got = dec(out["ret"])
            out["ret_conforms"] = bool(conforms(ret_d, got)) if not isinstance(ret_d, str) else None
    if gen is not None and "decl_err" not in out:
        # the undecorated function driven the same way: sends converted by the oracle, hand-overs followed
        # (a yielded generator takes over and is started with next()); raw yields / return recorded
        import inspect
        strict_for(case)
        yt, st, rt = effective_types(gen, wrapper)
        raw = utype.raw(ns["f"])
        rt_ = []

        def conv_send(s_):
            if s_ is None:
                return True, None
            return conv(st, s_)

        if wrapper == "gen":
            def run_raw():
                g = raw()
                x = None
                ins = [None] + sends
                i = 0
                while i < len(ins):
                    ok, x = conv_send(ins[i])
                    if not ok:
                        rt_.append(["e", "ParseError"]); return
                    try:
                        item = g.send(x) if x is not None else next(g)
                    except StopIteration as e:
                        rt_.append(["r", enc(e.value)]); return
                    while inspect.isgenerator(item):
                        g = item
                        try:
                            item = next(g)
                        except StopIteration as e:
                            rt_.append(["r", enc(e.value)]); return
                    rt_.append(["y", enc(item)])
                    i += 1
            run_raw()
        else:
            async def run_raw():
                g = raw()
                ins = [None] + sends
                for s_ in ins:
                    ok, x = conv_send(s_)
                    if not ok:
                        rt_.append(["e", "ParseError"]); return
                    try:
                        item = await (g.asend(x) if x is not None else g.__anext__())
                        while inspect.isasyncgen(item):
                            g = item
                            item = await g.__anext__()
                    except StopAsyncIteration:
                        rt_.append(["r", enc(None)]); return
                    rt_.append(["y", enc(item)])
            asyncio.run(run_raw())
        out["raw_trace"] = rt_
    out["body"] = log["body"]
    out["binding"] = log["binding"]
    out["sent"] = log["sent"]
    if log["first_ok"] is not None:
        out["first_ok"] = log["first_ok"]
    return out


async def _await(co):
    return await co


# ------------------------------------------------------------------------------------------------
# specification, in Python, on what the implementation did
# ------------------------------------------------------------------------------------------------

def accepted_names(p, opts):
    """every keyword spelling utype documents as accepted for parameter p (exact; case handled separately)"""
    names = [p["name"]]
    if p.get("alias"):
        names.append(p["alias"])
    names += list(p.get("alias_from") or [])
    return names


def is_ci(p, opts):
    if p.get("ci") is not None:
        return bool(p["ci"])
    return bool((opts or {}).get("case_insensitive"))


def normalise_kwargs(case):
    """replace accepted alias spellings by the parameter's own name.  Returns (pairs, ambiguous?)"""
    params = case["params"]
    opts = case.get("options") or {}
    table = {}
    ci_table = {}
    for p in params:
        if p["kind"] not in ("pk", "ko"):
            continue
        if p["name"].startswith("_"):
            continue      # excluded parameters are not fields: they have no aliases
        for n in accepted_names(p, opts):
            table.setdefault(n, p["name"])
            if is_ci(p, opts):
                ci_table.setdefault(n.lower(), p["name"])
    out = []
    for k, v in case["kwargs"]:
        if k in table:
            out.append((table[k], v))
        elif k.lower() in ci_table:
            out.append((ci_table[k.lower()], v))
        else:
            out.append((k, v))
    return out


class _Omitted:
    def __init__(self, name):
        self.name = name


_RAW_CACHE = {}


def raw_function(case):
    """the undecorated declaration as Python sees it: same parameters, `Param(...)` replaced by what it declares (a
    default or none); defaults are sentinels so that omitted parameters can be told from given ones"""
    key = json.dumps([[p["name"], p["kind"], bool(p.get("default"))] for p in case["params"]])
    if key in _RAW_CACHE:
        return _RAW_CACHE[key]
    ps = [dict(name=p["name"], kind=p["kind"], default={"v": 0} if p.get("default") else None) for p in case["params"]]
    src = sig_src(ps)
    for p in ps:
        if p["default"]:
            src = src.replace(f"{p['name']} = 0", f"{p['name']} = __om__[{p['name']!r}]")
    names = [p["name"] for p in ps]
    ns = {"__om__": {n: _Omitted(n) for n in names}}
    try:
        exec(f"def raw({src}):\n    return {{" + ", ".join(f"{n!r}: {n}" for n in names) + "}\n", ns)
        fn = ns["raw"]
    except SyntaxError:
        fn = None
    _RAW_CACHE[key] = fn
    return fn


def missing_required(case):
    """some field without default is given neither by position nor under an accepted spelling"""
    pos = [p for p in case["params"] if p["kind"] in ("po", "pk")]
    keys = {k for k, _ in normalise_kwargs(case)}
    for i, p in enumerate(pos):
        if not p.get("default") and not is_private_name(p["name"]) and i >= len(case["args"]) and (p["kind"] == "po" or p["name"] not in keys):
            return True
    return any(p["kind"] == "ko" and not p.get("default") and not is_private_name(p["name"]) and p["name"] not in keys
               for p in case["params"])


def is_private_name(n):
    return n.startswith("_")


def decl_ok(case):
    """func.py:253-257: a truthy `addition` in the decorator's Options without a **kwargs parameter is a ConfigError"""
    add = (case.get("options") or {}).get("addition")
    truthy = add is True or isinstance(add, dict)
    return not (truthy and not any(p["kind"] == "vk" for p in case["params"]))


def expected(case):
    """('nobind',) | ('fail', param) | ('ok', binding) — what the property demands of this call"""
    strict_for(case)
    if not decl_ok(case):
        return ("declerr",)
    raw = raw_function(case)
    if raw is None:
        return ("badsig",)
    args = [dec(a) for a in case["args"]]
    pairs = normalise_kwargs(case)
    keys = [k for k, _ in pairs]
    if len(set(keys)) != len(keys):
        return ("nobind",)        # one parameter given under two names: Python has no such call
    try:
        bound = raw(*args, **{k: dec(v) for k, v in pairs})
    except TypeError:
        return ("nobind",)
    out = {}
    for p in case["params"]:
        n = p["name"]
        v = bound[n]
        ty = ann_id(p)
        if p["kind"] == "vp":
            vs = []
            for x in v:
                ok, c = conv(ty, x)
                if not ok:
                    return ("fail", n)
                vs.append(c)
            out[n] = tuple(vs)
        elif p["kind"] == "vk":
            d = {}
            for k, x in v.items():
                ok, c = conv(ty, x)
                if not ok:
                    return ("fail", n)
                d[k] = c
            out[n] = d
        elif isinstance(v, _Omitted):
            out[n] = p["default"]["v"]            # omitted: the declared default, as is
        else:
            ok, c = conv(ty, v)
            if not ok:
                return ("fail", n)
            out[n] = c
    return ("ok", out)


def converted_raw_trace(case, raw_trace):
    """the recorded trace of the undecorated function (run in the worker) with yields / return converted"""
    if raw_trace is None:
        return None
    strict_for(case)
    yt, st, rt = effective_types(case["gen"], case["wrapper"])
    out = []
    for kind, v in raw_trace:
        if kind == "e":
            out.append([kind, v]); break
        val = dec(v)
        if kind == "r" and val is None:
            out.append(["r", enc(None)]); break
        ok, c = conv(yt if kind == "y" else rt, val)
        if not ok:
            out.append(["e", "ParseError"]); break
        out.append([kind, enc(c)])
        if kind == "r":
            break
    return out


def gen_expected_trace(case):
    """trace of the undecorated generator on the converted sends, with yields/return converted (pure Python)"""
    strict_for(case)
    g = case["gen"]
    wrapper = case["wrapper"]
    yt, st = g.get("yt"), g.get("st")
    rt = g.get("rt") if wrapper == "gen" else None
    annot = g.get("annot", "generator")
    if annot == "iterator":
        st = rt = None
    if annot == "none":
        yt = st = rt = None
    segs = [g["steps"]] + list(g.get("chain") or [])
    sends = [None if s is None else dec(s) for s in g.get("sends", [])]
    trace = []

    def finish(x):
        if wrapper == "gen" and "ret" in g:
            r = g["ret"]
            v = r["v"] if "v" in r else (r["echo"] if x is None else x)
            if v is None:
                return ("r", None)
            ok, c = conv(rt, v)
            return ("r", c) if ok else ("e", "ParseError")
        return ("r", None)

    def resume(j, k, x):
        """the generators followed through their hand-overs: (event, j', k')"""
        while True:
            if k < len(segs[j]):
                stp = segs[j][k]
                v = stp["v"] if "v" in stp else (stp["echo"] if x is None else x)
                ok, c = conv(yt, v)
                return (("y", c) if ok else ("e", "ParseError")), j, k + 1
            if j + 1 < len(segs):
                j, k, x = j + 1, 0, None          # the yielded generator takes over and is started with next()
                continue
            return finish(x), j, k

    j = k = 0
    t, j, k = resume(j, k, None)
    trace.append(t)
    if t[0] != "y":
        return trace
    for s_ in sends:
        x = None
        if s_ is not None:
            ok, c = conv(st, s_)
            if not ok:
                trace.append(("e", "ParseError"))
                return trace
            x = c
        t, j, k = resume(j, k, x)
        trace.append(t)
        if t[0] != "y":
            return trace
    return trace


# ------------------------------------------------------------------------------------------------
# generators of cases
# ------------------------------------------------------------------------------------------------

PLAIN = ["a", "b", "c", "d", "e"]
UNDER = ["_x", "_y", "_z"]
ALIASES = ["A1", "k9", "al", "Zed", "q"]
INT_OK = [0, 1, 7, 12, "3", "10", "0"]
STR_OK = ["x", "abc", "Q", 5, 0, "12", ""]
BAD_INT = ["x", "1.5x", "abc", "-"]
ANY = [0, 3, "x", "7", "Yz", ""]


def gen_value(rng, ty, bad=0.06):
    if ty == "int":
        return rng.choice(BAD_INT) if rng.random() < bad else rng.choice(INT_OK)
    if ty == "str":
        return rng.choice(STR_OK)
    return rng.choice(ANY)


def gen_pvalue(rng, p):
    """a value for parameter p: mostly conforming; a constrained parameter also gets values that violate the constraint"""
    if p.get("cons") == "ge0" and has_param(p) and rng.random() < 0.3:
        return rng.choice([-1, "-2", -7])
    if p.get("cons") == "max3" and has_param(p) and rng.random() < 0.3:
        return rng.choice(["toolong", 12345, "abcd"])
    return gen_value(rng, p.get("ann"))


def gen_sig(rng, maxp=5, settings=True, under=0.25):
    n = rng.randint(0, maxp)
    # choose the kind layout: po* pk* [vp] ko* [vk]
    kinds = []
    npo = rng.choice([0, 0, 0, 1, 1, 2])
    nvp = rng.random() < 0.3
    nvk = rng.random() < 0.3
    nko = rng.choice([0, 0, 1, 1, 2])
    layout = ["po"] * npo + ["pk"] * rng.choice([0, 1, 1, 2, 2, 3]) + (["vp"] if nvp else []) + ["ko"] * nko + (["vk"] if nvk else [])
    # trim to n keeping order (drop random entries)
    while len(layout) > max(n, 1):
        layout.pop(rng.randrange(len(layout)))
    names = PLAIN[:]
    rng.shuffle(names)
    unames = UNDER[:]
    params = []
    seen_default = False
    syn_default = False
    used_alias = set()
    for k in layout:
        und = bool(rng.random() < under and unames)
        name = unames.pop(0) if und else names.pop(0)
        p = {"name": name, "kind": k}
        if rng.random() < (0.75 if not und else 0.3):
            p["ann"] = rng.choice(TYPES) if rng.random() < 0.35 else "int"
        if k in ("po", "pk", "ko"):
            want_default = rng.random() < (0.45 if not seen_default else 0.9)
            if k == "ko":
                want_default = rng.random() < 0.5
            if want_default:
                p["default"] = {"v": rng.choice([0, 2, 9, "dv", "4"])}
                if k != "ko":
                    seen_default = True
            elif seen_default and k != "ko":
                # Python forbids a non-default positional parameter after a default one
                p["default"] = {"v": rng.choice([0, 2, 9])}
            if settings and not und and k in ("pk", "ko", "po") and rng.random() < 0.4:
                r = rng.random()
                if p.get("ann") and rng.random() < 0.5:
                    p["cons"] = "ge0" if p["ann"] == "int" else "max3"
                if p.get("ann"):
                    # every way the Param can be attached: `= Param(...)`, Annotated[T, Param], with other metadata in
                    # front (and behind), nested Annotated
                    p["attach"] = rng.choice([None, None, "annotated", "annotated_doc", "annotated_docs", "nested"])
                if r < 0.45 and k != "po":
                    al = rng.choice([a for a in ALIASES if a not in used_alias] or [None])
                    if al:
                        p["alias"] = al
                        used_alias.add(al)
                if 0.3 < r < 0.8 and k != "po":
                    al = [a for a in ALIASES if a not in used_alias]
                    rng.shuffle(al)
                    al = al[:rng.choice([1, 1, 2])]
                    if al:
                        p["alias_from"] = al
                        used_alias.update(al)
                if r > 0.7:
                    p["ci"] = rng.random() < 0.8
                if not has_param(p):
                    p["use_param"] = True
            if k in ("po", "pk"):
                if syn_default and not p.get("default") and param_default_src(p) is None:
                    # Python's own syntax: every later positional parameter needs `= ...`
                    if und:
                        p["default"] = {"v": rng.choice([0, 2, 9])}
                        seen_default = True
                    else:
                        p["use_param"] = True
                        p["attach"] = None         # the Param has to be the `= ...` part here
                if param_default_src(p) is not None:
                    syn_default = True
        params.append(p)
    return params


def spell(rng, p, opts, alias_rate=0.5):
    """some accepted keyword spelling of parameter p"""
    if p["name"].startswith("_"):
        return p["name"]
    names = accepted_names(p, opts)
    n = rng.choice(names) if rng.random() < alias_rate else p["name"]
    if is_ci(p, opts) and rng.random() < 0.5:
        n = rng.choice([n.upper(), n.lower(), n.capitalize()])
    return n


def gen_call(rng, params, opts, near_miss=0.15):
    """a call Python would bind (mostly), exploring positional/keyword splits, aliases, extras"""
    pos = [p for p in params if p["kind"] in ("po", "pk")]
    vp = next((p for p in params if p["kind"] == "vp"), None)
    vk = next((p for p in params if p["kind"] == "vk"), None)
    kos = [p for p in params if p["kind"] == "ko"]
    miss = rng.random() < near_miss
    # how many positional parameters are passed by position
    must = 0
    for i, p in enumerate(pos):
        if p["kind"] == "po" and not p.get("default"):
            must = i + 1
    npos = rng.randint(must, len(pos)) if pos else 0
    if miss and rng.random() < 0.3 and npos > 0:
        npos -= 1
    args = [gen_pvalue(rng, p) for p in pos[:npos]]
    if vp and npos == len(pos) and rng.random() < 0.6:
        args += [gen_value(rng, vp.get("ann")) for _ in range(rng.randint(1, 3))]
    elif miss and not vp and rng.random() < 0.3:
        args.append(rng.choice([0, 3, "7"]))      # may land in any slot: readable by every annotation
    kwargs = []
    for p in pos[npos:] + kos:
        if p["kind"] == "po":
            continue
        if p.get("default") and rng.random() < 0.5:
            continue
        if miss and rng.random() < 0.15:
            continue
        kwargs.append([spell(rng, p, opts), gen_pvalue(rng, p)])
    if vk and rng.random() < 0.6:
        for k in rng.sample(["m", "n", "Kx", "_u", "zz"], rng.randint(1, 2)):
            kwargs.append([k, gen_value(rng, vk.get("ann"))])
        if rng.random() < 0.3:
            # keys that look like parameters but are ordinary extra keys for Python: a positional-only name, or a
            # different-case spelling of a case-sensitive / positional-only name
            cand = [p["name"] for p in params if p["kind"] == "po"]
            cand += [p["name"].upper() for p in params if p["kind"] in ("po", "pk", "ko") and not is_private(p["name"])
                     and (p["kind"] == "po" or not is_ci(p, opts))]
            if cand:
                kwargs.append([rng.choice(cand), gen_value(rng, vk.get("ann"))])
    elif miss and rng.random() < 0.3:
        kwargs.append(["zz", 1])
    if miss and rng.random() < 0.3 and pos[:npos]:
        p = rng.choice(pos[:npos])
        if p["kind"] == "pk":
            kwargs.append([spell(rng, p, opts), gen_pvalue(rng, p)])
    if miss and rng.random() < 0.2:
        # the same parameter under two spellings
        for p in pos[npos:] + kos:
            if p["kind"] != "po" and len(accepted_names(p, opts)) > 1 and not p["name"].startswith("_"):
                a, b = accepted_names(p, opts)[:2]
                v = gen_pvalue(rng, p)
                kwargs = [kv for kv in kwargs if kv[0] not in accepted_names(p, opts)]
                kwargs += [[a, v], [b, v if rng.random() < 0.5 else gen_pvalue(rng, p)]]
                break
    if miss:
        # in a near-miss a value may land on another parameter than the one it was drawn for; '' is the one value whose
        # int reading utype and the oracle disagree on (C01's subject), keep it out of those calls
        args = ["Q" if a == "" else a for a in args]
        kwargs = [[k, "Q" if v == "" else v] for k, v in kwargs]
    rng.shuffle(kwargs)
    seen, kw2 = set(), []
    for k, v in kwargs:
        if k not in seen:
            seen.add(k)
            kw2.append([k, enc(v)])
    return [enc(a) for a in args], kw2


OPTION_CHOICES = [
    {}, {}, {}, {}, {"data_first_search": True}, {"data_first_search": False}, {"case_insensitive": True},
    {"collect_errors": True}, {"ignore_alias_conflicts": True}, {"collect_errors": True, "max_errors": 2},
    {"data_first_search": None}, {"data_first_search": True, "ignore_alias_conflicts": True},
]
# decorator-level Options that reach FunctionParser's effective options (func.py:242-249): they must not change what a
# declared **kwargs / *args receives
DECL_OPTIONS = [
    {"no_data_loss": True}, {"no_explicit_cast": True}, {"no_data_loss": True, "no_explicit_cast": True},
    {"addition": False}, {"addition": True}, {"addition": {"type": "str"}}, {"addition": {"type": "int"}},
    {"ignore_required": True}, {"mode": "r"}, {"no_data_loss": True, "addition": True}, {"addition": None},
]


def gen_options(rng, params, rate=0.35):
    opts = dict(rng.choice(OPTION_CHOICES))
    if rng.random() < rate:
        extra = dict(rng.choice(DECL_OPTIONS))
        has_vk = any(p["kind"] == "vk" for p in params)
        add = extra.get("addition")
        if (add is True or isinstance(add, dict)) and not has_vk and rng.random() < 0.85:
            extra.pop("addition")          # (a ConfigError at declaration time: kept in a small share of the cases)
        opts.update(extra)
    return opts


RET_LEAVES = ["int", "str", "none", "posint", "short"]
RET_TYPES = [["not", "none"], ["and", ["or", "int", "none"], "posint"], ["xor", ["opt", "int"], ["opt", "str"]],
             ["opt", "int"], ["or", "int", "str"], ["xor", "int", "str"], ["not", "posint"], ["or", "posint", "short"],
             ["and", "int", "posint"], ["opt", ["or", "int", "str"]], ["or", "none", "str"], ["not", ["or", "int", "none"]],
             ["xor", "int", "posint"], ["opt", "posint"], ["and", ["opt", "int"], ["not", "none"]],
             ["xor", ["or", "int", "none"], ["or", "str", "none"]], ["or", ["not", "none"], "int"], ["not", ["not", "none"]]]
RET_VALUES = [None, None, 5, "6", "x", 0, -1, "", "abcd", "7"]


def gen_ret_type(rng, depth=2):
    if rng.random() < 0.6:
        return rng.choice(RET_TYPES)

    def rec(d):
        if d == 0 or rng.random() < 0.35:
            return rng.choice(RET_LEAVES)
        op = rng.choice(["or", "and", "xor", "not", "opt"])
        if op in ("not", "opt"):
            return [op, rec(d - 1)]
        return [op] + [rec(d - 1) for _ in range(rng.choice([2, 2, 3]))]
    t = rec(depth)
    return t if not isinstance(t, str) else ["opt", t]


def ret_grid_cases():
    """every return annotation of RET_TYPES x every result value x sync / coroutine (eager and lazy)"""
    out = []
    for t in RET_TYPES:
        for v in [None, 5, "6", "x", 0, -1, "", "abcd"]:
            for wrapper, eager in (("sync", False), ("coro", False), ("coro", True)):
                out.append({"kind": "bind", "params": [], "ctx": "func", "wrapper": wrapper, "eager": eager, "options": {},
                            "ret": t, "retval": {"v": v}, "args": [], "kwargs": []})
    return out


def gen_binding_case(rng, tier="quick"):
    params = gen_sig(rng)
    opts = gen_options(rng, params)
    ctx = rng.choice(["func"] * 8 + ["inst", "inst", "cls", "cls_outer", "static", "static_inner", "klass", "klass_static", "klass_cls"])
    wrapper = rng.choice(["sync"] * 6 + ["coro", "gen", "agen"])
    case = {"kind": "bind", "params": params, "ctx": ctx, "wrapper": wrapper, "eager": rng.random() < 0.3,
            "options": opts}
    if ctx not in ("func", "inst", "klass") and rng.random() < 0.3:
        case["via_instance"] = True
    if ctx == "klass" and rng.random() < 0.2:
        case["wrong_self"] = True
    if wrapper in ("sync", "coro"):
        r = rng.random()
        if r < 0.3:
            case["ret"] = "int"
            case["retval"] = {"v": rng.choice([5, "6", "x"])}
        elif r < 0.4:
            case["ret"] = "str"
            case["retval"] = {"v": rng.choice([5, "y"])}
        elif r < 0.6:
            # a logical combination as the return annotation, a result each member may judge differently (None included)
            case["ret"] = gen_ret_type(rng)
            case["retval"] = {"v": rng.choice(RET_VALUES)}
        else:
            case["retval"] = {"v": rng.choice([1, "r"])}
    case["args"], case["kwargs"] = gen_call(rng, params, opts)
    return case


def gen_focus_case(rng):
    """two regions the uniform generator reaches rarely: (1) omitted positional-only defaults around private slots,
    (2) keys that look like parameters but are ordinary **kwargs keys (positional-only names, case variants)"""
    opts = dict(rng.choice(OPTION_CHOICES))
    params = []
    if rng.random() < 0.5:
        if rng.random() < 0.6:
            params.append({"name": "a", "kind": "po", "ann": "int"})
        pool = [{"name": "_x", "kind": "po", "default": {"v": 9}},
                {"name": "c", "kind": "po", "ann": "int", "default": {"v": 2}, "use_param": rng.random() < 0.6},
                {"name": "_y", "kind": "po", "default": {"v": 8}},
                {"name": "e", "kind": "po", "default": {"v": "4"}, "use_param": rng.random() < 0.6}]
        k = rng.randint(1, 4)
        start = rng.randint(0, 4 - k)
        params += pool[start:start + k]
        if rng.random() < 0.4:
            params.append({"name": "b", "kind": "pk", "ann": "int", "default": {"v": 1}})
        if rng.random() < 0.3:
            params.append({"name": "r", "kind": "vp", "ann": "int"})
        if rng.random() < 0.3:
            params.append({"name": "d", "kind": "ko", "ann": "int", "default": {"v": 5}})
        npos = sum(p["kind"] in ("po", "pk") for p in params)
        must = 1 if params[0]["name"] == "a" else 0
        n = rng.randint(must, npos)
        args = [gen_pvalue(rng, p) for p in params[:n]]
        kwargs = [["d", enc(gen_value(rng, "int"))]] if any(p["name"] == "d" for p in params) and rng.random() < 0.5 else []
        args = [enc(a) for a in args]
    else:
        params.append({"name": "a", "kind": "po", "ann": "int", **({"default": {"v": 3}} if rng.random() < 0.4 else {})})
        if rng.random() < 0.5:
            params.append({"name": "b", "kind": "pk", "ann": "int", "default": {"v": 1},
                           **({"ci": True} if rng.random() < 0.3 else {}), **({"alias": "Bee"} if rng.random() < 0.3 else {})})
        if rng.random() < 0.4:
            params.append({"name": "c", "kind": "ko", "default": {"v": 0}})
        params.append({"name": "kw", "kind": "vk", **({"ann": "int"} if rng.random() < 0.6 else {})})
        vkann = params[-1].get("ann")
        args = [] if params[0].get("default") and rng.random() < 0.4 else [enc(gen_value(rng, "int"))]
        if len(args) == 1 and len(params) > 2 and params[1]["name"] == "b" and rng.random() < 0.3:
            args.append(enc(gen_value(rng, "int")))
        cand = ["a", "A", "zz", "_u"]
        if any(p["name"] == "b" for p in params):
            b = next(p for p in params if p["name"] == "b")
            cand += [spell(rng, b, opts)] if len(args) < 2 else []
            if not is_ci(b, opts):
                cand.append("B")
        if any(p["name"] == "c" for p in params):
            cand += ["c", "C"] if not opts.get("case_insensitive") else ["c"]
        ks = rng.sample(cand, rng.randint(1, min(3, len(cand))))
        seen, kwargs = set(), []
        for k in ks:
            if k not in seen:
                seen.add(k)
                # a key that may reach the int field b carries an int-readable value
                hits_b = k.lower() in ("b", "bee")
                kwargs.append([k, enc(gen_value(rng, "int" if hits_b else vkann))])
    if rng.random() < 0.5:
        extra = dict(rng.choice(DECL_OPTIONS))
        add = extra.get("addition")
        if (add is True or isinstance(add, dict)) and not any(p["kind"] == "vk" for p in params):
            extra.pop("addition")
        opts.update(extra)
    ctx = rng.choice(["func"] * 4 + ["inst", "static", "klass"])
    return {"kind": "bind", "params": params, "ctx": ctx, "wrapper": rng.choice(["sync"] * 4 + ["coro", "gen"]),
            "eager": rng.random() < 0.3, "options": opts, "retval": {"v": 1}, "args": args, "kwargs": kwargs}


# values for generator scripts, per declared type: falsy ones (0, "") in every role — a sent 0 / "" is a sent value,
# not `next()`; "" is not offered where an int is declared (utype reads it as 0, the oracle has no int reading for it)
GEN_POOL = {"int": [0, 1, "2", "30", 4, "0", 0], "str": ["", 0, "x", 5, "0", ""], None: [0, "", 1, "x", "2", 0]}
GEN_BAD = {"int": ["bad", "x"], "str": [], None: []}


def gen_gv(rng, ty, bad=0.08):
    if GEN_BAD[ty] and rng.random() < bad:
        return rng.choice(GEN_BAD[ty])
    return rng.choice(GEN_POOL[ty])


def effective_types(g, wrapper):
    annot = g.get("annot", "generator")
    if annot == "none":
        return None, None, None
    if annot == "iterator":
        return g.get("yt"), None, None
    return g.get("yt"), g.get("st"), (g.get("rt") if wrapper == "gen" else None)


def gen_generator_case(rng):
    STRICT[0] = False
    wrapper = rng.choice(["gen", "agen"])
    nsteps = rng.randint(1, 4)
    g = {"annot": rng.choice(["generator"] * 4 + ["iterator", "none"]),
         "yt": rng.choice(["int", "int", "str", None]), "st": rng.choice(["int", "int", "str", None]),
         "rt": rng.choice(["int", "str", None])}
    yt, st, rt = effective_types(g, wrapper)
    # an echoed value is converted twice (as a send, then as a yield): keep it readable by both types
    both = [v for v in GEN_POOL[st] if conv(st, v)[0] and conv(yt, conv(st, v)[1])[0]]
    steps = []
    for i in range(nsteps):
        if i == 0 or rng.random() < 0.35:
            steps.append({"v": gen_gv(rng, yt)})
        else:
            steps.append({"echo": rng.choice([v for v in GEN_POOL[yt] if conv(yt, v)[0]])})
    g["steps"] = steps
    if rng.random() < 0.35:
        # tail delegation: after its yields the generator hands over to another one (possibly at once, possibly twice)
        chain = []
        for _ in range(rng.choice([1, 1, 2])):
            chain.append([({"v": gen_gv(rng, yt)} if rng.random() < 0.4 else
                           {"echo": rng.choice([v for v in GEN_POOL[yt] if conv(yt, v)[0]])})
                          for _ in range(rng.randint(0, 2))])
        g["chain"] = chain
        if rng.random() < 0.3:
            g["steps"] = steps[:rng.randint(0, 1)]
        nsteps = len(g["steps"]) + sum(len(c) for c in chain)
    if wrapper == "gen" and rng.random() < 0.7:
        g["ret"] = rng.choice([{"v": gen_gv(rng, rt)}, {"v": gen_gv(rng, rt)},
                               {"echo": rng.choice([v for v in GEN_POOL[rt] if conv(rt, v)[0]])}]
                              + ([{"v": None}] if rt is None else []))   # "returns None" only where no type is declared
    if "echo" in g.get("ret", {}):
        both = [v for v in both if conv(rt, conv(st, v)[1])[0]]     # the last sent value may be returned, too
    ns = rng.randint(0, nsteps + 1)
    sends = []
    for _ in range(ns):
        r = rng.random()
        if r < 0.3:
            sends.append(None)
        elif r < 0.9 and both:
            sends.append(enc(rng.choice(both)))
        else:
            v = gen_gv(rng, st, bad=0.5)
            # either it fails as a send, or it must survive being echoed as a yield
            sends.append(enc(v if (not conv(st, v)[0] or v in both or not both) else rng.choice(both)))
    g["sends"] = sends
    return {"kind": "gen", "params": [], "ctx": "func", "wrapper": wrapper, "eager": rng.random() < 0.5,
            "options": {}, "args": [], "kwargs": [], "gen": g}


def option_grid_cases():
    """decorator-level Options x signatures with / without `**kwargs[: T]` and `*args[: T]` x calls with extras"""
    A = {"name": "a", "kind": "pk", "ann": "int"}
    sigs = [[A, {"name": "kw", "kind": "vk", "ann": "int"}], [A, {"name": "kw", "kind": "vk"}],
            [dict(A, default={"v": 0}), {"name": "r", "kind": "vp", "ann": "int"}, {"name": "kw", "kind": "vk", "ann": "str"}],
            [A, {"name": "r", "kind": "vp", "ann": "int"}], [A, {"name": "r", "kind": "vp"}], [A],
            [A, {"name": "c", "kind": "ko", "ann": "str", "default": {"v": "d"}}, {"name": "kw", "kind": "vk", "ann": "int"}]]
    out = []
    # the known-finding shapes under every decorator option (their classification must not depend on the error kind)
    known = [
        ("func", [{"name": "n", "kind": "pk", "ann": "int", "default": {"v": 0}}, {"name": "_c", "kind": "pk", "default": {"v": 0}}],
         ["10"], [["_c", 5]]),
        ("func", [{"name": "a", "kind": "pk", "ann": "int"}, {"name": "_r", "kind": "ko"}], [1], [["_r", 5]]),
        ("func", [{"name": "_x", "kind": "pk", "ann": "int"}], ["10"], []),
        ("func", [{"name": "_x", "kind": "ko", "ann": "int", "default": {"v": 1}}, {"name": "kw", "kind": "vk", "ann": "int"}], [],
         [["_x", "3"], ["y", "4"]]),
        ("static_inner", [{"name": "e", "kind": "pk"}, {"name": "_x", "kind": "vp"}], [], [["E", "Yz"]]),
        ("static_inner", [{"name": "e", "kind": "pk"}, {"name": "kw", "kind": "vk", "ann": "int"}], [], [["E", "3"]]),
    ]
    for ctx, params, args, kwargs in known:
        for extra in [{}] + DECL_OPTIONS:
            add = extra.get("addition")
            if (add is True or isinstance(add, dict)) and not any(p["kind"] == "vk" for p in params):
                continue
            for dfs in (False, True):
                out.append({"kind": "bind", "params": params, "ctx": ctx, "wrapper": "sync", "eager": False,
                            "options": dict(extra, data_first_search=dfs, case_insensitive=True), "retval": {"v": 1},
                            "args": [enc(a) for a in args], "kwargs": [[k, enc(v)] for k, v in kwargs]})
    # a positional argument repeated as a keyword (own name / alias), with and without **kwargs, every search setting
    A0 = {"name": "a", "kind": "pk"}
    KW = {"name": "kw", "kind": "vk"}
    dup = [([A0], [1], [["a", 2]]), ([A0, KW], [1], [["a", 2]]), ([A0, KW], [1], [["a", 2], ["x", 3]]),
           ([{"name": "a", "kind": "pk", "ann": "int", "alias": "A1"}, {"name": "c", "kind": "ko", "default": {"v": 0}}], [1], [["A1", 2]]),
           ([{"name": "a", "kind": "pk", "ann": "int", "alias": "A1"}, KW], ["1"], [["a", "2"]]),
           ([{"name": "p", "kind": "po"}, {"name": "b", "kind": "pk", "default": {"v": 0}}, KW], [1, 2], [["b", 3]]),
           ([{"name": "p", "kind": "po"}, {"name": "b", "kind": "pk", "default": {"v": 0}}], [1, 2], [["b", 3]]),
           ([A0, {"name": "b", "kind": "pk", "ann": "int", "default": {"v": 0}, "ci": True}, KW], [1, 2], [["B", 3]])]
    for params, args, kwargs in dup:
        for dfs in (False, True, None):
            for ctx in ("func", "inst", "static"):
                out.append({"kind": "bind", "params": params, "ctx": ctx, "wrapper": "sync", "eager": False,
                            "options": {"data_first_search": dfs}, "retval": {"v": 1},
                            "args": [enc(a) for a in args], "kwargs": [[k, enc(v)] for k, v in kwargs]})
    for params in sigs:
        has_vk = any(p["kind"] == "vk" for p in params)
        has_vp = any(p["kind"] == "vp" for p in params)
        calls = [([1], []), (["2"], [])]
        if has_vk:
            calls += [([1], [["x", "2"]]), ([1], [["x", 3], ["Y", "4"]]), ([], [["a", "5"], ["x", 0]])]
        if has_vp:
            calls += [([1, "5"], []), ([1, 6, "7"], [])]
        if has_vk and has_vp:
            calls += [([1, "5"], [["x", 2]])]
        if any(p["name"] == "c" for p in params):
            calls += [([1], [["c", 5], ["x", "2"]])]
        for extra in [{}] + DECL_OPTIONS:
            for dfs in (False, True, None):
                opts = dict(extra, data_first_search=dfs)
                for args, kwargs in calls:
                    out.append({"kind": "bind", "params": params, "ctx": "func", "wrapper": "sync", "eager": False,
                                "options": opts, "retval": {"v": 1}, "args": [enc(a) for a in args],
                                "kwargs": [[k, enc(v)] for k, v in kwargs]})
    return out


def exhaustive_gen_cases(maxlen=3):
    """every send stream of length <= maxlen over {next(), 0, a falsy/odd second value, 1} in every position, for the four
    wrappers (sync/async x eager/lazy) and each send type; the raw generator echoes what it is sent and returns it"""
    import itertools
    out = []
    for st, alphabet in (("int", [None, 0, "0", 1]), ("str", [None, 0, "", "x"]), (None, [None, 0, "", 1])):
        for yt in ((st, None) if st else (None,)):
            # the echo is converted as a yield too: declare a yield type only when it equals the send type
            for wrapper in ("gen", "agen"):
                for eager in (False, True):
                    for n in range(0, maxlen + 1):
                        for seq in itertools.product(alphabet, repeat=n):
                            c0 = {"v": 7 if st != "str" else "s"}
                            ec = {"echo": 9 if st != "str" else "e"}
                            # one generator; a hand-over after the 1st / 2nd yield; two hand-overs in a row; at once
                            for steps, chain in (([c0, ec, ec, ec], None), ([c0], [[ec, ec, ec]]), ([c0, ec], [[ec, ec]]),
                                                 ([c0], [[], [ec, ec]]), ([], [[c0, ec, ec]])):
                                if chain is not None and yt is None and st is not None:
                                    continue          # (keeps the enumeration small: one yield typing per send type)
                                g = {"annot": "generator", "yt": yt, "st": st, "rt": st, "steps": steps,
                                     "sends": [None if x is None else enc(x) for x in seq]}
                                if chain is not None:
                                    g["chain"] = chain
                                if wrapper == "gen":
                                    g["ret"] = {"echo": 5 if st != "str" else "r"}
                                out.append({"kind": "gen", "params": [], "ctx": "func", "wrapper": wrapper, "eager": eager,
                                            "options": {}, "args": [], "kwargs": [], "gen": g})
    return out



def is_private(name):
    return name.startswith("_")


def fold(case, out):
    """normalise the adapter's record: an exception inside a (lazy) generator wrapper counts as the call's error"""
    o = dict(out)
    if "trace" in o and "err" not in o:
        for t in o["trace"]:
            if t[0] == "e":
                o["err"] = t[1]
                break
    return o


def guessed_self(case):
    """`@staticmethod` over a parse-decorated plain function whose first parameter looks like `self`"""
    ps = case["params"]
    if case.get("ctx") != "static_inner" or not ps:
        return False
    p = ps[0]
    return (p["kind"] in ("po", "pk") and not p.get("ann") and not p.get("default") and not p.get("use_param")
            and not p.get("alias") and not p.get("alias_from") and p.get("ci") is None)


def design_case(case):
    """the call as utype's documentation reads it: private parameters are not fields (never converted) and a private
    parameter passed by keyword is ignored"""
    c = dict(case)
    priv = {p["name"] for p in case["params"] if is_private(p["name"]) and p["kind"] in ("po", "pk", "ko")}
    if guessed_self(case):
        # the bare first parameter of a guessed instance method is the reserved one, bound like `self` whatever its name
        priv.discard(case["params"][0]["name"])
    c["params"] = [dict(p, ann=None) if is_private(p["name"]) and p["kind"] in ("po", "pk", "ko") else p for p in case["params"]]
    c["kwargs"] = [kv for kv in case["kwargs"] if kv[0] not in priv]
    return c


def verdict(case, out, ex, nobind_err=None):
    """None when what the implementation did is what `ex` demands"""
    strict_for(case)
    out = fold(case, out)
    if "decl_err" in out:
        return None if ex[0] in ("badsig", "declerr") else f"declaration rejected: {out['decl_err']}"
    if ex[0] == "declerr":
        return None
    if ex[0] in ("nobind", "badsig"):
        if nobind_err is not None:
            if out.get("err") != nobind_err or out["body"]:
                return f"expected {nobind_err} before the body, got {out.get('err')} body={out['body']}"
        return None
    if ex[0] == "fail":
        if out["body"] != 0:
            return f"parameter {ex[1]!r} cannot be converted but the body ran"
        if out.get("err") != "ParseError":
            return f"parameter {ex[1]!r} cannot be converted: expected ParseError, got {out.get('err')}"
        return None
    exp = {k: enc(v) for k, v in ex[1].items()}
    if out["body"] == 0:
        return f"Python binds this call but the body did not run ({out.get('err_cls') or out.get('err')})"
    if out["body"] != 1:
        return f"body ran {out['body']} times"
    if out["binding"] != exp:
        diff = [k for k in exp if out["binding"].get(k) != exp[k]]
        return f"body saw a different binding for {diff}: got { {k: out['binding'].get(k) for k in diff} } expected { {k: exp[k] for k in diff} }"
    if out.get("first_ok") is False:
        return "reserved first parameter (self/cls) is not the instance/class"
    w = case.get("wrapper", "sync")
    if w in ("sync", "coro") and "ret_direct" in out:
        d = out["ret_direct"]
        if "ok" in d:
            if "err" in out or out.get("ret") != d["ok"]:
                return (f"return value: the annotation itself turns {case['retval']['v']!r} into {d['ok']}, the decorated "
                        f"function returned {out.get('ret')} err={out.get('err')}")
            # (`ret_conforms` — the recorded C01-style Conforms verdict on the value the type itself produced — is not
            # judged here: whether a combinator's own output conforms to it is C01/C09's subject, e.g. `None & int`
            # turns None into 0; C08's clause is that the function's glue adds or removes nothing.)
        elif out.get("err") != "ParseError":
            return (f"return value {case['retval']['v']!r} is rejected by the return annotation {case.get('ret')} itself "
                    f"({d['err']}) but the decorated function returned {out.get('ret')} err={out.get('err')}")
    if w in ("sync", "coro") and (case.get("ret") is None or isinstance(case.get("ret"), str)) \
            and case.get("retval", {}).get("v") is not None:
        rv = case.get("retval", {}).get("v")
        ok, c = conv(case.get("ret"), rv)
        if ok:
            if "err" in out or out.get("ret") != enc(c):
                return f"return value: expected {enc(c)}, got {out.get('ret')} err={out.get('err')}"
        elif out.get("err") != "ParseError":
            return f"return value {rv!r} does not conform to {case.get('ret')} but no ParseError: {out.get('ret')} {out.get('err')}"
    if w not in ("sync", "coro") and case.get("gen") is None:
        if out.get("trace") != [["y", enc(0)]]:
            return f"generator trace {out.get('trace')}"
    return None


def dup_positional_keyword(case):
    """names of (non-private) positional-or-keyword parameters that the call binds positionally AND gives again under
    a keyword spelling the parameter accepts — the normalised call passes one parameter twice, which Python refuses
    ("got multiple values for argument")"""
    pos = [p for p in case["params"] if p["kind"] in ("po", "pk")]
    keys = {k for k, _ in normalise_kwargs(case)}
    out = []
    for i, p in enumerate(pos[:len(case["args"])]):
        if p["kind"] == "pk" and not is_private(p["name"]) and p["name"] in keys and not (i == 0 and guessed_self(case)):
            out.append(p["name"])
    return out


def spec_bind(case, out):
    dups = dup_positional_keyword(case)
    if dups and "decl_err" not in out and not case.get("wrong_self") and expected(case)[0] == "nobind":
        o = fold(case, out)
        if o["body"]:
            return (f"parameter {dups[0]!r} is bound positionally and given again by keyword (Python: TypeError, got "
                    f"multiple values) but the body ran with {o['binding']}")
    if case.get("wrong_self") and case.get("ctx") == "klass" and "decl_err" not in out:
        # a method of a class decorated as a whole, called with a first argument that is not an instance: that
        # parameter (implicitly typed by the class) fails — ParseError, the body does not run
        o = fold(case, out)
        if dup_positional_keyword(case) and not o["body"] and o.get("err") == "TypeError":
            return None      # the duplicate check of parse_params (Python's TypeError) comes before the instance check
        if o["body"] or o.get("err") != "ParseError":
            return f"first argument 5 is not an instance of the decorated class: expected ParseError without the body, got err={o.get('err')} body={o['body']}"
        return None
    return verdict(case, out, expected(case))


def classify_bind(case, out, agree=True, dfs=False):
    """known-finding id of a spec violation, by MECHANISM: the declaration/call has the shape of the finding and the
    implementation did exactly what the model (which mirrors the documented design) predicts — whatever error kind or
    binding that is under the case's Options.  A disagreement between model and implementation is never classified."""
    if not agree:
        return None
    if guessed_self(case) and not case["args"]:
        # the bare first parameter was taken for `self`: it is not a field, so a different-case spelling of its name does
        # not reach it (the key is dropped, kept in **kwargs, or refused — depending on the effective `addition`)
        n = case["params"][0]["name"]
        keys = [k for k, _ in case["kwargs"]]
        if n not in keys and any(k != n and k.lower() == n.lower() for k in keys) \
                and is_ci(case["params"][0], case.get("options")):
            return "guessed-self-not-field"
    dc = design_case(case)
    if dc == case:
        return None
    priv = {p["name"] for p in case["params"] if is_private(p["name"]) and p["kind"] in ("po", "pk", "ko")}
    if guessed_self(case):
        priv.discard(case["params"][0]["name"])
    if any(k in priv for k, _ in case["kwargs"]):
        # a private parameter cannot be passed by keyword: the keyword is ignored — or, where unknown keys are refused
        # (addition=False / no_data_loss without **kwargs), refused with an ExceedError; model and implementation agree
        return "private-kw-dropped"
    if verdict(dc, out, expected(dc), nobind_err="TypeError") is None:
        return "private-unparsed"
    return None


CTX_FLAGS = {
    "func": {},
    "inst": {"dotted": True},
    "klass": {"from_class": True, "dotted": True},
    "klass_static": {"static": True, "from_class": True, "dotted": True},
    "klass_cls": {"classm": True, "from_class": True, "dotted": True},
    "static": {"static": True, "dotted": True},
    "static_inner": {"dotted": True},
    "cls": {"dotted": True},
    "cls_outer": {"classm": True, "dotted": True},
}
SELF = {"o": "self"}


def model_param(p):
    q = dict(p, py_default=p["kind"] in ("po", "pk", "ko") and param_default_src(p) is not None)
    if attach_of(p):
        q["meta"] = META[attach_of(p)]
    return q


def full_params(case):
    first = FIRST[case.get("ctx", "func")]
    ps = [model_param(p) for p in case["params"]]
    return ([{"name": first, "kind": "pk"}] if first else []) + ps


def model_binding_by_name(case, b):
    """the driver's positional Binding -> {name: value} over the caller-visible parameters (+ the reserved first)"""
    ps = full_params(case)
    pos = [p for p in ps if p["kind"] in ("po", "pk")]
    kos = [p for p in ps if p["kind"] == "ko"]
    out = {}
    for p, v in zip(pos, b["pos"]):
        out[p["name"]] = v
    for p, v in zip(kos, b["kos"]):
        out[p["name"]] = v
    for p in ps:
        if p["kind"] == "vp":
            out[p["name"]] = {"t": b["star"]}
        if p["kind"] == "vk":
            out[p["name"]] = {"d": sorted(b["dstar"], key=lambda kv: kv[0])}
    return out


def is_nontrivial(case, ex):
    if case["kind"] == "gen":
        g = case["gen"]
        return bool(g["steps"] or g.get("chain")) and (any(x is not None for x in g["sends"]) or any(g.get(k) for k in ("yt", "st", "rt")))
    if case.get("ret") is not None and not isinstance(case["ret"], str):
        return ex[0] in ("ok",)
    return ex[0] in ("ok", "fail") and len(case["params"]) >= 1 and (len(case["args"]) + len(case["kwargs"]) >= 1
                                                                       or any(p.get("default") for p in case["params"]))


EXHAUSTIVE_NOTE = ("every signature of 1-3 parameters over 15 parameter shapes (5 kinds; int annotation / none; default / "
                   "none; one aliased and one case-insensitive shape; private names) that Python's syntax admits, x every "
                   "call with 0..n+1 positional values and every subset of {each keyword-capable name (own spelling or alias), "
                   "a positional-only name, one unknown key}, x {field-first, data-first}")

SHAPES = {
    "po": [{"name": "a", "ann": "int"}, {"name": "a", "ann": "int", "default": {"v": 2}}, {"name": "_x"},
           {"name": "_x", "default": {"v": 9}}],
    "pk": [{"name": "b", "ann": "int"}, {"name": "b", "ann": "int", "default": {"v": 2}},
           {"name": "b", "ann": "int", "default": {"v": 2}, "alias": "B1"},
           {"name": "d", "ann": "int", "default": {"v": 4}, "ci": True}, {"name": "_y", "default": {"v": 9}},
           {"name": "g", "ann": "int", "default": {"v": 6}, "alias_from": ["G2"], "cons": "ge0", "attach": "annotated_doc"}],
    "vp": [{"name": "r", "ann": "int"}, {"name": "r"}],
    "ko": [{"name": "c", "ann": "int"}, {"name": "c", "default": {"v": 2}}, {"name": "_z", "default": {"v": 9}},
           {"name": "h", "ann": "int", "alias": "H1", "cons": "ge0", "attach": "nested"}],
    "vk": [{"name": "k", "ann": "int"}],
}


def exhaustive_sigs(maxp=3):
    order = ["po", "pk", "vp", "ko", "vk"]
    out = []

    def rec(i, acc):
        if acc:
            out.append(list(acc))
        if len(acc) >= maxp:
            return
        for j in range(i, len(order)):
            k = order[j]
            if k in ("vp", "vk") and any(p["kind"] == k for p in acc):
                continue
            for sh in SHAPES[k]:
                if any(p["name"] == sh["name"] for p in acc):
                    continue
                p = dict(sh, kind=k)
                # Python's syntax: no positional parameter without default after one with a default
                if k in ("po", "pk") and not p.get("default") and any(q.get("default") for q in acc if q["kind"] in ("po", "pk")):
                    continue
                rec(j, acc + [p])
    rec(0, [])
    return out


def exhaustive_cases():
    cases = []
    for params in exhaustive_sigs():
        npos = sum(p["kind"] in ("po", "pk") for p in params)
        has_vp = any(p["kind"] == "vp" for p in params)
        keys = []
        for p in params:
            if p["kind"] in ("pk", "ko"):
                keys.append(p.get("alias") or (p.get("alias_from") or [None])[0] or (p["name"].upper() if p.get("ci") else p["name"]))
            elif p["kind"] == "po" and any(q["kind"] == "vk" for q in params):
                keys.append(p["name"])
        keys.append("zz")
        for n in range(0, npos + (2 if has_vp else 1) + 1):
            for first_bad in ((False, True) if n else (False,)):
                args = [enc("x" if (first_bad and i == 0) else str(3 + i)) for i in range(n)]
                for mask in range(1 << len(keys)):
                    kwargs = [[k, enc(7 + j if (j + n) % 3 else -1 - j)] for j, k in enumerate(keys) if mask >> j & 1]
                    for dfs in (False, True):
                        cases.append({"kind": "bind", "params": params, "ctx": "func", "wrapper": "sync", "eager": False,
                                      "options": {"data_first_search": dfs}, "retval": {"v": 1}, "args": args,
                                      "kwargs": kwargs})
    return cases


class C08(Check):
    prop = "C08"
    props_modules = ["Utv.Props.C08"]
    driver = "C08"
    impl = "harness.c08:impl"
    case_timeout = 20.0
    budget = {"quick": 10000, "thorough": 120000}
    search_budget = {"quick": 4000, "thorough": 40000}
    rule = ("random declarations (0-5 parameters over the five kinds; int/str annotations; defaults; Param(alias, alias_from, "
            "case_insensitive); private `_x` names) in 9 class contexts x 4 wrapper kinds x eager/lazy x 11 Options, each with a "
            "call built from the signature (every positional/keyword split, accepted spellings, *args/**kwargs extras, 15% "
            "near-misses), plus generator scripts (1-4 yields, echoing sends) with Generator/Iterator annotations and send "
            "lists whose values include the falsy 0 and '' in every role, plus every send stream of length <= 3 (4 in thorough) "
            "over {next(), 0, '0' / '', 1 / 'x'} for the four wrappers (sync/async x eager/lazy) and each send type, plus a grid of "
            "decorator Options (no_data_loss, no_explicit_cast, addition False/True/type/None, ignore_required, mode; 35% of the "
            "random cases too) x 7 signatures with / without **kwargs[: T] and *args[: T] x calls with extras x 3 search settings; thorough adds every call of every 1-3 parameter signature over a reduced alphabet.  non-trivial = Python "
            "binds the call, the signature has a parameter and the call passes an argument or a default is filled "
            "(generators: a typed or sent value); distinct by the whole case")
    assumptions = ["value universe of the correspondence run: small ints, digit / non-digit strings; annotations int and str "
                   "(conversion itself is C01/C12's subject; the theorems are for every transformer)",
                   "Python's binding is taken from CPython 3.12 calling the undecorated function"]

    def cases(self, tier, rng, n):
        out = []
        if tier != "search":
            out += exhaustive_gen_cases(3 if tier == "quick" else 4)
            out += option_grid_cases()
            out += ret_grid_cases()
        if tier == "thorough":
            out += exhaustive_cases()
        for _ in range(n):
            r = rng.random()
            out.append(gen_generator_case(rng) if r < 0.12 else gen_focus_case(rng) if r < 0.3 else gen_binding_case(rng, tier))
        return out

    def evaluate(self, cases):
        """the implementation first: the model is told what the return annotation, measured in isolation, does"""
        from .common import run_driver, run_impl
        impl_outs = run_impl(self.impl, cases, self.case_timeout, extra_env=self.impl_env)
        lines = []
        for c, io in zip(cases, impl_outs):
            line = self.model_line(c)
            if isinstance(io, dict) and "ret_direct" in io and "retval" in line:
                line["ret_measured"] = io["ret_direct"]
            lines.append(line)
        return impl_outs, run_driver(self.driver, lines)

    def model_line(self, case):
        if case["kind"] == "gen":
            return {"kind": "gen", "wrapper": case["wrapper"], "gen": case["gen"], "legacy": bool(case.get("legacy")),
                    "no_reset": bool(case.get("no_reset")),
                    "eager": bool(case.get("eager"))}
        ctx = case.get("ctx", "func")
        bound = FIRST[ctx] is not None
        line = {"kind": "bind", "params": full_params(case), "ctx": CTX_FLAGS[ctx], "options": case.get("options") or {},
                "args": ([enc(5) if case.get("wrong_self") and ctx == "klass" else SELF] if bound else []) + case["args"],
                "kwargs": case["kwargs"], "eager": bool(case.get("eager")),
                "spec_params": [model_param(p) for p in case["params"]], "spec_args": case["args"],
                "ret": case.get("ret") if isinstance(case.get("ret"), str) else None}
        if case.get("retval") and case.get("wrapper", "sync") in ("sync", "coro"):
            line["retval"] = enc(case["retval"]["v"])
        return line

    # ---- model vs implementation ------------------------------------------------------------------
    def compare(self, case, io, mo):
        if not isinstance(mo, dict) or ("model" not in mo and "trace" not in mo):
            return f"driver: {mo}"
        if case["kind"] == "bind" and (case.get("options") or {}).get("ignore_required") and missing_required(case):
            # fragment boundary: under ignore_required a required field that is absent is not an AbsenceError — the raw
            # function then falls back on whatever Python default the declaration has (the Param object itself).  Python
            # does not bind such a call, the property is silent; the model keeps the AbsenceError.  Not compared.
            return None
        if case["kind"] == "bind" and mo.get("decl_ok") is False:
            if io.get("decl_err") != "ConfigError":
                return f"model: ConfigError at declaration time; impl: {io.get('decl_err') or 'declared'}"
            return None
        if "decl_err" in io:
            return f"declaration rejected by the implementation: {io['decl_err']}"
        if case["kind"] == "gen":
            if io.get("trace") != mo["trace"]:
                return f"generator trace: impl={io.get('trace')} model={mo['trace']}"
            want = [[a, enc(b) if a != "e" else b] for a, b in gen_expected_trace(case)]
            if mo["spec_trace"] != want:
                return f"HARNESS: lean Spec.genTrace {mo['spec_trace']} != python oracle {want}"
            return None
        strict_for(case)
        io = fold(case, io)
        m = mo["model"]
        ctx = case.get("ctx", "func")
        if case.get("wrapper") == "coro" and bool(mo.get("raised_at_call")) != (io.get("err_at") == "call"):
            return f"coroutine: model raises at call time = {mo.get('raised_at_call')}, impl err_at = {io.get('err_at')}"
        if m["out"] == "perr":
            if io.get("err") != "ParseError" or io["body"]:
                return f"model: ParseError before the body; impl: err={io.get('err_cls') or io.get('err')} body={io['body']}"
        elif m["out"] == "tyerr":
            if io.get("err") != "TypeError" or io["body"]:
                return f"model: TypeError from the raw call; impl: err={io.get('err_cls') or io.get('err')} body={io['body']}"
        else:
            if io["body"] != 1:
                return f"model: body runs; impl: body={io['body']} err={io.get('err_cls') or io.get('err')}"
            mb = model_binding_by_name(case, m["binding"])
            first = FIRST[ctx]
            if first:
                fv = mb.pop(first)
                if (fv == SELF) != bool(io.get("first_ok")):
                    return f"reserved first parameter: model={fv} impl first_ok={io.get('first_ok')}"
            if mb != io["binding"]:
                return f"binding: impl={io['binding']} model={mb}"
            w = case.get("wrapper", "sync")
            if w in ("sync", "coro"):
                if mo["ret"] == "perr":
                    if io.get("err") != "ParseError":
                        return f"model: result ParseError; impl: {io.get('ret')} {io.get('err')}"
                elif "err" in io or io.get("ret") != mo["ret"]:
                    return f"result: impl={io.get('ret')} err={io.get('err')} model={mo['ret']}"
            elif io.get("trace") != [["y", enc(0)]]:
                return f"generator body trace {io.get('trace')}"
        # the Lean specification against the inspect-based oracle
        ex = expected(case)
        ls = mo["spec"]
        if ex[0] in ("nobind", "badsig", "declerr"):
            want = None
        elif ex[0] == "fail":
            want = {"out": "perr"}
        else:
            want = ex[1]
        if want is None or want == {"out": "perr"}:
            if ls != want:
                return f"HARNESS: lean Spec.expected {ls} != CPython oracle {want}"
        else:
            got = model_binding_by_name(dict(case, ctx="func"), ls["binding"]) if ls and ls.get("out") == "body" else ls
            if got != {k: enc(v) for k, v in want.items()}:
                return f"HARNESS: lean Spec.expected {got} != CPython oracle {want}"
        return None

    # ---- the property on what the implementation did -----------------------------------------------
    def spec(self, case, io, mo):
        self._last = (case, mo)
        if "hang" in io or "crash" in io:
            return f"call did not complete: {io}"
        if case["kind"] == "gen":
            if "decl_err" in io:
                return f"declaration rejected: {io['decl_err']}"
            want = [[a, enc(b) if a != "e" else b] for a, b in gen_expected_trace(case)]
            if io.get("trace") != want:
                return f"generator trace {io.get('trace')} but the undecorated generator with converted values gives {want}"
            viaraw = converted_raw_trace(case, io.get("raw_trace"))
            if viaraw is not None and viaraw != want:
                return f"HARNESS: the undecorated function actually run gives {viaraw}, the script oracle {want}"
            return None
        return spec_bind(case, io)

    def classify(self, case, io, why):
        if case["kind"] == "gen":
            return None
        last = getattr(self, "_last", None)
        agree = True
        dfs = False
        if last is not None and last[0] is case:
            agree = self.compare(case, io, last[1]) is None
            dfs = bool(isinstance(last[1], dict) and last[1].get("dfs"))
        return classify_bind(case, io, agree, dfs)

    def key(self, case, io):
        ex = expected(case) if case["kind"] == "bind" else None
        return json.dumps(case, sort_keys=True) if is_nontrivial(case, ex) else None

    def distribution(self, case, io):
        if case["kind"] == "gen":
            return f"gen/{case['wrapper']}/{'eager' if case['eager'] else 'lazy'}/{case['gen'].get('annot')}/sends={len(case['gen']['sends'])}"
        ex = expected(case)
        kinds = "".join(sorted({p["kind"] for p in case["params"]}))
        feats = []
        if any(is_private(p["name"]) for p in case["params"]):
            feats.append("priv")
        if any(p.get("alias") or p.get("alias_from") for p in case["params"]):
            feats.append("alias")
        if any(is_ci(p, case.get("options")) for p in case["params"]):
            feats.append("ci")
        return f"{ex[0]}/{case.get('ctx')}/{case.get('wrapper')}/{'+'.join(feats) or 'plain'}/n={len(case['params'])}"

    def neighbours(self, case, rng):
        out = []
        if case["kind"] == "gen":
            g = case["gen"]
            for i in range(len(g["sends"])):
                out.append(dict(case, gen=dict(g, sends=g["sends"][:i])))
            for w in ("gen", "agen"):
                for e in (False, True):
                    out.append(dict(case, wrapper=w, eager=e))
            return out
        for i in range(len(case["args"])):
            out.append(dict(case, args=case["args"][:i]))
        for i in range(len(case["kwargs"])):
            out.append(dict(case, kwargs=case["kwargs"][:i] + case["kwargs"][i + 1:]))
        for o in OPTION_CHOICES:
            out.append(dict(case, options=o))
        for c in FIRST:
            out.append(dict(case, ctx=c))
        for _ in range(10):
            a, k = gen_call(rng, case["params"], case.get("options") or {})
            out.append(dict(case, args=a, kwargs=k))
        return out

    def finish_evidence(self, ev, tier):
        ev["coverage"]["exhaustive"] = False
        if tier == "thorough":
            ev["coverage"]["exhaustive_part"] = EXHAUSTIVE_NOTE


CHECK = C08()
