import Utv.Model.C04
/-
C04 (continued) — the entry points built on fields:

  ParserField.parse_value                               field.py:1012-1089
  BaseParser.__call__/parse_data/parse_addition,
    data_first_parse / field_first_parse                base.py:342-619
  ClassParser generated __init__, init_dataclass        cls.py:482-500, 551-591
  FunctionParser.parse_pos_type / parse_params /
    parse_result / sync_call                            func.py:576-712, 933-954

Field lookup (aliases, case-insensitivity), modes, dependencies and defaults are not the property's
business: a field is found by `aliases.contains key`, `no_input`/`required`/`default` are data of the
declaration (a raising `default_factory` / `no_input` callable is developer code that the library
deliberately lets through, field.py:786-793, base.py:563-565), the dependency check is an abstract
predicate.
-/
namespace Utv.C04

/-- `unprovided` is `none` -/
structure FieldDecl (V : Type) where
  id : Nat                          -- name = attname
  aliases : List Nat := []          -- keys under which the field is found (incl. its own name)
  ty : Option Ty := none            -- `not type` ⇒ value returned as is (field.py:1059)
  onError : Option Policy := none   -- field.on_error; `get_on_error` falls back to options.invalid_values
  required : Bool := true           -- is_required(options)
  default : Option V := none        -- get_default(options, defer=False)
  disc : Bool := false              -- has a discriminator map
  posOnly : Bool := false           -- field.positional_only (functions)
  hasDeps : Bool := false

structure ParserDecl (V : Type) where
  fields : List (FieldDecl V) := []
  additionType : Option Ty := none  -- parser.addition_type (the runtime option's type is ignored, base.py:400-402)
  excludeVars : List Nat := []

structure DataWorld (V : Type) extends World V where
  isMapping : V → Bool
  /-- `transformer.to_dict(value)` -/
  toDict : V → M V
  /-- the `cast_keyword_str` loop: `transformer.to_str(key)` for every non-str key, cls.py:575-581 -/
  castKeys : V → M V
  /-- `dict(data)` for a mapping that is not a plain dict (its `keys()`/`__getitem__` may raise), cls.py:592-594 -/
  readMapping : V → M V
  /-- every key of the mapping is a `str` -/
  strKeyed : V → Bool
  /-- keyword unpacking in `cls.__init__(inst, **data)` of a plain string-keyed dict.  The generated `__init__`
  has no named parameters (`def __init__(*args, **kwargs)`, fixes/C04-container-protocol-and-init-names), so
  binding cannot fail; before the fix the keys `_obj_self` / `_d` collided with its parameters -/
  unpack : V → List (Nat × V)
  /-- the mapping has a key `_obj_self` (legacy: "got multiple values for argument '_obj_self'") -/
  reservedKey : V → Bool
  /-- `value.get(discriminator) in discriminator_map` → the selected type, field.py:1042-1044 -/
  discLookup : Nat → V → M (Option Ty)
  /-- the value already is an instance of one of the branches of the field's discriminated union (field.py:1071) -/
  isBranchInstance : Nat → V → Bool
  noInput : Nat → V → Bool
  /-- `a != b` on user values -/
  neq : V → V → M Bool
  /-- some dependency of the provided fields is missing, base.py:491-503 -/
  depsLack : List Nat → Bool

variable {V : Type}

/-- `is_required(options)`: nothing is required under `ignore_required` (field.py:798-799) -/
def FieldDecl.isRequired (f : FieldDecl V) (o : Opts) : Bool := f.required && !o.ignoreRequired

def FieldDecl.policy (f : FieldDecl V) (o : Opts) : Policy :=
  match f.onError with
  | some p => p
  | none => o.invalidValues

/-! ### ParserField.parse_value — field.py:1027-1111 -/

/-- what `parse_value` hands back: a value, `unprovided`, or (only with `excluded_as_absent=True`) the
`EXCLUDED` marker of a value the 'exclude' policy dropped (field.py:1022-1025) -/
inductive PV (V : Type) where
  | val (v : V)
  | unprovided
  | excluded

def PV.ofOption : Option V → PV V
  | some v => .val v
  | none => .unprovided

/-- `_invalid_value(error, raw, context, excluded_as_absent)` (field.py:1140-1160): the field's on_error /
options.invalid_values decide what an invalid value of this field becomes; `raw` is the value as it was given -/
def invalidValue (W : DataWorld V) (o : Opts) (f : FieldDecl V) (err : Exc) (raw : V) (asAbsent : Bool) : M (PV V) :=
  match f.policy o with
  | .exclude =>
    if f.isRequired o then do
      -- a required field cannot be excluded
      handleError o err
      pure (PV.ofOption f.default)
    else do
      W.warn Site.fieldValue
      if asAbsent then pure .excluded      -- the caller handles the field as one that was not given
      else pure (PV.ofOption f.default)
  | .preserve => do W.warn Site.fieldValue; pure (.val raw)
  | .throw => do
    handleError o err
    pure .unprovided

/-- the conversion proper, field.py:1125-1138 -/
def fieldConvert (W : DataWorld V) (o : Opts) (f : FieldDecl V) (t : Ty) (v raw : V) (asAbsent : Bool) : M (PV V) := do
  enterCheck W.toWorld f.id
  tryExcept (do let y ← isolated (W.conv t v); pure (PV.val y)) (fun e =>
    invalidValue W o f (wrap Site.fieldValue e (some f.id)) raw asAbsent)

def parseValue (W : DataWorld V) (L : Legacy) (o : Opts) (f : FieldDecl V) (v : V) (asAbsent : Bool := false) :
    M (PV V) := do
  -- an instance of one of the branches of a discriminated union is taken like any other value of a member type
  if f.disc && !W.isBranchInstance f.id v && !W.isNone v then
    -- field.py:1075-1118: to_dict failure and "no branch selected" are invalid values of the field (policy applies)
    let d ← if W.isMapping v then pure (Except.ok v)
      else tryExcept (do let y ← W.toDict v; pure (Except.ok y)) (fun e => pure (Except.error e))
    match d with
    | .error e => invalidValue W o f (wrap Site.fieldDiscDict e (some f.id)) v asAbsent
    | .ok d => do
      let sel ← if L.discLookup then W.discLookup f.id d
        else tryExcept (W.discLookup f.id d) (fun _ => pure none)
      match sel with
      | some t => fieldConvert W o f t d v asAbsent
      | none => invalidValue W o f (mk K.discriminator Site.discMismatch (some f.id)) v asAbsent
  else
    match f.ty with
    | none => pure (.val v)
    | some t => fieldConvert W o f t v v asAbsent

/-! ### BaseParser.parse_addition — base.py:390-421 -/

def parseAddition (W : DataWorld V) (o : Opts) (P : ParserDecl V) (key : Nat) (v : V) : M (Option V) :=
  if P.excludeVars.contains key then
    -- where unknown keys are refused, a key that is given but cannot be taken is not dropped silently (base.py:421-427)
    match o.addition with
    | .forbid => do handleError o (mk K.exceed Site.exceed (some key)); pure none
    | _ => pure none
  else match o.addition with
    | .forbid => do handleError o (mk K.exceed Site.exceed (some key)); pure none
    | .unset => pure none
    | _ =>
      match P.additionType with
      | none => pure (some v)
      | some t => do
        enterCheck W.toWorld key
        tryExcept (do let y ← isolated (W.conv t v); pure (some y)) (fun e => do
          let err := wrap Site.addition e (some key)
          match o.invalidValues with
          | .exclude => do W.warn Site.addition; pure none
          | .preserve => do W.warn Site.addition; pure (some v)
          | .throw => do handleError o err; pure (some v))

/-! ### alias conflicts — base.py:455-459, 548-555 (fixes/C04-alias-conflict-compare) -/

def aliasConflict (W : DataWorld V) (L : Legacy) (a b : V) : M Bool :=
  if L.aliasCompare then W.neq a b
  else tryExcept (W.neq a b) (fun _ => pure true)

def getField (P : ParserDecl V) (key : Nat) : Option (FieldDecl V) :=
  P.fields.find? (fun f => f.aliases.contains key)

structure Acc (V : Type) where
  result : List (Nat × V) := []
  addition : List (Nat × V) := []
  deps : Bool := false
  used : List Nat := []
  excluded : List Nat := []         -- names dropped by the 'exclude' policy (data-first)

def Acc.has (a : Acc V) (name : Nat) : Bool := a.result.any (fun p => p.1 == name)
def Acc.set (a : Acc V) (name : Nat) (v : V) : Acc V :=
  { a with result := a.result.filter (fun p => p.1 != name) ++ [(name, v)] }

/-! ### data_first_parse — base.py:423-560 (two phases since the C06 repair) -/

/-- one entry of `inputs`: (key or field name, field or none for an additional key, value, rank of the key in
`field.all_aliases`) -/
structure Given (V : Type) where
  name : Nat
  field : Option (FieldDecl V)
  value : V
  rank : Nat

/-- `inputs[name] = entry` on an insertion-ordered dict: an existing key keeps its position -/
def setGiven (g : Given V) : List (Given V) → List (Given V)
  | [] => [g]
  | x :: xs => if x.name == g.name then g :: xs else x :: setGiven g xs

def rankOf (f : FieldDecl V) (key : Nat) : Nat := f.aliases.idxOf key

/-- phase 1 (base.py:447-469): what was given, in input order; of several accepted keys the one of least rank
is used; a duplicate that differs (raw `!=`, protected) is remembered as a conflict -/
def dfScan (W : DataWorld V) (L : Legacy) (P : ParserDecl V) :
    List (Nat × V) → List (Given V) → List Nat → M (List (Given V) × List Nat)
  | [], inputs, conflicts => pure (inputs, conflicts)
  | (key, v) :: rest, inputs, conflicts =>
    -- `if not field or field.positional_only:` the name of a positional-only parameter is an additional key
    match (getField P key).filter (fun f => !f.posOnly) with
    | none => dfScan W L P rest (setGiven ⟨key, none, v, 0⟩ inputs) conflicts
    | some f =>
      let rank := rankOf f key
      match inputs.find? (fun g => g.name == f.id) with
      | some g => do
        let c ← aliasConflict W L g.value v
        let conflicts := if c && !conflicts.contains f.id then conflicts ++ [f.id] else conflicts
        if rank ≥ g.rank then dfScan W L P rest inputs conflicts
        else dfScan W L P rest (setGiven ⟨f.id, some f, v, rank⟩ inputs) conflicts
      | none => dfScan W L P rest (setGiven ⟨f.id, some f, v, rank⟩ inputs) conflicts

/-- phase 2 (base.py:471-516): the inputs in input order -/
def dfItems (W : DataWorld V) (L : Legacy) (o : Opts) (P : ParserDecl V) (excluded : List Nat)
    (conflicts : List Nat) : List (Given V) → Acc V → M (Acc V)
  | [], a => pure a
  | g :: rest, a =>
    match g.field with
    | none => do
      let add ← parseAddition W o P g.name g.value
      dfItems W L o P excluded conflicts rest (match add with
        | some x => { a with addition := a.addition ++ [(g.name, x)] } | none => a)
    | some f =>
      if W.noInput f.id g.value then
        dfItems W L o P excluded conflicts rest (match f.default with | some d => a.set f.id d | none => a)
      else do
        -- reported only for a field that does take the input
        if conflicts.contains f.id && !o.ignoreAliasConflicts then
          handleError o (mk K.aliasConflict Site.aliasConflict (some f.id))
        else pure ()
        if excluded.contains f.id then dfItems W L o P excluded conflicts rest a
        else do
          let parsed ← parseValue W L o f g.value true
          match parsed with
          | .excluded => dfItems W L o P excluded conflicts rest { a with excluded := a.excluded ++ [f.id] }
          | .unprovided => dfItems W L o P excluded conflicts rest a
          | .val x => dfItems W L o P excluded conflicts rest { (a.set f.id x) with deps := a.deps || f.hasDeps }

/-- required / default pass over the declared fields, base.py:518-530 (runs under ignore_required too:
no field is required then, the defaults still apply) -/
def dfMissing (o : Opts) (excluded : List Nat) (given : List Nat) : List (FieldDecl V) → Acc V → M (Acc V)
  | [], a => pure a
  | f :: fs, a =>
    if (given.contains f.id && !a.excluded.contains f.id) || excluded.contains f.id then
      dfMissing o excluded given fs a
    else if f.isRequired o then do
      handleError o (mk K.absence Site.absence (some f.id))
      dfMissing o excluded given fs a
    else dfMissing o excluded given fs (match f.default with | some d => a.set f.id d | none => a)

def depsCheck (W : DataWorld V) (o : Opts) (a : Acc V) : M Unit :=
  if a.deps && W.depsLack (a.result.map (·.1)) then
    handleError o (mk K.depsAbsence Site.depsAbsence)
  else pure ()

def dataFirstParse (W : DataWorld V) (L : Legacy) (o : Opts) (P : ParserDecl V) (excluded : List Nat)
    (data : List (Nat × V)) : M (List (Nat × V)) := do
  let (inputs, conflicts) ← dfScan W L P data [] []
  let a ← dfItems W L o P excluded conflicts inputs {}
  let a ← dfMissing o excluded (inputs.map (·.name)) P.fields a
  depsCheck W o a
  pure (a.result ++ a.addition)

/-! ### field_first_parse — base.py:562-700 -/

/-- the letter-case pre-pass (base.py:575-592): the same key given in several letter cases — the first one is used,
every later one is compared with it (`_alias_conflict(first, later)`), a differing one is a conflict of that alias.
In the model a key id stands for the lower-cased key, so letter-case variants are several entries with the same id. -/
def caseConflict (W : DataWorld V) (L : Legacy) (first : V) : List V → M Bool
  | [] => pure false
  | x :: xs => do
    let c ← aliasConflict W L first x
    let r ← caseConflict W L first xs
    pure (c || r)

/-- the alias scan of one field (base.py:612-622) over the aliases that are present, each with its letter-case
variants: a later alias whose value differs from the one taken is the conflict (`break`), and so is an alias whose
own variants differ -/
def ffConflicts (W : DataWorld V) (L : Legacy) (value : V) : List (V × List V) → M Bool
  | [] => pure false
  | (x, variants) :: gs => do
    let c ← aliasConflict W L x value
    if c then pure true                    -- `conflict = data[alias]; break`
    else do
      let cc ← caseConflict W L x variants
      if cc then pure true                 -- `if alias in conflicts: ...; break`
      else ffConflicts W L value gs

def ffFields (W : DataWorld V) (L : Legacy) (o : Opts) (excluded : List Nat) (data : List (Nat × V)) :
    List (FieldDecl V) → Acc V → M (Acc V)
  | [], a => pure a
  | f :: fs, a =>
    if excluded.contains f.id then ffFields W L o excluded data fs a
    else
      -- values found under the field's aliases, in alias order, each with its letter-case variants (data order)
      let found := f.aliases.filterMap (fun al =>
        match (data.filter (fun p => p.1 == al)).map (·.2) with
        | [] => none
        | v :: variants => some (v, variants))
      match found with
      | [] =>
        if f.isRequired o then do
          handleError o (mk K.absence Site.absence (some f.id))
          ffFields W L o excluded data fs a
        else ffFields W L o excluded data fs (match f.default with | some d => a.set f.id d | none => a)
      | (value, variants) :: more => do
        let conflict ← if o.ignoreAliasConflicts then pure false else do
          let cc ← caseConflict W L value variants
          if cc then pure true else ffConflicts W L value more
        let a := { a with used := a.used ++ f.aliases }
        if W.noInput f.id value then
          ffFields W L o excluded data fs (match f.default with | some d => a.set f.id d | none => a)
        else do
          -- reported only for a field that does take the input
          if conflict then handleError o (mk K.aliasConflict Site.aliasConflict (some f.id)) else pure ()
          let parsed ← parseValue W L o f value true
          match parsed with
          | .excluded =>
            -- dropped by the 'exclude' policy: as a field that was not given (its default applies)
            ffFields W L o excluded data fs (match f.default with | some d => a.set f.id d | none => a)
          | .unprovided => ffFields W L o excluded data fs a
          | .val x => ffFields W L o excluded data fs { (a.set f.id x) with deps := a.deps || f.hasDeps }

def ffAddition (W : DataWorld V) (o : Opts) (P : ParserDecl V) (used : List Nat) :
    List (Nat × V) → List (Nat × V) → M (List (Nat × V))
  | [], acc => pure acc
  | (k, v) :: rest, acc =>
    if used.contains k then ffAddition W o P used rest acc
    else do
      let add ← parseAddition W o P k v
      ffAddition W o P used rest (match add with | some x => acc ++ [(k, x)] | none => acc)

def fieldFirstParse (W : DataWorld V) (L : Legacy) (o : Opts) (P : ParserDecl V) (excluded : List Nat)
    (data : List (Nat × V)) : M (List (Nat × V)) := do
  let a ← ffFields W L o excluded data P.fields {}
  depsCheck W o a
  let add ← if o.addition == .unset then pure [] else ffAddition W o P a.used data []
  pure (a.result ++ add)

/-! ### parse_data / BaseParser.__call__ — base.py:342-388 -/

def parseData (W : DataWorld V) (L : Legacy) (o : Opts) (P : ParserDecl V) (excluded : List Nat)
    (data : List (Nat × V)) : M (List (Nat × V)) := do
  match o.maxParams with
  | some m => if m != 0 && data.length > m then handleError o (mk K.paramsExceed Site.paramsExceed) else pure ()
  | none => pure ()
  match o.minParams with
  | some m => if m != 0 && data.length < m then handleError o (mk K.paramsLack Site.paramsLack) else pure ()
  | none => pure ()
  if o.dataFirst then dataFirstParse W L o P excluded data
  else fieldFirstParse W L o P excluded data

def parserCall (W : DataWorld V) (L : Legacy) (o : Opts) (P : ParserDecl V) (data : List (Nat × V)) :
    M (List (Nat × V)) := do
  let r ← parseData W L o P [] data
  raiseError
  pure r

/-! ### declared and running options — options.py:219-258

A parser *declares* options (`cls.__options__`); a parse *runs* with the options of its RuntimeContext.  They
differ when options are given for one call (`Cls.__from__(data, options=...)`, `init_dataclass(..., options=...)`)
or pushed down by an enclosing context whose options say `override=True`.  Every `handle_error` consults the
running options; `raise_error` consults none: whatever was collected is raised. -/

/-- `Options.make_context(cls, context=ctx)`: the options the new context runs with -/
def makeContextOpts (self : Opts) (ctx : Option Opts) : Opts :=
  match ctx with
  | some c => if !self.override && c.override then c else self
  | none => self

/-- init_dataclass (cls.py:575-578): `options.make_context(...)` when options are given for the call, else
`parser.make_context(...)` with the declared ones -/
def runningOpts (declared : Opts) (given : Option Opts) (ctx : Option Opts) : Opts :=
  makeContextOpts (given.getD declared) ctx

/-! ### generated `__init__` and init_dataclass — cls.py:499-517, 568-608; schema.py:109-110, 275-281 -/

/-- the generated `__init__` body once the context is fixed: parse (BaseParser.__call__ ends with an unconditional
`context.raise_error()`), then `set_attributes`, then post-init: the developer's `__validate__`/`__post_init__`
(`postInit`, a parameter: not the library's code) and — for a `Schema` — one more `context.raise_error()`
(schema.py:281).  `o` are the RUNNING options. -/
def classInit (W : DataWorld V) (L : Legacy) (o : Opts) (P : ParserDecl V) (postInit : M Unit)
    (kwargs : List (Nat × V)) (schema : Bool := false) : M (List (Nat × V)) := do
  let values ← parserCall W L o P kwargs
  emit .attrsSet
  postInit
  emit .postInit
  if schema then raiseError else pure ()
  pure values

/-- `keyword_data(cls, data, context)` (cls.py:568-586, fixes/C04-nonstring-keys): the mapping is read into a plain
dict (`dict(data)`: its own protocol may raise); a key that is not a str is cast under `cast_keyword_str` (running
options) and refused with TypeError otherwise.  Always called inside a `try` that wraps into ParseError. -/
def keywordData (W : DataWorld V) (L : Legacy) (o : Opts) (d : V) : M V := do
  let d ← W.readMapping d
  if o.castKeywordStr then W.castKeys d
  else if L.nonStrKeys || W.strKeyed d then pure d
  else raise (builtinExc K.typeError)

/-- `Cls(**kwargs)`: no `__context__` yet, so the context is made from the DECLARED options (cls.py:502-504) -/
def classCall (W : DataWorld V) (L : Legacy) (declared : Opts) (P : ParserDecl V) (postInit : M Unit)
    (kwargs : List (Nat × V)) (schema : Bool := false) : M (List (Nat × V)) :=
  classInit W L (makeContextOpts declared none) P postInit kwargs schema

/-- `Cls(<dict>)`: the positional dict of the generated `__init__` goes through `keyword_data` in a `try`
(cls.py:521-526); legacy: `kwargs.update(_d)` took any keys -/
def classCallDict (W : DataWorld V) (L : Legacy) (declared : Opts) (P : ParserDecl V) (postInit : M Unit)
    (d : V) (schema : Bool := false) : M (List (Nat × V)) := do
  let o := makeContextOpts declared none
  let d ← tryExcept (keywordData W L o d) (fun e => raise (wrap Site.initPositional e))
  classInit W L o P postInit (W.unpack d) schema

/-- `cls.__from__(data, options)` / `init_dataclass(cls, data, options, context)` / the registered converter of a
data class (`transform_dataclass`, with the enclosing context): everything below runs with `runningOpts` -/
def initDataclass (W : DataWorld V) (L : Legacy) (declared : Opts) (given ctx : Option Opts) (P : ParserDecl V)
    (postInit : M Unit) (data : V) (schema : Bool := false) : M (List (Nat × V)) := do
  let o := runningOpts declared given ctx
  -- `options.make_context(cls, context=...)` (cls.py:597-600): the new context may refuse the depth, before the try
  enterCheck W.toWorld 0
  let d ← tryExcept (do
      let d ← if W.isMapping data then pure data
        else if o.noExplicitCast then raise (builtinExc K.typeError)
        else W.toDict data
      -- fixes/C04-nonstring-keys: the mapping is read and its keys are checked here, inside the `try`
      keywordData W L o d)
    (fun e => raise (wrap Site.initDataclass e))
  -- legacy: `cls.__init__(inst, **data)` raises the interpreter's bare "keywords must be strings"
  if L.nonStrKeys && !o.castKeywordStr && !W.strKeyed d then raise (builtinExc K.typeError) else
  -- legacy: `__init__(_obj_self, _d=None, **kwargs)` got `_obj_self` twice
  if L.initNamedParams && W.reservedKey d then raise (builtinExc K.typeError) else
  classInit W L o P postInit (W.unpack d) schema

/-! ### FunctionParser — func.py:576-712, 933-954 -/

structure FuncDecl (V : Type) where
  parser : ParserDecl V := {}
  positional : List (Option (FieldDecl V)) := []   -- positional_fields.get(i)
  excludeIndexes : List Nat := []
  posVarIndex : Option Nat := none                 -- `*args` starts here
  posType : Option Ty := none                      -- annotation of `*args`
  posOnly : List (Nat × FieldDecl V) := []         -- positional_only_fields: (index, field)
  excludeDefault : Nat → Option V := fun _ => none -- declared default of the excluded (underscore) parameter at an index
  returnType : Option Ty := none

/-- func.py:576-598 -/
def parsePosType (W : DataWorld V) (o : Opts) (F : FuncDecl V) (i : Nat) (v : V) : M (Option V) :=
  match F.posType with
  | none => pure (some v)
  | some t => do
    enterCheck W.toWorld i
    tryExcept (do let y ← isolated (W.conv t v); pure (some y)) (fun e => do
      let err := wrap Site.posType e (some i)
      match o.invalidItems with
      | .preserve => do W.warn Site.posType; pure (some v)
      | .exclude => do W.warn Site.posType; pure none
      | .throw => do handleError o err; pure (some v))

/-- step 1 of parse_params: the given positional arguments, func.py:616-644 -/
def posArgs (W : DataWorld V) (L : Legacy) (o : Opts) (F : FuncDecl V) :
    List V → Nat → List V → List Nat → M (List V × List Nat)
  | [], _, args, keys => pure (args, keys)
  | x :: xs, i, args, keys =>
    if (match F.posVarIndex with | some k => decide (i ≥ k) | none => false) then do
      let r ← parsePosType W o F i x
      posArgs W L o F xs (i + 1) (match r with | some y => args ++ [y] | none => args) keys
    else
      match (F.positional[i]?).join with
      | some f =>
        -- bound by position, whether the value is taken or (no_input) replaced by the default (func.py:655-657)
        if W.noInput f.id x then
          posArgs W L o F xs (i + 1) (match f.default with | some d => args ++ [d] | none => args) (keys ++ [f.id])
        else do
          let r ← parseValue W L o f x        -- excluded_as_absent=False: an excluded value is its default
          posArgs W L o F xs (i + 1) (match r with | .val y => args ++ [y] | _ => args) (keys ++ [f.id])
      | none =>
        if F.excludeIndexes.contains i then posArgs W L o F xs (i + 1) (args ++ [x]) keys
        else posArgs W L o F xs (i + 1) args keys

/-- omitted excluded (private) parameters in front of `index` take their own declared defaults, func.py:666-670 -/
def fillExcluded (F : FuncDecl V) (index : Nat) : Nat → List V → List V
  | 0, args => args
  | fuel + 1, args =>
    if args.length < index && F.excludeIndexes.contains args.length then
      match F.excludeDefault args.length with
      | none => args                                   -- `break`
      | some d => fillExcluded F index fuel (args ++ [d])
    else args

/-- step 2: positional-only parameters that were not given, func.py:653-674 -/
def posOnlyMissing (o : Opts) (F : FuncDecl V) : List (Nat × FieldDecl V) → List V → List Nat → M (List V × List Nat)
  | [], args, keys => pure (args, keys)
  | (index, f) :: fs, args, keys =>
    if keys.contains f.id then posOnlyMissing o F fs args keys
    else if f.isRequired o then do
      handleError o (mk K.absence Site.posAbsence (some f.id))
      -- reported here; the keywords are parsed without it like any other positional-only field (func.py:683-686)
      posOnlyMissing o F fs args (keys ++ [f.id])
    else
      let args' := match f.default with
        | some d =>
          let a := fillExcluded F index index args
          if a.length == index then a ++ [d] else a      -- the default lands in its own slot or nowhere
        | none => args
      posOnlyMissing o F fs args' (keys ++ [f.id])

/-- an ill-formed CALL: a parameter bound by position is given again by keyword, under any key it accepts
(func.py:627-642).  Python's own answer is `TypeError: f() got multiple values for argument`; utype gives the same,
before either lookup strategy walks the keywords. -/
def doubleBound (F : FuncDecl V) (args : List V) (kwargs : List (Nat × V)) : Bool :=
  kwargs.any fun (key, _) =>
    match getField F.parser key with
    | some f => !f.posOnly &&
        (((List.range args.length).filterMap (fun i => (F.positional[i]?).join)).any (fun g => g.id == f.id))
    | none => false

/-- func.py:615-700 -/
def parseParams (W : DataWorld V) (L : Legacy) (o : Opts) (F : FuncDecl V) (args : List V)
    (kwargs : List (Nat × V)) : M (List V × List (Nat × V)) := do
  -- the binding error of the call itself: not a parse failure (nothing has been parsed yet), the caller's TypeError
  if doubleBound F args kwargs then raise (builtinExc K.typeError) else
  let (pa, keys) ← posArgs W L o F args 0 [] []
  let (pa, keys) ← posOnlyMissing o F F.posOnly pa keys
  let kw ← parseData W L o F.parser keys kwargs
  raiseError
  pure (pa, kw)

/-- func.py:703-712 -/
def parseResult (W : DataWorld V) (o : Opts) (F : FuncDecl V) (r : V) : M V :=
  match F.returnType with
  | none => pure r
  | some t => tryExcept (W.conv t r) (fun e => do
      handleError o (wrap Site.result e) true
      pure r)

/-- func.py:933-954 with parse_params = parse_result = True.  `body` is the decorated function
(Python's binding of the produced arguments + the developer's code): a parameter, not the library's code -/
def syncCall (W : DataWorld V) (L : Legacy) (o : Opts) (F : FuncDecl V)
    (body : List V → List (Nat × V) → M V) (args : List V) (kwargs : List (Nat × V)) : M V := do
  let p ← parseParams W L o F args kwargs
  emit .enterBody
  let r ← body p.1 p.2
  parseResult W o F r

end Utv.C04
