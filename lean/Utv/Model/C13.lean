import Utv.Model.JsonSchema
import Utv.Gen.Tables
/-!
C13 — model of `JsonSchemaGenerator` (utype/specs/json_schema/generator.py:40-353, inline mode
`defs=None`), of the keyword tables (`constant.py:7-120`), of the static and run-time field
predicates the generator and the parser use (`parser/field.py:803-895`), of the JSON encoder on the
values the parser returns (`utils/encode.py:74-170`), and the property's own vocabulary
(`Spec.*`, `conforms`).

Declarations are trees (`Ty`): a nested data class is carried inside the type that mentions it, as
the inline generator expands it.  What is not the generator's business is abstract:
  * the parser itself — `conforms T r` states what a successful parse of `T` promises about its
    result `r` (C01/C05's conclusion); the theorems are about every `r` with `conforms T r`;
  * regular expressions — an oracle `Rx` (`full` = `re.fullmatch`, `search` = ECMA `search`).
-/
namespace Utv.C13
open Utv.JsonSchema

/-! ## tables copied from `constant.py` (compared with the source text on every run: `extra_static`) -/

def PRIMITIVES : List String := ["null", "boolean", "object", "array", "integer", "number", "string"]

/-- `PRIMITIVE_MAP` (constant.py:8-15), keys as written in the source -/
def PRIMITIVE_MAP : List (String × String) :=
  [("type(None)", "null"), ("bool", "boolean"), ("MAP_TYPES", "object"), ("SEQ_TYPES", "array"),
   ("int", "integer"), ("(float, Decimal)", "number")]

/-- `FORMAT_MAP` (constant.py:44-54) -/
def FORMAT_MAP : List (String × String) :=
  [("(bytes, bytearray, memoryview)", "binary"), ("float", "float"), ("IPv4Address", "ipv4"),
   ("IPv6Address", "ipv6"), ("datetime", "date-time"), ("date", "date"), ("time", "time"),
   ("timedelta", "duration"), ("UUID", "uuid")]

/-- `OPERATOR_NAMES` (constant.py:38-43) -/
def OPERATOR_NAMES : List (String × String) :=
  [("&", "allOf"), ("|", "anyOf"), ("^", "oneOf"), ("~", "not")]

def DEFAULT_CONSTRAINTS_MAP : List (String × String) := [("enum", "enum"), ("const", "const")]

/-- `TYPE_CONSTRAINTS_MAP` (constant.py:82-114) with `**DEFAULT_CONSTRAINTS_MAP` expanded -/
def TYPE_CONSTRAINTS_MAP : List (List String × List (String × String)) :=
  [(["integer", "number"],
     [("multiple_of", "multipleOf"), ("le", "maximum"), ("lt", "exclusiveMaximum"), ("ge", "minimum"),
      ("gt", "exclusiveMinimum"), ("decimal_places", "decimalPlaces"), ("max_digits", "maxDigits"),
      ("enum", "enum"), ("const", "const")]),
   (["array"],
     [("max_length", "maxItems"), ("min_length", "minItems"), ("unique_items", "uniqueItems"),
      ("max_contains", "maxContains"), ("min_contains", "minContains"), ("contains", "contains"),
      ("enum", "enum"), ("const", "const")]),
   (["object"],
     [("max_length", "maxProperties"), ("min_length", "minProperties"), ("enum", "enum"), ("const", "const")]),
   (["string"],
     [("regex", "pattern"), ("max_length", "maxLength"), ("min_length", "minLength"),
      ("enum", "enum"), ("const", "const")]),
   (["boolean", "null"], [("enum", "enum"), ("const", "const")])]

/-- `FORMAT_PATTERNS` (constant.py:116-120) -/
def FORMAT_PATTERNS : List (String × String) :=
  [("integer", "[-]?\\d+"), ("number", "[-]?\\d+(\\.\\d+)?"), ("date", "\\d{4}-\\d{2}-\\d{2}")]

def DEFAULT_PRIMITIVE : String := "string"

def assoc (k : String) : List (String × String) → Option String
  | [] => none
  | (k', v) :: rest => if k' == k then some v else assoc k rest

/-! ## origin classes -/

inductive Prim where
  | null | bool | int | float | decimal | str | bytes | date | datetime | time | timedelta | uuid
  | list | tuple | set | dict
  deriving DecidableEq, Repr, Inhabited

/-- `issubclass(origin, key)` for a class expression `key` as written in the tables
(`MAP_TYPES = (dict, Mapping)`, `SEQ_TYPES = (list, tuple, set, frozenset, deque, Iterator)`, rule.py:25-26;
`bool ≤ int`, `datetime ≤ date`) -/
def covers (key : String) (p : Prim) : Bool :=
  if key == "type(None)" then p == .null
  else if key == "bool" then p == .bool
  else if key == "MAP_TYPES" then p == .dict
  else if key == "SEQ_TYPES" then p == .list || p == .tuple || p == .set
  else if key == "int" then p == .int || p == .bool
  else if key == "(float, Decimal)" then p == .float || p == .decimal
  else if key == "(bytes, bytearray, memoryview)" then p == .bytes
  else if key == "float" then p == .float
  else if key == "datetime" then p == .datetime
  else if key == "date" then p == .date || p == .datetime
  else if key == "time" then p == .time
  else if key == "timedelta" then p == .timedelta
  else if key == "UUID" then p == .uuid
  else false

def firstCover (p : Prim) : List (String × String) → Option String
  | [] => none
  | (k, v) :: rest => if covers k p then some v else firstCover p rest

/-- `_get_primitive` (generator.py:114-120) -/
def getPrimitive (p : Prim) : String := (firstCover p PRIMITIVE_MAP).getD DEFAULT_PRIMITIVE
/-- `_get_format` (generator.py:103-112) for an origin class without a `format` attribute -/
def getFormat (p : Prim) : Option String := firstCover p FORMAT_MAP

/-- the constraint → keyword map chosen by the primitive (generator.py:192-196) -/
def constraintsMapFor (primitive : String) : List (List String × List (String × String)) → List (String × String)
  | [] => DEFAULT_CONSTRAINTS_MAP
  | (types, mp) :: rest => if types.contains primitive then mp else constraintsMapFor primitive rest

/-- `constrains_map.get(constraint, constraint)` (generator.py:198) -/
def keywordOf (primitive : String) (c : String) : String :=
  (assoc c (constraintsMapFor primitive TYPE_CONSTRAINTS_MAP)).getD c

/-! ## declarations -/

/-- `Field(no_input=…)` / `no_output`: `False`, `True` or a mode string (callables are outside the fragment) -/
inductive Flag where
  | no | yes | modes (s : List Char)
  deriving DecidableEq, Repr, Inhabited

/-- `Field(required=…)` after `Field.__init__` normalisation (field.py:118-154) -/
inductive Req where
  | never | always | modes (s : List Char)
  deriving DecidableEq, Repr, Inhabited

structure FieldMeta where
  name : String                 -- `ParserField.name` (alias or attribute name): the property key
  attname : String
  aliases : List String         -- `ParserField.aliases` (accepted names other than `name`)
  required : Req
  hasDefault : Bool             -- `not no_default`
  deferDefault : Bool
  noInput : Flag
  noOutput : Flag
  mode : Option (List Char)     -- `Field(mode=…)` / readonly / writeonly
  final : Bool
  deps : List String            -- `ParserField.dependencies` (already field names)
  title : Option String
  description : Option String
  deprecated : Bool
  exampleV : Option Json
  deriving Repr, Inhabited

/-- `Options.addition` -/
inductive Addition where
  | drop | reject | keep | convert      -- None | False | True | a type
  deriving DecidableEq, Repr, Inhabited

structure Opts where
  mode : Option Char
  addition : Addition
  ignoreRequired : Bool
  noDefault : Bool
  deferDefault : Bool
  deriving Repr, Inhabited

structure ClassMeta where
  name : String
  opts : Opts
  uid : Nat := 0                -- identity of the class object (two classes may share a name); `$defs` mode only
  deriving Repr, Inhabited

/-- attributes of a `Rule` subclass that are not constraints -/
structure RuleMeta where
  primitive : Option String     -- class attribute `primitive`
  format : Option String        -- class attribute `format`
  name : String := ""           -- `__qualname__` of the rule class (`$defs` mode only)
  uid : Nat := 0                -- identity of the rule class (`$defs` mode only)
  deriving Repr, Inhabited

structure EnumDecl where
  base : Option Prim            -- mixin base (`class E(int, Enum)`), when there is one
  kinds : List Prim             -- `type(val.value)` of every member, in member order
  members : List (String × Json)
  deriving Repr, Inhabited

inductive Op where
  | allOf | anyOf | oneOf
  deriving DecidableEq, Repr, Inhabited

abbrev Cons := List (String × Json)

mutual
inductive Ty where
  | any                                                    -- `Rule` without origin (`Any`)
  | plain (p : Prim)                                       -- a builtin class
  | scalar (p : Prim) (m : RuleMeta) (cs : Cons)           -- constrained type without arguments
  | derived (p : Prim) (m : RuleMeta) (cs0 : Cons) (site : Nat) (cs : Cons)
      -- a named rule `scalar p m cs0` narrowed at one use site (`x: PositiveInt = Field(le=1000)`): a new rule whose
      -- `__origin__` is the named rule and whose own validators are `cs`; `site` = identity of the new rule class
  | seq (p : Prim) (m : RuleMeta) (cs : Cons) (item : Ty)  -- `List[T]`, `Set[T]`, `Tuple[T, ...]`
  | tup (m : RuleMeta) (cs : Cons) (items : List Ty)       -- `Tuple[T1, …, Tn]`
  | map (m : RuleMeta) (cs : Cons) (key val : Ty)          -- `Dict[K, V]`
  | enum (e : EnumDecl)
  | logic (op : Op) (ts : List Ty)
  | data (c : ClassMeta) (fields : List Fld) (addTy : Ty)  -- `addTy` is read only when `addition = convert`
inductive Fld where
  | mk (m : FieldMeta) (ty : Ty)
end

instance : Inhabited Ty := ⟨.any⟩

def Fld.meta : Fld → FieldMeta
  | .mk m _ => m
def Fld.ty : Fld → Ty
  | .mk _ t => t

/-- `Field(deprecated=…)`: `False`, `True`, or the name of the field that replaces this one -/
inductive Dep where
  | no | yes | to (name : String)
  deriving DecidableEq, Repr, Inhabited

/-- `bool(deprecated)` (field.py `self.deprecated = bool(deprecated)`): what the generator publishes; the string form
only sets `deprecated_to` -/
def Dep.truthy : Dep → Bool
  | .no => false
  | .yes => true
  | .to s => s != ""

/-- a field as declared: the arguments of `Field(...)` plus what the class body says about it -/
structure RawField where
  attname : String
  alias : Option String
  aliasFrom : List String
  required : Option Req          -- `none` = not given
  hasDefault : Bool              -- `default=` or `default_factory=` given
  deferDefault : Bool
  noInput : Flag
  noOutput : Flag
  mode : Option (List Char)
  readonly : Bool
  writeonly : Bool
  final : Bool                   -- annotated `Final[...]`
  isProp : Bool                  -- a getter-only `@property` (no explicit `Field`)
  deps : List String
  title : Option String
  description : Option String
  deprecated : Dep
  exampleV : Option Json
  deriving Repr, Inhabited

def distinctAdd (acc : List String) : List String → List String
  | [] => acc
  | x :: xs => if acc.contains x then distinctAdd acc xs else distinctAdd (acc ++ [x]) xs

/-- `Field.__init__` normalisation (field.py:100-154), `ParserField.generate` for getter-only properties
(field.py:1198-1202), `get_alias` / `get_alias_from` (287-322) and `ParserField.__init__` (467-476) -/
def normField (r : RawField) : FieldMeta :=
  let name := r.alias.getD r.attname
  let accepted := distinctAdd [r.attname] r.aliasFrom
  let required : Req :=
    if r.isProp then .never else
    match r.required with
    | some (.modes s) => .modes s
    | some q => if r.hasDefault then .never else q
    | none => if r.deprecated.truthy || r.hasDefault then .never else .always
  { name := name
    attname := r.attname
    aliases := accepted.filter (· != name)
    required := required
    hasDefault := r.hasDefault
    deferDefault := r.deferDefault
    noInput := if r.isProp then .yes else r.noInput
    noOutput := r.noOutput
    mode := if r.readonly then some ['r'] else if r.writeonly then some ['w'] else r.mode
    final := r.final
    deps := r.deps
    title := r.title
    description := r.description
    deprecated := r.deprecated.truthy
    exampleV := r.exampleV }

/-- the generator's configuration: `JsonSchemaGenerator(t, mode=genMode, output=output)` -/
structure Cfg where
  output : Bool
  genMode : Option Char
  deriving Repr, Inhabited

/-! ## field predicates (parser/field.py) -/

def memMode (m : Option Char) (s : List Char) : Bool :=
  match m with
  | some c => s.contains c
  | none => false

/-- `always_no_input` (field.py:840-856), non-callable `no_input` -/
def alwaysNoInput (f : FieldMeta) (o : Opts) : Bool :=
  if f.final && f.hasDefault then true
  else if f.noInput == .yes then true
  else match o.mode with
    | none => false
    | some c =>
      if (match f.noInput with
          | .modes s => s.contains c
          | _ => false) then true
      else match f.mode with
        | some fm => !fm.contains c
        | none => false

/-- `always_no_output` (field.py:858-871) -/
def alwaysNoOutput (f : FieldMeta) (o : Opts) : Bool :=
  if f.noOutput == .yes then true
  else match o.mode with
    | none => false
    | some c =>
      if (match f.noOutput with
          | .modes s => s.contains c
          | _ => false) then true
      else match f.mode with
        | some fm => !fm.contains c
        | none => false

/-- `is_required` (field.py:803-812) -/
def isRequired (f : FieldMeta) (o : Opts) : Bool :=
  if o.ignoreRequired || f.required == .never then false
  else if alwaysNoInput f o then false
  else match f.required with
    | .always => true
    | .never => false
    | .modes s => memMode o.mode s

/-- run-time `is_no_input(value, options)` (field.py:814-838) for a non-callable `no_input`;
after `fixes/C13-flag-mode.patch` a mode string that does not name the current mode falls through to
the field's own `mode` as the static predicate does. -/
def isNoInput (f : FieldMeta) (o : Opts) : Bool :=
  if f.final && f.hasDefault then true
  else match o.mode with
    | none => f.noInput == .yes
    | some c =>
      match f.noInput with
      | .modes s => if s.contains c then true else (match f.mode with
        | some fm => !fm.contains c
        | none => false)
      | .yes => true
      | .no => match f.mode with
        | some fm => !fm.contains c
        | none => false

/-- the same function as shipped (before the patch): a mode string answers by itself -/
def isNoInputLegacy (f : FieldMeta) (o : Opts) : Bool :=
  if f.final && f.hasDefault then true
  else match o.mode with
    | none => f.noInput == .yes
    | some c =>
      match f.noInput with
      | .modes s => s.contains c
      | .yes => true
      | .no => match f.mode with
        | some fm => !fm.contains c
        | none => false

/-- run-time `is_no_output(value, options)` (field.py:873-895), non-callable, after the patch -/
def isNoOutput (f : FieldMeta) (o : Opts) : Bool :=
  match o.mode with
  | none => f.noOutput == .yes
  | some c =>
    match f.noOutput with
    | .modes s => if s.contains c then true else (match f.mode with
      | some fm => !fm.contains c
      | none => false)
    | .yes => true
    | .no => match f.mode with
      | some fm => !fm.contains c
      | none => false

def isNoOutputLegacy (f : FieldMeta) (o : Opts) : Bool :=
  match o.mode with
  | none => f.noOutput == .yes
  | some c =>
    match f.noOutput with
    | .modes s => s.contains c
    | .yes => true
    | .no => match f.mode with
      | some fm => !fm.contains c
      | none => false

/-- `get_default(options, defer=False)` yields a value (field.py:768-796; `force_default` outside the fragment) -/
def defaultApplies (f : FieldMeta) (o : Opts) : Bool :=
  f.hasDefault && !o.noDefault && !(f.deferDefault || o.deferDefault)

/-! ## the generator (generator.py) -/

def optStr (k : String) : Option String → Obj
  | some s => [(k, .str s)]
  | none => []

def strArr (xs : List String) : Json := .arr (xs.map .str)

def sortStrings (xs : List String) : List String := xs.mergeSort (fun a b => decide (a ≤ b))

/-- `generate_for_type` on a builtin class (generator.py:86-92) -/
def plainSchema (p : Prim) : Obj := [("type", .str (getPrimitive p))] ++ optStr "format" (getFormat p)

/-- the primitive a rule's constraints are mapped with (generator.py:175-180) -/
def rulePrimitive (origin : Option Prim) (m : RuleMeta) : String :=
  match m.primitive with
  | some pr => if PRIMITIVES.contains pr then pr else (match origin with
    | some p => getPrimitive p
    | none => DEFAULT_PRIMITIVE)
  | none => match origin with
    | some p => getPrimitive p
    | none => DEFAULT_PRIMITIVE

def overridesPrimitive (m : RuleMeta) : Bool :=
  match m.primitive with
  | some pr => PRIMITIVES.contains pr
  | none => false

/-- type + format part of `generate_for_rule` (generator.py:173-189) -/
def ruleHead (origin : Option Prim) (m : RuleMeta) : Obj :=
  (if overridesPrimitive m then [("type", Json.str (rulePrimitive origin m))]
   else match origin with
     | some p => [("type", .str (getPrimitive p))]
     | none => []) ++
  optStr "format" (match m.format with
    | some f => some f
    | none => match origin with
      | some p => getFormat p
      | none => none)

/-- the validators in `Rule.__constraints__` order (rule.py `generate_validators`; table from T1) -/
def orderedCons (cs : Cons) : Cons :=
  Utv.Gen.Tables.constraintOrder.flatMap fun key => cs.filter fun c => c.1 == key

/-- a full-match regular expression as a JSON Schema `pattern` (which matches anywhere unless anchored) -/
def anchor (p : String) : String := "^(?:" ++ p ++ ")$"

/-- the value published under keyword `k` (generator.py: a `pattern` is anchored, `fixes/C13-regex-anchored.patch`) -/
def kwValue (k : String) (v : Json) : Json :=
  if k == "pattern" then (match v with
    | .str p => .str (anchor p)
    | v => v)
  else v

/-- constraints part (generator.py:191-199) -/
def consSchema (primitive : String) (cs : Cons) : Obj :=
  (orderedCons cs).map fun c => (keywordOf primitive c.1, kwValue (keywordOf primitive c.1) c.2)

/-- the `patternProperties` pattern of a mapping, from the key type's schema (generator.py:141-150) -/
def keyPattern (keySchema : Obj) : String :=
  let fromFormat : Option String :=
    match (match lookup "format" keySchema with
           | some (.str f) => if f == "" then none else some f
           | _ => none) with
    | some f => assoc f FORMAT_PATTERNS
    | none => match lookup "type" keySchema with
      | some (.str t) => if t == "" then none else assoc t FORMAT_PATTERNS
      | _ => none
  let p : Option String :=
    match lookup "pattern" keySchema with
    | some (.str p) => if p == "" then fromFormat else some p
    | _ => fromFormat
  match p with
  | some p => if p == "" then ".*" else p
  | none => ".*"

def opName : Op → String
  | .allOf => "allOf"
  | .anyOf => "anyOf"
  | .oneOf => "oneOf"

def dedupPrims : List Prim → List Prim
  | [] => []
  | x :: xs => x :: (dedupPrims xs).filter (· != x)

def dedupStrs : List String → List String
  | [] => []
  | x :: xs => x :: (dedupStrs xs).filter (· != x)

/-- the Python types the members' values have: the mixin base if there is one, else the distinct `type(value)`s in
member order (generator.py:62-75, after `fixes/C13-enum-mixed.patch`) -/
def enumPyTypes (e : EnumDecl) : List Prim :=
  match e.base with
  | some b => [b]
  | none => dedupPrims e.kinds

def namesType (ts : List String) : Json :=
  match ts with
  | [t] => .str t
  | ts => .arr (ts.map Json.str)

/-- `type`: one primitive, or — members of different types — the list of their primitives -/
def enumType (e : EnumDecl) : Json :=
  match enumPyTypes e with
  | [] => .str DEFAULT_PRIMITIVE
  | [p] => .str (getPrimitive p)
  | ps => namesType (dedupStrs (ps.map getPrimitive))

def enumFormat (e : EnumDecl) : Option String :=
  match enumPyTypes e with
  | [p] => getFormat p
  | _ => none

/-- `generate_for_type` on an `Enum` class (generator.py:62-96) -/
def enumSchema (e : EnumDecl) : Obj :=
  [("type", enumType e),
   ("enum", .arr (e.members.map (·.2))),
   ("x-annotation", .obj [("enums", .obj e.members)])] ++
  optStr "format" (enumFormat e)

/-- which options a data class is generated with: the class's own (generator.py:311); the
generator's `mode` argument is *not* consulted (known finding `generator-mode-ignored`). -/
def effOpts (_cfg : Cfg) (c : ClassMeta) : Opts := c.opts

def fieldVisible (cfg : Cfg) (o : Opts) (f : FieldMeta) : Bool :=
  if cfg.output then !alwaysNoOutput f o else !alwaysNoInput f o

def deprecatedSeg (d : Bool) : Obj := if d then [("deprecated", Json.bool true)] else []

def modeSeg (m : Option (List Char)) : Obj :=
  match m with
  | some ['r'] => [("readOnly", Json.bool true)]
  | some ['w'] => [("writeOnly", Json.bool true)]
  | _ => []

def exampleSeg (e : Option Json) : Obj :=
  match e with
  | some e => [("examples", Json.arr [e])]
  | none => []

def aliasSeg (attname : String) (aliases : List String) : Obj :=
  if aliases.isEmpty then [] else
    [("x-var-name", Json.str attname), ("x-aliases", strArr (sortStrings aliases)),
     ("aliases", strArr (sortStrings aliases))]

/-- annotations `generate_for_field` adds to the field type's schema (generator.py:255-287) -/
def fieldExtras (f : FieldMeta) : Obj :=
  optStr "title" f.title ++ optStr "description" f.description ++ deprecatedSeg f.deprecated ++
  modeSeg f.mode ++ exampleSeg f.exampleV ++ aliasSeg f.attname f.aliases

def extrasKeys : List String :=
  ["title", "description", "deprecated", "readOnly", "writeOnly", "examples", "x-var-name", "x-aliases", "aliases"]

/-- is the field listed under `required` (generator.py:325-331, after `fixes/C13-output-required.patch`:
in the output view a default counts only when the parser actually fills it in) -/
def listedRequired (cfg : Cfg) (o : Opts) (f : FieldMeta) : Bool :=
  isRequired f o || (cfg.output && defaultApplies f o)

/-- as shipped: every field with a default is `required` in the output view -/
def listedRequiredLegacy (cfg : Cfg) (o : Opts) (f : FieldMeta) : Bool :=
  isRequired f o || (cfg.output && f.hasDefault)

def requiredNames (cfg : Cfg) (o : Opts) (ms : List FieldMeta) : List String :=
  (ms.filter fun f => fieldVisible cfg o f && listedRequired cfg o f).map (·.name)

/-- the names this document lists under `properties` -/
def listedProps (cfg : Cfg) (o : Opts) (ms : List FieldMeta) : List String :=
  (ms.filter (fieldVisible cfg o)).map (·.name)

/-- `dependentRequired` (generator.py, after `fixes/C13-deps-view.patch`): input view only — dependencies constrain
what is provided, published data may hold a default or lack an unpublished dependency —, restricted to listed names,
empty lists dropped -/
def dependentRequired (cfg : Cfg) (o : Opts) (ms : List FieldMeta) : Obj :=
  if cfg.output then [] else
  (((ms.filter fun f => fieldVisible cfg o f && !f.deps.isEmpty).map fun f =>
      (f.name, (sortStrings f.deps).filter (listedProps cfg o ms).contains)).filter fun d => !d.2.isEmpty).map
    fun d => (d.1, strArr d.2)

/-- `ClassParser.schema_annotations` (cls.py:540-548; `case_insensitive` outside the fragment) -/
def classAnnotations (o : Opts) : Obj :=
  match o.mode with
  | some c => [("x-annotation", .obj [("mode", .str (String.singleton c))])]
  | none => []

/-- `required` member (generator.py:334-335) -/
def reqSeg (cfg : Cfg) (o : Opts) (ms : List FieldMeta) : Obj :=
  if (requiredNames cfg o ms).isEmpty then [] else [("required", strArr (requiredNames cfg o ms))]

/-- `dependentRequired` member (generator.py:336-337) -/
def depSeg (cfg : Cfg) (o : Opts) (ms : List FieldMeta) : Obj :=
  if (dependentRequired cfg o ms).isEmpty then [] else [("dependentRequired", .obj (dependentRequired cfg o ms))]

/-- `additionalProperties` member (generator.py:338-343); `addSchema` = the addition type's schema -/
def addSeg (o : Opts) (addSchema : Obj) : Obj :=
  match o.addition with
  | .drop => []
  | .reject => [("additionalProperties", .bool false)]
  | .keep => [("additionalProperties", .bool true)]
  | .convert => [("additionalProperties", .obj addSchema)]

mutual
/-- `generate_for_type` (generator.py:40-92), dispatching to `generate_for_rule` (166-210),
`_get_args` (122-152), `generate_for_logical` (94-101), `generate_for_dataclass` (289-353) -/
def gen (cfg : Cfg) (t : Ty) : Obj :=
  match t with
  | .any => []
  | .plain p => plainSchema p
  | .scalar p m cs => ruleHead (some p) m ++ consSchema (rulePrimitive (some p) m) cs
  | .derived p m cs0 _ cs =>
    -- generator.py:175-199: `data = dict(generate_for_type(origin))` is the named rule's schema (a copy!),
    -- `primitive = data.get('type')`, then the site's own constraints are added
    ruleHead (some p) m ++ consSchema (rulePrimitive (some p) m) cs0 ++ consSchema (rulePrimitive (some p) m) cs
  | .seq p m cs item =>
    ruleHead (some p) m ++ consSchema (rulePrimitive (some p) m) cs ++ [("items", .obj (gen cfg item))]
  | .tup m cs items =>
    ruleHead (some .tuple) m ++ consSchema (rulePrimitive (some .tuple) m) cs ++
      [("prefixItems", .arr (genList cfg items))]
  | .map m cs key val =>
    ruleHead (some .dict) m ++ consSchema (rulePrimitive (some .dict) m) cs ++
      [("patternProperties", .obj [(keyPattern (gen cfg key), .obj (gen cfg val))])]
  | .enum e => enumSchema e
  | .logic op ts => [(opName op, .arr (genList cfg ts))]
  | .data c fields addTy =>
    let o := effOpts cfg c
    let ms := fields.map Fld.meta
    [("type", .str "object"), ("properties", .obj (genFields cfg o fields))] ++
    reqSeg cfg o ms ++ depSeg cfg o ms ++ addSeg o (gen cfg addTy) ++ classAnnotations o
termination_by structural t
def genList (cfg : Cfg) (ts : List Ty) : List Json :=
  match ts with
  | [] => []
  | t :: rest => .obj (gen cfg t) :: genList cfg rest
termination_by structural ts
/-- the `properties` member: `generate_for_field` on every visible field (generator.py:238-253, 318-322) -/
def genFields (cfg : Cfg) (o : Opts) (fs : List Fld) : List (String × Json) :=
  match fs with
  | [] => []
  | .mk m ty :: rest =>
    if fieldVisible cfg o m then (m.name, .obj (gen cfg ty ++ fieldExtras m)) :: genFields cfg o rest
    else genFields cfg o rest
termination_by structural fs
end

/-- the generated document -/
def generate (cfg : Cfg) (t : Ty) : Json := .obj (gen cfg t)

/-! ## values the parser returns, and how they are published (encode.py) -/

inductive Key where
  | name (s : String)
  | idx (i : Int)
  deriving Repr, DecidableEq, Inhabited

/-- `json.dumps` turns an `int` key into its decimal string -/
def Key.str : Key → String
  | .name s => s
  | .idx i => toString i

inductive PV where
  | none
  | bool (b : Bool)
  | int (i : Int)
  | float (n : Num)                     -- finite
  | dec (n : Num) (repr : String)       -- finite `Decimal`: exact value and `str(d)`
  | decSpecial (repr : String)          -- NaN / ±Infinity
  | str (s : String)
  | bytes (decoded : String)            -- `data.decode('utf-8', errors='replace')`
  | iso (p : Prim) (text : String)      -- date / datetime / time / timedelta / UUID and what its encoder returns
  | enumv (value : PV)                  -- an `Enum` member (its `.value`)
  | list (xs : List PV)
  | tuple (xs : List PV)
  | set (xs : List PV)
  | dict (kvs : List (Key × PV))
  | inst (kvs : List (String × PV))     -- a data-class instance: its published items
  deriving Repr, Inhabited

def MAX_SAFE : Int := 9007199254740991

/-- `js_unsafe` (encode.py:176-177) -/
def jsUnsafe (n : Num) : Bool := (Num.ofInt MAX_SAFE).lt n || n.lt (Num.ofInt (-MAX_SAFE))

/-- non-zero and below the smallest normal double `2^-1022` (`MIN_NORMAL_FLOAT`, encode.py): `float(d)` would
underflow or lose digits, so `from_decimal` publishes the string -/
def decTiny (n : Num) : Bool := n.mant != 0 && decide (n.mant.natAbs * 2 ^ 1022 < 10 ^ n.exp)

/-- `from_decimal` publishes `str(d)` instead of a number (encode.py:139-152) -/
def decAsString (n : Num) : Bool := jsUnsafe n || decTiny n

mutual
/-- `json.loads(json.dumps(r, cls=JSONEncoder))` -/
def encode (r : PV) : Json :=
  match r with
  | .none => .null
  | .bool b => .bool b
  | .int i => .num (Num.ofInt i)
  | .float n => .num n
  | .dec n s => if decAsString n then .str s else .num n   -- from_decimal (encode.py:139-152)
  | .decSpecial s => .str s
  | .str s => .str s
  | .bytes s => .str s
  | .iso _ s => .str s
  | .enumv v => encode v                                   -- from_enum
  | .list xs => .arr (encodeList xs)
  | .tuple xs => .arr (encodeList xs)                      -- from_tuple
  | .set xs => .arr (encodeList xs)                        -- from_set
  | .dict kvs => .obj (encodeDict kvs)
  | .inst kvs => .obj (encodeInst kvs)
termination_by structural r
def encodeList (xs : List PV) : List Json :=
  match xs with
  | [] => []
  | x :: rest => encode x :: encodeList rest
termination_by structural xs
def encodeDict (kvs : List (Key × PV)) : List (String × Json) :=
  match kvs with
  | [] => []
  | (k, v) :: rest => (k.str, encode v) :: encodeDict rest
termination_by structural kvs
def encodeInst (kvs : List (String × PV)) : List (String × Json) :=
  match kvs with
  | [] => []
  | (k, v) :: rest => (k, encode v) :: encodeInst rest
termination_by structural kvs
end

/-! ## regular expressions -/

structure Rx where
  full : String → String → Bool          -- `re.fullmatch(p, s)` (Constraints.regex, rule.py)
  search : String → String → Bool        -- JSON Schema `pattern`: match anywhere

/-- what the theorems need from the oracle (audited against Python's `re` on every run) -/
structure RxLaws (R : Rx) : Prop where
  full_anchored : ∀ p s, R.full p s = true → R.search (anchor p) s = true

/-! ## what a successful parse promises (`Conforms`, the conclusion of C01/C05 restricted to the fragment) -/

def numOf : PV → Option Num
  | .int i => some (Num.ofInt i)
  | .float n => some n
  | .dec n _ => some n
  | _ => none

def lenOf : PV → Option Nat
  | .str s => some s.length
  | .list xs => some xs.length
  | .tuple xs => some xs.length
  | .set xs => some xs.length
  | .dict kvs => some kvs.length
  | _ => none

def elemsOf : PV → Option (List PV)
  | .list xs => some xs
  | .tuple xs => some xs
  | .set xs => some xs
  | _ => none

def numSat (rel : Num → Num → Bool) (bound : Json) (r : PV) : Bool :=
  match bound with
  | .num b => (match numOf r with
    | some n => rel b n
    | none => false)
  | _ => false

def lenSat (rel : Num → Num → Bool) (bound : Json) (r : PV) : Bool :=
  match bound with
  | .num b => (match lenOf r with
    | some n => rel b (Num.ofNat n)
    | none => false)
  | _ => false

/-- the strict meaning of one constraint on a parsed value (C02's `Sat`); constraints without a
standard keyword (`length`, `decimal_places`, `max_digits`) promise nothing a validator could see -/
def sat (R : Rx) (c : String × Json) (r : PV) : Bool :=
  if c.1 == "gt" then numSat (fun b n => b.lt n) c.2 r
  else if c.1 == "ge" then numSat (fun b n => b.le n) c.2 r
  else if c.1 == "lt" then numSat (fun b n => n.lt b) c.2 r
  else if c.1 == "le" then numSat (fun b n => n.le b) c.2 r
  else if c.1 == "multiple_of" then numSat (fun d n => n.divisible d) c.2 r
  else if c.1 == "min_length" then lenSat (fun b n => b.le n) c.2 r
  else if c.1 == "max_length" then lenSat (fun b n => n.le b) c.2 r
  else if c.1 == "regex" then (match c.2 with
    | .str p => (match r with
      | .str s => R.full p s
      | _ => false)
    | _ => false)
  else if c.1 == "enum" then (match c.2 with
    | .arr vs => memEqv (encode r) vs
    | _ => false)
  else if c.1 == "const" then c.2.eqv (encode r)
  else if c.1 == "unique_items" then (match c.2 with
    | .bool true => (match elemsOf r with
      | some xs => allDistinct (encodeList xs)
      | none => false)
    | _ => true)
  else true

def satAll (R : Rx) (cs : Cons) (r : PV) : Bool := cs.all fun c => sat R c r

/-- `isinstance(r, origin)` on published values -/
def plainOk (p : Prim) (r : PV) : Bool :=
  match p, r with
  | .null, .none => true
  | .bool, .bool _ => true
  | .int, .int _ => true
  | .float, .float _ => true
  | .decimal, .dec _ _ => true
  | .decimal, .decSpecial _ => true
  | .str, .str _ => true
  | .bytes, .bytes _ => true
  | .date, .iso q _ => q == .date
  | .datetime, .iso q _ => q == .datetime
  | .time, .iso q _ => q == .time
  | .timedelta, .iso q _ => q == .timedelta
  | .uuid, .iso q _ => q == .uuid
  | .list, .list _ => true
  | .tuple, .tuple _ => true
  | .set, .set _ => true
  | .dict, .dict _ => true
  | _, _ => false

def keyPV : Key → PV
  | .name s => .str s
  | .idx i => .int i

/-- the published item named `name` is guaranteed to be there (C05's contract, output side):
not suppressed at run time, and either its absence from the input is an error or a default is filled in -/
def Spec.present (f : FieldMeta) (o : Opts) : Bool :=
  !isNoOutput f o && (isRequired f o || defaultApplies f o)

def fieldNames (fs : List Fld) : List String := fs.map fun f => f.meta.name

mutual
/-- `conforms R T r`: `r` is something a successful parse of `T` (in the class's own options) may publish -/
def conforms (R : Rx) (t : Ty) (r : PV) : Bool :=
  match t with
  | .any => true
  | .plain p => plainOk p r
  | .scalar p _ cs => plainOk p r && satAll R cs r
  | .derived p _ cs0 _ cs => plainOk p r && satAll R cs0 r && satAll R cs r
  | .seq p _ cs item =>
    plainOk p r && satAll R cs r && (match elemsOf r with
      | some xs => xs.all fun x => conforms R item x
      | none => false)
  | .tup _ cs items =>
    satAll R cs r && (match r with
      | .tuple xs => conformsZip R items xs
      | _ => false)
  | .map _ cs key val =>
    satAll R cs r && (match r with
      | .dict kvs => kvs.all fun kv => conforms R key (keyPV kv.1) && conforms R val kv.2
      | _ => false)
  | .enum e => (match r with
    -- the published value is the value of some member, of that member's Python type
    | .enumv v => (e.members.zip e.kinds).any fun mk => mk.1.2.eqv (encode v) && plainOk mk.2 v
    | _ => false)
  | .logic op ts => (match op with
    | .allOf => conformsAll R ts r
    | .anyOf => conformsAny R ts r
    | .oneOf => conformsAny R ts r)
  | .data c fields addTy => (match r with
    | .inst kvs =>
      -- every item that must be there is there
      (fields.all fun f => !Spec.present f.meta c.opts || (kvs.lookup f.meta.name).isSome) &&
      -- no item of a field suppressed at run time
      (fields.all fun f => !isNoOutput f.meta c.opts || (kvs.lookup f.meta.name).isNone) &&
      -- field items conform to the field type
      conformsFields R fields kvs &&
      -- other items follow the addition policy
      (kvs.all fun kv => (fieldNames fields).contains kv.1 || (match c.opts.addition with
        | .drop => false
        | .reject => false
        | .keep => true
        | .convert => conforms R addTy kv.2))
    | _ => false)
termination_by structural t
def conformsZip (R : Rx) (ts : List Ty) (xs : List PV) : Bool :=
  match ts with
  | [] => true            -- items beyond the declared ones are kept as they are (rule.py `_parse_tuple_args`)
  | t :: rest => (match xs with
    | [] => false
    | x :: xs' => conforms R t x && conformsZip R rest xs')
termination_by structural ts
def conformsAll (R : Rx) (ts : List Ty) (r : PV) : Bool :=
  match ts with
  | [] => true
  | t :: rest => conforms R t r && conformsAll R rest r
termination_by structural ts
def conformsAny (R : Rx) (ts : List Ty) (r : PV) : Bool :=
  match ts with
  | [] => false
  | t :: rest => conforms R t r || conformsAny R rest r
termination_by structural ts
def conformsFields (R : Rx) (fs : List Fld) (kvs : List (String × PV)) : Bool :=
  match fs with
  | [] => true
  | .mk m ty :: rest =>
    (match kvs.lookup m.name with
     | some v => conforms R ty v
     | none => true) && conformsFields R rest kvs
termination_by structural fs
end

/-! ## the two ways a published value is known to fall outside its schema (known findings) -/

mutual
/-- no `Decimal` in `r` is published as a string (`from_decimal`: js-unsafe magnitude, below the normal float range,
NaN, ±Infinity) -/
def safeDecimals (r : PV) : Bool :=
  match r with
  | .dec n _ => !decAsString n
  | .decSpecial _ => false
  | .enumv v => safeDecimals v
  | .list xs => safeList xs
  | .tuple xs => safeList xs
  | .set xs => safeList xs
  | .dict kvs => safeDict kvs
  | .inst kvs => safeInst kvs
  | _ => true
termination_by structural r
def safeList (xs : List PV) : Bool :=
  match xs with
  | [] => true
  | x :: rest => safeDecimals x && safeList rest
termination_by structural xs
def safeDict (kvs : List (Key × PV)) : Bool :=
  match kvs with
  | [] => true
  | (_, v) :: rest => safeDecimals v && safeDict rest
termination_by structural kvs
def safeInst (kvs : List (String × PV)) : Bool :=
  match kvs with
  | [] => true
  | (_, v) :: rest => safeDecimals v && safeInst rest
termination_by structural kvs
end

mutual
/-- at every `oneOf` the value meets on its way through `t`, at most one argument's *schema* accepts it
(the parser's `^` counts accepting *parsers*; a schema can be weaker than its parser — `length`,
`decimal_places`, `max_digits` have no keyword) -/
def oneOfOk (C : Ctx) (cfg : Cfg) (t : Ty) (r : PV) : Bool :=
  match t with
  | .seq _ _ _ item => (match elemsOf r with
    | some xs => xs.all fun x => oneOfOk C cfg item x
    | none => true)
  | .tup _ _ items => (match r with
    | .tuple xs => oneOfOkZip C cfg items xs
    | _ => true)
  | .map _ _ _ val => (match r with
    | .dict kvs => kvs.all fun kv => oneOfOk C cfg val kv.2
    | _ => true)
  | .logic op ts =>
    (op != .oneOf || decide (validateCount C (genList cfg ts) (encode r) ≤ 1)) && oneOfOkAll C cfg ts r
  | .data _ fields addTy => (match r with
    | .inst kvs => oneOfOkFields C cfg fields kvs &&
        kvs.all fun kv => (fieldNames fields).contains kv.1 || oneOfOk C cfg addTy kv.2
    | _ => true)
  | _ => true
termination_by structural t
def oneOfOkZip (C : Ctx) (cfg : Cfg) (ts : List Ty) (xs : List PV) : Bool :=
  match ts with
  | [] => true
  | t :: rest => (match xs with
    | [] => true
    | x :: xs' => oneOfOk C cfg t x && oneOfOkZip C cfg rest xs')
termination_by structural ts
def oneOfOkAll (C : Ctx) (cfg : Cfg) (ts : List Ty) (r : PV) : Bool :=
  match ts with
  | [] => true
  | t :: rest => oneOfOk C cfg t r && oneOfOkAll C cfg rest r
termination_by structural ts
def oneOfOkFields (C : Ctx) (cfg : Cfg) (fs : List Fld) (kvs : List (String × PV)) : Bool :=
  match fs with
  | [] => true
  | .mk m ty :: rest =>
    (match kvs.lookup m.name with
     | some v => oneOfOk C cfg ty v
     | none => true) && oneOfOkFields C cfg rest kvs
termination_by structural fs
end

namespace KnownDefect
/-- `decimal-unsafe-string` -/
def unsafeDecimal (r : PV) : Bool := !safeDecimals r
/-- `oneof-weaker-branch` -/
def oneOfOverlap (C : Ctx) (cfg : Cfg) (t : Ty) (r : PV) : Bool := !oneOfOk C cfg t r
end KnownDefect

/-! ## the property's vocabulary for the structure clauses (written from docs/en/references/field.md, options.md) -/

namespace Spec

/-- the field exists in mode `m` (`Field(mode='rw')` — readable / writable / …) -/
def inMode (f : FieldMeta) (m : Option Char) : Bool :=
  match m, f.mode with
  | some c, some fm => fm.contains c
  | _, _ => true

def flagOn (fl : Flag) (m : Option Char) : Bool :=
  match fl with
  | .yes => true
  | .no => false
  | .modes s => memMode m s

/-- input never reaches this field in mode `o.mode` -/
def noInput (f : FieldMeta) (o : Opts) : Bool :=
  (f.final && f.hasDefault) || flagOn f.noInput o.mode || !inMode f o.mode

/-- the field is never published in mode `o.mode` -/
def noOutput (f : FieldMeta) (o : Opts) : Bool :=
  flagOn f.noOutput o.mode || !inMode f o.mode

/-- leaving the field out of the input is an error -/
def absenceIsError (f : FieldMeta) (o : Opts) : Bool :=
  !o.ignoreRequired && !noInput f o && (match f.required with
    | .always => true
    | .never => false
    | .modes s => memMode o.mode s)

/-- what the parser does with a key that names no field -/
inductive Unknown where
  | dropped | rejected | kept | converted
  deriving DecidableEq, Repr

def unknownKeys (o : Opts) : Unknown :=
  match o.addition with
  | .drop => .dropped
  | .reject => .rejected
  | .keep => .kept
  | .convert => .converted

end Spec

/-! ### reading a generated document -/

def propertyNames (doc : Json) : List String :=
  match doc with
  | .obj kvs => (match lookup "properties" kvs with
    | some (.obj ps) => keys ps
    | _ => [])
  | _ => []

def requiredOf (doc : Json) : List String :=
  match doc with
  | .obj kvs => (match lookup "required" kvs with
    | some (.arr xs) => xs.filterMap strOf
    | _ => [])
  | _ => []

def additionalOf (doc : Json) : Option Json :=
  match doc with
  | .obj kvs => lookup "additionalProperties" kvs
  | _ => none

/-- what `additionalProperties` has to say for each treatment of unknown keys -/
def Spec.additionalMeans (cfg : Cfg) (addTy : Ty) : Spec.Unknown → Option Json
  | .dropped => none
  | .rejected => some (.bool false)
  | .kept => some (.bool true)
  | .converted => some (generate cfg addTy)

/-- the options "this class in the mode the generator was asked for" would be parsed with -/
def requestedOpts (cfg : Cfg) (c : ClassMeta) : Opts :=
  match cfg.genMode with
  | some m => { c.opts with mode := some m }
  | none => c.opts

namespace KnownDefect
/-- `generator-mode-ignored`: a generator mode different from the class's own mode was asked for -/
def modeIgnored (cfg : Cfg) (c : ClassMeta) : Bool :=
  match cfg.genMode with
  | some m => c.opts.mode != some m
  | none => false
end KnownDefect

/-- what the parser does (base.py:390-421 `parse_addition`) -/
def parserUnknown (o : Opts) : Spec.Unknown :=
  match o.addition with
  | .reject => .rejected            -- `addition is False` → ExceedError
  | .drop => .dropped               -- `not addition` → unprovided
  | .keep => .kept                  -- no addition type → value as is
  | .convert => .converted          -- transformer(value, addition_type)

/-! ## well-formed declarations: what `Field.__init__`, `Rule.__init_subclass__` and the class parser accept,
restricted to the fragment (decidable; the driver answers `unmodelled` outside it) -/

def numericCons : List String := ["gt", "ge", "lt", "le", "multiple_of", "max_digits", "decimal_places", "enum", "const"]
def stringCons : List String := ["min_length", "max_length", "length", "regex", "enum", "const"]
def arrayCons : List String := ["min_length", "max_length", "length", "unique_items"]
def objectCons : List String := ["min_length", "max_length", "length"]

def isNum : Json → Bool
  | .num _ => true
  | _ => false

def conValueOk (c : String × Json) : Bool :=
  if c.1 == "gt" || c.1 == "ge" || c.1 == "lt" || c.1 == "le" then isNum c.2
  else if c.1 == "multiple_of" then (match c.2 with
    | .num n => n.isPos
    | _ => false)
  else if c.1 == "min_length" || c.1 == "max_length" || c.1 == "length" || c.1 == "max_digits" || c.1 == "decimal_places" then isNonNegInt c.2
  else if c.1 == "regex" then (strOf c.2).isSome
  else if c.1 == "enum" then (match c.2 with
    | .arr _ => true
    | _ => false)
  else if c.1 == "unique_items" then (match c.2 with
    | .bool true => true
    | _ => false)
  else c.1 == "const"

def consOk (allowed : List String) (cs : Cons) : Bool :=
  strDistinct (cs.map (·.1)) && cs.all fun c => allowed.contains c.1 && conValueOk c

def scalarCons (p : Prim) : List String :=
  match p with
  | .int => numericCons
  | .float => numericCons
  | .decimal => ["max_digits", "decimal_places"]
  | .str => stringCons
  | _ => []

def modeChars : List Char := ['r', 'w', 'a']

def modesOk (s : List Char) : Bool := !s.isEmpty && s.all modeChars.contains

def subsetOf (s t : List Char) : Bool := s.all t.contains

/-- `Field.__init__` (field.py:100-185) -/
def fieldMetaOk (f : FieldMeta) : Bool :=
  (match f.mode with
   | some fm => modesOk fm &&
     (match f.required with
      | .modes s => subsetOf s fm
      | _ => true) &&
     (match f.noInput with
      | .modes s => subsetOf s fm
      | _ => true) &&
     (match f.noOutput with
      | .modes s => subsetOf s fm
      | _ => true)
   | none => true) &&
  (match f.required with
   | .modes s => modesOk s
   | .always => !f.hasDefault
   | .never => true) &&
  (match f.noInput with
   | .modes s => modesOk s
   | _ => true) &&
  (match f.noOutput with
   | .modes s => modesOk s
   | _ => true) &&
  (!f.deferDefault || f.hasDefault) &&
  !f.aliases.contains f.name && strDistinct f.deps

def metaOk (m : RuleMeta) (own : String) : Bool :=
  match m.primitive with
  | some pr => pr == own || (pr == "number" && own == "integer") || !PRIMITIVES.contains pr
  | none => true

mutual
def wfTy (t : Ty) : Bool :=
  match t with
  | .any => true
  | .plain _ => true
  | .scalar p m cs => consOk (scalarCons p) cs && metaOk m (getPrimitive p)
  | .derived p m cs0 _ cs =>
    consOk (scalarCons p) cs0 && consOk (scalarCons p) cs && metaOk m (getPrimitive p) &&
      cs.all fun c => !(cs0.map (·.1)).contains c.1
  | .seq p m cs item =>
    (p == .list || p == .set || p == .tuple) && consOk arrayCons cs && metaOk m "array" && wfTy item
  | .tup m cs items => consOk arrayCons cs && metaOk m "array" && !items.isEmpty && wfTys items
  | .map m cs key val => consOk objectCons cs && metaOk m "object" && wfTy key && wfTy val
  | .enum e => e.kinds.length == e.members.length && (match e.base with
    | some b => e.kinds.all (· == b)
    | none => true)
  | .logic _ ts => !ts.isEmpty && wfTys ts
  | .data c fields addTy =>
    (match c.opts.mode with
     | some ch => modeChars.contains ch
     | none => true) &&
    strDistinct (fieldNames fields) && wfFields fields && wfTy addTy
termination_by structural t
def wfTys (ts : List Ty) : Bool :=
  match ts with
  | [] => true
  | t :: rest => wfTy t && wfTys rest
termination_by structural ts
def wfFields (fs : List Fld) : Bool :=
  match fs with
  | [] => true
  | .mk m ty :: rest => fieldMetaOk m && wfTy ty && wfFields rest
termination_by structural fs
end

end Utv.C13
