"""C11 — exclude / preserve policies touch only the offending elements.

Every case is run on the real code four ways inside the worker (`impl`):
  out      the parse under the case's policies, through the public API (`type_transform`, a `Schema`
           field, a `@parse` function);
  probe    the origin transform of the input (`type_transform(v, list|set|tuple|dict)`) and each element /
           key / value / field value / extra value parsed *in isolation* with the same options — this is the
           abstract converter `p` of the Lean theorems, sampled from the real code;
  strict   the metamorphic run: the same type under `throw`, applied to the input with exactly the
           excluded offenders removed (only where the element types do not themselves read the policy that
           is switched).
The Lean model (drivers/C11.lean) gets the probe tables and predicts `out`; `compare` diffs them.
`spec` is the property itself in Python, evaluated on what the implementation returned:
  (A) element-wise: exclude = conversions of the non-offenders, preserve = the same with offenders unchanged
      at their positions, throw = all or nothing, a required field is never dropped;
  (B) metamorphic: out == strict (exclude) / out == strict with the offenders put back (preserve).
"""
from __future__ import annotations

import itertools
import json
import random

from .common import Check, run_driver, run_impl

POLICIES = ["throw", "exclude", "preserve"]
SEQ_KINDS = ["list", "set", "frozenset", "tuple"]

# ------------------------------------------------------------------------------------------------
# value codec (JSON descriptors <-> Python values); the Lean side treats these as opaque
# ------------------------------------------------------------------------------------------------


def enc(v):
    if v is None:
        return {"n": 0}
    t = type(v)
    if t is bool:
        return {"b": v}
    if t is int:
        return {"i": str(v)}
    if t is float:
        return {"f": repr(v)}
    if t is str:
        return {"s": v}
    if t is list:
        return {"l": [enc(x) for x in v]}
    if t is tuple:
        return {"t": [enc(x) for x in v]}
    if t in (set, frozenset):
        return {"S" if t is set else "F": sorted((enc(x) for x in v), key=_jkey)}
    if isinstance(v, dict):
        d = {"d": [[enc(k), enc(x)] for k, x in v.items()]}
        if t is not dict:
            d["o"] = t.__name__
        return d
    return {"x": t.__name__}


def dec(j):
    if "n" in j:
        return None
    if "b" in j:
        return j["b"]
    if "i" in j:
        return int(j["i"])
    if "f" in j:
        return float(j["f"])
    if "s" in j:
        return j["s"]
    if "l" in j:
        return [dec(x) for x in j["l"]]
    if "t" in j:
        return tuple(dec(x) for x in j["t"])
    if "S" in j:
        return {dec(x) for x in j["S"]}
    if "F" in j:
        return frozenset(dec(x) for x in j["F"])
    if "d" in j:
        return {dec(k): dec(v) for k, v in j["d"]}
    raise ValueError(f"undecodable {j}")


def _jkey(j):
    return json.dumps(j, sort_keys=True)


def canon(j):
    """order-insensitive form: set items and dict entries sorted"""
    if isinstance(j, dict):
        out = {}
        for k, v in j.items():
            if k in ("l", "t"):
                out[k] = [canon(x) for x in v]
            elif k in ("S", "F"):
                out[k] = sorted((canon(x) for x in v), key=_jkey)
            elif k == "d":
                out[k] = sorted(([canon(a), canon(b)] for a, b in v), key=_jkey)
            else:
                out[k] = v
        return out
    return j


def wrap_seq(kind, items):
    """the container CPython builds from an insertion log of encoded items"""
    if kind == "list":
        return {"l": list(items)}
    if kind in ("tuple", "tuple_fixed"):
        return {"t": list(items)}
    seen = {}
    for e in items:
        k = dec(e)
        if k not in seen:          # set([1, True]) keeps the first of equal elements
            seen[k] = e
    return {"S" if kind == "set" else "F": sorted(seen.values(), key=_jkey)}


def wrap_map(pairs, cls=None):
    """the dict CPython builds from `result[key] = val` in log order (first key object, last value)"""
    d = {}
    for k, v in pairs:
        kk = dec(k) if isinstance(k, dict) else k
        if kk in d:
            d[kk] = (d[kk][0], v)
        else:
            d[kk] = (k, v)
    out = {"d": [[k if isinstance(k, dict) else {"s": k}, v] for k, v in d.values()]}
    if cls:
        out["o"] = cls
    return out


def seq_items(j):
    for k in ("l", "t", "S", "F"):
        if k in j:
            return j[k]
    return None


# ------------------------------------------------------------------------------------------------
# type descriptors -> real utype types (worker side)
# ------------------------------------------------------------------------------------------------

LEAVES = {"int": "int", "str": "str", "float": "float",
          "posint": {"c": "int", "ge": 0}, "str3": {"c": "str", "max_length": 3},
          # element / value / field types that are THEMSELVES unions (an offending value leaves tmp errors behind)
          "opt_int": {"opt": "int"}, "opt_posint": {"opt": {"c": "int", "ge": 0}},
          "or_posint_str3": {"or": [{"c": "int", "ge": 0}, {"c": "str", "max_length": 3}]},
          "xor_posint_str3": {"xor": [{"c": "int", "ge": 0}, {"c": "str", "max_length": 3}]}}

_CACHE: dict = {}


def _schemas():
    if "schemas" not in _CACHE:
        from utype import Schema

        from utype.utils.compat import Literal

        class Pt(Schema):
            x: int
            y: int = 0

        # (this module uses postponed annotations: give the classes real annotation objects)
        P1 = type("P1", (Schema,), {"__annotations__": {"kind": Literal["p1"], "x": int}, "kind": "p1", "x": 0})
        P2 = type("P2", (Schema,), {"__annotations__": {"kind": Literal["p2"], "y": int}, "kind": "p2", "y": 0})

        _CACHE["schemas"] = {"Pt": Pt, "P1": P1, "P2": P2}
    return _CACHE["schemas"]


def ann(desc, strict=False):
    """JSON descriptor -> annotation as a user would write it (strict: every nested data class read with `throw`)"""
    from typing import Dict, FrozenSet, List, Set, Tuple
    from utype import Rule
    key = ("anns:" if strict else "ann:") + _jkey(desc)
    if key in _CACHE:
        return _CACHE[key]
    if isinstance(desc, str):
        r = {"int": int, "str": str, "float": float, "bool": bool}[desc]
    elif "c" in desc:
        r = Rule.annotate(ann(desc["c"]), constraints={k: v for k, v in desc.items() if k != "c"})
    elif "opt" in desc:
        from typing import Optional
        r = Optional[ann(desc["opt"], strict)]
    elif "or" in desc:
        from typing import Union
        r = Union[tuple(ann(a, strict) for a in desc["or"])]
    elif "xor" in desc:
        a, b = (ann(x, strict) for x in desc["xor"])
        r = a ^ b
    elif cons_of(desc):
        # a container with validators of its own: Rule.annotate(list, T, constraints={'max_length': 2})
        kind, elems = top(desc)
        args = [ann(e, strict) for e in elems if e is not None]
        if kind == "tuple":
            args.append(...)
        r = Rule.annotate(ORIGIN[kind], *args, constraints=cons_of(desc))
    elif "list" in desc:
        r = List[ann(desc["list"], strict)]
    elif "set" in desc:
        r = Set[ann(desc["set"], strict)]
    elif "frozenset" in desc:
        r = FrozenSet[ann(desc["frozenset"], strict)]
    elif "tuple" in desc:
        r = Tuple[ann(desc["tuple"], strict), ...]
    elif "tuple_fixed" in desc:
        r = Tuple[tuple(ann(a, strict) for a in desc["tuple_fixed"])]
    elif "dict" in desc:
        a = desc["dict"]
        r = Dict[ann(a[0], strict), ann(a[1], strict)] if len(a) > 1 and a[1] is not None else Rule.annotate(dict, ann(a[0], strict))
    elif "schema" in desc:
        r = _schemas()[desc["schema"]]
    elif "union" in desc:
        from typing import Union
        r = Union[tuple(_schemas()[n] for n in desc["union"])]
    elif "data" in desc:
        # a data class declared by a descriptor {"fields": [...], "opts": {...}}; it is parsed under its OWN options
        r = _schema_class(desc["data"], strict=strict)
    else:
        raise ValueError(f"bad type descriptor {desc}")
    _CACHE[key] = r
    return r


def rule(desc, strict=False):
    from utype import Rule
    key = ("rules:" if strict else "rule:") + _jkey(desc)
    if key not in _CACHE:
        _CACHE[key] = Rule.parse_annotation(annotation=ann(desc, strict))
    return _CACHE[key]


CONS_KEYS = ("min_length", "max_length", "unique_items")


def cons_of(desc):
    """the validators a container type carries itself"""
    return {k: desc[k] for k in CONS_KEYS if k in desc} if isinstance(desc, dict) else {}


def container_items(enc_value):
    for k in ("l", "t", "S", "F", "d"):
        if k in enc_value:
            return enc_value[k]
    return []


def cons_ok(desc, enc_value):
    """do the container's own validators accept this (encoded) container"""
    c = cons_of(desc)
    items = container_items(enc_value)
    if not (c.get("min_length", 0) <= len(items) <= c.get("max_length", 10 ** 9)):
        return False
    if c.get("unique_items"):
        seen = []
        for e in items:
            try:
                v = dec(e)
            except Exception:
                v = _jkey(e)
            if any(v == w for w in seen):      # uniqueness in the documented sense: pairwise `==`, no hashing
                return False
            seen.append(v)
    return True


def is_union(desc):
    return isinstance(desc, dict) and "opt" in desc


def top(desc):
    """(kind, element descriptors) of a container descriptor (looking through Optional[...])"""
    if is_union(desc):
        return top(desc["opt"])
    for k in SEQ_KINDS:
        if isinstance(desc, dict) and k in desc:
            return k, [desc[k]]
    if isinstance(desc, dict) and "tuple_fixed" in desc:
        return "tuple_fixed", list(desc["tuple_fixed"])
    if isinstance(desc, dict) and "dict" in desc:
        a = desc["dict"]
        return "dict", [a[0], a[1] if len(a) > 1 else None]
    return None, []


def reads_policy(desc, which):
    """does parsing a value of this type consult the given policy option?"""
    if desc is None or isinstance(desc, str):
        return False
    if "c" in desc:
        return False
    if "opt" in desc:
        return reads_policy(desc["opt"], which)
    if "schema" in desc or "data" in desc:
        return False                # a nested data class is parsed under its own __options__
    kind, elems = top(desc)
    if kind in SEQ_KINDS or kind == "tuple_fixed":
        return which == "invalid_items" or any(reads_policy(e, which) for e in elems)
    if kind == "dict":
        return which in ("invalid_keys", "invalid_values") or any(reads_policy(e, which) for e in elems)
    return False


def _options(opts):
    from utype import Options
    kw = dict(opts)
    if "addition" in kw and isinstance(kw["addition"], (dict, str)):
        kw["addition"] = ann(kw["addition"])
    if "force_default" in kw:
        kw["force_default"] = dec(kw["force_default"])
    return Options(**kw)


def outcome(f):
    from utype.utils import exceptions as exc
    try:
        return {"ok": enc(f())}
    except exc.ParseError as e:
        item = getattr(e, "item", None)
        return {"err": type(e).__name__, "item": item if isinstance(item, (int, str)) or item is None else repr(item)}
    except Exception as e:  # anything else leaving the public entry point
        return {"escape": type(e).__name__}


def conv(desc, x, opts):
    """the element converter seen from outside: encoded result, or None when it raises"""
    from utype import type_transform
    try:
        return enc(type_transform(x, rule(desc), options=_options(opts)))
    except Exception:
        return None


DISC_MAP = {"p1": "P1", "p2": "P2"}


def conv_field(f, x, opts):
    """the converter of a data-class field seen from outside.  For a field declared with a discriminator it is:
    the input as a mapping, its discriminator value selects the branch class, conversion to that class - a value that
    selects no branch is an invalid value of the field."""
    if not f.get("disc"):
        return conv(f["type"], x, opts)
    from utype import type_transform
    if x is None:
        return conv(f["type"], x, opts)
    try:
        d = x if isinstance(x, dict) else type_transform(x, dict)
        tag = d.get(f["disc"])
        branch = DISC_MAP.get(tag) if isinstance(tag, str) else None
    except Exception:
        return None
    if branch is None:
        return None
    return conv({"schema": branch}, d, opts)


def call(desc, value, opts, via):
    from utype import Schema, parse, type_transform
    o = _options(opts)
    if via == "rule":
        return type_transform(value, rule(desc), options=o)
    key = f"{via}:" + _jkey([desc, opts])
    if via == "schema":
        if key not in _CACHE:
            _CACHE[key] = type("S", (Schema,), {"__annotations__": {"v": ann(desc)}, "__options__": o})
        return _CACHE[key](v=value).v
    if via == "func":
        if key not in _CACHE:
            def f(v):
                return v
            f.__annotations__ = {"v": ann(desc)}
            _CACHE[key] = parse(f, options=o)
        return _CACHE[key](value)
    raise ValueError(via)


ORIGIN = {"list": list, "set": set, "frozenset": frozenset, "tuple": tuple, "tuple_fixed": tuple, "dict": dict}


def impl(case):
    import warnings
    warnings.simplefilter("ignore")
    op = case["op"]
    if op == "container":
        return impl_container(case)
    if op == "schema":
        return impl_schema(case)
    if op == "func":
        return impl_func(case)
    if op == "sequence":
        return impl_sequence(case)
    raise ValueError(op)


def impl_container(case):
    from utype import type_transform
    desc, opts, via = case["type"], case["opts"], case.get("via", "rule")
    value = dec(case["value"])
    kind, elems = top(desc)
    res = {"out": outcome(lambda: call(desc, value, opts, via)), "strict": None}
    try:
        coerced = type_transform(value, ORIGIN[kind], options=_options(opts))
    except Exception:
        res["probe"] = {"items": None}
        return res
    # the union's two trial stages: stricter conversion preferences, and (after the repair) the invalid_* policies at throw
    TRIAL = dict(invalid_items="throw", invalid_keys="throw", invalid_values="throw")
    MODES = [dict(TRIAL, no_data_loss=True, no_explicit_cast=True), dict(TRIAL, no_data_loss=True)]
    if kind in SEQ_KINDS:
        raws = list(coerced)
        items = [[enc(x), conv(elems[0], x, opts)] for x in raws]
        if is_union(desc):
            # the element's conversion under the preferences of the union's two trial stages
            items = [r + [conv(elems[0], x, dict(opts, **m)) for m in MODES] for r, x in zip(items, raws)]
        res["probe"] = {"items": items}
        if not reads_policy(elems[0], "invalid_items"):
            kept = [x for x, it in zip(raws, items) if it[1] is not None]
            o2 = dict(opts, invalid_items="throw")
            res["strict"] = outcome(lambda: call(desc, ORIGIN[kind](kept), o2, "rule"))
    elif kind == "tuple_fixed":
        raws = list(coerced)
        n = len(elems)
        tables = [[[enc(raws[i]), conv(elems[i], raws[i], opts)]] if i < len(raws) else [] for i in range(n)]
        add = opts.get("addition")
        extra_table = [[enc(x), conv(add, x, opts)] for x in raws[n:]] if isinstance(add, (dict, str)) else []
        res["probe"] = {"xs": [enc(x) for x in raws], "tables": tables, "extra_table": extra_table}
    elif kind == "dict":
        kt, vt = elems
        rows = [[enc(k), enc(v), conv(kt, k, opts), conv(vt, v, opts) if vt is not None else None]
                for k, v in coerced.items()]
        if is_union(desc):
            rows = [r + [c for m in MODES for c in (conv(kt, k, dict(opts, **m)),
                                                     conv(vt, v, dict(opts, **m)) if vt is not None else None)]
                    for r, (k, v) in zip(rows, coerced.items())]
        res["probe"] = {"items": rows}
        pk, pv = opts.get("invalid_keys", "throw"), opts.get("invalid_values", "throw")
        if pk != "preserve" and pv != "preserve" and not any(
                reads_policy(e, w) for e in elems for w in ("invalid_keys", "invalid_values")):
            kept = {k: v for (k, v), r in zip(coerced.items(), rows) if not map_excluded(pk, pv, r, vt is not None)}
            o2 = dict(opts, invalid_keys="throw", invalid_values="throw")
            res["strict"] = outcome(lambda: call(desc, kept, o2, "rule"))
    return res


def map_excluded(pk, pv, row, has_vt):
    kbad = row[2] is None
    vbad = has_vt and row[3] is None
    return (pk == "exclude" and kbad) or (pv == "exclude" and (not kbad or pk == "preserve") and vbad)


def _schema_class(case, strict=False, drop=(), fresh=False):
    from utype import Field, Schema
    key = ("strict:" if strict else "schema:") + _jkey([case["fields"], case.get("props", []), case["opts"], sorted(drop)])
    if key in _CACHE and not fresh:
        return _CACHE[key]
    attrs = {"__annotations__": {}}
    for q in case.get("props", []):
        if q["name"] in drop:
            continue

        def fget(self, _raw=dec(q["raw"])):
            return _raw
        if q["type"] is not None:
            fget.__annotations__ = {"return": ann(q["type"])}
        oe = "throw" if strict else q.get("on_error")
        Field(required=False, **({"on_error": oe} if oe else {}))(fget)
        attrs[q["name"]] = property(fget)
    for f in case["fields"]:
        attrs["__annotations__"][f["name"]] = ann(f["type"], strict)
        kw = {}
        r = field_req(f)
        if f.get("has_default"):
            kw["default"] = dec(f["default"])
        if isinstance(r, str):
            kw["required"] = r
        elif not r and not f.get("has_default"):
            kw["required"] = False
        if f.get("deps"):
            kw["dependencies"] = list(f["deps"])
        if f.get("disc"):
            kw["discriminator"] = f["disc"]
        oe = "throw" if strict else f.get("on_error")
        if oe:
            kw["on_error"] = oe
        if kw:
            attrs[f["name"]] = Field(**kw)
    opts = dict(case["opts"])
    if strict:
        opts["invalid_values"] = "throw"
        for k in ("invalid_items", "invalid_keys"):
            if k in opts:
                opts[k] = "throw"
    attrs["__options__"] = _options(opts)
    cls = type("S", (Schema,), attrs)
    if not fresh:
        _CACHE[key] = cls
    return cls


def effective(f, inv):
    return f.get("on_error") or inv


def field_req(f):
    """the declared `required`: False / True / a string of modes"""
    return f["req"] if "req" in f else bool(f.get("required"))


def is_required(f, opts):
    """the field must be given in this parse: `required=True`, or `required='w'` under Options(mode='w')"""
    if opts.get("ignore_required") or "force_default" in opts:
        return False                # nothing is required in this run (force_default implies ignore_required)
    r = field_req(f)
    if isinstance(r, str):
        m = opts.get("mode")
        return bool(m) and m in r
    return bool(r)


def eff_default(f, opts):
    """what a field that is not given receives: (has, encoded value)"""
    if "force_default" in opts:
        return True, opts["force_default"]
    return bool(f.get("has_default")), f.get("default")


def impl_schema(case):
    from utype.utils import exceptions as exc
    opts = case["opts"]
    inv = opts.get("invalid_values", "throw")
    data = {k: dec(v) for k, v in case["data"]}
    try:
        S = _schema_class(case)
    except exc.ConfigError as e:
        return {"config_error": str(e)[:120]}
    res = {"out": outcome(lambda: S(**data)), "strict": None}
    names = {f["name"]: f for f in case["fields"]}
    tables = {f["name"]: ([[enc(data[f["name"]]), conv_field(f, data[f["name"]], opts)]] if f["name"] in data else [])
              for f in case["fields"]}
    add = opts.get("addition")
    typed = isinstance(add, (dict, str))
    add_table = [[enc(v), conv(add, v, opts)] for k, v in data.items() if k not in names] if typed else []
    prop_tables = {q["name"]: ([[q["raw"], conv(q["type"], dec(q["raw"]), opts)]] if q["type"] is not None else None)
                   for q in case.get("props", [])}
    res["probe"] = {"tables": tables, "add_table": add_table, "prop_tables": prop_tables}
    # metamorphic run, recursively: the all-throw declaration (every nested class and list read with `throw`) on the
    # data without the offenders that the `exclude` policies remove at every level; skipped when an offender is
    # preserved somewhere or a nested value cannot be cleaned structurally
    cleaned, sound = clean_data(case, data)
    dropped = set()
    for q in case.get("props", []):
        t = prop_tables[q["name"]]
        if t is not None and t[0][1] is None:
            pol = q.get("on_error") or inv
            if pol == "exclude":
                dropped.add(q["name"])
            if pol == "preserve":
                sound = False
    if any(reads_policy(q["type"], w) for q in case.get("props", []) for w in ("invalid_items", "invalid_keys", "invalid_values")):
        sound = False
    if sound:
        S2 = _schema_class(case, strict=True, drop=dropped)
        res["strict"] = outcome(lambda: S2(**cleaned))
    return res


def clean_value(tdesc, v, opts):
    """(ok, cleaned, sound): does `v` convert to the declared type under `opts` (measured on the real code, in
    isolation); `v` with the offenders removed that the exclude policies drop inside it; can the strict run be used"""
    ok = conv(tdesc, v, opts) is not None
    if isinstance(tdesc, dict) and "data" in tdesc:
        if not isinstance(v, dict):
            return ok, v, not ok            # a non-mapping input that converts cannot be cleaned structurally
        cleaned, sound = clean_data(tdesc["data"], v)
        return ok, cleaned, sound
    kind, elems = top(tdesc)
    if kind == "list":
        pol = opts.get("invalid_items", "throw")
        if not isinstance(v, (list, tuple)):
            return ok, v, not ok or not reads_policy(tdesc, "invalid_items") or pol == "throw"
        out, sound = [], True
        for x in v:
            okx, cx, sx = clean_value(elems[0], x, opts)
            sound = sound and sx
            if okx:
                out.append(cx)
            elif pol == "exclude":
                continue
            else:
                out.append(x)
                if pol == "preserve":
                    sound = False
        return ok, out, sound
    # other containers: usable only when none of the policies they read is active
    active = [w for w in ("invalid_items", "invalid_keys", "invalid_values") if opts.get(w, "throw") != "throw"]
    return ok, v, not any(reads_policy(tdesc, w) for w in active)


def clean_data(kdesc, data):
    """the data of a class {"fields", "opts"} without what its (and its nested classes') exclude policies remove"""
    opts = kdesc["opts"]
    inv = opts.get("invalid_values", "throw")
    names = {f["name"]: f for f in kdesc["fields"]}
    add = opts.get("addition")
    typed = isinstance(add, (dict, str))
    out, sound = {}, True
    for k, v in data.items():
        if k in names:
            f = names[k]
            ok, cv, sv = (conv_field(f, v, opts) is not None, v, True) if f.get("disc") else clean_value(f["type"], v, opts)
            sound = sound and sv
            if ok:
                out[k] = cv
                continue
            pol = effective(f, inv)
            if pol == "exclude" and not is_required(f, opts):
                continue
            if pol == "preserve":
                sound = False
            out[k] = v
        elif typed:
            ok = conv(add, v, opts) is not None
            if ok or inv == "throw":
                out[k] = v
            elif inv == "preserve":
                sound = False
                out[k] = v
        else:
            out[k] = v
    return out, sound


def step_case(case, st):
    """a step of a sequence seen as a single data-class case under its running (call-level) options.  The TYPE of the
    extra keys is fixed when the class is declared (`parser.addition_type`); whether extra keys are taken at all, and
    the policy for their values, come from the options of the call."""
    ro = dict(st["ropts"])
    cadd = case["opts"].get("addition")
    if ro.get("addition") is True and isinstance(cadd, (dict, str)):
        ro["addition"] = cadd
    return {"op": "schema", "fields": case["fields"], "props": [], "opts": ro, "data": st["data"]}


def impl_sequence(case):
    """all steps on ONE class declared for this case, and each step again on a class declared afresh"""
    from utype.utils import exceptions as exc
    kcase = {"fields": case["fields"], "props": [], "opts": case["opts"]}
    try:
        cls = _schema_class(kcase, fresh=True)
    except exc.ConfigError as e:
        return {"config_error": str(e)[:120]}
    steps = []
    for st in case["steps"]:
        data = {k: dec(v) for k, v in st["data"]}
        ro = st["ropts"]
        shared = outcome(lambda: cls.__from__(data, _options(ro)))
        fresh = outcome(lambda: _schema_class(kcase, fresh=True).__from__(data, _options(ro)))
        tables = {f["name"]: ([[enc(data[f["name"]]), conv_field(f, data[f["name"]], ro)]] if f["name"] in data else [])
                  for f in case["fields"]}
        cadd = case["opts"].get("addition")
        names = {f["name"] for f in case["fields"]}
        add_table = [[enc(v), conv(cadd, v, {k: w for k, w in ro.items() if k != "addition"})]
                     for k, v in data.items() if k not in names] if isinstance(cadd, (dict, str)) else []
        steps.append({"out": shared, "fresh": fresh, "strict": None,
                      "probe": {"tables": tables, "add_table": add_table, "prop_tables": {}}})
    return {"steps": steps}


def _make_fn(case, opts, strict=False):
    """def f(p0: T0 = d0, ..., *args: TA, **kw: TK): return ((p0, ...), args, kw) — built from the descriptor"""
    from utype import parse
    key = ("fns:" if strict else "fn:") + _jkey([case.get("params", []), case["pos"], case["kw"], opts])
    if key in _CACHE:
        return _CACHE[key]
    ns, sig, names = {}, [], []
    for i, q in enumerate(case.get("params", [])):
        ns[f"T{i}"], ns[f"D{i}"] = ann(q["type"]), dec(q["default"])
        sig.append(f"{q['name']}: T{i} = D{i}")
        names.append(q["name"])
    if case["pos"] is not None:
        ns["TA"] = ann(case["pos"])
    if case["kw"] is not None:
        ns["TK"] = ann(case["kw"])
    sig.append("*args: TA" if case["pos"] is not None else "*args")
    sig.append("**kw: TK" if case["kw"] is not None else "**kw")
    src = f"def f({', '.join(sig)}):\n    return (({''.join(n + ', ' for n in names)}), args, kw)\n"
    exec(src, ns)
    _CACHE[key] = parse(ns["f"], options=_options(opts))
    return _CACHE[key]


def impl_func(case):
    opts = case["opts"]
    fn = _make_fn(case, opts)
    params = case.get("params", [])
    args = [dec(a) for a in case["args"]]
    kwargs = {k: dec(v) for k, v in case["kwargs"]}
    res = {"out": outcome(lambda: fn(*args, **kwargs)), "strict": None}
    np_ = len(params)
    param_tables = [[[enc(args[i]), conv(q["type"], args[i], opts)]] if i < len(args) else [] for i, q in enumerate(params)]
    vargs = args[np_:]
    pos_table = [[enc(a), conv(case["pos"], a, opts)] for a in vargs] if case["pos"] is not None else None
    kw_table = [[enc(v), conv(case["kw"], v, opts)] for v in kwargs.values()] if case["kw"] is not None else []
    res["probe"] = {"pos_table": pos_table, "kw_table": kw_table, "param_tables": param_tables}
    pi, inv = opts.get("invalid_items", "throw"), opts.get("invalid_values", "throw")
    params_clean = all(t[0][1] is not None for t in param_tables if t)
    if pi != "preserve" and inv != "preserve" and params_clean:
        a2 = [a for a, r in zip(vargs, pos_table) if not (pi == "exclude" and r[1] is None)] if pos_table is not None else vargs
        k2 = {k: v for (k, v), r in zip(kwargs.items(), kw_table) if not (inv == "exclude" and r[1] is None)} \
            if case["kw"] is not None else kwargs
        g = _make_fn(case, {"invalid_items": "throw", "invalid_values": "throw"}, strict=True)
        res["strict"] = outcome(lambda: g(*(args[:np_] + a2), **k2))
    return res


# ------------------------------------------------------------------------------------------------
# generator (main process; pure data)
# ------------------------------------------------------------------------------------------------

GOOD = {
    "int": [1, "2", 3.0, 0, "-4", 17, None],
    "posint": [0, 3, "5", 2.0, 11],
    "str3": ["a", "bc", 7, "xyz", ""],
    "float": [1.5, "2.5", 3],
    "opt_int": [1, "2", None, 3.0, 17],
    "opt_posint": [0, "5", None, 11],
    "or_posint_str3": [3, "ab", "7", "xyz"],
    "xor_posint_str3": ["ab", "xy", "q"],
}
BAD = {
    "int": ["x", "bad", "1.2.3", "z9"],
    "posint": [-1, "-5", "x", "bad"],
    "str3": ["toolong", "abcd", 12345],
    "float": ["x", "--1", "bad"],
    "opt_int": ["x", "bad", "z9"],
    "opt_posint": [-1, "x", "-5"],
    "or_posint_str3": ["toolong", "abcd", -12345],
    "xor_posint_str3": ["toolong", "abcd", -12345],
}
NESTED = {
    "list_int": ({"list": "int"}, [[1, "2"], [], (3,), [4]], [[1, "x"], ["bad"], [None, 2]]),
    "tuple_int": ({"tuple": "int"}, [(1, "2"), (), (3,)], [("x", 1), (None,)]),
    "dict_s3_int": ({"dict": [LEAVES["str3"], "int"]}, [{"a": 1}, {"b": "2", "c": 3}, {}], [{"a": "x"}, {"toolong": 1}]),
    "pt": ({"schema": "Pt"}, [{"x": 1}, {"x": "2", "y": 3}], [{"y": 1}, {"x": "bad"}, "junk"]),
}
DISC_POOL = ({"union": ["P1", "P2"]},
             [{"kind": "p1", "x": 1}, {"kind": "p2"}, {"kind": "p2", "y": "3"}, {"kind": "p1"}],
             [{"kind": "zzz"}, {"kind": "p1", "x": "bad"}, {}, "junk", {"kind": 7}])
HASHABLE_ELEMS = ["opt_int", "opt_posint", "or_posint_str3", "xor_posint_str3", "int", "posint", "str3", "float", "tuple_int"]
ALL_ELEMS = ["opt_int", "opt_posint", "or_posint_str3", "xor_posint_str3", "int", "int", "posint", "str3", "float", "list_int", "tuple_int", "dict_s3_int", "pt", "data", "data"]


def elem_pool(name):
    if name == "disc":
        return DISC_POOL
    if name == "int_u":        # int elements whose offenders include unhashable raw values
        return "int", GOOD["int"][:6], [{"k": 1}, {"z": [1]}, "x", {"k": 1}]
    if name in NESTED:
        return NESTED[name]
    return LEAVES[name], GOOD[name], BAD[name]


def pick_distinct(rng, pool, k, used):
    out = []
    cand = [v for v in pool if _jkey(enc(v)) not in used]
    rng.shuffle(cand)
    for v in cand[:k]:
        used.add(_jkey(enc(v)))
        out.append(v)
    while len(out) < k:      # pool exhausted: repeat (sets dedupe, lists may repeat)
        out.append(rng.choice(pool))
    return out


def build_elems(rng, ename, pattern, distinct=False):
    if ename == "data":
        k = gen_kdesc(rng)
        return {"data": k}, [gen_instance(rng, k, bad_rate=0.0 if ch == "g" else 0.6) for ch in pattern]
    desc, good, bad = elem_pool(ename)
    used: set = set()
    ng, nb = pattern.count("g"), pattern.count("b")
    gs = pick_distinct(rng, good, ng, used) if distinct else [rng.choice(good) for _ in range(ng)]
    bs = pick_distinct(rng, bad, nb, used) if distinct else [rng.choice(bad) for _ in range(nb)]
    out = []
    for ch in pattern:
        out.append(gs.pop() if ch == "g" else bs.pop())
    return desc, out


def rand_pattern(rng, n=None, maxbad=3):
    n = rng.choice([0, 1, 2, 2, 3, 3, 4, 5, 5, 7]) if n is None else n
    nb = min(n, rng.choice([0, 1, 1, 2, 2, 3]))
    nb = min(nb, maxbad)
    pos = set(rng.sample(range(n), nb)) if n else set()
    return "".join("b" if i in pos else "g" for i in range(n))


def rand_opts(rng):
    return {"invalid_items": rng.choice(POLICIES), "invalid_keys": rng.choice(POLICIES), "invalid_values": rng.choice(POLICIES)}


def gen_seq(rng, kind=None, pattern=None, opts=None, via=None, ename=None, form=None, cons="?", union=None):
    kind = kind or rng.choice(SEQ_KINDS)
    ename = ename or rng.choice(HASHABLE_ELEMS if kind in ("set", "frozenset") else ALL_ELEMS)
    pattern = rand_pattern(rng) if pattern is None else pattern
    edesc, elems = build_elems(rng, ename, pattern, distinct=kind in ("set", "frozenset"))
    form = form or (kind if rng.random() < 0.8 else rng.choice(["list", "tuple"]))
    hashable = ename in HASHABLE_ELEMS
    if form in ("set", "frozenset") and not hashable:
        form = "list"
    value = {"list": list, "tuple": tuple, "set": set, "frozenset": frozenset}[form](elems)
    tdesc = {kind: edesc}
    if cons == "?":
        cons = None
        if rng.random() < 0.18:
            cons = rng.choice([{"min_length": rng.choice([1, 2, 3])}, {"max_length": rng.choice([1, 2, 3, 4])},
                               {"min_length": 1, "max_length": rng.choice([2, 3])}, {"unique_items": True}])
    if cons:
        tdesc.update(cons)
    if union is None:
        union = not cons and form == kind and rng.random() < 0.2
    if union:
        tdesc = {"opt": tdesc}      # the container is a condition of a union: Optional[List[T]]
    return {"op": "container", "type": tdesc, "opts": opts or rand_opts(rng),
            "via": via or rng.choice(["rule", "rule", "rule", "schema", "func"]), "value": enc(value),
            "pattern": pattern}


KEY_TYPES = ["int", "posint", "str3"]
VAL_TYPES = ["int", "str3", "posint", None, "list_int", "pt", "opt_int", "opt_posint", "or_posint_str3"]


def gen_map(rng, entries=None, opts=None, via=None, kname=None, vname="?", union=None):
    kname = kname or rng.choice(KEY_TYPES)
    vname = rng.choice(VAL_TYPES) if vname == "?" else vname
    if entries is None:
        n = rng.choice([0, 1, 2, 2, 3, 3, 4, 5])
        entries = [rng.choice(["gg", "gg", "gg", "bg", "gb", "bb"]) for _ in range(n)]
        while sum(e != "gg" for e in entries) > 3:
            entries[next(i for i, e in enumerate(entries) if e != "gg")] = "gg"
    kdesc, keys = build_elems(rng, kname, "".join(e[0] for e in entries), distinct=True)
    if vname is None:
        vdesc, vals = None, [rng.choice([1, "v", None]) for _ in entries]
    else:
        vdesc, vals = build_elems(rng, vname, "".join(e[1] for e in entries))
    pairs = []
    seen = set()
    for k, v in zip(keys, vals):
        try:
            if k in seen:
                continue
        except TypeError:
            continue
        seen.add(k)
        pairs.append([enc(k), enc(v)])
    tdesc = {"dict": [kdesc, vdesc]}
    if union is None:
        union = rng.random() < 0.2
    if union:
        tdesc = {"opt": tdesc}
    elif rng.random() < 0.1:
        tdesc.update(rng.choice([{"min_length": 2}, {"max_length": 2}]))
    return {"op": "container", "type": tdesc, "opts": opts or rand_opts(rng),
            "via": via or rng.choice(["rule", "rule", "rule", "schema", "func"]), "value": {"d": pairs},
            "pattern": ",".join(entries)}


def gen_tuple_fixed(rng, opts=None):
    n = rng.choice([1, 2, 2, 3])
    names = [rng.choice(["int", "posint", "str3"]) for _ in range(n)]
    m = rng.choice([n, n, n, n - 1, n + 1, n + 2])
    pat = rand_pattern(rng, max(m, 0))
    vals = []
    for i, ch in enumerate(pat):
        nm = names[i] if i < n else "int"
        vals.append(rng.choice(GOOD[nm] if ch == "g" else BAD[nm]))
    o = opts or rand_opts(rng)
    o = dict(o)
    add = rng.choice([None, None, True, False, "int", "int", LEAVES["posint"]])
    if add is not None:
        o["addition"] = add
    return {"op": "container", "type": {"tuple_fixed": [LEAVES[x] for x in names]}, "opts": o, "via": "rule",
            "value": enc(tuple(vals)), "pattern": pat}


def gen_field(rng, name, shape=None, on_error="?", tname=None, deps=None, req=None):
    """shape: required | optional | default | modereq (required='w'...) | modereq_default (… with a default)"""
    tname = tname or rng.choice(["int", "int", "posint", "str3", "list_int", "disc", "opt_int", "opt_posint", "or_posint_str3"])
    desc = elem_pool(tname)[0]
    shape = shape or rng.choice(["required", "optional", "default", "default", "modereq", "modereq_default"])
    has_default = shape in ("default", "modereq_default")
    if req is None:
        req = True if shape == "required" else (rng.choice(["r", "w", "rw", "a"]) if shape.startswith("modereq") else False)
    f = {"name": name, "type": desc, "tname": tname, "req": req, "has_default": has_default, "default": None,
         "deps": list(deps or [])}
    if tname == "disc":
        f["disc"] = "kind"
    if has_default:
        f["default"] = enc({"int": rng.choice([7, 9]), "posint": rng.choice([7, 9]), "str3": "dd", "disc": None, "opt_int": None,
                            "opt_posint": 4, "or_posint_str3": "dd", "xor_posint_str3": "dd"}.get(tname, [9]))
    oe = rng.choice([None, None, "throw", "exclude", "preserve"]) if on_error == "?" else on_error
    if oe == "exclude" and req:
        oe = None       # Field() itself refuses a (mode-)required field with on_error='exclude'
    f["on_error"] = oe
    return f


FIELD_NAMES = ["a", "b", "c", "d"]


class DiscRaw(str):
    """a literal string VALUE passed where gen_schema expects a presence word"""


def gen_kdesc(rng, names=None, inv=None, dfs=None, shapes=None, tnames=None):
    """a data class {"fields", "props", "opts"} to be nested: it reuses the field names of its parent / siblings and is
    parsed under its OWN options"""
    names = names or FIELD_NAMES[: rng.choice([1, 2, 2, 3])]
    fields = []
    for i, nm in enumerate(names):
        shape = shapes[i] if shapes else rng.choice(["required", "optional", "default", "default"])
        tn = tnames[i] if tnames else rng.choice(["int", "posint", "str3"])
        fields.append(gen_field(rng, nm, shape=shape, on_error=None if shapes else "?", tname=tn))
    opts = {"invalid_values": inv or rng.choice(POLICIES), "invalid_items": rng.choice(POLICIES),
            "data_first_search": rng.choice([True, False]) if dfs is None else dfs}
    return {"fields": fields, "props": [], "opts": opts}


def gen_instance(rng, kdesc, bad_rate=0.3, pattern=None):
    """input for a class descriptor: {name: value}; pattern: per field 'absent' | 'good' | 'bad'"""
    out = {}
    for i, f in enumerate(kdesc["fields"]):
        if pattern is not None:
            pr = pattern[i]
        else:
            r = rng.random()
            pr = "bad" if r < bad_rate else ("absent" if r < bad_rate + 0.2 else "good")
        if pr == "absent":
            continue
        out[f["name"]] = field_value(rng, f, pr == "good")
    return out


def field_value(rng, f, good):
    if f.get("kdesc"):
        if good:
            v = [gen_instance(rng, f["kdesc"], bad_rate=0.0) for _ in range(rng.choice([1, 2]))] if f.get("listof") \
                else gen_instance(rng, f["kdesc"], bad_rate=0.0)
        else:
            v = [gen_instance(rng, f["kdesc"], bad_rate=0.5) for _ in range(rng.choice([1, 2, 3]))] if f.get("listof") \
                else rng.choice([gen_instance(rng, f["kdesc"], bad_rate=0.6), "zz"])
        return v
    _, g, b = elem_pool(f["tname"])
    return rng.choice(g if good else b)


def gen_data_field(rng, name, kdesc, listof=False, shape="optional", on_error=None):
    f = gen_field(rng, name, shape=shape, on_error=on_error, tname="int")
    f.update(type={"list": {"data": kdesc}} if listof else {"data": kdesc}, tname="data", kdesc=kdesc, listof=listof)
    if f["has_default"]:
        f.update(has_default=False, default=None)
    return f


def gen_schema(rng, fields=None, presence=None, extras=None, opts=None, props=None, prop_oe="?", order=None):
    if fields is None:
        names = FIELD_NAMES[: rng.choice([1, 2, 2, 3, 4])]
        fields = []
        for nm in names:
            others = [o for o in names if o != nm]
            deps = rng.sample(others, rng.choice([1, 1, 2]) if len(others) > 1 else 1) \
                if others and rng.random() < 0.35 else []
            if rng.random() < 0.22:
                # a field of data-class type (or a list of them) whose class reuses this class's field names
                fields.append(gen_data_field(rng, nm, gen_kdesc(rng), listof=rng.random() < 0.4,
                                             shape=rng.choice(["optional", "required"])))
            else:
                fields.append(gen_field(rng, nm, deps=deps))
    if opts is None:
        opts = {"invalid_values": rng.choice(POLICIES), "invalid_items": rng.choice(POLICIES),
                "data_first_search": rng.choice([True, False])}
        m = rng.choice([None, None, "r", "w", "w", "a"])
        if m:
            opts["mode"] = m
        r = rng.random()
        if r < 0.08:
            opts["ignore_required"] = True
        elif r < 0.12:
            opts["force_default"] = enc(rng.choice([5, "fd"]))
        add = rng.choice(["none", "none", True, False, "int", "str3"])
        if add != "none":
            opts["addition"] = LEAVES.get(add, add) if isinstance(add, str) else add
    data = []
    presence = presence or [rng.choice(["absent", "good", "good", "bad", "bad"]) for _ in fields]
    for f, pr in zip(fields, presence):
        if pr == "absent" and not isinstance(pr, DiscRaw):
            continue
        lit = isinstance(pr, (dict, list, DiscRaw))
        data.append([f["name"], enc((str(pr) if isinstance(pr, DiscRaw) else pr) if lit else field_value(rng, f, pr == "good"))])
    if extras is None:
        extras = [rng.choice(["good", "bad"]) for _ in range(rng.choice([0, 0, 1, 2]))]
    add = opts.get("addition")
    aname = "int" if add in (None, True, False) else next(k for k, v in LEAVES.items() if v == add)
    for i, ex in enumerate(extras):
        data.append([f"x{i}", enc(rng.choice(GOOD[aname] if ex == "good" else BAD[aname]))])
    if order is not None:
        data.sort(key=lambda kv: order.index(kv[0]) if kv[0] in order else 99)
    else:
        rng.shuffle(data)
    if props is None:
        props = [rng.choice(["good", "bad", "bad"]) for _ in range(rng.choice([0, 0, 0, 1, 2]))]
        if "force_default" in opts:
            props = []      # fragment boundary: force_default is also applied to @property fields (a setter-less
            #                 property then fails in set_attributes with a bare TypeError) - not this property's business
    plist = []
    for i, pr in enumerate(props):
        tn = rng.choice(["int", "posint", "str3", "int", None])
        pool = elem_pool(tn or "int")
        plist.append({"name": f"p{i}", "type": pool[0] if tn else None,
                      "on_error": rng.choice([None, None, "throw", "exclude", "preserve"]) if prop_oe == "?" else prop_oe,
                      "raw": enc(rng.choice(pool[1] if pr == "good" else pool[2]))})
    pat = ",".join(p if isinstance(p, str) and not isinstance(p, DiscRaw) else "v" for p in presence)
    return {"op": "schema", "fields": fields, "props": plist, "opts": opts, "data": data,
            "pattern": pat + "|" + ",".join(extras) + "|" + ",".join(props)}


RUN_KINDS = {
    "plain": {},
    "ignore": {"ignore_required": True},
    "force": {"force_default": {"i": "5"}},
    "mode_w": {"mode": "w"},
    "mode_r": {"mode": "r"},
}


def gen_sequence(rng, fields=None, kinds=None, patterns=None, dfs=None, invs=None, addition="?", cinv=None,
                 radds=None, xpats=None):
    """several parses of ONE declared class with differing running options (`Cls.__from__(data, Options(...))`)"""
    if fields is None:
        fields = [gen_field(rng, nm, shape=rng.choice(["required", "required", "default", "optional", "modereq",
                                                        "modereq_default"]),
                            on_error=rng.choice([None, None, "preserve", "throw"]), tname=rng.choice(["int", "posint", "str3"]))
                  for nm in FIELD_NAMES[: rng.choice([1, 2, 2, 3])]]
    kinds = kinds or [rng.choice(list(RUN_KINDS)) for _ in range(rng.choice([2, 2, 3, 4]))]
    copts = {"invalid_values": cinv or rng.choice(POLICIES), "data_first_search": rng.choice([True, False])}
    if addition == "?":
        addition = rng.choice([None, None, "int", "str3"])
    if addition:
        copts["addition"] = LEAVES[addition]        # typed extra keys, declared at class level
    steps = []
    for i, kd in enumerate(kinds):
        ro = dict(RUN_KINDS[kd])
        # call-level options REPLACE the class's: policy (and whether extra keys are taken) may differ from the declaration
        ro["invalid_values"] = invs[i] if invs else rng.choice(["exclude", "exclude", "throw", "preserve"])
        ro["data_first_search"] = rng.choice([True, False]) if dfs is None else dfs
        if addition:
            ra = radds[i] if radds else rng.choice([True, True, True, None, False])
            if ra is not None:
                ro["addition"] = ra
        pat = patterns[i] if patterns else None
        data = [[k, enc(v)] for k, v in gen_instance(rng, {"fields": fields}, bad_rate=0.35, pattern=pat).items()]
        if addition:
            xp = xpats[i] if xpats else [rng.choice(["good", "bad"]) for _ in range(rng.choice([0, 1, 2]))]
            data += [[f"x{j}", enc(rng.choice(GOOD[addition] if q == "good" else BAD[addition]))] for j, q in enumerate(xp)]
            rng.shuffle(data)
        steps.append({"kind": kd, "ropts": ro, "data": data})
    return {"op": "sequence", "fields": fields, "opts": copts, "steps": steps, "pattern": "+".join(kinds)}


def gen_func(rng, opts=None, pattern=None, kwpat=None, ppat=None):
    pos = rng.choice(["int", "posint", "str3", None])
    kw = rng.choice(["int", "str3", None])
    # leading positional parameters, each with a default (parse_value's default-returning path)
    ppat = rand_pattern(rng, rng.choice([0, 0, 1, 2])) if ppat is None else ppat
    params, pargs = [], []
    for i, ch in enumerate(ppat):
        tn = rng.choice(["int", "posint", "str3"])
        params.append({"name": f"p{i}", "type": LEAVES[tn], "tname": tn, "req": False, "has_default": True,
                       "default": enc({"int": 7, "posint": 9, "str3": "dd"}[tn]), "on_error": None, "deps": []})
        pargs.append(enc(rng.choice(GOOD[tn] if ch == "g" else BAD[tn])))
    given = len(pargs) if rng.random() < 0.8 else rng.randrange(len(pargs) + 1)
    pargs = pargs[:given]
    pattern = rand_pattern(rng) if pattern is None else pattern
    args = []
    if given == len(params):            # *args can only follow when every parameter is given positionally
        for ch in pattern:
            nm = pos or "int"
            args.append(enc(rng.choice(GOOD[nm] if ch == "g" else BAD[nm])))
    kwpat = kwpat if kwpat is not None else rand_pattern(rng, rng.choice([0, 1, 2, 3]))
    kwargs = []
    for i, ch in enumerate(kwpat):
        nm = kw or "int"
        kwargs.append([f"k{i}", enc(rng.choice(GOOD[nm] if ch == "g" else BAD[nm]))])
    o = opts or {"invalid_items": rng.choice(POLICIES), "invalid_values": rng.choice(POLICIES)}
    return {"op": "func", "params": params, "pos": LEAVES.get(pos) if pos else None, "kw": LEAVES.get(kw) if kw else None,
            "opts": o, "args": pargs + args, "kwargs": kwargs, "pattern": ppat + "/" + pattern + "|" + kwpat}


def gen_case(rng):
    r = rng.random()
    if r < 0.36:
        return gen_seq(rng)
    if r < 0.58:
        return gen_map(rng)
    if r < 0.80:
        return gen_schema(rng)
    if r < 0.88:
        return gen_func(rng)
    if r < 0.94:
        return gen_sequence(rng)
    return gen_tuple_fixed(rng)


def placements(n, maxbad=3):
    for k in range(0, min(n, maxbad) + 1):
        for pos in itertools.combinations(range(n), k):
            yield "".join("b" if i in pos else "g" for i in range(n))


def all_opts():
    for a, b, c in itertools.product(POLICIES, repeat=3):
        yield {"invalid_items": a, "invalid_keys": b, "invalid_values": c}


def exhaustive_cases(rng, tier):
    out = []
    maxlen = 4 if tier == "quick" else 6
    for kind in SEQ_KINDS:
        for n in range(0, maxlen + 1):
            for pat in placements(n):
                if tier == "quick":
                    for pol in POLICIES:
                        o = {"invalid_items": pol, "invalid_keys": rng.choice(POLICIES), "invalid_values": rng.choice(POLICIES)}
                        out.append(gen_seq(rng, kind=kind, pattern=pat, opts=o, via="rule", ename="int", form=kind, cons=None, union=False))
                else:
                    for o in all_opts():
                        out.append(gen_seq(rng, kind=kind, pattern=pat, opts=o, via="rule",
                                           ename=rng.choice(["int", "posint", "str3"]), form=kind, cons=None, union=False))
    # a container that is a condition of a union (Optional[...]): every kind x placement x policy x entry route; the
    # elements include values that convert only leniently ('2' for int) - not offending, so they must be converted
    for kind in SEQ_KINDS:
        for n in range(0, 4):
            for pat in placements(n, 2):
                for pol in POLICIES:
                    for via in ["rule", "schema"]:
                        o = {"invalid_items": pol, "invalid_keys": rng.choice(POLICIES), "invalid_values": "throw"}
                        out.append(gen_seq(rng, kind=kind, pattern=pat, opts=o, via=via, ename=rng.choice(["int", "posint", "float"]),
                                           form=kind, cons=None, union=True))
    for ent in itertools.product(["gg", "bg", "gb"], repeat=2):
        for pk in POLICIES:
            for pv in POLICIES:
                o = {"invalid_items": "throw", "invalid_keys": pk, "invalid_values": pv}
                out.append(gen_map(rng, entries=list(ent), opts=o, via="rule", kname="int", vname="int", union=True))
    # element / value / field types that are themselves unions: an offending one placed BEFORE valid (constrained) siblings
    for kind in SEQ_KINDS:
        for en in ["opt_int", "opt_posint", "or_posint_str3", "xor_posint_str3"]:
            for pat in ["bg", "bgg", "gbg", "bbg", "gb"]:
                for pol in POLICIES:
                    for via in ["rule", "schema"]:
                        o = {"invalid_items": pol, "invalid_keys": "throw", "invalid_values": "throw"}
                        out.append(gen_seq(rng, kind=kind, pattern=pat, opts=o, via=via, ename=en, form=kind, cons=None, union=False))
    for vn in ["opt_int", "opt_posint", "or_posint_str3", "xor_posint_str3"]:
        for ent in [["gb", "gg"], ["gb", "gg", "gg"], ["gg", "gb", "gg"], ["gb", "gb", "gg"]]:
            for pk in ["throw", "exclude"]:
                for pv in ["exclude", "preserve"]:
                    for via in ["rule", "schema"]:
                        o = {"invalid_items": "throw", "invalid_keys": pk, "invalid_values": pv}
                        out.append(gen_map(rng, entries=list(ent), opts=o, via=via, kname="posint", vname=vn, union=False))
    for tn in ["opt_int", "opt_posint", "or_posint_str3", "xor_posint_str3"]:
        for shape in ["optional", "default"]:
            for inv in POLICIES:
                for oe in [None, "exclude", "preserve"]:
                    for dfs in [True, False]:
                        fa = gen_field(rng, "a", shape=shape, on_error=oe, tname=tn)
                        fb = gen_field(rng, "b", shape="required", on_error=None, tname="str3")
                        fc = gen_field(rng, "c", shape="default", on_error=None, tname="list_int")
                        out.append(gen_schema(rng, fields=[fa, fb, fc], presence=["bad", "good", "good"], extras=[],
                                              opts={"invalid_values": inv, "invalid_items": "throw", "data_first_search": dfs},
                                              props=[], order=["a", "b", "c"]))
    # containers with validators of their own (min_length / max_length) x placements x the three item policies
    for kind in ["list", "tuple", "set"]:
        for cons in [{"min_length": 2}, {"min_length": 3}, {"max_length": 1}, {"max_length": 2}]:
            for n in range(0, 4):
                for pat in placements(n, 2):
                    for pol in POLICIES:
                        o = {"invalid_items": pol, "invalid_keys": "throw", "invalid_values": "throw"}
                        out.append(gen_seq(rng, kind=kind, pattern=pat, opts=o, via="rule", ename="int", form=kind, cons=cons))
    # unique_items (a validator that compares the items) with raw offenders that are unhashable
    for kind in ["list", "tuple"]:
        for n in range(1, 4):
            for pat in placements(n, 2):
                for pol in POLICIES:
                    o = {"invalid_items": pol, "invalid_keys": "throw", "invalid_values": "throw"}
                    out.append(gen_seq(rng, kind=kind, pattern=pat, opts=o, via="rule", ename="int_u", form=kind,
                                       cons={"unique_items": True}))
    # a discriminated field x shape x on_error x policy x strategy x value
    for shape in ["optional", "default", "required"]:
        for oe in [None, "throw", "exclude", "preserve"]:
            if shape == "required" and oe == "exclude":
                continue
            for inv in POLICIES:
                for dfs in [True, False]:
                    for val in DISC_POOL[1][:2] + DISC_POOL[2]:
                        f = gen_field(rng, "a", shape=shape, on_error=oe, tname="disc")
                        g = gen_field(rng, "b", shape="default", on_error=None, tname="int")
                        out.append(gen_schema(rng, fields=[f, g],
                                              presence=[DiscRaw(val) if isinstance(val, str) else val, "good"],
                                              extras=[], opts={"invalid_values": inv, "data_first_search": dfs}, props=[]))
    # mappings: every entry shape sequence with <=3 bad entries, all 27 combinations
    maxent = 3 if tier == "quick" else 4
    for n in range(0, maxent + 1):
        for ent in itertools.product(["gg", "bg", "gb", "bb"], repeat=n):
            if sum(e != "gg" for e in ent) > 3:
                continue
            for o in all_opts():
                if tier == "quick" and o["invalid_items"] != "throw":
                    continue
                out.append(gen_map(rng, entries=list(ent), opts=o, via="rule", kname="int", vname="int", union=False))
    # one field x every shape / on_error / presence / policy / addition / extra / strategy
    adds = ["none", True, False, "int"]
    for shape in ["required", "optional", "default"]:
        for oe in [None, "throw", "exclude", "preserve"]:
            if shape == "required" and oe == "exclude":
                continue
            for pres in ["absent", "good", "bad"]:
                for inv in POLICIES:
                    for add in adds:
                        for ex in ([[]] if add == "none" and tier == "quick" else [[], ["good"], ["bad"]]):
                            for dfs in [True, False]:
                                o = {"invalid_values": inv, "data_first_search": dfs}
                                if add != "none":
                                    o["addition"] = add
                                f = gen_field(rng, "a", shape=shape, on_error=oe, tname="int")
                                g = gen_field(rng, "b", shape="default", on_error=None, tname="int")
                                out.append(gen_schema(rng, fields=[f, g], presence=[pres, rng.choice(["absent", "good"])],
                                                      extras=ex, opts=o))
    # mode-dependent `required` (with and without a default) x Options.mode x on_error x presence x policy x strategy
    for shape in ["modereq", "modereq_default"]:
        for req in ["w", "rw"] if tier == "quick" else ["r", "w", "rw"]:
            for mode in [None, "r", "w"]:
                for oe, tn in [(None, "int"), (None, "posint"), (None, "str3"), ("throw", "int"), ("preserve", "posint")]:
                    for pres in ["absent", "good", "bad"]:
                        for inv in POLICIES:
                            for dfs in [True, False]:
                                o = {"invalid_values": inv, "data_first_search": dfs}
                                if mode:
                                    o["mode"] = mode
                                f = gen_field(rng, "a", shape=shape, on_error=oe, tname=tn, req=req)
                                g = gen_field(rng, "b", shape="optional", on_error=None, tname="int")
                                out.append(gen_schema(rng, fields=[f, g], presence=[pres, rng.choice(["absent", "good"])],
                                                      extras=[], opts=o, props=[]))
    # dependencies: a depends on b; every shape / presence / policy / strategy
    for sa in ["optional", "default"]:
        for sb in ["optional", "default", "required"]:
            for pa in ["absent", "good", "bad"]:
                for pb in ["absent", "good", "bad"]:
                    for inv in POLICIES:
                        for oe in [None, "exclude", "preserve"]:
                            for dfs in [True, False]:
                                fa = gen_field(rng, "a", shape=sa, on_error=oe, tname="int", deps=["b"])
                                fb = gen_field(rng, "b", shape=sb, on_error=None, tname=rng.choice(["int", "posint"]))
                                order = [fa, fb] if rng.random() < 0.5 else [fb, fa]
                                pres = [pa, pb] if order[0] is fa else [pb, pa]
                                out.append(gen_schema(rng, fields=order, presence=pres, extras=[],
                                                      opts={"invalid_values": inv, "data_first_search": dfs}, props=[]))
    # nested data classes that reuse a field name: parent {b, x: K, y: K2} and parent {b, lines: List[K]};
    # every order of the input keys that matters, offending / valid values of the shared name at both levels,
    # policies and strategies of parent and children independently
    for shape in ["siblings", "list"]:
        for order in (["b", "x", "y", "lines"], ["x", "y", "lines", "b"]):
            for pb in ["absent", "good", "bad"]:
                for nb in [("good", "bad"), ("bad", "good"), ("bad", "bad")]:
                    for inv_p in ["exclude", "throw"]:
                        for inv_k in POLICIES:
                            for dfs_p in [True, False]:
                                for dfs_k in [True, False]:
                                    k1 = gen_kdesc(rng, names=["a", "b"], inv=inv_k, dfs=dfs_k,
                                                   shapes=["optional", "default"], tnames=["str3", "posint"])
                                    k2 = gen_kdesc(rng, names=["a", "b"], inv=inv_k, dfs=dfs_k,
                                                   shapes=["required", "default"], tnames=["str3", "posint"])
                                    fb = gen_field(rng, "b", shape="default", on_error=None, tname="posint")
                                    i1 = gen_instance(rng, k1, pattern=[rng.choice(["good", "bad"]), nb[0]])
                                    i2 = gen_instance(rng, k2, pattern=["good", nb[1]])
                                    o = {"invalid_values": inv_p, "invalid_items": inv_p, "data_first_search": dfs_p}
                                    if shape == "siblings":
                                        fs = [fb, gen_data_field(rng, "x", k1), gen_data_field(rng, "y", k2)]
                                        pres = [pb, i1, i2]
                                    else:
                                        fs = [fb, gen_data_field(rng, "lines", k2, listof=True)]
                                        pres = [pb, [i2, gen_instance(rng, k2, pattern=["good", nb[0]])]]
                                    out.append(gen_schema(rng, fields=fs, presence=pres, extras=[], opts=o, props=[],
                                                          order=order))
    # lists of data-class elements whose class excludes: siblings must not influence each other
    for inv_k in POLICIES:
        for dfs_k in [True, False]:
            for pats in itertools.product(["good", "bad", "absent"], repeat=2 if tier == "quick" else 3):
                for pi in (["exclude", "throw"] if tier == "quick" else POLICIES):
                    k = gen_kdesc(rng, names=["a", "b"], inv=inv_k, dfs=dfs_k, shapes=["required", "default"],
                                  tnames=["int", "posint"])
                    vals = [gen_instance(rng, k, pattern=["good", p]) for p in pats]
                    out.append({"op": "container", "type": {"list": {"data": k}},
                                "opts": {"invalid_items": pi, "invalid_keys": "throw", "invalid_values": "throw"},
                                "via": "rule", "value": enc(vals), "pattern": ",".join(pats)})
    # sequences of parses of one class under differing running options (every ordered pair, and triples in thorough)
    seq_fields = lambda: [gen_field(rng, "a", shape="required", on_error=None, tname="str3"),
                          gen_field(rng, "b", shape="default", on_error=None, tname="posint"),
                          gen_field(rng, "c", shape="modereq_default", on_error=None, tname="int", req="w")]
    # typed extra keys declared at class level; the call's options carry ANOTHER invalid_values than the class's
    for cinv in POLICIES:
        for rinv in POLICIES:
            for xp in [["bad"], ["good", "bad"], ["bad", "good"]]:
                for dfs in [True, False]:
                    for add_t in ["int", "str3"]:
                        out.append(gen_sequence(rng, fields=[gen_field(rng, "a", shape="default", on_error=None, tname="int")],
                                                kinds=["plain", "plain"], patterns=[["good"], ["absent"]], dfs=dfs,
                                                invs=[rinv, cinv], addition=add_t, cinv=cinv, radds=[True, True],
                                                xpats=[xp, xp]))
    kinds = list(RUN_KINDS)
    for n in ([2] if tier == "quick" else [2, 3]):
        for ks in itertools.product(kinds, repeat=n):
            for dfs in [True, False]:
                for pat0 in [["bad", "good", "bad"], ["absent", "good", "good"], ["good", "bad", "absent"]]:
                    pats = [pat0] + [rng.choice([["bad", "good", "bad"], ["absent", "bad", "good"], ["good", "good", "bad"]])
                                     for _ in range(n - 1)]
                    out.append(gen_sequence(rng, fields=seq_fields(), kinds=list(ks), patterns=pats, dfs=dfs,
                                            invs=["exclude"] * n, addition=None))
    # one @property x on_error x invalid_values x good/bad result
    for oe in [None, "throw", "exclude", "preserve"]:
        for inv in POLICIES:
            for pr in ["good", "bad"]:
                for _ in range(2 if tier == "quick" else 6):
                    g = gen_field(rng, "b", shape="default", on_error=None, tname="int")
                    out.append(gen_schema(rng, fields=[g], presence=[rng.choice(["absent", "good"])], extras=[],
                                          opts={"invalid_values": inv, "data_first_search": rng.choice([True, False])},
                                          props=[pr], prop_oe=oe))
    # *args / **kwargs
    for n in range(0, (3 if tier == "quick" else 4) + 1):
        for pat in placements(n):
            for pi in POLICIES:
                for inv in POLICIES:
                    out.append(gen_func(rng, opts={"invalid_items": pi, "invalid_values": inv}, pattern=pat,
                                        kwpat=rng.choice(["", "g", "b", "gb", "bg"]), ppat=""))
    for ppat in ["g", "b", "gg", "gb", "bg", "bb"]:
        for pi in POLICIES:
            for inv in POLICIES:
                for pat in ["", "g", "b", "gb"]:
                    out.append(gen_func(rng, opts={"invalid_items": pi, "invalid_values": inv}, pattern=pat,
                                        kwpat=rng.choice(["", "g", "b"]), ppat=ppat))
    return out


# ------------------------------------------------------------------------------------------------
# the check
# ------------------------------------------------------------------------------------------------

def model_line(case, io):
    if case["op"] == "sequence":
        if not isinstance(io, dict) or "steps" not in io:
            return {"op": "skip"}
        return {"op": "sequence", "steps": [model_line(step_case(case, st), sio) for st, sio in zip(case["steps"], io["steps"])]}
    if not isinstance(io, dict) or "probe" not in io:
        return {"op": "skip"}
    pr, opts = io["probe"], case["opts"]
    if case["op"] == "container":
        kind, elems = top(case["type"])
        if cons_of(case["type"]) and (kind not in ("list", "tuple") or "unique_items" in cons_of(case["type"])):
            return {"op": "skip"}      # validators of sets / mappings count after Python's own dedup: not modelled
        if kind in SEQ_KINDS:
            return dict({"op": "seq", "kind": kind, "policy": opts.get("invalid_items", "throw"), "items": pr["items"],
                         "legacy": bool(case.get("legacy")), "union": is_union(case["type"]),
                         "legacy_union": bool(case.get("legacy_union"))}, **cons_of(case["type"]))
        if kind == "tuple_fixed":
            add = opts.get("addition")
            extra = "drop" if add is None else ("forbid" if add is False else ("keep" if add is True else "typed"))
            return {"op": "tuple_fixed", "policy": opts.get("invalid_items", "throw"), "xs": pr.get("xs") if "xs" in pr else None,
                    "tables": pr.get("tables", []), "extra": extra, "extra_table": pr.get("extra_table", [])}
        return {"op": "map", "pk": opts.get("invalid_keys", "throw"), "pv": opts.get("invalid_values", "throw"),
                "has_vt": elems[1] is not None, "items": pr["items"], "union": is_union(case["type"]),
                "legacy_union": bool(case.get("legacy_union"))}
    add = opts.get("addition")
    if case["op"] == "schema":
        addition = "ignore" if add is None else ("forbid" if add is False else ("keep" if add is True else "typed"))
        return {"op": "schema", "inv": opts.get("invalid_values", "throw"), "dfs": bool(opts.get("data_first_search")),
                "mode": opts.get("mode"), "legacy_deps": bool(case.get("legacy_deps")),
                "ignore_required": bool(opts.get("ignore_required")), "has_force_default": "force_default" in opts,
                "force_default": opts.get("force_default"),
                "fields": [{"name": f["name"], "req": field_req(f), "has_default": f["has_default"],
                            "default": f["default"], "on_error": f["on_error"], "deps": list(f.get("deps", [])),
                            "table": pr["tables"][f["name"]]}
                           for f in case["fields"]],
                "addition": addition, "add_table": pr["add_table"], "data": case["data"],
                "props": [{"name": q["name"], "on_error": q.get("on_error"), "table": pr["prop_tables"][q["name"]],
                           "raw": q["raw"]} for q in case.get("props", [])]}
    if case["op"] == "func":
        return {"op": "func", "pol_items": opts.get("invalid_items", "throw"), "inv": opts.get("invalid_values", "throw"),
                "pos_table": pr["pos_table"], "args": case["args"],
                "params": [{"name": q["name"], "req": False, "has_default": True, "default": q["default"], "on_error": None,
                            "deps": [], "table": t} for q, t in zip(case.get("params", []), pr.get("param_tables", []))],
                "addition": "typed" if case["kw"] is not None else "keep", "add_table": pr["kw_table"],
                "kwargs": case["kwargs"]}
    return {"op": "skip"}


def model_value(case, m):
    """encoded Python value the model's insertion log stands for"""
    if case["op"] == "container":
        kind, _ = top(case["type"])
        if kind == "dict":
            return wrap_map(m["ok"])
        return wrap_seq(kind, m["ok"])
    if case["op"] == "schema":
        return wrap_map(m["ok"], cls="S")
    return None


def offenders(case, io):
    """how many offending elements the real converters found in this case"""
    if case["op"] == "sequence":
        if not isinstance(io, dict) or "steps" not in io:
            return 0
        return sum(offenders(step_case(case, st), sio) for st, sio in zip(case["steps"], io["steps"]))
    pr = io.get("probe") if isinstance(io, dict) else None
    if not pr:
        return 0
    if case["op"] == "container":
        kind, elems = top(case["type"])
        if kind in SEQ_KINDS:
            return sum(1 for r in (pr["items"] or []) if r[1] is None)
        if kind == "dict":
            return sum((r[2] is None) + (elems[1] is not None and r[3] is None) for r in (pr["items"] or []))
        return sum(1 for t in pr.get("tables", []) for r in t if r[1] is None) + \
            sum(1 for r in pr.get("extra_table", []) if r[1] is None)
    if case["op"] == "schema":
        return sum(1 for t in pr["tables"].values() for r in t if r[1] is None) + sum(1 for r in pr["add_table"] if r[1] is None) \
            + sum(1 for t in pr.get("prop_tables", {}).values() if t is not None and t[0][1] is None)
    if case["op"] == "func":
        return sum(1 for r in (pr["pos_table"] or []) if r[1] is None) + sum(1 for r in pr["kw_table"] if r[1] is None) \
            + sum(1 for t in pr.get("param_tables", []) if t and t[0][1] is None)
    return 0


def field_preserves(case):
    """a container reached through a Schema field / function parameter is one more level: the field"""
    return case["op"] == "container" and case.get("via") in ("schema", "func") and \
        case["opts"].get("invalid_values") == "preserve"


def put_back(items, rs):
    """offenders of `items` (rows [raw, conv]) back into the strict result `rs` at their positions"""
    out, rs = [], list(rs)
    for raw, c in items:
        if c is None:
            out.append(raw)
        elif rs:
            out.append(rs.pop(0))
    return out


class C11(Check):
    prop = "C11"
    props_modules = ["Utv.Props.C11"]
    driver = "C11"
    impl = "harness.c11:impl"
    case_timeout = 20.0
    rule = ("containers List/Set/FrozenSet/Tuple[T,...]/Tuple[A,B]/Dict[K,V] over leaf, constrained, nested and data-class "
            "element types, data classes (1-4 fields: required True/False/'r'/'w'/'rw' x default x Options.mode x dependencies x on_error x addition None/True/False/type x "
            "both lookup strategies), and *args/**kwargs functions, each under random 3x3x3 policy combinations with 0-3 "
            "offending elements at random positions, reached through type_transform, a Schema field or a @parse function; "
            "plus exhaustive placements (quick: len<=4; thorough: every placement of <=3 offenders in len<=6 x all 27 "
            "combinations, every <=4-entry mapping shape x 27, the full one-field grid). non-trivial = the real converters "
            "found >=1 offending element in the case; distinct by (kind/type, policies, entry route, offender placement "
            "as measured on the real code, input).  Round 2: nested data classes declared from descriptors (field of "
            "data-class type, List of them, container elements; own options per class; shared field names), recursive "
            "metamorphic oracle, and `sequence` cases: 2-4 parses of ONE class under differing running options "
            "(ignore_required / force_default / mode / policy / strategy), each compared with the same parse on a "
            "freshly declared class.  Review round: containers with validators of their own (min_length / max_length / "
            "unique_items, incl. unhashable raw offenders; sets and mappings oracle-only), discriminated fields "
            "(Field(discriminator=...) over Union[P1, P2]) x shape x on_error x policy x strategy; the `preserve` sentence "
            "is demanded whenever the strict parse of the input without the preserved offenders succeeds.  Round 4: "
            "containers as a condition of a union (Optional[...] of every kind) with elements that convert only leniently; "
            "sequences whose call-level options (invalid_values, addition) differ from the class-level ones, with typed "
            "extra keys")
    assumptions = [
        "element/key/value/field converters are abstract in the theorems; in T2 they are sampled from the real code by parsing each element in isolation under the same options",
        "fail-fast parsing (collect_errors=False), no max_depth, fields without alias/no_input/field-level mode= (mode-dependent required, defaults and dependencies are modelled): outside this fragment the model does not speak",
        "the dict/set built from the model's insertion log is constructed by CPython in the harness",
        "nested data classes are parsed under their own __options__; force_default is not combined with @property outputs",
    ]
    budget = {"quick": 5000, "thorough": 100000}
    search_budget = {"quick": 4000, "thorough": 30000}

    def cases(self, tier, rng, n):
        out = []
        if tier in ("quick", "thorough"):
            out += exhaustive_cases(rng, tier)
        out += [gen_case(rng) for _ in range(n)]
        return out

    # the model needs the converter tables measured by the adapter: run the adapter first
    def evaluate(self, cases):
        impl_outs = run_impl(self.impl, cases, self.case_timeout, extra_env=self.impl_env)
        model_outs = run_driver(self.driver, [model_line(c, io) for c, io in zip(cases, impl_outs)])
        return impl_outs, model_outs

    def compare(self, case, io, mo):
        if "config_error" in io:
            return None
        if case["op"] == "sequence":
            if not isinstance(mo, dict) or "model" not in mo:
                return f"driver: {mo}"
            for i, (st, sio) in enumerate(zip(case["steps"], io["steps"])):
                why = self.compare(step_case(case, st), sio, {"model": mo["model"][i], "spec": mo["spec"][i]})
                if why:
                    return f"step {i} ({st['kind']}): {why}"
            return None
        if isinstance(mo, dict) and mo.get("skip"):
            return None
        if not isinstance(mo, dict) or "model" not in mo:
            return f"driver: {mo}"
        if "out" not in io:
            return f"impl: {io}"
        out, m = io["out"], mo["model"]
        if mo.get("known_defect"):
            mo = dict(mo, spec=None)     # the theorem's right-hand side is the literal sentence the code is known to miss
        if mo.get("spec") is not None and case["op"] != "func" and mo["spec"] != m and not case.get("legacy"):
            # data-first logs differ in insertion order from the strict run; the dicts they build must agree
            same = case["op"] == "schema" and "ok" in m and "ok" in mo["spec"] and \
                canon(wrap_map(m["ok"])) == canon(wrap_map(mo["spec"]["ok"]))
            if not same and case["op"] == "container" and is_union(case["type"]) and "err" in m and "err" in mo["spec"]:
                same = True      # a union that rejects reports no item of its own
            if not same:
                return f"LEAN: model {m} differs from the theorem's right-hand side {mo['spec']}"
        if case["op"] == "func":
            ma = {k: v for k, v in m["args"].items() if k != "params"}
            np_ = len(case.get("params", []))
            param_err = "err" in ma and ma.get("i", 99) < np_        # a declared parameter raised: *args never ran
            if "err" in ma and not param_err:
                ma = dict(ma, i=ma["i"] - np_)                        # *args are numbered after the parameters
            if ma != mo["spec"]["args"] and not param_err:
                return f"LEAN: model args {ma} differ from the theorem's right-hand side {mo['spec']['args']}"
            if "err" in m["args"] or "err" in m["kwargs"]:
                return None if "err" in out else f"model raises, implementation: {out}"
            want = {"t": [{"t": m["args"]["params"]}, {"t": m["args"]["ok"]}, wrap_map(m["kwargs"]["ok"])]}
            if "ok" not in out or canon(out["ok"]) != canon(want):
                return f"model {want} implementation {out}"
            return None
        if "err" in m:
            if field_preserves(case):
                # the container is itself the value of a field (via schema / func): a failing field value
                # under invalid_values='preserve' is handed back unchanged (parseValue, field.py:1084-1086)
                return None if "ok" in out and canon(out["ok"]) == canon(case["value"]) else \
                    f"model: field-level preserve of the raw input, implementation: {out}"
            if "err" not in out:
                return f"model raises {m}, implementation: {out}"
            if case["op"] == "container" and case.get("via") == "rule" and m["err"] == "item" \
                    and top(case["type"])[0] in ("list", "tuple") and out.get("item") != m["i"]:
                return f"model reports item {m['i']}, implementation item {out.get('item')}"
            return None
        want = model_value(case, m)
        if "ok" not in out or canon(out["ok"]) != canon(want):
            return f"model {want} implementation {out}"
        return None

    # ---- the property, evaluated on what the implementation returned -----------------------------
    def spec(self, case, io, mo):
        if "config_error" in io:
            if "does not support on_error" in io["config_error"]:
                return None          # Field() itself refuses a required field with on_error='exclude'
            return f"HARNESS: the declaration of this case was rejected by utype: {io['config_error']}"
        if case["op"] == "sequence":
            for i, (st, sio) in enumerate(zip(case["steps"], io["steps"])):
                if canon(sio["out"]) != canon(sio["fresh"]):
                    return (f"step {i} ({st['kind']}, {st['ropts']}) on the class that made the earlier parses gave "
                            f"{sio['out']}, the same parse on a freshly declared class gives {sio['fresh']}")
                why = self.spec(step_case(case, st), sio, None)
                if why:
                    return f"step {i} ({st['kind']}): {why}"
            return None
        if "out" not in io:
            return f"no outcome: {io}"
        out = io["out"]
        if "escape" in out:
            return f"a {out['escape']} that is not a ParseError left the parser"
        f = {"container": self.spec_container, "schema": self.spec_schema, "func": self.spec_func}[case["op"]]
        return f(case, io, out)

    def _expect(self, out, want, what, case=None):
        """want: encoded value, or None for 'must raise'"""
        if want is None and case is not None and field_preserves(case):
            want, what = case["value"], what + " (the failing field value is preserved as a whole)"
        if want is None:
            return None if "err" in out else f"{what}: expected a ParseError, got {out}"
        if "ok" not in out:
            return f"{what}: expected {want}, got {out}"
        if canon(out["ok"]) != canon(want):
            return f"{what}: expected {want}, got {out['ok']}"
        return None

    def spec_container(self, case, io, out):
        kind, elems = top(case["type"])
        pr, opts, strict = io["probe"], case["opts"], io.get("strict")
        if kind in SEQ_KINDS:
            items, pol = pr["items"], opts.get("invalid_items", "throw")
            if items is None:
                return self._expect(out, None, "input is not convertible to the origin type", case=case)
            items = [r[:2] for r in items]
            good = [c for _, c in items if c is not None]
            nbad = len(items) - len(good)
            tdesc = case["type"]
            okc = lambda lst: cons_ok(tdesc, wrap_seq(kind, lst))   # the container's own validators
            back = [c if c is not None else r for r, c in items]
            if pol == "throw":
                want = wrap_seq(kind, good) if nbad == 0 and okc(good) else None
            elif pol == "exclude":
                want = wrap_seq(kind, good) if okc(good) else None                # strict parse of the filtered input
            elif okc(good):
                want = wrap_seq(kind, back)       # literal: the strict result of the filtered input, offenders put back
            elif not okc(back):
                want = None
            else:
                return None     # the strict parse of the filtered input is rejected by the container's validators:
                #                 the property's equation for `preserve` has no right-hand side
            why = self._expect(out, want, f"{kind} under invalid_items={pol} with {nbad} offending element(s)", case=case)
            if why or strict is None or pol == "throw":
                return why
            # metamorphic: strict parse of the input without the offenders, on the real code
            if "ok" not in strict:
                if pol == "exclude":
                    return self._expect(out, None, "strict parse of the filtered input raises, exclude does not", case=case)
                return None
            if pol == "exclude":
                return self._expect(out, strict["ok"], "exclude != strict parse of the filtered input", case=case)
            back = wrap_seq(kind, put_back(items, seq_items(strict["ok"]))) if kind in ("list", "tuple") else \
                wrap_seq(kind, seq_items(strict["ok"]) + [r for r, c in items if c is None])
            return self._expect(out, back, "preserve != strict result of the filtered input with the offenders put back", case=case)
        if kind == "tuple_fixed":
            pol = opts.get("invalid_items", "throw")
            if "xs" not in pr:
                return self._expect(out, None, "input is not convertible to tuple", case=case)
            xs, tables, n = pr["xs"], pr["tables"], len(elems)
            add = opts.get("addition")
            if pol == "exclude":
                return None      # a fixed tuple is not among the property's container kinds for 'exclude'
            if len(xs) < n or (len(xs) > n and add is False):
                return self._expect(out, None, "fixed tuple of the wrong length", case=case)
            rows = [t[0] for t in tables]
            extra = pr["extra_table"] if isinstance(add, (dict, str)) else [[x, x] for x in (xs[n:] if add is True else [])]
            allrows = rows + extra
            if pol == "throw":
                want = None if any(c is None for _, c in allrows) else wrap_seq("tuple", [c for _, c in allrows])
            else:
                want = wrap_seq("tuple", [c if c is not None else r for r, c in allrows])
            return self._expect(out, want, f"fixed tuple under invalid_items={pol}", case=case)
        # mapping
        rows = pr["items"]
        pk, pv = opts.get("invalid_keys", "throw"), opts.get("invalid_values", "throw")
        if rows is None:
            return self._expect(out, None, "input is not convertible to dict", case=case)
        has_vt = elems[1] is not None
        log, fail = [], False
        for k, v, kc, vc in (r[:4] for r in rows):
            if map_excluded(pk, pv, [k, v, kc, vc], has_vt):
                continue                                   # exactly the excluded entries disappear
            if kc is None and pk != "preserve":
                fail = True                                # an offending key under 'throw'
                break
            key = kc if kc is not None else k              # preserve: the key itself, unchanged
            if not has_vt:
                log.append([key, v])
                continue
            if vc is None and pv != "preserve":
                fail = True
                break
            log.append([key, vc if vc is not None else v])
        want = None if fail else wrap_map(log)
        if want is not None and cons_of(case["type"]):
            preserved = pk == "preserve" or pv == "preserve"
            if not cons_ok(case["type"], want):
                if preserved:
                    return None     # literal right-hand side undefined / known deviation handled for sequences
                want = None
            elif preserved:
                return None
        why = self._expect(out, want, f"mapping under invalid_keys={pk}, invalid_values={pv}", case=case)
        if why or strict is None:
            return why
        if "err" in strict:
            return self._expect(out, None, "strict parse of the filtered mapping raises but the policy parse does not", case=case)
        return self._expect(out, strict.get("ok"), "policy parse != strict parse of the mapping without the excluded entries", case=case)

    def _expect_schema(self, case, pr, opts, preserved_removed):
        """(fail, why, log) of the property's right-hand side.  preserved_removed = True: the literal sentence for
        `preserve` — strict parse of the data WITHOUT the preserved offenders, then those put back under their names;
        False: preserved offenders stay in the data as given, accepted values."""
        inv = opts.get("invalid_values", "throw")
        add = opts.get("addition")
        data = {k: v for k, v in case["data"]}
        names = {f["name"]: f for f in case["fields"]}
        log, fail, why_fail = [], False, ""
        given, demanded, putback = set(), [], {}
        for f in case["fields"]:
            nm = f["name"]
            present = nm in data
            req = is_required(f, opts)
            if present:
                raw, c = pr["tables"][nm][0]
                pol = effective(f, inv)
                if c is None and pol == "exclude" and not req:
                    present = False                        # the offending optional value is removed from the input
                elif c is None and pol == "preserve":
                    if preserved_removed:
                        putback[nm] = raw
                        present = False
                    else:
                        log.append([nm, raw])
                        given.add(nm)
                        demanded += [(nm, d) for d in f.get("deps", [])]
                        continue
                elif c is None:
                    if not fail:
                        fail, why_fail = True, f"offending value for field {nm!r} (policy {pol}, required={req})"
                    continue
                else:
                    log.append([nm, c])
                    given.add(nm)
                    demanded += [(nm, d) for d in f.get("deps", [])]
                    continue
            if not present:
                if req:
                    if not fail:
                        fail, why_fail = True, f"required field {nm!r} absent"
                elif eff_default(f, opts)[0]:
                    log.append([nm, eff_default(f, opts)[1]])
        # a field that was accepted needs the fields it depends on to be given as well; an excluded field was
        # removed from the input: it demands nothing and is not "given" for anybody else
        for nm, d in demanded:
            if d not in given and not fail:
                fail, why_fail = True, f"field {nm!r} given without its dependency {d!r}"
        if putback and not fail:
            log = [[k, v] for k, v in log if k not in putback] + [[k, v] for k, v in putback.items()]
        extras = [(k, v) for k, v in case["data"] if k not in names]
        tab = {_jkey(r): c for r, c in pr["add_table"]}
        for k, v in extras:
            if add is None:
                continue
            if add is False:
                if not fail:
                    fail, why_fail = True, f"extra key {k!r} with addition=False"
            elif add is True:
                log.append([k, v])
            else:
                c = tab.get(_jkey(v))
                if c is not None:
                    log.append([k, c])
                elif inv == "exclude":
                    continue
                elif inv == "preserve":
                    log.append([k, v])
                else:
                    if not fail:
                        fail, why_fail = True, f"offending extra key {k!r}"
        for q in case.get("props", []):
            t = pr["prop_tables"][q["name"]]
            if t is None:
                log.append([q["name"], q["raw"]])          # untyped getter: result passed through
                continue
            raw, c = t[0]
            pol = q.get("on_error") or inv
            if c is not None:
                log.append([q["name"], c])
            elif pol == "exclude":
                continue                                   # the offending computed value is left out
            elif pol == "preserve":
                log.append([q["name"], raw])
            else:
                if not fail:
                    fail, why_fail = True, f"offending @property result {q['name']!r}"
        return fail, why_fail, log

    def spec_schema(self, case, io, out):
        pr, opts = io["probe"], case["opts"]
        inv = opts.get("invalid_values", "throw")
        # the literal right-hand side: offenders of `exclude` AND of `preserve` removed, strict parse, preserved put back
        lfail, lwhy, llog = self._expect_schema(case, pr, opts, True)
        # the same with the preserved offenders counted as given values (what differs: requirements on the instance as a
        # whole - a required field, dependencies - judged with / without them)
        gfail, gwhy, glog = self._expect_schema(case, pr, opts, False)
        if not lfail:
            want, why_fail = wrap_map(llog, cls="S"), ""
        elif gfail:
            want, why_fail = None, lwhy
        else:
            return None        # the strict parse of the filtered data fails only because a preserved offender was taken
            #                    out (required field, somebody's dependency): the property's equation has no right-hand side
        why = self._expect(out, want, f"data class under invalid_values={inv}" + (f" [{why_fail}]" if why_fail else ""))
        strict = io.get("strict")
        if why or strict is None:
            return why
        if "err" in strict:
            return self._expect(out, None, "strict parse of the filtered data raises but the policy parse does not")
        return self._expect(out, strict.get("ok"), "policy parse != all-throw parse of the data without the excluded entries")

    def spec_func(self, case, io, out):
        pr, opts = io["probe"], case["opts"]
        pi, inv = opts.get("invalid_items", "throw"), opts.get("invalid_values", "throw")
        fail = False
        params, np_ = case.get("params", []), len(case.get("params", []))
        pvals = []
        for q, t in zip(params, pr.get("param_tables", [])):
            if not t:
                pvals.append(q["default"])             # not given: the parameter's default
                continue
            r, c = t[0]
            if c is not None:
                pvals.append(c)
            elif inv == "exclude":
                pvals.append(q["default"])             # excluded: as if the argument had not been given
            elif inv == "preserve":
                pvals.append(r)
            else:
                fail = True
        if pr["pos_table"] is None:
            args = list(case["args"][np_:])
        else:
            args = []
            for r, c in pr["pos_table"]:
                if c is not None:
                    args.append(c)
                elif pi == "exclude":
                    continue
                elif pi == "preserve":
                    args.append(r)
                else:
                    fail = True
        kw = []
        if case["kw"] is None:
            kw = [[k, v] for k, v in case["kwargs"]]
        else:
            for (k, v), (r, c) in zip(case["kwargs"], pr["kw_table"]):
                if c is not None:
                    kw.append([k, c])
                elif inv == "exclude":
                    continue
                elif inv == "preserve":
                    kw.append([k, v])
                else:
                    fail = True
        want = None if fail else {"t": [{"t": pvals}, {"t": args}, wrap_map(kw)]}
        why = self._expect(out, want, f"*args under invalid_items={pi}, **kwargs under invalid_values={inv}")
        strict = io.get("strict")
        if why or strict is None:
            return why
        if "err" in strict:
            return self._expect(out, None, "strict call without the offenders raises but the policy call does not")
        return self._expect(out, strict.get("ok"), "policy call != strict call without the excluded arguments")

    def classify(self, case, io, why):
        out = io.get("out", {}) if isinstance(io, dict) else {}
        if case["op"] == "container" and top(case["type"])[0] in ("set", "frozenset") and out.get("escape") == "TypeError" \
                and offenders(case, io) > 0:
            return "set-error-item"
        if case["op"] == "schema" and out.get("err") == "CollectedParseError":
            pr, inv = io.get("probe", {}), case["opts"].get("invalid_values", "throw")
            for q in case.get("props", []):
                t = pr.get("prop_tables", {}).get(q["name"])
                if t is not None and t[0][1] is None and (q.get("on_error") or inv) != "throw" \
                        and isinstance(q["type"], dict) and "c" in q["type"]:
                    return "output-error-leak"
        if case["op"] == "container" and cons_of(case["type"]) and case["opts"].get("invalid_items") == "preserve" \
                and top(case["type"])[0] in SEQ_KINDS:
            items = io.get("probe", {}).get("items") or []
            kind = top(case["type"])[0]
            good = [c for _, c in items if c is not None]
            back = [c if c is not None else r for r, c in items]
            rejected = "err" in out or (field_preserves(case) and "ok" in out and canon(out["ok"]) == canon(case["value"]))
            if len(good) < len(items) and cons_ok(case["type"], wrap_seq(kind, good)) \
                    and not cons_ok(case["type"], wrap_seq(kind, back)) and rejected:
                return "preserve-validates-whole-result"
        if case["op"] == "schema" and out.get("err") == "DependenciesAbsenceError":
            # a PRESERVED offender that declares dependencies
            pr, inv = io.get("probe", {}), case["opts"].get("invalid_values", "throw")
            data = dict(case["data"])
            for f in case["fields"]:
                t = pr.get("tables", {}).get(f["name"])
                if f["name"] in data and t and t[0][1] is None and effective(f, inv) == "preserve" and f.get("deps"):
                    return "preserve-validates-whole-result"
        if case["op"] == "schema" and any(f.get("deps") for f in case["fields"]):
            # an excluded value with a default, in a declaration with dependencies
            pr, inv = io.get("probe", {}), case["opts"].get("invalid_values", "throw")
            data = dict(case["data"])
            for f in case["fields"]:
                t = pr.get("tables", {}).get(f["name"])
                if f["name"] in data and t and t[0][1] is None and effective(f, inv) == "exclude" \
                        and f.get("has_default") and not is_required(f, case["opts"]):
                    return "excluded-default-counts-as-provided"
        return None

    def key(self, case, io):
        if offenders(case, io) == 0:
            return None
        c = {k: v for k, v in case.items() if k != "pattern"}
        return _jkey(c)

    def distribution(self, case, io):
        if isinstance(io, dict) and "config_error" in io:
            return "declaration-rejected"
        nb = offenders(case, io)
        o = case["opts"]
        if case["op"] == "container":
            kind, _ = top(case["type"])
            pol = o.get("invalid_items") if kind != "dict" else f"{o.get('invalid_keys')}+{o.get('invalid_values')}"
            return f"{kind}/{pol}/via={case.get('via')}/bad={min(nb, 3)}"
        if case["op"] == "sequence":
            return f"sequence/{case['pattern']}"[:60]
        if case["op"] == "schema":
            nested = "nested/" if any(f.get("kdesc") for f in case["fields"]) else ""
            return f"schema/{nested}{o.get('invalid_values')}/dfs={o.get('data_first_search')}/add={'type' if isinstance(o.get('addition'), (dict, str)) else o.get('addition')}/bad={min(nb, 3)}"
        return f"func/{o.get('invalid_items')}+{o.get('invalid_values')}/bad={min(nb, 3)}"

    def neighbours(self, case, rng):
        out = []
        for o in all_opts():
            out.append(dict(case, opts=dict(case["opts"], **o)))
        if case["op"] == "container":
            for via in ("rule", "schema", "func"):
                out.append(dict(case, via=via))
            kind, _ = top(case["type"])
            items = seq_items(case["value"]) if kind != "dict" else case["value"].get("d")
            if items:
                tag = next(k for k in case["value"] if k in ("l", "t", "S", "F", "d"))
                for i in range(len(items)):
                    out.append(dict(case, value={tag: items[:i] + items[i + 1:]}))
        if case["op"] == "sequence":
            st = case["steps"]
            out = [dict(case, steps=st[:i] + st[i + 1:]) for i in range(len(st))] + [dict(case, steps=st[::-1])]
            return out
        if case["op"] == "schema":
            for i in range(len(case["data"])):
                out.append(dict(case, data=case["data"][:i] + case["data"][i + 1:]))
        return out

    def finish_evidence(self, ev, tier):
        ev["coverage"]["exhaustive"] = False
        ev["coverage"]["exhaustive_part"] = (
            "every placement of <=3 offenders in sequences of length <=%d for list/set/frozenset/Tuple[T,...] x %s; every "
            "mapping of <=%d entries over {ok, bad key, bad value, both} x 27 policy combinations; one-field data classes "
            "over shape x on_error x presence x invalid_values x addition x extra key x lookup strategy; *args placements"
            % ((4, "3 item policies", 3) if tier == "quick" else (6, "all 27 policy combinations", 4)))


CHECK = C11()
