"""C16 — converter resolution is a pure function of the registration history.

Correspondence: the same register/resolve history runs on a real `TypeRegistry` (fresh, or the
library's global transformer registry with its state restored afterwards) and on the Lean model
`Utv.C16.run`; every resolve answer is compared.  Oracle for the search: `spec_run` below, an
independent Python rendering of `Utv.C16.specRun`.
"""
from __future__ import annotations

import itertools
import json
import random

from .common import Check

NCLS = 8          # class ids 0..7
ATTRS = ["x", "y"]


def _world():
    """The real class hierarchy the histories talk about (built inside the worker)."""
    class M(type):
        pass

    class A:  # 0
        pass

    class B(A):  # 1
        x = 1

    class C(B):  # 2
        pass

    class D(A, metaclass=M):  # 3
        y = 2

    class E(D):  # 4
        pass

    class F:  # 5
        pass

    class G(C, F):  # 6   diamond-ish: subclass of A,B,C,F
        pass

    class H(F):  # 7   carries a shortcut converter
        pass

    return [A, B, C, D, E, F, G, H], [M]


def _custom_detectors(classes):
    A, B, C, D, E, F, G, H = classes

    def d0(c):
        if c is F:
            raise TypeError("no")
        return issubclass(c, B)

    def d1(c):
        if c in (A, E):
            raise ValueError("no")
        return c in (D, G)

    def d2(c):
        return True

    return [d0, d1, d2]


def build_tables():
    classes, metas = _world()
    dets = _custom_detectors(classes)
    t = {"issub": [], "isinst": [], "hasattr": [], "custom": []}
    for i, c in enumerate(classes):
        for j, k in enumerate(classes):
            if issubclass(c, k):
                t["issub"].append([i, j])
        for j, m in enumerate(metas):
            if isinstance(c, m):
                t["isinst"].append([i, j])
        for j, a in enumerate(ATTRS):
            if hasattr(c, a):
                t["hasattr"].append([i, j])
        for k, d in enumerate(dets):
            try:
                v = 1 if d(c) else 0
            except (TypeError, ValueError):
                v = 2
            t["custom"].append([k, i, v])
    return t


def impl(case):
    """Run the history on the real TypeRegistry."""
    from utype.utils.base import TypeRegistry
    from utype.utils.transform import TypeTransformer

    classes, metas = _world()
    dets = _custom_detectors(classes)
    fns = {}

    def fn(n):
        if n not in fns:
            def f(*a, _n=n, **k):
                return ("conv", _n)
            f.fid = n
            fns[n] = f
        return fns[n]

    shortcut = dict(map(tuple, case.get("shortcut", [])))
    mode = case.get("mode", "fresh")
    saved = None
    if mode == "global":
        reg = TypeTransformer.registry
        saved = (list(reg._registry), dict(reg._cache))
        attr = reg.shortcut
    else:
        base = None
        if case.get("base"):
            base = TypeRegistry("base", default=fn(case["base"]["default"]) if case["base"].get("default") is not None else None)
            for r in case["base"]["regs"]:
                base.register(*[classes[i] for i in r["classes"]], allow_subclasses=r["sub"], priority=r["prio"])(fn(r["fn"]))
        reg = TypeRegistry("t", base=base, cache=case["cache"], shortcut="__conv__",
                           default=fn(case["default"]) if case.get("default") is not None else None)
        attr = "__conv__"
    try:
        for t, f in shortcut.items():
            setattr(classes[t], attr, staticmethod(fn(f)) if f >= 0 else 5)   # f < 0: a non-callable attribute
        outs = []
        for op in case["ops"]:
            if "res" in op:
                r = reg.resolve(classes[op["res"]])
                outs.append(getattr(r, "fid", None) if r is not None else None)
                if r is not None and not hasattr(r, "fid"):
                    outs[-1] = -1   # one of the library's own converters
            elif "conv" in op:
                # conversion through the public entry point (global mode only)
                from utype import type_transform
                try:
                    r = type_transform(object(), classes[op["conv"]])
                    outs.append(r[1] if isinstance(r, tuple) and r and r[0] == "conv" else -1)
                except Exception:
                    outs.append(None)
            else:
                r = op["reg"]
                kw = {}
                if r.get("custom") is not None:
                    kw["detector"] = dets[r["custom"]]
                    cl = []
                else:
                    cl = [classes[i] for i in r["classes"]]
                    kw["allow_subclasses"] = r["sub"]
                    if r.get("meta") is not None:
                        kw["metaclass"] = metas[r["meta"]]
                    if r.get("attr") is not None:
                        kw["attr"] = ATTRS[r["attr"]]
                reg.register(*cl, priority=r["prio"], **kw)(fn(r["fn"]))
        return {"outs": outs}
    finally:
        if saved is not None:
            reg._registry[:] = saved[0]
            reg._cache.clear()
            reg._cache.update(saved[1])


# ---- specification (Python rendering of Utv.C16.specRun), the oracle for the real code -----------

def det_matches(tables, r, t):
    if r.get("custom") is not None:
        return [r["custom"], t, 1] in tables["custom"]
    cs = r["classes"]
    if cs:
        if r["sub"]:
            if not any([t, c] in tables["issub"] for c in cs):
                return False
        elif t not in cs:
            return False
    if r.get("meta") is not None and [t, r["meta"]] not in tables["isinst"]:
        return False
    if r.get("attr") is not None and [t, r["attr"]] not in tables["hasattr"]:
        return False
    return True


def spec_run(case, tables):
    regs = []
    outs = []
    shortcut = {t: f for t, f in case.get("shortcut", []) if f >= 0}
    fallback = dict(map(tuple, case.get("fallback", [])))
    for op in case["ops"]:
        if "reg" in op:
            regs.append(op["reg"])
            continue
        t = op["res"] if "res" in op else op["conv"]
        if t in shortcut:
            outs.append(shortcut[t])
            continue
        best = None
        for r in regs:
            if det_matches(tables, r, t) and (best is None or r["prio"] >= best["prio"]):
                best = r
        outs.append(best["fn"] if best else fallback.get(t))
    return outs


_TABLES = None


def tables():
    global _TABLES
    if _TABLES is None:
        _TABLES = build_tables()
    return _TABLES


def fallback_for(case):
    """base.resolve(t) / default for every class, from the spec of the (fixed) base history."""
    fb = {}
    if case.get("mode") == "global":
        return []
    for t in range(NCLS):
        v = None
        if case.get("base"):
            sub = {"ops": [{"reg": dict(r, custom=None)} for r in case["base"]["regs"]] + [{"res": t}]}
            v = spec_run(sub, tables())[0]
            if v is None:
                v = case["base"].get("default")
        elif v is None:
            # base.py:104-107: with a base registry the lookup is delegated entirely; own default only without one
            v = case.get("default")
        if v is not None:
            fb[t] = v
    return [[t, f] for t, f in fb.items()]


def gen_reg(rng, fn):
    r = {"fn": fn, "prio": rng.choice([0, 0, 0, 0, 1, 1, 2, -1, 5])}
    k = rng.random()
    if k < 0.12:
        r.update(custom=rng.randrange(3), classes=[], sub=True)
        return r
    ncl = rng.choice([0, 1, 1, 1, 1, 2])
    r["classes"] = rng.sample(range(NCLS), ncl)
    r["sub"] = rng.random() < 0.7
    r["meta"] = 0 if rng.random() < (0.6 if ncl == 0 else 0.1) else None
    r["attr"] = rng.randrange(2) if rng.random() < (0.6 if ncl == 0 else 0.1) else None
    if ncl == 0 and r["meta"] is None and r["attr"] is None:
        r["attr"] = rng.randrange(2)
    return r


def gen_case(rng, maxlen=8, mode=None):
    mode = mode or ("global" if rng.random() < 0.2 else "fresh")
    n = rng.randint(2, maxlen)
    ops = []
    fid = 100
    for _ in range(n):
        if rng.random() < 0.5:
            fid += 1
            earlier = [o["reg"] for o in ops if "reg" in o]
            if earlier and rng.random() < 0.3:
                # the SAME registration signature (detector criteria and priority) again with another converter, after
                # whatever was registered in between: the latest registration must still win ties
                ops.append({"reg": dict(rng.choice(earlier), fn=fid)})
            else:
                ops.append({"reg": gen_reg(rng, fid)})
        else:
            t = rng.randrange(NCLS)
            ops.append({"conv": t} if mode == "global" and rng.random() < 0.5 else {"res": t})
    if not any("reg" in o for o in ops):
        ops.insert(0, {"reg": gen_reg(rng, 100)})
    ops.append({"res": rng.randrange(NCLS)})
    case = {"mode": mode, "cache": True if mode == "global" else rng.random() < 0.6, "ops": ops}
    if rng.random() < 0.3:
        case["shortcut"] = [[7, 900]] if rng.random() < 0.7 else [[7, -1]]
    if mode == "fresh":
        if rng.random() < 0.3:
            case["default"] = 990
        if rng.random() < 0.3:
            case["base"] = {"regs": [dict(gen_reg(rng, 800 + i), custom=None, meta=None, attr=None) for i in range(rng.randint(1, 2))],
                            "default": 991 if rng.random() < 0.5 else None}
            for r in case["base"]["regs"]:
                if not r["classes"]:
                    r["classes"] = [rng.randrange(NCLS)]
    return case


def exhaustive_cases(maxlen):
    """all histories up to maxlen over a reduced alphabet (2 priorities x 3 class choices, 3 resolves)"""
    regs = [{"classes": [c], "sub": s, "prio": p} for c in (0, 1, 2) for s in (True,) for p in (0, 1)]
    ress = [{"res": t} for t in (1, 2, 6)]
    alpha = [("reg", r) for r in regs] + [("res", r) for r in ress]
    out = []
    for L in range(2, maxlen + 1):
        for seq in itertools.product(alpha, repeat=L):
            if seq[-1][0] != "res" or not any(k == "reg" for k, _ in seq):
                continue
            ops, fid = [], 100
            for k, o in seq:
                if k == "reg":
                    fid += 1
                    ops.append({"reg": dict(o, fn=fid)})
                else:
                    ops.append(o)
            for cache in (True, False):
                out.append({"mode": "fresh", "cache": cache, "ops": ops})
    return out


class C16(Check):
    prop = "C16"
    props_modules = ["Utv.Props.C16"]
    driver = "C16"
    impl = "harness.c16:impl"
    rule = ("random register/resolve/convert histories (len<=8 quick, <=14 thorough) over an 8-class hierarchy "
            "(diamond, metaclass, attributes, shortcut attribute, base registry, default, custom detectors that raise), "
            "on a fresh TypeRegistry and on the library's global transformer registry; thorough adds every history "
            "of length<=5 over a 9-op alphabet.  non-trivial = contains a resolve after >=2 matching registrations or a "
            "registration after a resolve of a matching class; distinct by the full history")
    assumptions = ["class world (issubclass/isinstance/hasattr/detector behaviour) is sampled from 8 real classes in T2; the theorem is for every world"]
    budget = {"quick": 1500, "thorough": 20000}
    search_budget = {"quick": 4000, "thorough": 40000}

    def cases(self, tier, rng, n):
        out = []
        if tier == "thorough":
            out += exhaustive_cases(5)
        maxlen = 8 if tier == "quick" else 14
        out += [gen_case(rng, maxlen) for _ in range(n)]
        return out

    def model_line(self, case):
        t = tables()
        line = dict(t)
        line["cache"] = case["cache"]
        line["shortcut"] = [[a, b] for a, b in case.get("shortcut", []) if b >= 0]
        line["fallback"] = fallback_for(case)
        if case.get("mode") == "global":
            line["fallback"] = []
        line["ops"] = [({"res": o["conv"]} if "conv" in o else o) for o in case["ops"]]
        return line

    def _norm(self, case, outs):
        # global registry: the library's own converters never match our fresh classes, but be safe
        return [None if (o == -1) else o for o in outs]

    def compare(self, case, io, mo):
        if not isinstance(mo, dict) or "model" not in mo:
            return f"driver: {mo}"
        if "outs" not in io:
            return f"impl: {io}"
        if self._norm(case, io["outs"]) != mo["model"]:
            return f"resolve answers differ: impl={io['outs']} model={mo['model']}"
        return None

    def spec(self, case, io, mo):
        if "outs" not in io:
            return f"registry operation did not complete: {io}"
        c = dict(case, fallback=self.model_line(case)["fallback"])
        want = spec_run(c, tables())
        if isinstance(mo, dict) and "spec" in mo and mo["spec"] != want:
            return None if False else f"HARNESS: python spec {want} != lean spec {mo['spec']}"
        got = self._norm(case, io["outs"])
        if got != want:
            i = next(k for k, (a, b) in enumerate(zip(got, want)) if a != b)
            return f"resolve #{i} returned converter {got[i]} but the registrations made so far select {want[i]}"
        return None

    def key(self, case, io):
        regs_seen, resolved, nontrivial = [], set(), False
        tb = tables()
        for op in case["ops"]:
            if "reg" in op:
                if any(det_matches(tb, op["reg"], t) for t in resolved):
                    nontrivial = True
                regs_seen.append(op["reg"])
            else:
                t = op.get("res", op.get("conv"))
                resolved.add(t)
                if sum(det_matches(tb, r, t) for r in regs_seen) >= 2:
                    nontrivial = True
        return json.dumps(case, sort_keys=True) if nontrivial else None

    def distribution(self, case, io):
        nreg = sum("reg" in o for o in case["ops"])
        return f"{case.get('mode')}/cache={case['cache']}/regs={nreg}/len={len(case['ops'])}"

    def neighbours(self, case, rng):
        out = []
        ops = case["ops"]
        for i in range(len(ops)):
            out.append(dict(case, ops=ops[:i] + ops[i + 1:] + [{"res": rng.randrange(NCLS)}]))
        for t in range(NCLS):
            out.append(dict(case, ops=ops + [{"res": t}]))
        out.append(dict(case, cache=not case["cache"]) if case.get("mode") != "global" else case)
        return out

    def finish_evidence(self, ev, tier):
        ev["coverage"]["exhaustive"] = False
        if tier == "thorough":
            ev["coverage"]["exhaustive_part"] = "all histories of length<=5 over 6 registrations x 3 resolves x cache on/off"


CHECK = C16()
