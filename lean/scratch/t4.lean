import Utv.Lemmas.C20
namespace Utv.C20

theorem PC.inCS_not_dead {p : PC} (h : p.inCS = true) : p.dead = false := by
  cases p <;> simp_all [PC.inCS, PC.dead]

theorem PInv_of_inCS {W : World} {g : G} {t : Th} (h : t.pc.inCS = true) : PInv W g t := by
  unfold PInv
  split <;> simp_all [PC.inCS]

theorem tinv_of_good {W : World} {prog : Nat → List Call} {g g' : G} {k : Nat} {t t' : Th}
    (T : TInv W prog g k t) (hcs : t.pc.inCS = true) (hg : Good W g' t t') (hl : g'.lock = g.lock) :
    TInv W prog g' k t' := by
  obtain ⟨h1, h2, h3, h4, h5⟩ := hg
  have hne : t.calls ≠ [] := T.callNe (by intro h; simp [h, PC.inCS] at hcs) (by intro h; simp [h, PC.inCS] at hcs)
  refine { alive := PC.inCS_not_dead h2, wrongF := by rw [h5]; exact T.wrongF, hist := by rw [h3, h4]; exact T.hist,
           callNe := fun _ _ => by rw [h3]; exact hne, finE := ?_, lockI := ?_, hinv := h1, pinv := PInv_of_inCS h2 }
  · intro h; simp [h, PC.inCS] at h2
  · rw [hl]; simp only [h2, true_iff]; exact T.lockI.mp hcs

theorem tinv_endCall {W : World} {prog : Nat → List Call} {g : G} {k : Nat} {t : Th} (o : Outcome)
    (hist : t.outs ++ t.calls.map (alone W) = (prog k).map (alone W)) (hne : t.calls ≠ [])
    (ho : o = target W t) (hl : g.lock ≠ some k) : TInv W prog g k (endCall t o) := by
  obtain ⟨c, cs, hc⟩ := List.exists_cons_of_ne_nil hne
  have htg : target W t = alone W c := by simp [target, hc]
  unfold endCall
  cases hcs : cs with
  | nil =>
    simp only [hc, hcs, List.tail_cons, List.isEmpty_nil, if_true]
    refine { alive := rfl, wrongF := rfl, hist := ?_, callNe := by simp, finE := by simp, lockI := ?_, hinv := trivial, pinv := trivial }
    · rw [← hist, hc, hcs, ho, htg]; simp
    · simp [PC.inCS, hl]
  | cons c' cs' =>
    simp only [hc, hcs, List.tail_cons, List.isEmpty_cons, Bool.false_eq_true, if_false]
    refine { alive := rfl, wrongF := rfl, hist := ?_, callNe := by simp, finE := by simp, lockI := ?_, hinv := trivial, pinv := trivial }
    · rw [← hist, hc, hcs, ho, htg]; simp
    · simp [PC.inCS, hl]

theorem tinv_parseNext {W : World} {prog : Nat → List Call} {g : G} {k : Nat} {t : Th}
    (R : Resolved W g) (hw : t.wrongF = false)
    (hist : t.outs ++ t.calls.map (alone W) = (prog k).map (alone W)) (hne : t.calls ≠ [])
    (hu : parseOutcome W t.uses = target W t) (hl : g.lock ≠ some k) : TInv W prog g k (parseNext t) := by
  unfold parseNext
  split
  · rename_i h0
    rw [hw]
    apply tinv_endCall _ hist hne _ hl
    rw [← hu, h0]; rfl
  · rename_i u us h0
    refine { alive := rfl, wrongF := hw, hist := hist, callNe := fun _ _ => hne, finE := by simp, lockI := ?_, hinv := trivial, pinv := ?_ }
    · simp [PC.inCS, hl]
    · simp only [PInv]
      exact ⟨R, by simp [h0], hu⟩

theorem tinv_startParse {W : World} {prog : Nat → List Call} {g : G} {k : Nat} {t : Th} (GI : GInv W g)
    (R : Resolved W g) (hw : t.wrongF = false)
    (hist : t.outs ++ t.calls.map (alone W) = (prog k).map (alone W)) (hne : t.calls ≠ [])
    (hl : g.lock ≠ some k) : TInv W prog g k (startParse t) := by
  unfold startParse
  refine tinv_parseNext (t := { t with uses := t.calls.headD [] }) R hw hist hne ?_ hl
  simp only [target]
  exact (alone_resolved GI R _).symm

theorem tinv_nextUse {W : World} {prog : Nat → List Call} {g : G} {k : Nat} {t : Th} {u : Use} {us : List Use}
    (R : Resolved W g) (hw : t.wrongF = false)
    (hist : t.outs ++ t.calls.map (alone W) = (prog k).map (alone W)) (hne : t.calls ≠ [])
    (h0 : t.uses = u :: us) (hf : fails W u = false)
    (hu : parseOutcome W t.uses = target W t) (hl : g.lock ≠ some k) : TInv W prog g k (nextUse t) := by
  unfold nextUse
  refine tinv_parseNext (t := { t with uses := t.uses.tail }) R hw hist hne ?_ hl
  rw [h0] at hu
  simp only [parseOutcome, hf] at hu
  simpa [h0, target] using hu


/-- what one step of thread `k` guarantees -/
structure ThreadOK (W : World) (prog : Nat → List Call) (g g' : G) (k : Nat) (t' : Th) : Prop where
  ginv  : GInv W g'
  tinv  : TInv W prog g' k t'
  pend  : ∀ i ∈ g'.pending, i ∈ g.pending
  frame : g' = g ∨ ((g.lock = some k ∨ g.lock = none) ∧ (g'.lock = some k ∨ g'.lock = none))

theorem threadOK_of_stepOK {W : World} {prog : Nat → List Call} {g g' : G} {k : Nat} {t t' : Th}
    (T : TInv W prog g k t) (hcs : t.pc.inCS = true) (S : StepOK W g g' t t') : ThreadOK W prog g g' k t' := by
  have hl := T.lockI.mp hcs
  exact ⟨S.ginv, tinv_of_good T hcs S.good S.lock, S.pend, Or.inr ⟨Or.inl hl, Or.inl (by rw [S.lock]; exact hl)⟩⟩

theorem fails_of_undef {W : World} {u : Use} (h1 : W.ref u.fld = true) (h2 : W.defd u.fld = false) : fails W u = true := by
  simp [fails, h1, h2]

theorem resolved_not_stuck {W : World} {g : G} (GI : GInv W g) (R : Resolved W g) :
    ¬ (W.isFn = false ∧ undefinedRef W = true) := by
  rintro ⟨hf, hu⟩
  obtain ⟨i, hr, hd⟩ := undefinedRef_ex hu
  have := (R i (GI.undef i hr hd).1).2
  simp [hf] at this

/-- the type a parsing thread reads for a field whose name exists is the rewritten one -/
theorem resolved_fty {W : World} {g : G} (GI : GInv W g) (R : Resolved W g) {i : Nat}
    (hr : W.ref i = true) (hd : W.defd i = true) : g.fty i = .res .parsed := by
  have hnp : i ∉ g.pending := by
    intro hp; have := (R i hp).1; simp [hd] at this
  rcases GI.done i hr hd hnp with h | h
  · exact h
  · exact absurd h (resolved_not_stuck GI R)

theorem step_unlock {W : World} {prog : Nat → List Call} {g : G} {k : Nat} {t : Th} (GI : GInv W g)
    (T : TInv W prog g k t) (hpc : t.pc = .unlock) :
    ThreadOK W prog g (stepTh W false k g t).1 k (stepTh W false k g t).2 := by
  have hcs : t.pc.inCS = true := by simp [hpc, PC.inCS]
  have hl := T.lockI.mp hcs
  have hne : t.calls ≠ [] := T.callNe (by simp [hpc]) (by simp [hpc])
  have H := T.hinv
  simp only [HInv, hpc] at H
  simp only [stepTh, hpc]
  have GI' : GInv W { g with lock := none } := by
    refine { nodup := GI.nodup, isRef := GI.isRef, undef := GI.undef, done := GI.done, plain := GI.plain,
             noJunk := GI.noJunk, free := ?_ }
    intro _ i hi
    simpa using H.fty i hi
  refine ⟨GI', ?_, fun _ h => h, Or.inr ⟨Or.inl hl, Or.inr rfl⟩⟩
  have hl' : ({ g with lock := none } : Utv.C20.G).lock ≠ some k := by simp
  unfold leaveResolve
  cases he : t.exc with
  | some e =>
    simp only
    obtain ⟨h1, h2, h3⟩ := H.excSome e he
    apply tinv_endCall _ T.hist hne _ hl'
    rw [h1, target, alone_stuck h2 h3]
  | none =>
    simp only
    have R : Resolved W { g with lock := none } := by
      intro i hi
      rcases H.own he i hi with h | h
      · simp at h
      · exact h
    split
    · refine { alive := rfl, wrongF := T.wrongF, hist := T.hist, callNe := fun _ _ => hne, finE := by simp,
               lockI := by simp [PC.inCS], hinv := trivial, pinv := ?_ }
      simp only [PInv]; exact R
    · exact tinv_startParse GI' R T.wrongF T.hist hne hl'

theorem step_thread {W : World} {prog : Nat → List Call} {g : G} {k : Nat} {t : Th} (GI : GInv W g)
    (T : TInv W prog g k t) :
    ThreadOK W prog g (stepTh W false k g t).1 k (stepTh W false k g t).2 := by
  have hcsl : t.pc.inCS = true → g.lock = some k := T.lockI.mp
  have hncs : t.pc.inCS = false → g.lock ≠ some k := by
    intro h hl; have := T.lockI.mpr hl; simp [h] at this
  have H := T.hinv
  have P := T.pinv
  have same : ∀ t', TInv W prog g k t' → ThreadOK W prog g g k t' :=
    fun t' h => ⟨GI, h, fun _ h => h, Or.inl rfl⟩
  cases hpc : t.pc with
  | start =>
    simp only [stepTh, hpc]
    apply same
    have hl := hncs (by simp [hpc, PC.inCS])
    by_cases he : t.calls.isEmpty = true
    · simp only [he, if_true]
      have hc : t.calls = [] := by simpa using he
      exact { alive := rfl, wrongF := T.wrongF, hist := T.hist, callNe := by simp, finE := fun _ => hc,
              lockI := by simp [PC.inCS, hl], hinv := trivial, pinv := trivial }
    · simp only [he]
      have hc : t.calls ≠ [] := by simpa using he
      exact { alive := rfl, wrongF := T.wrongF, hist := T.hist, callNe := fun _ _ => hc, finE := by simp,
              lockI := by simp [PC.inCS, hl], hinv := trivial, pinv := trivial }
  | chk =>
    simp only [stepTh, hpc]
    have hl := hncs (by simp [hpc, PC.inCS])
    have hne : t.calls ≠ [] := T.callNe (by simp [hpc]) (by simp [hpc])
    split
    · rename_i he
      apply same
      have R : Resolved W g := by
        intro i hi
        have : g.pending = [] := by simpa using he
        simp [this] at hi
      exact tinv_startParse GI R T.wrongF T.hist hne hl
    · apply same
      simp only [Bool.false_eq_true, if_false]
      refine { alive := rfl, wrongF := T.wrongF, hist := T.hist, callNe := fun _ _ => hne, finE := by simp,
               lockI := by simp [PC.inCS, hl], hinv := ?_, pinv := trivial }
      simp [HInv]
  | lock =>
    simp only [stepTh, hpc]
    have hne : t.calls ≠ [] := T.callNe (by simp [hpc]) (by simp [hpc])
    simp only [HInv, hpc] at H
    cases hlk : g.lock with
    | some o =>
      simp only
      apply same
      have : t = t := rfl
      exact T
    | none =>
      simp only
      refine ⟨?_, ?_, fun _ h => h, Or.inr ⟨Or.inr hlk, Or.inl rfl⟩⟩
      · exact { nodup := GI.nodup, isRef := GI.isRef, undef := GI.undef, done := GI.done, plain := GI.plain,
                noJunk := GI.noJunk, free := by simp }
      · refine { alive := rfl, wrongF := T.wrongF, hist := T.hist, callNe := fun _ _ => hne, finE := by simp,
                 lockI := by simp [PC.inCS], hinv := ?_, pinv := trivial }
        simp only [HInv]
        exact ⟨H.1, H.2.1, H.2.2.1, H.2.2.2, GI.free hlk⟩
  | list => exact threadOK_of_stepOK T (by simp [hpc, PC.inCS]) (step_list GI H hpc)
  | next => exact threadOK_of_stepOK T (by simp [hpc, PC.inCS]) (step_next GI H hpc)
  | get => exact threadOK_of_stepOK T (by simp [hpc, PC.inCS]) (step_get GI H hpc)
  | eval => exact threadOK_of_stepOK T (by simp [hpc, PC.inCS]) (step_eval GI (hcsl (by simp [hpc, PC.inCS])) H hpc)
  | isev => exact threadOK_of_stepOK T (by simp [hpc, PC.inCS]) (step_isev GI H hpc)
  | rdval => exact threadOK_of_stepOK T (by simp [hpc, PC.inCS]) (step_rdval GI H hpc)
  | wrA => exact threadOK_of_stepOK T (by simp [hpc, PC.inCS]) (step_wrA GI H hpc)
  | wrB => exact threadOK_of_stepOK T (by simp [hpc, PC.inCS]) (step_wrB GI (hcsl (by simp [hpc, PC.inCS])) H hpc)
  | fldTyQ => exact threadOK_of_stepOK T (by simp [hpc, PC.inCS]) (step_fldTyQ GI H hpc)
  | fldTy => exact threadOK_of_stepOK T (by simp [hpc, PC.inCS]) (step_fldTy GI H hpc)
  | rftIsev => exact threadOK_of_stepOK T (by simp [hpc, PC.inCS]) (step_rftIsev GI H hpc)
  | rftRdval => exact threadOK_of_stepOK T (by simp [hpc, PC.inCS]) (step_rftRdval GI (hcsl (by simp [hpc, PC.inCS])) H hpc)
  | rrfA => exact threadOK_of_stepOK T (by simp [hpc, PC.inCS]) (step_rrfA GI H hpc)
  | rrfB => exact threadOK_of_stepOK T (by simp [hpc, PC.inCS]) (step_rrfB GI H hpc)
  | rrfC => exact threadOK_of_stepOK T (by simp [hpc, PC.inCS]) (step_rrfC GI H hpc)
  | fldOtyQ => exact threadOK_of_stepOK T (by simp [hpc, PC.inCS]) (step_fldOtyQ GI H hpc)
  | addn => exact threadOK_of_stepOK T (by simp [hpc, PC.inCS]) (step_addn GI H hpc)
  | clr1 => exact threadOK_of_stepOK T (by simp [hpc, PC.inCS]) (step_clr1 GI (hcsl (by simp [hpc, PC.inCS])) H hpc)
  | clr2 => exact threadOK_of_stepOK T (by simp [hpc, PC.inCS]) (step_clr2 GI (hcsl (by simp [hpc, PC.inCS])) H hpc)
  | popd => exact threadOK_of_stepOK T (by simp [hpc, PC.inCS]) (step_popd GI (hcsl (by simp [hpc, PC.inCS])) H hpc)
  | unlock => exact step_unlock GI T hpc
  | wrcA => have := T.alive; simp [hpc, PC.dead] at this
  | wrcArg => have := T.alive; simp [hpc, PC.dead] at this
  | wrcB => have := T.alive; simp [hpc, PC.dead] at this
  | pop => have := T.alive; simp [hpc, PC.dead] at this
  | stuck => have := T.alive; simp [hpc, PC.dead] at this
  | tcRdval => have := T.alive; simp [hpc, PC.dead] at this
  | fin =>
    simp only [stepTh, hpc]
    exact same _ T
  | frfPos =>
    simp only [stepTh, hpc]
    apply same
    have hl := hncs (by simp [hpc, PC.inCS])
    have hne : t.calls ≠ [] := T.callNe (by simp [hpc]) (by simp [hpc])
    simp only [PInv, hpc] at P
    refine { alive := rfl, wrongF := T.wrongF, hist := T.hist, callNe := fun _ _ => hne, finE := by simp,
             lockI := by simp [PC.inCS, hl], hinv := trivial, pinv := ?_ }
    simp only [PInv]; exact P
  | frfRet =>
    simp only [stepTh, hpc]
    apply same
    have hl := hncs (by simp [hpc, PC.inCS])
    have hne : t.calls ≠ [] := T.callNe (by simp [hpc]) (by simp [hpc])
    simp only [PInv, hpc] at P
    exact tinv_startParse GI P T.wrongF T.hist hne hl
  | pvErr =>
    simp only [stepTh, hpc]
    apply same
    have hl := hncs (by simp [hpc, PC.inCS])
    have hne : t.calls ≠ [] := T.callNe (by simp [hpc]) (by simp [hpc])
    simp only [PInv, hpc] at P
    exact tinv_endCall _ T.hist hne P.symm hl
  | nestedErr =>
    simp only [stepTh, hpc]
    apply same
    have hl := hncs (by simp [hpc, PC.inCS])
    have hne : t.calls ≠ [] := T.callNe (by simp [hpc]) (by simp [hpc])
    simp only [PInv, hpc] at P
    refine { alive := rfl, wrongF := T.wrongF, hist := T.hist, callNe := fun _ _ => hne, finE := by simp,
             lockI := by simp [PC.inCS, hl], hinv := trivial, pinv := ?_ }
    simp only [PInv]; exact P
  | tcIsev =>
    have hl := hncs (by simp [hpc, PC.inCS])
    have hne : t.calls ≠ [] := T.callNe (by simp [hpc]) (by simp [hpc])
    simp only [PInv, hpc] at P
    obtain ⟨R, hu, u, us, h0, hr, hd⟩ := P
    simp only [stepTh, hpc, h0]
    apply same
    have hev := (GI.undef _ hr hd).2.1
    simp only [hev, Bool.false_eq_true, if_false]
    refine { alive := rfl, wrongF := T.wrongF, hist := T.hist, callNe := fun _ _ => hne, finE := by simp,
             lockI := by simp [PC.inCS, hl], hinv := trivial, pinv := ?_ }
    simp only [PInv]
    show target W t = .perr
    rw [← hu, h0]
    simp [parseOutcome, fails_of_undef hr hd]
  | nested =>
    have hl := hncs (by simp [hpc, PC.inCS])
    have hne : t.calls ≠ [] := T.callNe (by simp [hpc]) (by simp [hpc])
    simp only [PInv, hpc] at P
    obtain ⟨R, hu, u, us, h0, hrd⟩ := P
    simp only [stepTh, hpc, h0]
    apply same
    refine { alive := rfl, wrongF := T.wrongF, hist := T.hist, callNe := fun _ _ => hne, finE := by simp,
             lockI := by simp [PC.inCS, hl], hinv := trivial, pinv := ?_ }
    simp only [PInv]
    refine ⟨R, ?_, u, us, rfl, hrd⟩
    show parseOutcome W (u :: us) = target W t
    rw [← h0]; exact hu
  | nestedPv =>
    have hl := hncs (by simp [hpc, PC.inCS])
    have hne : t.calls ≠ [] := T.callNe (by simp [hpc]) (by simp [hpc])
    simp only [PInv, hpc] at P
    obtain ⟨R, hu, u, us, h0, hrd⟩ := P
    simp only [stepTh, hpc, h0]
    apply same
    cases hb : u.bad with
    | true =>
      simp only [if_true]
      refine { alive := rfl, wrongF := T.wrongF, hist := T.hist, callNe := fun _ _ => hne, finE := by simp,
               lockI := by simp [PC.inCS, hl], hinv := trivial, pinv := ?_ }
      simp only [PInv]
      show target W t = .perr
      rw [← hu, h0]
      simp [parseOutcome, fails, hb]
    | false =>
      simp only [Bool.false_eq_true, if_false]
      refine tinv_nextUse R T.wrongF T.hist hne h0 ?_ hu hl
      simp only [fails, hb, Bool.false_or, Bool.and_eq_false_iff, Bool.not_eq_false']
      cases hr : W.ref u.fld with
      | false => exact Or.inl rfl
      | true => exact Or.inr (hrd hr)
  | pv =>
    have hl := hncs (by simp [hpc, PC.inCS])
    have hne : t.calls ≠ [] := T.callNe (by simp [hpc]) (by simp [hpc])
    simp only [PInv, hpc] at P
    obtain ⟨R, hun, hu⟩ := P
    obtain ⟨u, us, h0⟩ := List.exists_cons_of_ne_nil hun
    simp only [stepTh, hpc, h0]
    have hu' : parseOutcome W (u :: us) = target W t := by rw [← h0]; exact hu
    cases hf : g.fty u.fld with
    | ref =>
      simp only
      apply same
      have hr : W.ref u.fld = true := by
        cases h : W.ref u.fld with
        | true => rfl
        | false => have := GI.plain _ h; rw [hf] at this; cases this
      have hd : W.defd u.fld = false := by
        cases h : W.defd u.fld with
        | false => rfl
        | true => have := resolved_fty GI R hr h; rw [hf] at this; cases this
      refine { alive := rfl, wrongF := T.wrongF, hist := T.hist, callNe := fun _ _ => hne, finE := by simp,
               lockI := by simp [PC.inCS, hl], hinv := trivial, pinv := ?_ }
      simp only [PInv]
      exact ⟨R, hu', u, us, rfl, hr, hd⟩
    | res v =>
      simp only
      apply same
      unfold afterType
      cases hr : W.ref u.fld with
      | false =>
        simp only [Bool.not_false, if_true]
        cases hb : u.bad with
        | true =>
          simp only [if_true]
          refine { alive := rfl, wrongF := T.wrongF, hist := T.hist, callNe := fun _ _ => hne, finE := by simp,
                   lockI := by simp [PC.inCS, hl], hinv := trivial, pinv := ?_ }
          simp only [PInv]
          show target W t = .perr
          rw [← hu']
          simp [parseOutcome, fails, hb]
        | false =>
          simp only [Bool.false_eq_true, if_false]
          exact tinv_nextUse R T.wrongF T.hist hne h0 (by simp [fails, hb, hr]) hu hl
      | true =>
        have hd : W.defd u.fld = true := by
          cases h : W.defd u.fld with
          | true => rfl
          | false => have := (GI.undef _ hr h).2.2; rw [hf] at this; cases this
        have hv : v = .parsed := by
          have := resolved_fty GI R hr hd; rw [hf] at this; cases this; rfl
        subst hv
        simp only [Bool.not_true, Bool.false_eq_true, if_false]
        refine { alive := rfl, wrongF := T.wrongF, hist := T.hist, callNe := fun _ _ => hne, finE := by simp,
                 lockI := by simp [PC.inCS, hl], hinv := trivial, pinv := ?_ }
        simp only [PInv]
        exact ⟨R, hu, u, us, h0, fun _ => hd⟩

end Utv.C20
