import Utv.Lemmas.C10Top
/-!
C10: fuel adequacy.  `parse W fuel` stops decreasing once the fuel exceeds the depth of the type: the theorems,
stated for every fuel, speak about the fuel-independent parser as soon as `fuel ≥ T.depth`.

One construct can recurse through the *options* instead of the type: a fixed tuple converts the items beyond its
prefix with a typed `addition` option (rule.py:1959-1976), and that type is parsed under the same options.  The
depth of that recursion follows the value, not the type, so adequacy is stated where it cannot happen
(`Fits`: the `addition` option is not a type, or the type contains no fixed tuple).
-/
namespace Utv.C10

mutual
def Ty.depth : Ty → Nat
  | .leaf _ => 1
  | .rule o _ args _ => 1 + max o.depth (Ty.depthL args)
  | .comb _ ts => 1 + Ty.depthL ts
def Ty.depthL : List Ty → Nat
  | [] => 0
  | t :: ts => max t.depth (Ty.depthL ts)
end

mutual
def Ty.noTuple : Ty → Bool
  | .leaf _ => true
  | .rule o k args _ => (match k with | .tuple => false | _ => true) && o.noTuple && Ty.noTupleL args
  | .comb _ ts => Ty.noTupleL ts
def Ty.noTupleL : List Ty → Bool
  | [] => true
  | t :: ts => t.noTuple && Ty.noTupleL ts
end

def Addition.isTyped : Addition → Bool
  | .typed _ => true
  | _ => false

/-- parsing `T` under the options `o` never enters the typed-addition loop of a fixed tuple -/
def Fits (o : Opts) (T : Ty) : Prop := o.addition.isTyped = false ∨ T.noTuple = true

theorem depth_le_depthL {t : Ty} {ts : List Ty} (h : t ∈ ts) : t.depth ≤ Ty.depthL ts := by
  induction ts with
  | nil => cases h
  | cons x xs ih =>
    simp only [Ty.depthL]
    rcases List.mem_cons.mp h with rfl | h'
    · exact Nat.le_max_left _ _
    · exact Nat.le_trans (ih h') (Nat.le_max_right _ _)

theorem noTuple_of_mem {t : Ty} {ts : List Ty} (h : t ∈ ts) (hn : Ty.noTupleL ts = true) : t.noTuple = true := by
  induction ts with
  | nil => cases h
  | cons x xs ih =>
    simp only [Ty.noTupleL, Bool.and_eq_true] at hn
    rcases List.mem_cons.mp h with rfl | h'
    · exact hn.1
    · exact ih h' hn.2

/-! ### sub-terms keep fitting -/

theorem merge_isTyped (o : Opts) (ov : Override) (h : o.addition.isTyped = false) :
    (o.merge ov).addition.isTyped = false := by
  cases ov
  · exact h
  · rfl
  · rfl

theorem fits_merge {o : Opts} {T : Ty} (ov : Override) (h : Fits o T) : Fits (o.merge ov) T := by
  rcases h with h | h
  · exact Or.inl (merge_isTyped o ov h)
  · exact Or.inr h

theorem fits_origin {o : Opts} {or : Ty} {k : ArgKind} {args : List Ty} {cons : List Nat}
    (h : Fits o (.rule or k args cons)) : Fits o or := by
  rcases h with h | h
  · exact Or.inl h
  · simp only [Ty.noTuple, Bool.and_eq_true] at h
    exact Or.inr h.1.2

theorem fits_arg {o : Opts} {or : Ty} {k : ArgKind} {args : List Ty} {cons : List Nat} {t : Ty}
    (h : Fits o (.rule or k args cons)) (ht : t ∈ args) : Fits o t := by
  rcases h with h | h
  · exact Or.inl h
  · simp only [Ty.noTuple, Bool.and_eq_true] at h
    exact Or.inr (noTuple_of_mem ht h.2)

theorem fits_comb {o : Opts} {op : Comb} {ts : List Ty} {t : Ty} (h : Fits o (.comb op ts)) (ht : t ∈ ts) :
    Fits o t := by
  rcases h with h | h
  · exact Or.inl h
  · simp only [Ty.noTuple] at h
    exact Or.inr (noTuple_of_mem ht h)

/-- a fixed tuple under fitting options does not see a typed `addition` -/
theorem fits_tuple_not_typed {o : Opts} {or : Ty} {args : List Ty} {cons : List Nat}
    (h : Fits o (.rule or .tuple args cons)) : o.addition.isTyped = false := by
  rcases h with h | h
  · exact h
  · simp [Ty.noTuple] at h

/-! ### congruence: one level of the type tree only consults the sub-term parser on sub-terms -/

/-- `r1` and `r2` agree on the list `ts` in every context whose options are `o` under a stage override -/
def AgreeOn (r1 r2 : P) (ts : List Ty) (o : Opts) : Prop :=
  ∀ t ∈ ts, ∀ c v, (∃ ov, c.o = o.merge ov) → r1 t c v = r2 t c v

theorem agreeOn_verdict {r1 r2 : P} {ts : List Ty} {o : Opts} (h : AgreeOn r1 r2 ts o) {t : Ty} (ht : t ∈ ts)
    (m : Mode) (ov : Override) (v : Val) : verdict r1 t m (o.merge ov) v = verdict r2 t m (o.merge ov) v := by
  unfold verdict
  rw [h t ht (clean0 m (o.merge ov)) v ⟨ov, rfl⟩]

theorem agreeOn_verdict0 {r1 r2 : P} {ts : List Ty} {o : Opts} (h : AgreeOn r1 r2 ts o) {t : Ty} (ht : t ∈ ts)
    (m : Mode) (v : Val) : verdict r1 t m o v = verdict r2 t m o v :=
  agreeOn_verdict h ht m .none v

theorem runLoop_congr {step1 step2 : α → ι → Step α} (c : Ctx) (items : List ι) (a : α)
    (h : ∀ a i, i ∈ items → step1 a i = step2 a i) : runLoop step1 c items a = runLoop step2 c items a := by
  induction items generalizing c a with
  | nil => rfl
  | cons i is ih =>
    simp only [runLoop]
    rw [h a i List.mem_cons_self]
    have ih' := fun c a => ih c a (fun a j hj => h a j (List.mem_cons_of_mem _ hj))
    cases step2 a i with
    | keep a' => exact ih' c a'
    | report e a' =>
      simp only
      cases c.handleError e with
      | mk c' r => cases r with
        | some x => rfl
        | none => exact ih' c' a'
    | abort e x => rfl

theorem mem_of_mem_zipIdx {l : List α} {k : Nat} {p : α × Nat} (h : p ∈ l.zipIdx k) : p.1 ∈ l := by
  induction l generalizing k with
  | nil => simp at h
  | cons x xs ih =>
    simp only [List.zipIdx_cons, List.mem_cons] at h
    rcases h with rfl | h
    · exact List.mem_cons_self
    · exact List.mem_cons_of_mem _ (ih h)

theorem parseArgs_congr {r1 r2 : P} (kind : ArgKind) (args : List Ty) (c : Ctx) (v : Val)
    (h : AgreeOn r1 r2 args c.o) (hnt : kind = .tuple → c.o.addition.isTyped = false) :
    parseArgs r1 kind args c v = parseArgs r2 kind args c v := by
  unfold parseArgs
  split
  · rename_i tag T rest
    have : seqStep r1 T c.mode c.o = seqStep r2 T c.mode c.o := by
      funext acc it
      simp only [seqStep, agreeOn_verdict0 h List.mem_cons_self]
    rw [this]
  · unfold parseTuple
    have h1 : ∀ (c1 : Ctx), runLoop (tupleStep r1 c.mode c.o v.elems) c1 args.zipIdx [] =
        runLoop (tupleStep r2 c.mode c.o v.elems) c1 args.zipIdx [] := by
      intro c1
      apply runLoop_congr
      intro acc it hit
      simp only [tupleStep, agreeOn_verdict0 h (mem_of_mem_zipIdx hit)]
    simp only [h1]
    have hnt' := hnt rfl
    cases ha : c.o.addition with
    | typed T0 => rw [ha] at hnt'; simp [Addition.isTyped] at hnt'
    | none => rfl
    | no => rfl
    | yes => rfl
  · rename_i K rest
    have : mapStep r1 K rest.head? c.mode c.o = mapStep r2 K rest.head? c.mode c.o := by
      funext acc kv
      unfold mapStep
      rw [agreeOn_verdict0 h List.mem_cons_self]
      cases hr : rest.head? with
      | none => rfl
      | some VT =>
        have hm : VT ∈ K :: rest := List.mem_cons_of_mem _ (List.mem_of_mem_head? hr)
        simp only [agreeOn_verdict0 h hm]
    rw [this]
  · rfl

theorem parseRule_congr {W : World} {r1 r2 : P} (hp : Pres r1) (origin : Ty) (kind : ArgKind) (args : List Ty)
    (cons : List Nat) (c : Ctx) (v : Val)
    (ho : r1 origin c v = r2 origin c v) (h : AgreeOn r1 r2 args c.o)
    (hnt : kind = .tuple → c.o.addition.isTyped = false) :
    parseRule W r1 origin kind args cons c v = parseRule W r2 origin kind args cons c v := by
  unfold parseRule
  rw [← ho]
  have hpo := hp origin c v
  cases hr : r1 origin c v with
  | mk c1 r =>
    rw [hr] at hpo
    cases r with
    | error e => rfl
    | ok v1 =>
      simp only
      split
      · rfl
      · rw [parseArgs_congr kind args c1 v1 (by rw [hpo.2]; exact h) (by rw [hpo.2]; exact hnt)]

theorem allLoop_congr {r1 r2 : P} (hp : Pres r1) (ts : List Ty) (c : Ctx) (v : Val) (h : AgreeOn r1 r2 ts c.o) :
    allLoop r1 c v ts = allLoop r2 c v ts := by
  induction ts generalizing c v with
  | nil => rfl
  | cons t ts ih =>
    simp only [allLoop]
    rw [← h t List.mem_cons_self c v ⟨.none, rfl⟩]
    have hpo := hp t c v
    cases hr : r1 t c v with
    | mk c1 r =>
      rw [hr] at hpo
      cases r with
      | error e => rfl
      | ok v1 =>
        simp only
        apply ih
        rw [hpo.2]
        exact fun t' ht' => h t' (List.mem_cons_of_mem _ ht')

theorem anyLoop_congr {r1 r2 : P} (ov : Override) (v : Val) (ts : List Ty) (c : Ctx) (o : Opts) (hc : c.o = o)
    (h : AgreeOn r1 r2 ts o) : anyLoop r1 ov v c ts = anyLoop r2 ov v c ts := by
  induction ts generalizing c with
  | nil => rfl
  | cons t ts ih =>
    simp only [anyLoop]
    rw [h t List.mem_cons_self (c.enter ov) v ⟨ov, by simp [Ctx.enter, clean0, hc]⟩]
    cases (r2 t (c.enter ov) v).2 with
    | ok r => rfl
    | error e =>
      simp only
      exact ih (c.collectTmp e.toErr) hc (fun t' ht' => h t' (List.mem_cons_of_mem _ ht'))

theorem oneLoop_congr {r1 r2 : P} (v : Val) (ts : List Ty) (c : Ctx) (r : Option Val) (o : Opts) (hc : c.o = o)
    (h : AgreeOn r1 r2 ts o) : oneLoop r1 v c r ts = oneLoop r2 v c r ts := by
  induction ts generalizing c r with
  | nil => rfl
  | cons t ts ih =>
    simp only [oneLoop]
    rw [h t List.mem_cons_self c.enter v ⟨.none, by simp [Ctx.enter, clean0, hc, Opts.merge]⟩]
    have ih' := fun c r hc => ih c r hc (fun t' ht' => h t' (List.mem_cons_of_mem _ ht'))
    cases (r2 t c.enter v).2 with
    | error e => exact ih' _ r hc
    | ok v1 =>
      simp only
      cases r with
      | none => exact ih' c (some v1) hc
      | some r0 => rfl

theorem negLoop_congr {r1 r2 : P} (v : Val) (ts : List Ty) (c : Ctx) (o : Opts) (hc : c.o = o)
    (h : AgreeOn r1 r2 ts o) : negLoop r1 v c ts = negLoop r2 v c ts := by
  induction ts generalizing c with
  | nil => rfl
  | cons t ts ih =>
    simp only [negLoop]
    rw [h t List.mem_cons_self c.enter v ⟨.none, by simp [Ctx.enter, clean0, hc, Opts.merge]⟩]
    cases (r2 t c.enter v).2 with
    | error e => rfl
    | ok v1 =>
      simp only
      have hm := handleError_o c { kind := .negate } false
      cases hh : c.handleError { kind := .negate } with
      | mk c2 x =>
        rw [hh] at hm
        cases x with
        | some y => rfl
        | none => exact ih c2 (by simp only at hm; rw [hm, hc]) (fun t' ht' => h t' (List.mem_cons_of_mem _ ht'))

theorem parseComb_congr {W : World} {r1 r2 : P} (hp : Pres r1) (op : Comb) (ts : List Ty) (c : Ctx) (v : Val)
    (h : AgreeOn r1 r2 ts c.o) : parseComb W r1 op ts c v = parseComb W r2 op ts c v := by
  unfold parseComb
  cases op with
  | all => simp only; rw [allLoop_congr hp ts c v h]
  | any =>
    simp only
    unfold parseAny stage
    have e1 : ∀ ov c', c'.o = c.o → anyLoop r1 ov v c' ts = anyLoop r2 ov v c' ts :=
      fun ov c' hc' => anyLoop_congr ov v ts c' c.o hc' h
    split
    · rfl
    · -- every stage starts from a context with the same options
      have hs : ∀ (on : Bool) ov c', c'.o = c.o →
          (if on = true then anyLoop r1 ov v c' ts else (c', none)) =
          (if on = true then anyLoop r2 ov v c' ts else (c', none)) := by
        intro on ov c' hc'
        cases on <;> simp [e1 ov c' hc']
      have hso : ∀ (on : Bool) ov c', c'.o = c.o →
          (if on = true then anyLoop r2 ov v c' ts else (c', none)).1.o = c.o := by
        intro on ov c' hc'
        cases on
        · simpa using hc'
        · simp only [if_true]
          rw [(anyLoop_pres r2 ov v c' ts).2]; exact hc'
      rw [hs _ .strict c rfl]
      unfold orElse
      have h2 := hso (!c.o.ndl || !c.o.nec) .strict c rfl
      cases hr2 : (if (!c.o.ndl || !c.o.nec) = true then anyLoop r2 .strict v c ts else (c, none)) with
      | mk c2 x2 =>
        rw [hr2] at h2
        cases x2 with
        | some r => rfl
        | none =>
          simp only
          rw [hs _ .noLoss c2 h2]
          have h3 := hso (!c.o.ndl && !c.o.nec) .noLoss c2 h2
          cases hr3 : (if (!c.o.ndl && !c.o.nec) = true then anyLoop r2 .noLoss v c2 ts else (c2, none)) with
          | mk c3 x3 =>
            rw [hr3] at h3
            cases x3 with
            | some r => rfl
            | none =>
              simp only [if_true]
              rw [e1 .none c3 h3]
  | one =>
    simp only
    unfold parseOne
    rw [oneLoop_congr v ts c none c.o rfl h]
  | neg =>
    simp only
    rw [negLoop_congr v ts c c.o rfl h]

/-- `r1` and `r2` agree on every type of depth below `d` in every fitting context -/
def AgreeBelow (r1 r2 : P) (d : Nat) : Prop :=
  ∀ T c v, T.depth < d → Fits c.o T → r1 T c v = r2 T c v

theorem agreeOn_of_below {r1 r2 : P} {d : Nat} (h : AgreeBelow r1 r2 d) (ts : List Ty) (o : Opts)
    (hd : Ty.depthL ts < d) (hf : ∀ t ∈ ts, Fits o t) : AgreeOn r1 r2 ts o := by
  intro t ht c v hc
  obtain ⟨ov, hov⟩ := hc
  apply h t c v (Nat.lt_of_le_of_lt (depth_le_depthL ht) hd)
  rw [hov]
  exact fits_merge ov (hf t ht)

theorem parseStep_congr {W : World} {r1 r2 : P} (hp : Pres r1) (T : Ty) (c : Ctx) (v : Val)
    (h : AgreeBelow r1 r2 T.depth) (hf : Fits c.o T) : parseStep W r1 T c v = parseStep W r2 T c v := by
  cases T with
  | leaf t => rfl
  | rule origin kind args cons =>
    simp only [parseStep]
    apply parseRule_congr hp
    · apply h origin c v _ (fits_origin hf)
      simp only [Ty.depth]; omega
    · apply agreeOn_of_below h args c.o _ (fun t ht => fits_arg hf ht)
      simp only [Ty.depth]; omega
    · intro hk; subst hk; exact fits_tuple_not_typed hf
  | comb op ts =>
    simp only [parseStep]
    apply parseComb_congr hp
    apply agreeOn_of_below h ts c.o _ (fun t ht => fits_comb hf ht)
    simp only [Ty.depth]; omega

/-- **fuel adequacy**: once the fuel reaches the depth of the type, more fuel changes nothing -/
theorem parse_fuel_succ (W : World) (n : Nat) :
    ∀ T c v, T.depth ≤ n → Fits c.o T → parse W n T c v = parse W (n + 1) T c v := by
  induction n with
  | zero =>
    intro T c v hd
    cases T <;> simp [Ty.depth] at hd <;> omega
  | succ n ih =>
    intro T c v hd hf
    show parseStep W (parse W n) T c v = parseStep W (parse W (n + 1)) T c v
    apply parseStep_congr (parse_pres W n) T c v _ hf
    intro T' c' v' hd' hf'
    exact ih T' c' v' (by omega) hf'

theorem parse_fuel_adequate (W : World) (T : Ty) (c : Ctx) (v : Val) (hf : Fits c.o T) (n : Nat)
    (hn : T.depth ≤ n) : parse W n T c v = parse W T.depth T c v := by
  induction n with
  | zero =>
    have : T.depth = 0 := Nat.le_zero.mp hn
    rw [this]
  | succ n ih =>
    by_cases h : T.depth ≤ n
    · rw [← parse_fuel_succ W n T c v h hf]; exact ih h
    · have : T.depth = n + 1 := by omega
      rw [this]

/-! ### the declaration level uses the fuel only through the declared types -/

/-- the types a declaration parses values with: the field types, the declared addition type -/
def declTypes (decl : List FieldDecl) (o : Opts) : List Ty :=
  decl.filterMap (·.ty) ++ o.addTy.toList

/-- the two sub-term parsers give the same isolated verdicts on these types under (m, o) -/
def SameVerdicts (r1 r2 : P) (m : Mode) (o : Opts) (tys : List Ty) : Prop :=
  ∀ T ∈ tys, ∀ v, verdict r1 T m o v = verdict r2 T m o v

theorem fieldValue_congr {r1 r2 : P} {m : Mode} {o : Opts} {decl : List FieldDecl}
    (h : SameVerdicts r1 r2 m o (declTypes decl o)) {f : FieldDecl} (hf : f ∈ decl) (v : Val) :
    fieldValue r1 m o f v = fieldValue r2 m o f v := by
  unfold fieldValue
  cases hty : f.ty with
  | none => rfl
  | some T =>
    have hm : T ∈ declTypes decl o :=
      List.mem_append.mpr (Or.inl (List.mem_filterMap.mpr ⟨f, hf, hty⟩))
    simp only [h T hm]

theorem excludedAsAbsent_congr {r1 r2 : P} {m : Mode} {o : Opts} {decl : List FieldDecl}
    (h : SameVerdicts r1 r2 m o (declTypes decl o)) {f : FieldDecl} (hf : f ∈ decl) (v : Val) :
    excludedAsAbsent r1 m o f v = excludedAsAbsent r2 m o f v := by
  unfold excludedAsAbsent
  cases hty : f.ty with
  | none => rfl
  | some T =>
    have hm : T ∈ declTypes decl o :=
      List.mem_append.mpr (Or.inl (List.mem_filterMap.mpr ⟨f, hf, hty⟩))
    simp only [h T hm]

theorem additionStep_congr {r1 r2 : P} {m : Mode} {o : Opts} {decl : List FieldDecl}
    (h : SameVerdicts r1 r2 m o (declTypes decl o)) : additionStep r1 m o = additionStep r2 m o := by
  funext acc kv
  unfold additionStep
  cases hty : o.addTy with
  | none => rfl
  | some T =>
    have hm : T ∈ declTypes decl o := List.mem_append.mpr (Or.inr (by simp [hty]))
    simp only [h T hm]

theorem any_congr_mem {l : List α} {p q : α → Bool} (h : ∀ a ∈ l, p a = q a) : l.any p = l.any q := by
  induction l with
  | nil => rfl
  | cons a as ih =>
    simp only [List.any_cons]
    rw [h a List.mem_cons_self, ih (fun b hb => h b (List.mem_cons_of_mem _ hb))]

theorem depsLack_congr {r1 r2 : P} {m : Mode} {o : Opts} {decl : List FieldDecl}
    (h : SameVerdicts r1 r2 m o (declTypes decl o)) (ex : List String) (data : Data) :
    depsLack r1 m o decl ex data = depsLack r2 m o decl ex data := by
  have ht : ∀ f ∈ decl, takes r1 m o data ex f = takes r2 m o data ex f := by
    intro f hf
    unfold takes storesB
    cases data.lookup f.name with
    | none => rfl
    | some v => simp only [fieldValue_congr h hf, excludedAsAbsent_congr h hf]
  have hu : ∀ f ∈ decl, unprovidedF r1 m o data ex f = unprovidedF r2 m o data ex f := by
    intro f hf
    unfold unprovidedF
    cases data.lookup f.name with
    | none => rfl
    | some v => simp only [excludedAsAbsent_congr h hf]
  have hi : ∀ f ∈ decl, inResult r1 m o data ex f = inResult r2 m o data ex f := by
    intro f hf
    unfold inResult
    rw [ht f hf, hu f hf]
  unfold depsLack
  rw [List.filter_congr ht]
  congr 1
  funext d
  have e1 : (decl.any fun f => f.name == d && unprovidedF r1 m o data ex f) =
      (decl.any fun f => f.name == d && unprovidedF r2 m o data ex f) :=
    any_congr_mem (fun f hf => by rw [hu f hf])
  have e2 : (decl.any fun f => f.name == d && inResult r1 m o data ex f) =
      (decl.any fun f => f.name == d && inResult r2 m o data ex f) :=
    any_congr_mem (fun f hf => by rw [hi f hf])
  rw [e1, e2]

theorem parseData_congr {r1 r2 : P} (decl : List FieldDecl) (ex : List String) (g : Bool) (c : Ctx) (data : Data)
    (h : SameVerdicts r1 r2 c.mode c.o (declTypes decl c.o)) :
    parseData r1 decl ex g c data = parseData r2 decl ex g c data := by
  have hdf1 : dfStep1 r1 c.mode c.o decl ex = dfStep1 r2 c.mode c.o decl ex := by
    funext acc kv
    unfold dfStep1
    rw [additionStep_congr h]
    cases hfind : decl.find? (fun f => f.name == kv.1) with
    | none => rfl
    | some f => simp only [fieldValue_congr h (List.mem_of_find?_eq_some hfind)]
  have hff1 : ∀ c1 acc, runLoop (ffStep1 r1 c.mode c.o data ex) c1 decl acc =
      runLoop (ffStep1 r2 c.mode c.o data ex) c1 decl acc := by
    intro c1 acc
    apply runLoop_congr
    intro a f hf
    unfold ffStep1
    cases data.lookup f.name with
    | none => rfl
    | some v => simp only [fieldValue_congr h hf]
  have hff2 : ffStep2 r1 c.mode c.o decl ex = ffStep2 r2 c.mode c.o decl ex := by
    funext acc kv
    unfold ffStep2
    rw [additionStep_congr h]
  have hdeps : depsStep r1 c.mode c.o decl ex data g = depsStep r2 c.mode c.o decl ex data g := by
    funext a i
    unfold depsStep
    rw [depsLack_congr h]
  unfold parseData dataFirst fieldFirst
  have hm := fun (items : List Bool) => runLoop_mode (countStep c.o data.length) c items ()
  cases hr : runLoop (countStep c.o data.length) c (if g = true then [true, false] else []) () with
  | mk c0 r0 =>
    have hc0 := hm (if g = true then [true, false] else [])
    rw [hr] at hc0
    simp only at hc0
    cases r0 with
    | error x => rfl
    | ok u =>
      simp only [andThen, hc0.1, hc0.2.1, hdf1, hff1, hff2, hdeps]

/-- the largest depth among the declared types -/
def declDepth (decl : List FieldDecl) (o : Opts) : Nat := Ty.depthL (declTypes decl o)

/-- **fuel adequacy at the declaration level**: with fuel at least the depth of the declared types (and
fitting options), a run does not depend on the fuel -/
theorem run_fuel_adequate (W : World) (decl : List FieldDecl) (m : Mode) (o : Opts) (data : Data)
    (hf : ∀ T ∈ declTypes decl o, Fits o T) (n : Nat) (hn : declDepth decl o ≤ n) :
    run W n decl m o data = run W (declDepth decl o) decl m o data := by
  unfold run
  rw [parseData_congr decl [] true (clean0 m o) data]
  intro T hT v
  simp only [clean0_mode, clean0_o] at hT ⊢
  unfold verdict
  have hd : T.depth ≤ declDepth decl o := depth_le_depthL hT
  rw [parse_fuel_adequate W T (clean0 m o) v (hf T hT) n (Nat.le_trans hd hn),
    parse_fuel_adequate W T (clean0 m o) v (hf T hT) (declDepth decl o) hd]

end Utv.C10
