"""Worker process: runs an adapter function on JSON cases, one per line.

usage: python -m harness.worker <module>:<function>
The real utype is imported from $UTYPE_REPO (default /repo) — its current working tree.
"""
import importlib
import json
import os
import sys


def main():
    repo = os.environ.get("UTYPE_REPO", "/repo")
    if repo not in sys.path:
        sys.path.insert(0, repo)
    out = os.fdopen(os.dup(1), "w", buffering=1)
    # anything the implementation prints must not corrupt the protocol
    devnull = open(os.devnull, "w")
    os.dup2(devnull.fileno(), 1)
    sys.stdout = devnull
    modname, fname = sys.argv[1].split(":")
    fn = getattr(importlib.import_module(modname), fname)
    sys.setrecursionlimit(10000)
    for line in sys.stdin:
        line = line.strip()
        if not line:
            continue
        try:
            case = json.loads(line)
            res = fn(case)
        except BaseException as e:  # adapter bug or something the adapter did not canonicalise
            res = {"__worker_exc__": f"{type(e).__name__}: {e}"[:300]}
        try:
            txt = json.dumps(res, sort_keys=True)
        except Exception as e:
            txt = json.dumps({"__worker_exc__": f"unserialisable result: {e}"[:300]})
        out.write(txt + "\n")
        out.flush()


if __name__ == "__main__":
    main()
