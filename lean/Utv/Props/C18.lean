import Utv.Model.C18
namespace Utv.C18
theorem C18_stub : True := trivial
end Utv.C18
