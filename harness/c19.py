"""C19 — parsing is pure: no input mutation, no shared defaults, no cross-call state.

A case is a *program*: declarations (data classes / a decorated function, as JSON descriptors with
mutable defaults and default factories) plus a history of operations — parses (successful and
failing), in-place mutations of earlier results, attribute assignments, `Schema.copy()` — ending in
a probe parse.  The adapter (`impl`) runs the program on the real utype and returns

  * the outcome kind of every operation,
  * the final object graph of {declared default objects, every call's input, every result}, as trees
    whose mutable nodes carry *identity labels* (first-visit numbering over `is`-identity),
  * for every call whether a deep, identity-aware snapshot of its input changed across the call,
  * the probe's value in this process, on a freshly built copy of the declarations (same process)
    and — for flagged cases — in a fresh interpreter.

Correspondence: the Lean heap model (`Utv.C19`, values carry object ids) runs the same program and
must produce the same outcomes and the same labelled graph.  Spec (`spec`): the property's own
predicate evaluated on what the implementation returned (see `spec_check`).
"""
from __future__ import annotations

import json
import os
import random
import subprocess
import sys

from .common import Check, PY, REPO, VERIF

MUT = ("list", "set", "dict", "inst", "bytearray", "deque", "SL", "SS", "SD", "SQ")
# instances of user subclasses of the builtin containers (kind names used in descriptors and labelled trees)
SUBKIND = {"SL": "list", "ST": "tuple", "SS": "set", "SF": "fset", "SD": "dict", "SQ": "deque", "NT": "tuple"}
_SUBCLS = {}


def subclasses():
    if not _SUBCLS:
        import collections

        class SL(list):
            pass

        class ST(tuple):
            pass

        class SS(set):
            pass

        class SF(frozenset):
            pass

        class SD(dict):
            pass

        class SQ(collections.deque):
            pass

        NT = collections.namedtuple("NT", "x y")
        _SUBCLS.update(SL=SL, ST=ST, SS=SS, SF=SF, SD=SD, SQ=SQ, NT=NT)
    return _SUBCLS
SEQK = ("list", "tuple", "set", "fset")


# ------------------------------------------------------------------------------------------------
# values: JSON descriptor -> Python object graph (with sharing), Python object graph -> labelled tree
# ------------------------------------------------------------------------------------------------

def build(v, tags, roots=None):
    """JSON value descriptor -> Python object.  {"tag":t} names a node, {"ref":t} reuses it (same
    object), {"root":r,"path":[..]} is the object found at a canonical path of an earlier root."""
    if v is None or isinstance(v, (int, str)):
        return v
    if "ref" in v:
        return tags[v["ref"]]
    if "instof" in v:
        # an instance of an earlier declared data class, built through the public API
        if "__classes__" not in tags:
            return _Opaque()
        cls = tags["__classes__"][v["instof"]]
        return cls(**build(v["args"], tags, roots))
    if "root" in v:
        try:
            r = roots[v["root"]]
            if r is _NOROOT:
                return None
            o = walk(r, v.get("path", []))
            return None if isinstance(o, _Attrs) else o
        except (IndexError, KeyError, TypeError):
            return None          # dangling reference: the caller passes None instead
    k = v["k"]
    items = [build(x, tags, roots) for x in v.get("items", [])]
    if k == "list":
        o = list(items)
    elif k == "tuple":
        o = tuple(items)
    elif k == "set":
        o = set(items)
    elif k == "fset":
        o = frozenset(items)
    elif k == "dict":
        o = dict(zip(v["keys"], items))
    elif k == "bytearray":
        o = bytearray(items)
    elif k == "deque":
        import collections
        o = collections.deque(items)
    elif k == "SD":
        o = subclasses()["SD"](zip(v["keys"], items))
    elif k == "NT":
        o = subclasses()["NT"](*items)
    elif k in SUBKIND:
        o = subclasses()[k](items)
    else:
        raise ValueError("bad kind " + str(k))
    if "tag" in v:
        tags[v["tag"]] = o
    return o


def _skey(x):
    return (0, 0, "") if x is None else (1, x, "") if isinstance(x, int) else (2, 0, x) if isinstance(x, str) else (3, 0, json.dumps(x, sort_keys=True))


def children(o, env=None):
    """canonical (kind, keys, child objects) of a Python object; None for atoms"""
    if o is None or isinstance(o, (int, str)):
        return None
    t = type(o)
    if t is list:
        return "list", [], list(o)
    if t is tuple:
        return "tuple", [], list(o)
    if t is set:
        return "set", [], sorted(o, key=_skey_obj)
    if t is frozenset:
        return "fset", [], sorted(o, key=_skey_obj)
    if t is bytearray:
        return "bytearray", [], list(o)
    if t.__name__ == "deque":
        return "deque", [], list(o)
    for name, c in _SUBCLS.items():
        if t is c:
            if name == "SD":
                ks = sorted(o, key=str)
                return "SD", [str(k) for k in ks], [o[k] for k in ks]
            if name in ("SS", "SF"):
                return name, [], sorted(o, key=_skey_obj)
            return name, [], list(o)
    if t is dict:
        ks = sorted(o, key=str)
        return "dict", [str(k) for k in ks], [o[k] for k in ks]
    p = getattr(t, "__parser__", None)
    if p is not None and hasattr(p, "fields"):
        names = sorted(f.attname for f in p.fields.values())
        d = {n: o.__dict__[n] for n in names if n in o.__dict__}
        if isinstance(o, dict):
            ks = sorted(dict.keys(o), key=str)
            return "inst:" + t.__name__.rsplit("_", 1)[-1], ["__dict__"] + [str(k) for k in ks], [_Attrs(o.__dict__, d)] + [dict.__getitem__(o, k) for k in ks]
        return "inst:" + t.__name__.rsplit("_", 1)[-1], ["__dict__"], [_Attrs(o.__dict__, d)]
    return "other:" + t.__name__, [], []


class _Opaque:
    """stands for an object whose inside the oracle does not look at"""


class _Attrs:
    """view of an instance `__dict__` restricted to the declared fields; identity = the real __dict__"""
    def __init__(self, real, view):
        self.real, self.view = real, view


def _skey_obj(o):
    if o is None:
        return (0, 0, "")
    if isinstance(o, int):
        return (1, o, "")
    if isinstance(o, str):
        return (2, 0, o)
    return (3, 0, repr(o))


def opaque_default_ids(defaults):
    """id()s of the opaque objects among the declared defaults — a deque, bytearray, data-class instance or other
    object, found without passing through another opaque object.  copy_value hands such a default out as it is
    (only list / set / tuple / dict are copied), so every parse that takes the default holds that very object."""
    cut, seen = set(), set()

    def go(o):
        c = children(o)
        if c is None or id(o) in seen:
            return
        seen.add(id(o))
        if c[0] not in NAMED_KINDS:
            cut.add(id(o))
            return
        for x in c[2]:
            go(x)
    for d in defaults:
        go(d)
    return cut


def observe(objs, cut=()):
    """labelled trees of several roots; one label per distinct mutable object (first visit order);
    objects whose id() is in `cut` are shown as {"k": "opaque"} without their inside"""
    labels = {}
    keep = []

    def lab(o):
        i = id(o)
        if i not in labels:
            labels[i] = len(labels)
            keep.append(o)
        return labels[i]

    def go(o, depth):
        if isinstance(o, _Attrs):
            ks = sorted(o.view)
            return {"k": "dict", "id": lab(o.real), "keys": ks, "items": [go(o.view[k], depth + 1) for k in ks]}
        if cut and id(o) in cut:
            return {"k": "opaque"}
        c = children(o)
        if c is None:
            return o
        if depth > 40:
            return {"k": "deep"}
        kind, keys, ch = c
        mutable = kind.split(":")[0] in MUT
        me = lab(o) if mutable else None
        items = [go(x, depth + 1) for x in ch]
        if kind in ("set", "fset", "SS", "SF"):
            items = sorted(items, key=_skey)       # elements are hashable: no labels inside, order by value
        return {"k": kind, "id": me, "keys": keys, "items": items}

    return [None if o is _NOROOT else go(o, 0) for o in objs]


_NOROOT = object()


def walk(o, path):
    """object at a canonical child-index path (same canonical order as `observe`)"""
    for i in path:
        if isinstance(o, _Attrs):
            ks = sorted(o.view)
            o = o.view[ks[i]]
            continue
        c = children(o)
        if c is None:
            raise IndexError("atom")
        o = c[2][i]
    return o


def erase(t):
    """drop identity labels (value view of a labelled tree)"""
    if isinstance(t, dict):
        return {"k": t["k"], "keys": t.get("keys", []), "items": [erase(x) for x in t.get("items", [])]}
    return t


# ------------------------------------------------------------------------------------------------
# declarations: JSON descriptor -> real utype classes / decorated function
# ------------------------------------------------------------------------------------------------

_COUNTER = [0]


def _type_refs(ty, acc):
    if isinstance(ty, dict):
        if "data" in ty:
            acc.add(ty["data"])
        for key in ("of", "map", "opt"):
            if key in ty:
                _type_refs(ty[key], acc)
        for t in ty.get("tup", []):
            _type_refs(t, acc)
    return acc


def needed_decls(case, k):
    """the declarations a parse of declaration k depends on: k, its base classes, the classes its types mention"""
    env = case["env"]
    need, todo = set(), [k]
    while todo:
        j = todo.pop()
        if j in need or j >= len(env):
            continue
        need.add(j)
        d = env[j]
        if d.get("base") is not None:
            todo.append(d["base"])
        refs = set()
        for f in d["fields"]:
            _type_refs(f["ty"], refs)
            dv = (f.get("default") or {}).get("val")
            if isinstance(dv, dict) and "instof" in dv:
                refs.add(dv["instof"])          # a default that is an instance of an earlier class
        if d.get("ret"):
            _type_refs(d["ret"]["ty"], refs)
        todo += list(refs)
    return need


class Program:
    """the declarations of a case, instantiated through the public API"""

    def __init__(self, case, only_wrapper=None, only_decls=None):
        import types

        _COUNTER[0] += 1
        self.uid = _COUNTER[0]
        self.case = case
        self.only_wrapper = only_wrapper
        self.modname = f"c19mod_{os.getpid()}_{self.uid}"
        self.mod = types.ModuleType(self.modname)
        sys.modules[self.modname] = self.mod
        env = case["env"]
        self.classes = [None] * len(env)
        self.defaults = []          # declared default objects, in declaration order
        self.hold = []
        self.tags = {"__classes__": self.classes}
        self.names = [f"K{self.uid}_{k}" for k in range(len(env))]
        self.fpool = None
        self.ropts = {}
        for k, decl in enumerate(env):
            if only_decls is not None:
                if k in only_decls:
                    self.declare(k)       # a replay declares what the parse needs, late or not, and nothing else
            elif not decl.get("late"):
                self.declare(k)
        # `force_default` objects of the running-options pool: built once, like any declared default
        self.fpool = [build(v, self.tags) for v in case.get("fpool", [])]
        if only_decls is None:
            self.defaults += self.fpool

    def running_options(self, ropt):
        """the Options object for a running-options descriptor — one object per descriptor, re-used by later parses"""
        from utype import Options
        key = json.dumps(ropt, sort_keys=True)
        if key not in self.ropts:
            kw = dict(ropt)
            if "force_ref" in kw:
                kw["force_default"] = self.fpool[kw.pop("force_ref")]
            self.ropts[key] = Options(**kw)
        return self.ropts[key]

    def mk_type(self, ty, cur):
        import collections
        import typing
        if ty == "any":
            return typing.Any
        if ty == "int":
            return int
        if "bare" in ty:
            return {"list": list, "tuple": tuple, "set": set, "fset": frozenset, "dict": dict,
                    "deque": collections.deque, "bytearray": bytearray}[ty["bare"]]
        if "seq" in ty:
            t = self.mk_type(ty["of"], cur)
            k = ty["seq"]
            return {"list": lambda: typing.List[t], "tuple": lambda: typing.Tuple[t, ...],
                    "set": lambda: typing.Set[t], "fset": lambda: typing.FrozenSet[t],
                    "deque": lambda: typing.Deque[t]}[k]()
        if "map" in ty:
            return typing.Dict[str, self.mk_type(ty["map"], cur)]
        if "tup" in ty:
            return typing.Tuple[tuple(self.mk_type(t, cur) for t in ty["tup"])]
        if "opt" in ty:
            return typing.Optional[self.mk_type(ty["opt"], cur)]
        if "data" in ty:
            j = ty["data"]
            if cur is not None and j < cur and self.classes[j] is not None:
                return self.classes[j]
            return self.names[j]      # forward reference by name (self or later class): resolved lazily at first parse
        raise ValueError(ty)

    def mk_default(self, f, is_func):
        import utype
        from utype import Field, Lax
        d = f.get("default")
        F = utype.Param if is_func else Field
        kw = {} if is_func else {"no_output": bool(f.get("no_output"))}
        if f.get("defer") and not is_func:
            kw["defer_default"] = True
        cons = f.get("cons") or {}
        for name, bound in cons.items():
            if bound is not None:
                kw[name] = Lax(bound["lax"]) if isinstance(bound, dict) else bound
        if d is None:
            if cons or kw.get("no_output"):
                return F(**kw), True
            return None, False
        obj = build(d["val"], self.tags)
        how = d.get("how", "val")
        if how == "val":
            self.defaults.append(obj)
            if d.get("style") == "annotated":
                # `name: Annotated[T, Field(...)] = obj`: the default is assigned, the Field rides on the annotation
                self.ann_extra = F(**kw)
                return obj, True
            if (is_func or d.get("plain")) and not f.get("no_output") and not cons and not kw.get("defer_default"):
                return obj, True          # `name: T = obj` — a plain Python default
            return F(default=obj, **kw), True
        if how == "shared":               # a factory that hands out the same object every time
            self.defaults.append(obj)
            return F(default_factory=lambda o=obj: o, **kw), True
        if how == "fresh":                # a factory that builds a new object every time
            spec = d["val"]
            return F(default_factory=lambda s=spec: build(s, {}), **kw), True
        raise ValueError(how)

    def declare(self, k):
        """declare declaration k now (class statement / decoration)"""
        import utype
        from utype import Schema, DataClass, Options
        decl = self.case["env"][k]
        names = self.names
        kind = decl["kind"]
        if kind in ("schema", "dataclass"):
            ann, attrs = {}, {}
            for f in decl["fields"]:
                ann[f["name"]] = self.mk_type(f["ty"], k)
                self.ann_extra = None
                dv, has = self.mk_default(f, False)
                if has:
                    attrs[f["name"]] = dv
                if self.ann_extra is not None:
                    from utype.utils.compat import Annotated
                    ann[f["name"]] = Annotated[ann[f["name"]], self.ann_extra]
            attrs["__annotations__"] = ann
            attrs["__module__"] = self.modname
            attrs["__qualname__"] = names[k]
            okw = {}
            if decl.get("dfs") is not None:
                okw["data_first_search"] = decl["dfs"]
            if decl.get("ci"):
                okw["case_insensitive"] = True
            elif decl.get("base") is not None:
                okw["case_insensitive"] = False     # explicit: a subclass without Options would inherit the base's
            if okw:
                attrs["__options__"] = Options(**okw)
            if decl.get("base") is not None:
                bases = (self.classes[decl["base"]],)       # a subclass / variant of an earlier class
            else:
                bases = (Schema if kind == "schema" else DataClass,)
            cls = type(names[k], bases, attrs)
            setattr(self.mod, names[k], cls)
            self.classes[k] = cls
        elif kind == "func":
            ns = self.mod.__dict__
            ns["HOLD"] = self.hold
            params = []
            for i, f in enumerate(decl["fields"]):
                ns[f"T{k}_{i}"] = self.mk_type(f["ty"], k)
                self.ann_extra = None
                dv, has = self.mk_default(f, True)
                if self.ann_extra is not None:
                    from utype.utils.compat import Annotated
                    ns[f"T{k}_{i}"] = Annotated[ns[f"T{k}_{i}"], self.ann_extra]
                if has:
                    ns[f"D{k}_{i}"] = dv
                    params.append(f"{f['name']}: T{k}_{i} = D{k}_{i}")
                else:
                    params.append(f"{f['name']}: T{k}_{i}")
            body = "{" + ", ".join(f"'{f['name']}': {f['name']}" for f in decl["fields"]) + "}"
            fkind = decl.get("fkind", "sync")
            ret = decl.get("ret") if fkind in ("sync", "async") else None
            head = "async def" if fkind in ("async", "agen") else "def"
            ann = ""
            tail = ""
            if ret:
                ns[f"TR{k}"] = self.mk_type(ret["ty"], k)
                ann = f" -> TR{k}"
                tail = f"    return {ret['field']}\n"
            if fkind in ("gen", "agen"):
                tail = "    yield 1\n"
            src = f"{head} raw{k}({', '.join(params)}){ann}:\n    HOLD.append({body})\n{tail}"
            exec(src, ns)
            raw = ns[f"raw{k}"]
            ws = []
            for j, od in enumerate(decl.get("wrappers") or [None]):
                if self.only_wrapper is not None and self.only_wrapper != (k, j):
                    ws.append(None)
                    continue
                kwo = {"eager": True} if decl.get("eager") else {}
                if od:
                    kwo["options"] = Options(**od)
                ws.append(utype.parse(raw, **kwo))
            self.classes[k] = ws
        else:
            raise ValueError(kind)

    def close(self):
        sys.modules.pop(self.modname, None)

    def call(self, op, inp):
        """one parse through the public API; returns the result object (instance / what the body received)"""
        k = op["target"]
        decl = self.case["env"][k]
        style = op.get("style", "kw")
        if decl["kind"] == "func":
            f = self.classes[k][op.get("wrapper", 0)]
            n0 = len(self.hold)
            npos = op.get("pos", 0)
            names = [fl["name"] for fl in decl["fields"]]
            pos = [inp[n] for n in names[:npos]] if npos and all(n in inp for n in names[:npos]) else []
            kw = {a: b for a, b in inp.items() if not (pos and a in names[:npos])}
            fkind = decl.get("fkind", "sync")
            if fkind == "sync":
                f(*pos, **kw)
            elif fkind == "gen":
                list(f(*pos, **kw))
            else:
                import asyncio

                async def consume():
                    if fkind == "async":
                        return await f(*pos, **kw)
                    return [x async for x in f(*pos, **kw)]
                asyncio.run(consume())
            if len(self.hold) != n0 + 1:
                raise RuntimeError("body did not run exactly once")
            return self.hold[-1]
        cls = self.classes[k]
        if op.get("ropt") is not None:     # running options for this one parse
            return cls.__from__(inp, self.running_options(op["ropt"]))
        if style == "poskw":           # input is the pair (positional dict, keyword arguments)
            return cls(inp[0], **inp[1])
        if style == "pos":
            return cls(inp)
        if style == "from":
            return cls.__from__(inp)
        return cls(**inp)


def reaches(src, target, depth=0):
    """is the object `target` reachable from `src` (identity)?"""
    if src is target:
        return True
    if isinstance(src, _Attrs) or depth > 40:
        return False
    c = children(src)
    if c is None:
        return False
    return any(reaches(x.real if isinstance(x, _Attrs) else x, target, depth + 1) for x in c[2])


def _plain_hashable(v):
    """atoms and tuples / frozensets (and their subclasses) of such"""
    c = children(v)
    if c is None:
        return True
    return c[0] in ("tuple", "fset", "ST", "SF", "NT") and all(_plain_hashable(x) for x in c[2])


def do_mutate(op, roots, put=None):
    """the caller changes an object it reaches through a root, in place; `put` collects the objects of other roots
    the caller stored into it (aliasing the caller made itself)"""
    try:
        if op["root"] >= len(roots) or roots[op["root"]] is _NOROOT:
            return "skip"
        o = walk(roots[op["root"]], op["path"])
    except (IndexError, KeyError, TypeError):
        return "skip"
    if isinstance(o, _Attrs):
        return "skip"             # an instance's own __dict__ is only written through setattr
    sub = tuple(subclasses().values())
    if isinstance(o, sub) and not isinstance(o, (list, set, dict)):
        return "skip"
    act, val = op["act"], op.get("val")
    if isinstance(val, dict) and "root" in val:
        # another object the caller holds (an older root or a part of it)
        try:
            if val["root"] >= len(roots) or roots[val["root"]] is _NOROOT:
                return "skip"
            val = walk(roots[val["root"]], val.get("path", []))
        except (IndexError, KeyError, TypeError):
            return "skip"
        if isinstance(val, _Attrs):
            return "skip"
        if act in ("append", "setkey") and reaches(val, o):
            return "skip"         # would make the object contain itself
        if put is not None and act in ("append", "add", "setkey"):
            put.append(val)
    plain = type(o).__name__
    if act == "append" and isinstance(o, list):
        o.append(val)
    elif act == "add" and isinstance(o, set):
        if not _plain_hashable(val):
            return "skip"         # (a DataClass instance hashes by identity; the histories leave that out)
        o.add(val)
    elif act == "setkey" and isinstance(o, dict) and plain in ("dict", "SD"):
        o[op.get("key", "zz")] = val
    elif act == "clear" and (isinstance(o, (list, set)) or (isinstance(o, dict) and plain in ("dict", "SD"))):
        o.clear()
    elif act == "pop" and isinstance(o, list):
        if o:
            o.pop()
    elif act == "delkey" and isinstance(o, dict) and plain in ("dict", "SD"):
        o.pop(op.get("key", "zz"), None)
    else:
        return "skip"
    return "ok"


_TT = {}


def tt_type(name):
    """the types of the options-less helper calls: `type_transform(data, T)` / `T(data)` with the default options"""
    if not _TT:
        from utype import Rule

        class Scores(list, Rule):
            __args__ = (int,)
            max_length = 3

        class Percent(int, Rule):
            ge = 0
            le = 100

        class Lim(dict, Rule):
            __args__ = (str, int)
            max_length = 2
        _TT.update(scores=Scores, percent=Percent, lim=Lim, optpercent=Percent | None)
    return _TT[name]


TT_MENU = {   # type -> (inputs that convert, inputs that do not)
    "scores": (["1,2,3", {"k": "list", "items": [1, "2"], "keys": []}], ["1,x,3", {"k": "list", "items": [1, 2, 3, 4], "keys": []}]),
    "percent": (["55", 7], ["101", "x"]),
    "optpercent": (["7", None], ["101"]),
    "lim": ([{"k": "dict", "items": ["1"], "keys": ["a"]}], [{"k": "dict", "items": ["x"], "keys": ["a"]},
                                                            {"k": "dict", "items": [1, 2, 3], "keys": ["a", "b", "c"]}]),
}


def do_tt(op, inp):
    import utype
    T = tt_type(op["t"])
    if op.get("via") == "rule_call" and op["t"] != "optpercent":
        return T(inp)
    return utype.type_transform(inp, T)


def classify_exc(e):
    from utype.utils.exceptions import ParseError
    if isinstance(e, ParseError):
        return "perr"
    return "esc:" + type(e).__name__


def run_program(case, only_last=False, only_wrapper=None, only_op=None, post=None):
    """execute the history; returns outs, roots(objects), input_changed, program.
    `post`: dict filled with op index -> value view of the result right after the call."""
    ops = case["ops"]
    if only_last:
        ops = [ops[-1]]
    if only_op is not None:
        ops = [ops[only_op]]
    only_decls = None
    if only_last or only_op is not None:
        only_decls = needed_decls(case, ops[0]["target"]) if ops[0]["op"] == "call" else set()
    prog = Program(case, only_wrapper=only_wrapper, only_decls=only_decls)
    roots, outs, changed = [], [], []
    prog.put = []
    try:
        for i, op in enumerate(ops):
            kind = op["op"]
            if kind == "call":
                inp = build(op["input"], {}, roots)
                before = observe([inp])
                try:
                    res = prog.call(op, inp)
                    outs.append("ok")
                except Exception as e:   # noqa
                    res = _NOROOT
                    outs.append(classify_exc(e))
                after = observe([inp])
                if before != after:
                    changed.append(i)
                if post is not None:
                    # value view of the result; an opaque declared default inside it (handed out as it is by design)
                    # is not looked into: its content is whatever its holders made of it
                    post[i] = [outs[-1], erase(observe([res], cut=opaque_default_ids(prog.defaults))[0])]
                roots.append(inp)
                roots.append(res)
            elif kind == "tt":
                # a conversion through a public helper that takes no options: no declaration involved, no root kept
                inp = build(op["input"], {}, roots)
                before = observe([inp])
                try:
                    res = do_tt(op, inp)
                    outs.append("ok")
                except Exception as e:   # noqa
                    res = _NOROOT
                    outs.append(classify_exc(e))
                if before != observe([inp]):
                    changed.append(i)
                if post is not None:
                    post[i] = [outs[-1], erase(observe([res])[0])]
            elif kind == "declare":
                if prog.classes[op["decl"]] is None:
                    prog.declare(op["decl"])
                outs.append("ok")
            elif kind == "mutate":
                outs.append(do_mutate(op, roots, prog.put))
            elif kind == "getattr":
                o = roots[op["root"]] if op["root"] < len(roots) else _NOROOT
                c = children(o) if o is not _NOROOT else None
                if c is None or not c[0].startswith("inst:"):
                    outs.append("skip")
                    roots.append(_NOROOT)
                else:
                    try:
                        roots.append(getattr(o, op["field"]))
                        outs.append("ok")
                    except AttributeError:
                        outs.append("skip")
                        roots.append(_NOROOT)
                    except Exception as e:   # noqa  (a namedtuple as deferred default: copy_value raises TypeError)
                        outs.append(classify_exc(e))
                        roots.append(_NOROOT)
            elif kind == "setattr":
                o = roots[op["root"]] if op["root"] < len(roots) else _NOROOT
                c = children(o) if o is not _NOROOT else None
                if c is None or not c[0].startswith("inst:"):
                    outs.append("skip")
                else:
                    try:
                        setattr(o, op["field"], op["val"])
                        outs.append("ok")
                    except Exception as e:   # noqa
                        outs.append(classify_exc(e))
            elif kind == "copy":
                o = roots[op["root"]] if op["root"] < len(roots) else _NOROOT
                c = children(o) if o is not _NOROOT else None
                if c is None or not c[0].startswith("inst:") or not isinstance(o, dict):
                    outs.append("skip")
                    roots.append(_NOROOT)
                else:
                    roots.append(o.copy())
                    outs.append("ok")
            else:
                raise ValueError(kind)
    finally:
        prog.close()
    return outs, roots, changed, prog


def strip_cls(t):
    return t


def _wrapper_of(case, op):
    if op["op"] != "call":
        return None
    return (op["target"], op.get("wrapper", 0)) if case["env"][op["target"]]["kind"] == "func" else None


def impl(case):
    post = {}
    outs, roots, changed, prog = run_program(case, post=post)
    snap = observe(list(prog.defaults) + roots + list(prog.put))
    nd = len(prog.defaults)
    res = {"outs": outs, "defaults": snap[:nd], "roots": snap[nd:nd + len(roots)], "input_changed": changed}
    put = set()
    for t in snap[nd + len(roots):]:
        mut_ids(t, put)
    res["tt_post"] = [[i, post[i]] for i, op in enumerate(case["ops"]) if op["op"] == "tt" and i in post]
    res["caller_put"] = sorted(put)      # objects the caller itself stored into another root (and what they hold)
    # every call that does not refer to earlier roots is replayed alone on freshly built declarations:
    # same outcome, same value — whatever happened before it in the history (failed calls included)
    res["replayed"] = 0
    res["replay_mismatch"] = []
    for i, op in enumerate(case["ops"][:-1]):
        if op["op"] in ("call", "tt") and '"root"' not in json.dumps(op["input"]):
            p1 = {}
            run_program(case, only_op=i, only_wrapper=_wrapper_of(case, op), post=p1)
            res["replayed"] += 1
            if p1.get(0) != post.get(i):
                res["replay_mismatch"].append([i, post.get(i), p1.get(0)])
    # the probe (last call) on freshly built declarations in this process ...
    last = case["ops"][-1]
    if last["op"] == "call" and '"root"' not in json.dumps(last["input"]):     # a probe must not refer to earlier roots
        ow = (last["target"], last.get("wrapper", 0)) if case["env"][last["target"]]["kind"] == "func" else None
        p2 = {}
        run_program(case, only_last=True, only_wrapper=ow, post=p2)
        res["probe"] = post[len(case["ops"]) - 1]
        res["fresh_decl"] = p2[0]
        # ... and in a fresh interpreter
        if case.get("fresh_interp"):
            env = dict(os.environ)
            env["PYTHONPATH"] = str(VERIF) + os.pathsep + env.get("PYTHONPATH", "")
            p = subprocess.run([sys.executable, "-m", "harness.c19", "--probe"], input=json.dumps(case), cwd=str(VERIF),
                               env=env, capture_output=True, text=True, timeout=60)
            try:
                res["fresh_interp"] = json.loads(p.stdout.strip().splitlines()[-1])
            except Exception:
                res["fresh_interp"] = ["harness-error", (p.stderr or "")[-300:]]
    return res


def _probe_main():
    repo = os.environ.get("UTYPE_REPO", "/repo")
    if repo not in sys.path:
        sys.path.insert(0, repo)
    import warnings
    warnings.simplefilter("ignore")
    case = json.loads(sys.stdin.read())
    last = case["ops"][-1]
    ow = (last["target"], last.get("wrapper", 0)) if case["env"][last["target"]]["kind"] == "func" else None
    p2 = {}
    run_program(case, only_last=True, only_wrapper=ow, post=p2)
    print(json.dumps(p2[0], sort_keys=True))


# ------------------------------------------------------------------------------------------------
# the property's predicate on what the implementation did
# ------------------------------------------------------------------------------------------------

def mut_ids(t, acc=None, scope_only=False):
    """identity labels of the mutable nodes of a labelled tree"""
    if acc is None:
        acc = set()
    if isinstance(t, dict):
        k = t["k"].split(":")[0]
        if t.get("id") is not None and not (scope_only and k in ("bytearray", "deque")):
            acc.add(t["id"])
        for x in t.get("items", []):
            mut_ids(x, acc, scope_only)
    return acc


def in_scope_ids(t, acc=None, with_inst=False, stop_inst=False):
    """labels of list/set/dict nodes (the kinds the property names) reachable without passing through an opaque object"""
    if acc is None:
        acc = set()
    if isinstance(t, dict):
        k = t["k"].split(":")[0]
        if k in ("bytearray", "deque", "other", "SQ") or (stop_inst and k == "inst"):
            return acc
        if t.get("id") is not None and (k in ("list", "set", "dict", "SL", "SS", "SD") or with_inst and k == "inst"):
            acc.add(t["id"])
        for x in t.get("items", []):
            in_scope_ids(x, acc, with_inst, stop_inst)
    return acc


NAMED_KINDS = ("list", "tuple", "set", "fset", "dict", "SL", "ST", "SS", "SF", "SD", "NT")


def prune(t):
    """value view without the inside of opaque objects (deque, bytearray, instances, other objects)"""
    if isinstance(t, dict):
        if t["k"] not in NAMED_KINDS:
            return {"k": "opaque"}
        return {"k": t["k"], "keys": t.get("keys", []), "items": [prune(x) for x in t.get("items", [])]}
    return t


def spec_check(case, io):
    """None if the property holds on this run of the implementation, else a reason.

    (a) no call changed its input (deep, identity-aware snapshot before == after);
    (b) no result reaches a list/set/dict object of a declared default ("copied for every instance and call");
    (c) two different calls' results share a mutable object only if it was already reachable from the inputs of
        both (caller-made aliasing) or from an earlier root the caller passed in; a `copy()` may share its source's
        field *values* but must not share the instance's own attribute dict;
    (d) the declared default objects are unchanged at the end of the history (the history only mutates objects
        reached through results);
    (e) every call without references to earlier roots — after failed or successful calls alike — gives the same
        outcome and value when replayed alone on freshly built declarations; the probe also in a fresh interpreter.
    """
    if "outs" not in io:
        return f"program did not complete: {io}"
    if io["input_changed"]:
        i = io["input_changed"][0]
        return f"(a) call #{i} modified its input object graph"
    ops = case["ops"]
    roots = io["roots"]
    dflt_ids, dflt_all = set(), set()
    for d in io["defaults"]:
        in_scope_ids(d, dflt_ids, stop_inst=True)
        mut_ids(d, dflt_all)
    # an opaque default (deque, bytearray, data-class instance, other object) is handed out as it is by design of
    # copy_value: it and what is reachable only through it is outside clauses (b)-(d)
    dflt_opaque = dflt_all - dflt_ids
    # map roots to ops
    r = 0
    root_info = []    # (root index, op index, role)
    for i, op in enumerate(ops):
        if op["op"] == "call":
            root_info.append((r, i, "in"))
            root_info.append((r + 1, i, "out"))
            r += 2
        elif op["op"] == "copy":
            root_info.append((r, i, "copy"))
            r += 1
        elif op["op"] == "getattr":
            root_info.append((r, i, "attr"))
            r += 1
    inputs_reach = {}
    for ri, oi, role in root_info:
        if roots[ri] is None:
            continue
        if role == "in":
            inputs_reach[oi] = mut_ids(roots[ri])
    caller_ids = set()
    for s in inputs_reach.values():
        caller_ids |= s
    caller_ids |= set(io.get("caller_put", []))
    seen_fresh = {}    # label -> op index that created it
    for ri, oi, role in root_info:
        t = roots[ri]
        if t is None or role == "in":
            continue
        ids = in_scope_ids(t)
        bad = ids & dflt_ids
        if bad:
            return f"(b) result of op #{oi} shares a list/set/dict object with a declared default"
        if role == "copy":
            src = roots[ops[oi]["root"]]
            if isinstance(src, dict) and isinstance(t, dict) and src.get("items") and t.get("items"):
                a, b = src["items"][0], t["items"][0]
                if isinstance(a, dict) and isinstance(b, dict) and a.get("id") is not None and a.get("id") == b.get("id"):
                    return f"(c) copy() in op #{oi} shares the attribute dict of its source: assigning a field on the copy changes the original"
                if src.get("id") == t.get("id"):
                    return f"(c) copy() in op #{oi} returned the same object"
            continue
        own = set()
        if role == "attr":
            # reading an attribute gives the stored value (part of the instance) — or, for a deferred default,
            # an object made for this very access
            src = roots[ops[oi]["root"]] if ops[oi]["root"] < len(roots) else None
            own = mut_ids(src) if src is not None else set()
        for l in in_scope_ids(t, with_inst=True):
            if l in caller_ids or l in dflt_opaque or l in own:
                continue
            if l in seen_fresh and seen_fresh[l] != oi:
                return f"(c) results of op #{seen_fresh[l]} and op #{oi} share a mutable object that no caller passed in"
            seen_fresh.setdefault(l, oi)
    # (d) declared defaults keep their declared value — for the defaults the property names: a default whose top-level
    # object is a list / set / tuple / dict (or an instance of a subclass of one).  A deque, bytearray, data-class
    # instance or other object as a default is handed out as it is by design of copy_value, so it — and whatever is
    # reachable only through it, also when it sits inside a list/dict default — is outside this clause.
    want = []
    tags = {}

    def decl_defaults(k):
        for f in case["env"][k]["fields"]:
            d = f.get("default")
            if d and d.get("how", "val") in ("val", "shared"):
                want.append(erase(observe([build(d["val"], tags)])[0]))
    for k, d in enumerate(case["env"]):
        if not d.get("late"):
            decl_defaults(k)
    for v in case.get("fpool", []):
        want.append(erase(observe([build(v, tags)])[0]))
    for op in case["ops"]:
        if op["op"] == "declare":
            decl_defaults(op["decl"])
    got = [erase(d) for d in io["defaults"]]
    if len(got) != len(want):
        return "(d) the declared defaults could not be matched up (harness)"
    for g, w_ in zip(got, want):
        if not (isinstance(w_, dict) and w_["k"] in NAMED_KINDS):
            continue
        if prune(g) != prune(w_):
            return "(d) a declared default object changed value during the history"
    # (e) history independence
    seen_tt = {}
    for i, got in io.get("tt_post", []):
        k = json.dumps([ops[i]["t"], ops[i].get("via"), ops[i]["input"]], sort_keys=True)
        if k in seen_tt and seen_tt[k][1] != got:
            return (f"(e) the options-less conversion #{i} gives {got[0]} but the very same conversion #{seen_tt[k][0]} "
                    f"earlier in the history gave {seen_tt[k][1][0]}")
        seen_tt.setdefault(k, (i, got))
        if ops[i].get("expect") and got[0] != ops[i]["expect"]:
            return (f"(e) the options-less conversion #{i} gives {got[0]}; on its own, in a process that has converted nothing "
                    f"before, it gives {ops[i]['expect']}")
    for i, here, alone in io.get("replay_mismatch", []):
        return (f"(e) call #{i} gives {here[0] if here else None} after the history but {alone[0] if alone else None} "
                f"(or a different value) when it is the only call on freshly built declarations")
    if "probe" in io:
        if io["probe"] != io["fresh_decl"]:
            return f"(e) probe after the history gives {io['probe'][0]} / a different value than on freshly built declarations ({io['fresh_decl'][0]})"
        if "fresh_interp" in io and io["probe"] != io["fresh_interp"]:
            return f"(e) probe after the history differs from a fresh interpreter ({io['fresh_interp'][0]})"
    return None


if __name__ == "__main__" and "--probe" in sys.argv:
    _probe_main()
    sys.exit(0)


# ------------------------------------------------------------------------------------------------
# canonical form of the model's answer (raw ids -> first-visit labels, sorted dict keys / set items)
# ------------------------------------------------------------------------------------------------

def canon_model(trees):
    labels = {}

    def go(t):
        if not isinstance(t, dict):
            return t
        k = t["k"]
        base = k.split(":")[0]
        keys, items = list(t.get("keys", [])), list(t.get("items", []))
        if base in ("dict", "SD"):
            order = sorted(range(len(keys)), key=lambda i: keys[i])
            keys, items = [keys[i] for i in order], [items[i] for i in order]
        elif base == "inst":
            order = [0] + sorted(range(1, len(keys)), key=lambda i: keys[i])
            keys, items = [keys[i] for i in order], [items[i] for i in order]
        lab = None
        if base in MUT:
            if t["id"] not in labels:
                labels[t["id"]] = len(labels)
            lab = labels[t["id"]]
        out = [go(x) for x in items]
        if base in ("set", "fset", "SS", "SF"):
            out = sorted(out, key=_skey)          # elements are hashable: no labels inside, order by value
        return {"k": k, "id": lab, "keys": keys, "items": out}

    return [go(t) for t in trees]


# ------------------------------------------------------------------------------------------------
# generator
# ------------------------------------------------------------------------------------------------

ATOMS_OK = [0, 1, 2, 3, 5, 7, 12]
NAMES = ["a", "b", "c", "d"]


def g_atom(rng, junk=0.0):
    r = rng.random()
    if r < junk:
        return rng.choice(["x", "q", None])
    if r < junk + 0.15:
        return rng.choice(["12", "7", "3"])
    return rng.choice(ATOMS_OK)


def node(k, items, keys=None, **kw):
    if k in ("set", "fset"):
        seen, out = set(), []
        for x in items:
            if not isinstance(x, dict) and repr(x) not in seen:
                seen.add(repr(x))
                out.append(x)
        items = out
    d = {"k": k, "items": items, "keys": keys or []}
    d.update(kw)
    return d


def g_value(rng, ty, depth=0, junk=0.05, mode="input"):
    """a value for a field of type `ty`: mostly what the type accepts as is, sometimes a convertible neighbour,
    sometimes junk; mode 'default' builds nests of list/set/tuple/dict (defaults are not parsed)"""
    r = rng.random()
    if ty == "any":
        return g_free(rng, depth + 1)
    if ty == "int":
        return g_atom(rng, junk)
    if "bare" in ty:
        k = ty["bare"]
        if k == "bytearray":
            if r < 0.06 and mode == "input":
                return rng.choice([node("list", [1]), "x", 5])
            return node("bytearray", [rng.randrange(256) for _ in range(rng.randint(0, 4))])
        if k == "deque":
            if r < 0.2 and mode == "input":
                return node(rng.choice(["list", "tuple"]), [g_free(rng, depth + 1) for _ in range(rng.randint(0, 3))])
            if r < 0.27 and mode == "input":
                return rng.choice([5, "x", None, node("dict", []), node("set", [1])])
            return node("deque", [g_free(rng, depth + 1) for _ in range(rng.randint(0, 4))])
        if k == "dict":
            if r < 0.08 and mode == "input":
                return rng.choice([node("list", []), node("tuple", []), 5, "x", None])
            n = rng.randint(0, 2)
            return node("dict", [g_free(rng, depth + 1) for _ in range(n)], rng.sample(["k", "m", "z"], n))
        if r < 0.25 and mode == "input":
            k2 = rng.choice([x for x in SEQK if x != k])
            if k2 in ("set", "fset") or k in ("set", "fset"):
                n = rng.randint(0, 2) if k in ("set", "fset") else rng.randint(0, 1)
                return node(k2, [g_atom(rng) for _ in range(n)] if rng.random() < 0.8 else [g_free(rng, depth + 1)])
            return node(k2, [g_free(rng, depth + 1) for _ in range(rng.randint(0, 2))])
        if r < 0.32 and mode == "input":
            return rng.choice([5, "x", None, node("dict", []), node("dict", [g_free(rng, 2)], ["k"])])
        if k in ("set", "fset"):
            return node(k, sorted(set(rng.sample(ATOMS_OK, rng.randint(0, 3)))))
        return node(k, [g_free(rng, depth + 1) for _ in range(rng.randint(0, 3))])
    if "seq" in ty:
        k = ty["seq"]
        n = rng.randint(0, 4)
        items = [g_value(rng, ty["of"], depth + 1, junk, mode) for _ in range(n)]
        if k in ("set", "fset") or (r < 0.2 and mode == "input"):
            k2 = k if r >= 0.2 or mode != "input" else rng.choice(SEQK)
            if k2 in ("set", "fset"):
                items = [x for x in items if not isinstance(x, dict)]
                seen, out = set(), []
                for x in items:
                    if repr(x) not in seen:
                        seen.add(repr(x))
                        out.append(x)
                items = out
                if len(items) > 1 and (k not in ("set", "fset") or any(isinstance(x, str) for x in items) and "int" == ty["of"]):
                    items = items[:1]
            return node(k2, items)
        if r < 0.26 and mode == "input":
            return rng.choice([5, "x", None, "12"])
        return node(k, items)
    if "map" in ty:
        if r < 0.08 and mode == "input":
            return rng.choice([node("list", []), 5, "x", None])
        n = rng.randint(0, 2)
        return node("dict", [g_value(rng, ty["map"], depth + 1, junk, mode) for _ in range(n)], rng.sample(["k", "m", "z"], n))
    if "tup" in ty:
        items = [g_value(rng, t, depth + 1, junk, mode) for t in ty["tup"]]
        if r < 0.1 and mode == "input":
            items = items[:-1] if rng.random() < 0.5 else items + [g_atom(rng)]
        return node("list" if (r < 0.3 and mode == "input") else "tuple", items)
    if "opt" in ty:
        if r < 0.25:
            return None
        return g_value(rng, ty["opt"], depth, junk, mode)
    if "data" in ty:
        return {"__data__": ty["data"]}     # placeholder, expanded by the caller (needs the environment)
    raise ValueError(ty)


def g_free(rng, depth):
    """an arbitrary nest of list / tuple / set / dict and atoms"""
    r = rng.random()
    if depth >= 3 or r < 0.35:
        return g_atom(rng, 0.1)
    if r < 0.6:
        return node("list", [g_free(rng, depth + 1) for _ in range(rng.randint(0, 3))])
    if r < 0.7:
        return node("tuple", [g_free(rng, depth + 1) for _ in range(rng.randint(0, 2))])
    if r < 0.8:
        return node("set", sorted(set(rng.sample(ATOMS_OK, rng.randint(0, 3)))))
    if r < 0.84:
        return node("fset", sorted(set(rng.sample(ATOMS_OK, rng.randint(0, 2)))))
    n = rng.randint(0, 2)
    return node("dict", [g_free(rng, depth + 1) for _ in range(n)], rng.sample(["k", "m", "z"], n))


def g_type(rng, depth, nclasses, cur):
    r = rng.random()
    if depth >= 2:
        return rng.choice(["int", "any", {"bare": "list"}, {"bare": "dict"}])
    if r < 0.10:
        return "any"
    if r < 0.20:
        return "int"
    if r < 0.40:
        return {"bare": rng.choice(["list", "list", "dict", "dict", "set", "tuple", "fset", "deque", "deque", "bytearray"])}
    if r < 0.58:
        return {"seq": rng.choice(["list", "list", "list", "tuple", "set", "fset", "deque"]), "of": g_type(rng, depth + 1, 0, cur)}
    if r < 0.70:
        return {"map": g_type(rng, depth + 1, 0, cur)}
    if r < 0.78:
        return {"tup": [g_type(rng, depth + 1, 0, cur) for _ in range(rng.randint(1, 3))]}
    if r < 0.88:
        return {"opt": g_type(rng, depth + 1, nclasses, cur)}
    if nclasses:
        return {"data": rng.randrange(nclasses)}
    return {"bare": "list"}


def fix_set_of(ty):
    """Set[T] needs hashable elements: restrict T to int inside set types (declaration-time sanity)"""
    if isinstance(ty, dict):
        if "seq" in ty:
            if ty["seq"] in ("set", "fset"):
                return {"seq": ty["seq"], "of": "int"}
            return {"seq": ty["seq"], "of": fix_set_of(ty["of"])}
        if "map" in ty:
            return {"map": fix_set_of(ty["map"])}
        if "tup" in ty:
            return {"tup": [fix_set_of(t) for t in ty["tup"]]}
        if "opt" in ty:
            return {"opt": fix_set_of(ty["opt"])}
    return ty


def subify(rng, v, p, nt=0.1):
    """turn containers of a value into instances of user subclasses (class SL(list), ST(tuple), a namedtuple, ...)"""
    if not isinstance(v, dict) or "k" not in v:
        return v
    v = dict(v, items=[subify(rng, x, p, nt) for x in v.get("items", [])])
    if rng.random() < p:
        k = {"list": "SL", "tuple": "ST", "set": "SS", "fset": "SF", "dict": "SD", "deque": "SQ"}.get(v["k"])
        if k == "ST" and len(v["items"]) == 2 and rng.random() < nt:
            k = "NT"
        if k:
            v["k"] = k
    return v


def g_default(rng, ty, tagc):
    d = g_default0(rng, ty, tagc)
    if d and isinstance(d.get("val"), dict) and rng.random() < 0.3:
        d["val"] = subify(rng, d["val"], 0.5, nt=0.06)
    return d


def g_default0(rng, ty, tagc):
    r = rng.random()
    if r < 0.22:
        return None
    if ty == "int" or (isinstance(ty, dict) and "opt" in ty and rng.random() < 0.3):
        v = rng.choice(ATOMS_OK) if ty == "int" else None
    elif isinstance(ty, dict) and "data" in ty:
        return None if rng.random() < 0.5 else {"how": "val", "val": None, "plain": True}
    else:
        v = g_value(rng, ty if rng.random() < 0.7 else "any", 0, 0.0, "default")
        if isinstance(v, dict) and "__data__" in v:
            v = None
    how = rng.choice(["val", "val", "val", "shared", "shared", "fresh"])
    # occasionally: an opaque mutable inside (copy_value hands it back as it is), or internal sharing
    if isinstance(v, dict) and v["k"] in ("list", "tuple") and rng.random() < 0.12:
        v["items"].append(rng.choice([node("bytearray", [1, 2]), node("deque", [1])]))
    if isinstance(v, dict) and v["k"] in ("list", "tuple", "dict") and how != "fresh" and rng.random() < 0.15:
        inner = [x for x in v["items"] if isinstance(x, dict) and x["k"] in ("list", "dict", "set")]
        if inner and v["k"] != "dict":
            tagc[0] += 1
            inner[0]["tag"] = tagc[0]
            v["items"].append({"ref": tagc[0]})
    return {"how": how, "val": v, "plain": rng.random() < 0.5}


def expand_data(rng, v, env, depth=0):
    """replace {"__data__": k} placeholders by an input dict for class k (or junk)"""
    if isinstance(v, dict):
        if "__data__" in v:
            k = v["__data__"]
            if depth > 2 or rng.random() < 0.05:
                return rng.choice([node("dict", []), None, "x", node("list", [])])
            return g_input(rng, env, k, depth + 1)
        if "items" in v:
            v = dict(v, items=[expand_data(rng, x, env, depth) for x in v["items"]])
    return v


def fields_of(env, k):
    """all fields of declaration k: those taken over from its base class, then its own"""
    d = env[k]
    return (fields_of(env, d["base"]) if d.get("base") is not None else []) + d["fields"]


def swapcase_key(rng, name):
    return name.swapcase() if name.swapcase() != name else name.upper()


def g_input(rng, env, k, depth=0, p_provide=0.55, junk=0.06):
    keys, items = [], []
    for f in fields_of(env, k):
        if rng.random() < p_provide or (f.get("default") is None and rng.random() < 0.85):
            keys.append(f["name"])
            v = g_value(rng, f["ty"], 0, junk)
            if rng.random() < 0.08:
                v = subify(rng, v, 0.4, nt=0.3)
            items.append(expand_data(rng, v, env, depth))
    if rng.random() < 0.05:
        keys.append("zzz")
        items.append(1)
    if env[k]["kind"] != "func":
        # another letter case of a key: accepted by a case-insensitive class for its own fields, unknown otherwise
        anyci = env[k].get("ci") or (env[k].get("base") is not None and env[env[k]["base"]].get("ci"))
        p_case = 0.25 if (anyci or any(f["name"].lower() != f["name"] for f in fields_of(env, k))) else 0.03
        keys = [swapcase_key(rng, x) if rng.random() < p_case else x for x in keys]
    order = sorted(range(len(keys)), key=lambda i: keys[i])
    if rng.random() < 0.3:
        rng.shuffle(order)
    return node("dict", [items[i] for i in order], [keys[i] for i in order])


ROPTS = [
    {"ignore_required": True, "data_first_search": False},
    {"ignore_required": True, "data_first_search": True},
    {"ignore_required": True, "collect_errors": True, "data_first_search": False},
    {"no_default": True, "data_first_search": False},
    {"no_default": True, "data_first_search": True},
    {"force_default": 0, "data_first_search": False},
    {"force_default": 7, "data_first_search": True},
    {"collect_errors": True},
    {"mode": "r"}, {"mode": "w"}, {"mode": "a"},
    {"data_first_search": True}, {"data_first_search": False},
    {"defer_default": True}, {"defer_default": True, "data_first_search": True},
]
CAP_NAMES = ["aB", "b", "Cc", "D"]


def g_cons(rng, ty):
    """length constraints (strict or Lax) for a container-typed field"""
    if not isinstance(ty, dict) or not ("bare" in ty or "seq" in ty or "map" in ty or "tup" in ty):
        return None
    lax = lambda n: {"lax": n} if rng.random() < 0.6 else n
    n = rng.randint(1, 3)
    r = rng.random()
    if r < 0.45:
        return {"max_length": lax(n)}
    if r < 0.65:
        return {"length": lax(n)}
    if r < 0.8:
        return {"min_length": rng.randint(1, 2)}
    lo = rng.randint(1, 2)
    return {"min_length": lo, "max_length": lax(lo + rng.randint(0, 2))}


def g_case(rng, maxops=7, p_fresh=0.03):
    tagc = [0]
    nenv = rng.choice([1, 1, 2, 2, 3])
    env = []
    main_kind = rng.choice(["schema", "schema", "schema", "dataclass", "func", "func"])
    chain = rng.random() < 0.06
    if chain:
        # an inheritance chain declared up front: Top has a field whose type is a forward reference to a class declared
        # after the whole chain, Mid(Top) and Sub(Mid) add a field each or nothing.  Which class of the chain is parsed
        # first varies: resolving the reference is process state (per-parser forward_refs), the outcome must not depend on it
        nenv, main_kind = 4, rng.choice(["schema", "schema", "dataclass"])

        def simple(nm):
            ty = fix_set_of(g_type(rng, 1, 0, 0))
            return {"name": nm, "ty": ty, "default": g_default(rng, ty, tagc) or {"how": "val", "val": 0, "plain": True}}
        ref = rng.choice([{"opt": {"data": 3}}, {"opt": {"data": 3}}, {"seq": "list", "of": {"data": 3}},
                          {"opt": {"seq": "list", "of": {"data": 3}}}])
        top = [{"name": "a", "ty": ref, "default": {"how": "val", "plain": True,
                                                    "val": None if "opt" in ref else node("list", [], [])}}]
        if rng.random() < 0.5:
            top.append(simple("b"))
        env = [{"kind": main_kind, "dfs": rng.choice([None, None, True, False]), "fields": top},
               {"kind": main_kind, "dfs": None, "base": 0, "fields": [simple("e")] if rng.random() < 0.6 else []},
               {"kind": main_kind, "dfs": None, "base": 1, "fields": [simple("g")] if rng.random() < 0.6 else []},
               {"kind": rng.choice(["schema", "dataclass"]), "dfs": None, "fields": [
                   {"name": "x", "ty": "int", "default": rng.choice([None, {"how": "val", "val": 0, "plain": True}])}]}]
    for k in range(0 if chain else nenv):
        kind = main_kind if k == nenv - 1 else rng.choice(["schema", "schema", "dataclass"])
        names_k = CAP_NAMES if (kind != "func" and rng.random() < 0.3) else NAMES
        nf = rng.randint(1, 4)
        fields = []
        for i in range(nf):
            # nested classes: earlier ones directly, self / later ones by forward reference (data classes only)
            ncls = nenv if kind != "func" else k
            ty = fix_set_of(g_type(rng, 0, ncls if rng.random() < 0.8 else 0, k))
            if isinstance(ty, dict) and "data" in ty and ty["data"] >= k:
                # a forward / self reference must be optional or defaulted, or no finite input exists
                ty = {"opt": ty}
            if isinstance(ty, dict) and "data" in json.dumps(ty) and env and False:
                pass
            f = {"name": names_k[i], "ty": ty, "default": g_default(rng, ty, tagc)}
            if rng.random() < 0.3:
                c = g_cons(rng, ty)
                if c:
                    f["cons"] = c
            if _refs_class(ty, lambda j: j >= k) and f["default"] is None:
                f["default"] = {"how": "val", "val": None, "plain": True}
            if f["default"] is not None and f["default"].get("how", "val") == "val" and rng.random() < 0.25:
                f["default"]["style"] = "annotated"      # `x: Annotated[T, Field(...)] = value`
            if kind != "func" and rng.random() < 0.15:
                f["no_output"] = True
            if kind != "func" and f["default"] is not None and f["default"].get("style") != "annotated" and rng.random() < 0.1:
                f["defer"] = True          # Field(defer_default=True): filled in on attribute access, not by the parse
            if kind != "func" and k > 0 and rng.random() < 0.04:
                # a data-class instance as a default (copy_value: a Schema instance comes back as a plain dict,
                # a DataClass instance as it is) — outside the Lean fragment, inside the oracle sweep
                ok = [j for j in range(k) if env[j]["kind"] != "func" and not env[j].get("late") and all(
                          g.get("default") is not None and not _type_refs(g["ty"], set())
                          and '"NT"' not in json.dumps(g["default"]) for g in env[j]["fields"])]   # (a namedtuple default makes copy_value raise TypeError)
                if ok:
                    f["default"] = {"how": rng.choice(["val", "shared"]), "plain": False,
                                    "val": {"instof": rng.choice(ok), "args": node("dict", [], [])}}
            fields.append(f)
        if kind == "func":
            # Python: parameters without default cannot follow parameters with default
            fields.sort(key=lambda f: f["default"] is not None or bool(f.get("cons")))
            for i, f in enumerate(fields):
                f["name"] = NAMES[i]
        decl = {"kind": kind, "dfs": rng.choice([None, None, True, False]), "fields": fields}
        if kind != "func" and rng.random() < 0.2:
            decl["ci"] = True
        if kind == "func":
            decl["dfs"] = None
            decl["fkind"] = rng.choice(["sync", "sync", "async", "async", "gen", "agen"])
            decl["eager"] = decl["fkind"] != "sync" and rng.random() < 0.35
            if decl["fkind"] in ("sync", "async") and rng.random() < 0.4:
                rf = rng.choice(fields)
                decl["ret"] = {"field": rf["name"],
                               "ty": rf["ty"] if rng.random() < 0.5 else rng.choice(["int", "any", {"bare": "list"}, {"seq": "list", "of": "int"}, {"opt": "int"}])}
                decl["ret"]["ty"] = _drop_ref(fix_set_of(decl["ret"]["ty"]), k)
            decl["wrappers"] = rng.choice([[None], [None], [None], [{"no_explicit_cast": True}], [None, None],
                                           [{"no_explicit_cast": True}, {"no_explicit_cast": True}],
                                           [None, {"no_explicit_cast": True}], [{"no_explicit_cast": True}, None]])
        env.append(decl)
    # classes referenced by a func must not be funcs; references to index nenv-1 when it is a func are dropped
    if main_kind == "func":
        for d in env:
            for f in d["fields"]:
                f["ty"] = _drop_ref(f["ty"], nenv - 1)
    # a declaration made in the middle of the history: a subclass of the main class with other Options (case
    # insensitivity, search strategy) and possibly more fields, or an unrelated new class
    late_at = None
    nops = rng.randint(2, maxops)
    if main_kind != "func" and rng.random() < 0.3 and nops >= 3:
        base = nenv - 1 if rng.random() < 0.8 else None
        own = []
        for nm in rng.sample(["e", "Ff", "g"], rng.randint(0, 2)):
            ty = fix_set_of(g_type(rng, 1, 0, nenv))
            own.append({"name": nm, "ty": ty, "default": g_default(rng, ty, tagc) or {"how": "val", "val": 0, "plain": True}})
        if base is None and not own:
            own.append({"name": "e", "ty": "int", "default": None})
        env.append({"kind": env[nenv - 1]["kind"] if base is not None else rng.choice(["schema", "dataclass"]),
                    "late": True, "base": base,
                    # any combination: an inherited field keeps the case sensitivity its declaring class set it up with
                    "ci": rng.random() < 0.55,
                    "dfs": rng.choice([None, True, False]), "fields": own})
        late_at = rng.randint(1, nops - 2)
    ops = []
    nroots = 0
    results = []      # (root index, class k, input descriptor)
    input_roots = []
    declared_late = False
    for i in range(nops):
        last = i == nops - 1
        r = rng.random()
        if late_at is not None and i == late_at:
            ops.append({"op": "declare", "decl": nenv})
            declared_late = True
            continue
        if last or r < 0.55 or not results:
            k = nenv - 1 if rng.random() < 0.8 else rng.randrange(nenv)
            if chain:
                k = rng.choice([2, 2, 2, 1, 1, 0, 3])
            if declared_late and rng.random() < 0.35:
                k = nenv
            if env[k]["kind"] == "func" and k != nenv - 1:
                k = nenv - 1
            isf = env[k]["kind"] == "func"
            inp = g_input(rng, env, k, junk=(0.18 if isf else 0.06) if not last else 0.03)
            shape = inp
            if not last and results and rng.random() < 0.12:
                # pass an earlier root (or a part of it) back in
                src = rng.choice(results)
                f = rng.choice(fields_of(env, k))
                ref = {"root": src[0], "path": src_path(rng, env, src)}
                low = [x.lower() for x in inp["keys"]]
                if f["name"].lower() in low:
                    inp["items"][low.index(f["name"].lower())] = ref
                else:
                    inp["keys"].append(f["name"])
                    inp["items"].append(ref)
            elif not last and input_roots and rng.random() < 0.08:
                inp = dict(rng.choice(input_roots))      # the very same input dict again
                shape = inp
            op = {"op": "call", "target": k, "style": rng.choice(["kw", "kw", "pos", "from", "poskw", "poskw"]), "input": inp}
            if not isf and rng.random() < 0.22:
                # running options for this one parse: `Cls.__from__(data, Options(...))`
                op["style"] = "from"
                op["ropt"] = dict(rng.choice(ROPTS))
            if isf:
                op["style"] = "kw"
                op["wrapper"] = rng.randrange(len(env[k]["wrappers"]))
                op["pos"] = rng.choice([0, 0, 1, 2])
            elif op["style"] == "poskw" and "keys" not in inp:
                op["style"] = "pos"
            elif op["style"] == "poskw":
                # `Cls(d, **kw)`: split the entries between a positional dict and keyword arguments
                # (sometimes with a key in both: the dict's entry wins)
                if "keys" not in inp:
                    inp = node("dict", [], [])
                dk, di, kk, ki = [], [], [], []
                for key, item in zip(inp["keys"], inp["items"]):
                    if rng.random() < 0.5:
                        dk.append(key); di.append(item)
                    else:
                        kk.append(key); ki.append(item)
                if dk and rng.random() < 0.2:
                    kk.append(dk[0]); ki.append(g_atom(rng))
                op["input"] = node("tuple", [node("dict", di, dk), node("dict", ki, kk)])
            ops.append(op)
            results.append((nroots + 1, k, shape, op.get("ropt") is not None))
            if op["input"].get("k") == "dict":
                input_roots.append({"root": nroots, "path": []})
            elif op["style"] == "poskw":
                input_roots.append({"root": nroots, "path": [0]})
            nroots += 2
        elif r < (0.78 if any(f.get("defer") for x in results if not x[3] for f in fields_of(env, x[1])) else 0.83):
            src = rng.choice(results)
            path, kind = src_path(rng, env, src, deep=True, want_kind=True)
            act = {"list": "append", "set": "add", "dict": "setkey"}.get(kind) or rng.choice(["append", "append", "add", "setkey"])
            val = rng.choice([9, 8, "w"])
            rr = rng.random()
            if rr < 0.22:
                act = {"append": rng.choice(["clear", "pop"]), "add": "clear", "setkey": rng.choice(["clear", "delkey"])}[act]
            elif rr < 0.5:
                # put another object the caller holds into it: a part of an *older* root (no cycles that way)
                older = [x for x in results if x[0] < src[0]]
                if older:
                    osrc = rng.choice(older)
                    val = {"root": osrc[0], "path": src_path(rng, env, osrc, deep=True)}
            ops.append({"op": "mutate", "root": src[0], "path": path, "act": act, "val": val,
                        "key": rng.choice(["zz", "k"])})
        elif r < 0.9 and any(env[x[1]]["kind"] != "func" and not x[3] for x in results):
            # attribute access (a deferred default is computed anew on every access)
            cand = [x for x in results if env[x[1]]["kind"] != "func" and not x[3]]
            pref = [x for x in cand if env[x[1]]["kind"] == "schema" and any(f.get("defer") for f in fields_of(env, x[1]))]
            src = rng.choice(pref) if pref and rng.random() < 0.7 else rng.choice(cand)
            fs = fields_of(env, src[1])
            dfs_ = [f for f in fs if f.get("defer")]
            f = rng.choice(dfs_) if dfs_ and rng.random() < 0.7 else rng.choice(fs)
            ops.append({"op": "getattr", "root": src[0], "field": f["name"]})
            nroots += 1
        elif r < 0.94:
            src = rng.choice(results)
            fs = [f for f in fields_of(env, src[1]) if f["ty"] in ("int", "any") and not f.get("cons")]
            if fs and env[src[1]]["kind"] != "func":
                ops.append({"op": "setattr", "root": src[0], "field": rng.choice(fs)["name"], "val": rng.choice([4, 6])})
            else:
                ops.append({"op": "mutate", "root": src[0], "path": [1], "act": "append", "val": 9})
        else:
            sch = [x for x in results if env[x[1]]["kind"] == "schema"]
            src = rng.choice(sch or results)
            ops.append({"op": "copy", "root": src[0]})
            results.append((nroots, src[1], src[2], src[3]))
            nroots += 1
    if rng.random() < 0.12:
        # conversions through the public helpers that take no options (`type_transform(data, T)`, `T(data)`): the same
        # valid conversion before and after one that fails, somewhere before the probe
        t = rng.choice(list(TT_MENU))
        good, bad_ = TT_MENU[t]
        via = rng.choice(["type_transform", "type_transform", "rule_call"])
        a = {"op": "tt", "t": t, "via": via, "input": rng.choice(good), "expect": "ok"}
        t2 = rng.choice([t, t, rng.choice(list(TT_MENU))])
        b = {"op": "tt", "t": t2, "via": rng.choice(["type_transform", via]), "input": rng.choice(TT_MENU[t2][1]), "expect": "perr"}
        for new in (a, b, dict(a)):
            ops.insert(rng.randrange(max(1, len(ops))) if rng.random() < 0.3 else max(0, len(ops) - 1), new)
    case = {"env": env, "ops": ops}
    # running options whose force_default is a (nested, maybe subclassed) container shared by every parse that uses them
    calls = [op for op in ops if op["op"] == "call" and op.get("ropt") is not None]
    if calls and rng.random() < 0.5:
        case["fpool"] = [subify(rng, g_free(rng, 1), 0.3, nt=0.0) for _ in range(rng.randint(1, 2))]
        case["fpool"] = [v if isinstance(v, dict) else node("list", [v]) for v in case["fpool"]]
        for op in calls:
            if rng.random() < 0.6:
                op["ropt"] = {"force_ref": rng.randrange(len(case["fpool"])), "data_first_search": rng.random() < 0.5}
    if rng.random() < p_fresh:
        case["fresh_interp"] = True
    return case


def _refs_class(ty, pred):
    if isinstance(ty, dict):
        if "data" in ty:
            return pred(ty["data"])
        return any(_refs_class(t, pred) for t in (ty.get("of"), ty.get("map"), ty.get("opt"))) or \
            any(_refs_class(t, pred) for t in ty.get("tup", []))
    return False


def _drop_ref(ty, k):
    if isinstance(ty, dict):
        if "data" in ty:
            return {"bare": "dict"} if ty["data"] == k else ty
        out = dict(ty)
        for key in ("of", "map", "opt"):
            if key in out:
                out[key] = _drop_ref(out[key], k)
        if "tup" in out:
            out["tup"] = [_drop_ref(t, k) for t in out["tup"]]
        return out
    return ty


def src_path(rng, env, src, deep=False, want_kind=False):
    """a plausible canonical path into a result: [field slot, then into the value the field is expected to hold]"""
    root, k, inp = src[0], src[1], src[2]
    decl = env[k]
    fields = fields_of(env, k)
    if decl["kind"] == "func":
        names = sorted(f["name"] for f in fields)
        base = []
    else:
        if decl["kind"] == "schema" and rng.random() < 0.6:
            names = sorted(f["name"] for f in fields if not f.get("no_output"))
            base = None       # index offset 1 (after __dict__)
        else:
            names = sorted(f["name"] for f in fields)
            base = [0]
    if not names:
        return ([0], None) if want_kind else [0]
    # prefer fields that are expected to hold a container
    def expected(fname):
        f = next(x for x in fields if x["name"] == fname)
        if isinstance(inp, dict) and "keys" in inp and fname in inp["keys"]:
            return inp["items"][inp["keys"].index(fname)], f
        if f.get("default"):
            return f["default"]["val"], f
        return None, f
    def has_mut(x):
        return isinstance(x, dict) and "k" in x and (x["k"] in ("list", "dict", "set") or any(has_mut(y) for y in x.get("items", [])))
    cands = [n for n in names if has_mut(expected(n)[0])]
    fname = rng.choice(cands) if cands and rng.random() < 0.9 else rng.choice(names)
    i = names.index(fname)
    path = (base + [i]) if base is not None else [1 + i]
    v, f = expected(fname)
    ty = f["ty"]
    for _ in range(3):
        if not isinstance(v, dict) or "k" not in v:
            break
        inner = [j for j, x in enumerate(v.get("items", [])) if has_mut(x)]
        if v["k"] in ("list", "dict", "set") and (not inner or rng.random() < (0.5 if deep else 0.8)):
            break
        if not inner:
            break
        j = rng.choice(inner)
        if v["k"] == "dict":
            order = sorted(range(len(v["keys"])), key=lambda q: v["keys"][q])
            path.append(order.index(j))
        elif v["k"] in ("list", "tuple"):
            path.append(j)
        else:
            break
        v = v["items"][j]
        ty = None
    kind = v.get("k") if isinstance(v, dict) else None
    # the declared type may convert the container (List[..] from a tuple, ...)
    if ty is not None and isinstance(ty, dict):
        t = ty.get("opt", ty) if isinstance(ty.get("opt", ty), dict) else ty
        if isinstance(t, dict):
            if "bare" in t and kind in SEQK + ("dict",):
                kind = t["bare"] if kind != "dict" or t["bare"] == "dict" else kind
            elif "seq" in t:
                kind = t["seq"]
            elif "map" in t:
                kind = "dict"
            elif "tup" in t:
                kind = "tuple"
    return (path, kind) if want_kind else path


# ------------------------------------------------------------------------------------------------
# the check
# ------------------------------------------------------------------------------------------------

class C19(Check):
    prop = "C19"
    props_modules = ["Utv.Props.C19"]
    driver = "C19"
    impl = "harness.c19:impl"
    case_timeout = 25.0
    rule = ("programs = 1-3 declarations (Schema / DataClass / @utype.parse function: plain, async def, generator, async "
            "generator, lazy or eager, optionally with a parsed return annotation; 1-4 fields typed Any, int, bare or "
            "parametrised list/tuple/set/frozenset/dict, fixed tuples, Optional, nested/self/forward-referenced data classes; "
            "defaults given plainly, via Field(default=), via a factory returning one shared object or a new one, nested "
            "list/set/tuple/dict with internal sharing and opaque bytearray/deque) + a history of 2-7 (quick) / 2-12 "
            "(thorough) operations: parses that succeed or fail (kw / positional dict / positional dict + keyword arguments / __from__ / positional args), in-place "
            "mutation of objects reached through results, setattr, Schema.copy(), earlier roots passed back in as inputs, "
            "ending in a probe parse that is replayed on freshly built declarations (every case) and in a fresh interpreter "
            "(a sample); container types incl. deque/bytearray with strict and Lax length constraints; running Options per parse "
            "(ignore_required, no_default, force_default, mode, collect_errors, data_first_search); declarations made in the "
            "middle of the history (case-insensitive subclasses, variants).  non-trivial = at least one successful parse filled a mutable default or returned a container; "
            "distinct by the whole program")
    assumptions = ["object identity beyond the alias model (interned small tuples / empty frozensets) is not compared: only "
                   "list/set/dict/instance/__dict__/bytearray/deque objects carry identity labels",
                   "the registry cache (C16) and lazy forward-reference state are covered by the fresh-declaration and "
                   "fresh-interpreter replays only (not modelled in Lean here)"]
    budget = {"quick": 4000, "thorough": 30000}
    search_budget = {"quick": 1500, "thorough": 12000}

    def cases(self, tier, rng, n):
        if tier == "quick":
            return [g_case(rng, 7, 0.03) for _ in range(n)]
        if tier == "search":
            return [g_case(rng, 6, 0.0) for _ in range(n)]
        return [g_case(rng, 12, 0.02) for _ in range(n)]

    def model_line(self, case):
        # the options-less helper conversions are judged by the oracle only (they keep no root): not in the model's program
        return {"env": case["env"], "ops": [op for op in case["ops"] if op["op"] != "tt"], "fpool": case.get("fpool", []),
                "legacy_copy": bool(case.get("legacy_copy"))}

    def compare(self, case, io, mo):
        if not isinstance(mo, dict) or "outs" not in mo:
            if isinstance(mo, dict) and mo.get("unmodelled"):
                return None
            return f"driver: {str(mo)[:200]}"
        if mo.get("unmodelled"):
            return None
        if "outs" not in io:
            return f"impl: {str(io)[:200]}"
        iouts = [o for o, op in zip(io["outs"], case["ops"]) if op["op"] != "tt"]
        if iouts != mo["outs"]:
            i = next((k for k, (a, b) in enumerate(zip(iouts, mo["outs"])) if a != b), -1)
            return f"outcome of op #{i} (helper conversions not counted) differs: impl={iouts[i]} model={mo['outs'][i]}"
        nd = len(mo["defaults"])
        cm = canon_model(mo["defaults"] + mo["roots"])
        ci = io["defaults"] + io["roots"]
        if cm != ci:
            for r, (a, b) in enumerate(zip(ci, cm)):
                if a != b:
                    where = f"default #{r}" if r < nd else f"root #{r - nd}"
                    return f"object graph differs at {where}: impl={json.dumps(a)[:300]} model={json.dumps(b)[:300]}"
            return "object graph differs (length)"
        return None

    def spec(self, case, io, mo):
        return spec_check(case, io)

    def classify(self, case, io, why):
        if why.startswith("(e)"):
            import re
            m = re.match(r"\(e\) call #(\d+) ", why)
            last = case["ops"][int(m.group(1))] if m else case["ops"][-1]
            if last["op"] != "call":
                return None
            d = case["env"][last["target"]]
            if d["kind"] == "func":
                ws = d.get("wrappers") or [None]
                j = last.get("wrapper", 0)
                if ws[j] is None and any(w for w in ws[:j]):
                    return "parser-cache-options"
        return None

    def key(self, case, io):
        """non-trivial: some successful parse returned a result holding a list/set/dict object in a field
        (beyond the instance, its __dict__ / the binding itself) — a case in which aliasing can matter"""
        if "outs" not in io:
            return None
        r = 0
        hit = False
        for op, o in zip(case["ops"], io["outs"]):
            if op["op"] == "call":
                t = io["roots"][r + 1] if r + 1 < len(io["roots"]) else None
                r += 2
                if o == "ok" and isinstance(t, dict):
                    kids = t["items"][1:] + (t["items"][0]["items"] if t["k"].startswith("inst") else []) \
                        if t["k"].startswith("inst") else t["items"]
                    if any(in_scope_ids(x) for x in kids):
                        hit = True
            elif op["op"] == "copy":
                r += 1
        if not hit:
            return None
        return json.dumps({"env": case["env"], "ops": case["ops"]}, sort_keys=True)

    def distribution(self, case, io):
        kinds = "+".join(d["kind"][0] for d in case["env"])
        outs = io.get("outs", [])
        nfail = sum(1 for op, o in zip(case["ops"], outs) if op["op"] == "call" and o != "ok")
        nmut = sum(1 for op, o in zip(case["ops"], outs) if op["op"] in ("mutate", "setattr") and o == "ok")
        ncopy = sum(1 for op, o in zip(case["ops"], outs) if op["op"] == "copy" and o == "ok")
        back = any('"root"' in json.dumps(op.get("input")) for op in case["ops"] if op["op"] == "call")
        return (f"decls={kinds}/failed_parses={'yes' if nfail else 'no'}/mutations={'yes' if nmut else 'no'}"
                f"/copy={'yes' if ncopy else 'no'}/passes_root_back={'yes' if back else 'no'}")

    def evaluate(self, cases):
        impl_outs, model_outs = super().evaluate(cases)
        st = self._stats = getattr(self, "_stats", {"ops": {}, "unmodelled": {}, "cases": 0, "unmodelled_cases": 0,
                                                      "fresh_interpreter_replays": 0, "default_kinds": {}})
        for c, io, mo in zip(cases, impl_outs, model_outs):
            st["cases"] += 1
            if isinstance(mo, dict) and mo.get("unmodelled"):
                st["unmodelled_cases"] += 1
                st["unmodelled"][mo["unmodelled"]] = st["unmodelled"].get(mo["unmodelled"], 0) + 1
            if isinstance(io, dict) and "fresh_interp" in io:
                st["fresh_interpreter_replays"] += 1
            if isinstance(io, dict):
                st["replayed"] = st.get("replayed", 0) + io.get("replayed", 0)
            for op, o in zip(c["ops"], (io or {}).get("outs", [])):
                k = op["op"]
                if k == "mutate":
                    k += "." + op.get("act", "") + (".object" if isinstance(op.get("val"), dict) else "")
                k = f"{k}:{o}"
                st["ops"][k] = st["ops"].get(k, 0) + 1
            sh = st.setdefault("shapes", {})
            for name, yes in (("deferred default field", any(f.get("defer") for d in c["env"] for f in d["fields"])),
                              ("data-class instance default", '"instof"' in json.dumps(c["env"])),
                              ("inheritance chain with forward reference", len(c["env"]) > 2 and c["env"][2].get("base") == 1),
                              ("declaration during the history", any(d.get("late") for d in c["env"])),
                              ("caller stored an object of one root into another", bool(isinstance(io, dict) and io.get("caller_put")))):
                if yes:
                    sh[name] = sh.get(name, 0) + 1
            for d in c["env"]:
                for f in d["fields"]:
                    df = f.get("default")
                    k = "required" if df is None else df.get("how", "val") + (":container" if isinstance(df.get("val"), dict) else ":atom")
                    st["default_kinds"][k] = st["default_kinds"].get(k, 0) + 1
        return impl_outs, model_outs

    def neighbours(self, case, rng):
        out = []
        ops = case["ops"]
        for i in range(len(ops) - 1):
            # drop one operation (root indices of later ops may dangle: they become skips)
            out.append(dict(case, ops=ops[:i] + ops[i + 1:]))
        for k in range(len(ops)):
            if ops[k]["op"] == "call":
                out.append(dict(case, ops=ops[:k + 1]))
        return [c for c in out if c["ops"] and c["ops"][-1]["op"] == "call"]

    def reproduce(self, case):
        return (f"cd {VERIF} && UTYPE_REPO={REPO} {PY} -c 'import json,os,sys,warnings; warnings.simplefilter(\"ignore\"); "
                f"sys.path[:0]=[os.environ[\"UTYPE_REPO\"], \".\"]; from harness import c19; c=json.loads(sys.argv[1]); "
                f"io=c19.impl(c); print(io[\"outs\"]); print(c19.spec_check(c, io))' '{json.dumps(case, sort_keys=True)}'")

    def finish_evidence(self, ev, tier):
        st = getattr(self, "_stats", None)
        if st:
            ev["coverage"]["operations_by_outcome"] = dict(sorted(st["ops"].items()))
            ev["coverage"]["declared_default_kinds"] = dict(sorted(st["default_kinds"].items()))
            ev["coverage"]["program_shapes"] = dict(sorted(st.get("shapes", {}).items()))
            ev["coverage"]["outside_modelled_fragment"] = {"cases": st["unmodelled_cases"], "of": st["cases"],
                                                           "reasons": st["unmodelled"]}
            ev["coverage"]["fresh_interpreter_replays"] = st["fresh_interpreter_replays"]
            ev["coverage"]["fresh_declaration_replays"] = st["cases"] + st.get("replayed", 0)


CHECK = C19()
