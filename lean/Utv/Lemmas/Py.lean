import Utv.Py.Basic
/-! Facts about the `Py.*` operators on the exact domains (ints, strings, sequences, Decimals). -/
namespace Utv.Py

/-- unfolding set for the `Except` monad plumbing of translated code -/
macro "py_simp" : tactic =>
  `(tactic| simp [bind, Except.bind, pure, Except.pure, throw, throwThe, MonadExceptOf.throw])
macro "py_simp" "[" ls:Lean.Parser.Tactic.simpLemma,* "]" : tactic =>
  `(tactic| simp [bind, Except.bind, pure, Except.pure, throw, throwThe, MonadExceptOf.throw, $ls,*])

@[simp] theorem lt_int (a b : Int) : lt (.int a) (.int b) = .ok (decide (a < b)) := by
  simp [lt, num?, isDecNan, isDec, isFloatNan, NumV.lt, Q.lt, Q.scaled, pure, Except.pure]

@[simp] theorem eq_int (a b : Int) : eq (.int a) (.int b) = decide (a = b) := by
  simp [eq, eqScalar, num?, NumV.eq, Q.eq, Q.scaled]

@[simp] theorem gt_int (a b : Int) : gt (.int a) (.int b) = .ok (decide (b < a)) := by simp [gt]

@[simp] theorem le_int (a b : Int) : le (.int a) (.int b) = .ok (decide (a ≤ b)) := by
  simp only [le, lt_int, eq_int, bind, Except.bind, pure, Except.pure]
  congr 1
  by_cases h : a < b <;> by_cases h' : a = b <;> simp [h, h'] <;> omega

@[simp] theorem ge_int (a b : Int) : ge (.int a) (.int b) = .ok (decide (b ≤ a)) := by simp [ge]

@[simp] theorem lt_str (s t : String) : lt (.str s) (.str t) = .ok (decide (s < t)) := by
  simp [lt, num?, pure, Except.pure]

@[simp] theorem eq_str (s t : String) : eq (.str s) (.str t) = (s == t) := by simp [eq, eqScalar]

/-- length of the values that have `__len__` -/
def lenOf : PyVal → Option Nat
  | .str s => some s.length
  | .seq _ xs => some xs.length
  | _ => none

theorem len_of_lenOf {v : PyVal} {n : Nat} (h : lenOf v = some n) : len v = .ok (.int n) := by
  cases v <;> simp [lenOf] at h <;> simp [len, h, pure, Except.pure]

theorem hasLen_of_lenOf {v : PyVal} {n : Nat} (h : lenOf v = some n) : hasattr v "__len__" = true := by
  cases v <;> simp [lenOf] at h <;> simp [hasattr, hasLen]

theorem ne_int (a b : Int) : ne (.int a) (.int b) = decide (a ≠ b) := by simp [ne]

@[simp] theorem eq_cls (c d : Cls) : eq (.cls c) (.cls d) = (c == d) := by simp [eq, eqScalar]

@[simp] theorem eq_int_str (i : Int) (s : String) : eq (.int i) (.str s) = false := by rfl

end Utv.Py
