import Utv.Lemmas.C14Struct
import Utv.Lemmas.C14P0
/-!
C14 — JSON encoding round-trips through the parser.

Full statement (the property): for every data class over the listed field types and every instance `x`
in the JSON-faithful domain, `encode x` succeeds, the text is standard JSON, and
`parse T (loads (dumps (encode x)))` returns an instance equal to `x` (Python `==`: `canon y = canon x`).

* `C14_roundtrip_partial` / `C14_roundtrip_text_partial` — the round trip, for every implementation `P` of
  the CPython builtins that satisfies `PrimLaws`, every declared type (no bound on nesting, sizes, digits)
  and every in-domain instance, on the repaired code (`Cfg.fixed`); partial because one `KnownDefect`
  stays: `Ty.setOfContainers` (a `Set[Tuple[...]]` field cannot be parsed back).
* `C14_standard_partial` — the encoded tree is standard JSON unless the instance holds an infinite float
  (`KnownDefect` `Val.hasInf`: `json.dumps` writes `Infinity`).
* witnesses (`by decide` on the concrete builtins `P0`) that both exclusions are real, that each of the four
  repaired defects was one (`Cfg.legacy`), and non-vacuity: `PrimLaws P0` (`C14_primlaws_P0`).
-/
namespace Utv.C14

@[simp] theorem Res.bind_ok {α β : Type} (a : α) (f : α → Res β) : (Res.ok a >>= f) = f a := rfl
@[simp] theorem Res.pure_eq {α : Type} (a : α) : (pure a : Res α) = Res.ok a := rfl

/-- what the round trip establishes for one value of declared type `T` -/
structure Good (P : Prims) (T : Ty) (x : Val) (j : Js) (y : Val) : Prop where
  enc : encode Cfg.fixed P x = .ok j
  par : parse Cfg.fixed P T j = .ok y
  eq : y.canon = x.canon
  std : x.hasInf = false → j.standard = true
  wf : j.wf = true

theorem list_good (P : Prims) (t : Ty)
    (ih : ∀ x, inDomain Cfg.fixed t x = true → ∃ j y, Good P t x j y) :
    ∀ xs : List Val, xs.all (inDomain Cfg.fixed t) = true →
      ∃ js ys, encodeList Cfg.fixed P xs = .ok js ∧ mapRes (parse Cfg.fixed P t) js = .ok ys
        ∧ canonList ys = canonList xs ∧ (hasInfList xs = false → standardList js = true) ∧ wfList js = true
        ∧ (∀ j ∈ js, ∃ x ∈ xs, inDomain Cfg.fixed t x = true ∧ encode Cfg.fixed P x = .ok j)
  | [], _ => ⟨[], [], rfl, rfl, rfl, fun _ => rfl, rfl, by simp⟩
  | x :: xs, h => by
    simp only [List.all_cons, Bool.and_eq_true] at h
    obtain ⟨j, y, g⟩ := ih x h.1
    obtain ⟨js, ys, h1, h2, h3, h4, h5, h6⟩ := list_good P t ih xs h.2
    refine ⟨j :: js, y :: ys, ?_, ?_, ?_, ?_, ?_, ?_⟩
    · simp [encodeList, g.enc, h1]
    · simp [mapRes, g.par, h2]
    · simp [canonList, g.eq, h3]
    · intro hi
      simp only [hasInfList, Bool.or_eq_false_iff] at hi
      simp [standardList, g.std hi.1, h4 hi.2]
    · simp [wfList, g.wf, h5]
    · intro j' hj'
      rcases List.mem_cons.mp hj' with e | e
      · exact ⟨x, by simp, h.1, e ▸ g.enc⟩
      · obtain ⟨x', hx', hd', he'⟩ := h6 j' e
        exact ⟨x', by simp [hx'], hd', he'⟩

/-- a value of a type that is not written as an array/object is not encoded as one -/
theorem enc_scalar (P : Prims) (t : Ty) (x : Val) (j : Js)
    (ht : (match t with
      | .list _ | .set _ | .tuple _ | .tupleVar _ | .dict _ _ | .data _ => true
      | _ => false) = false)
    (hd : inDomain Cfg.fixed t x = true) (he : encode Cfg.fixed P x = .ok j) : j.isContainer = false := by
  cases t <;> simp at ht <;> cases x <;> simp [inDomain] at hd <;> simp [encode] at he
  all_goals first
    | (subst he; rfl)
    | skip
  · -- Decimal
    rename_i d
    subst he
    unfold fromDecimal
    cases d <;> simp only [] <;> (repeat' split) <;> rfl
  · -- Enum
    rename_i decl decl' i
    split at he
    · rename_i nm v hv
      cases v <;> (simp [EVal.toJson] at he; subst he; rfl)
    · simp at he

theorem map_good (P : Prims) (hP : PrimLaws P) (k : KeyTy) (t : Ty)
    (ih : ∀ x, inDomain Cfg.fixed t x = true → ∃ j y, Good P t x j y) :
    ∀ kvs : List (Key × Val), kvs.all (fun kv => kv.1.hasTy k && inDomain Cfg.fixed t kv.2) = true →
      distinct (kvs.map (·.1)) = true →
      ∃ js ys, encodeKVs Cfg.fixed P kvs = .ok js
        ∧ parseMapWith (parseKey P k) (parse Cfg.fixed P t) js = .ok ys
        ∧ canonKVs ys = canonKVs kvs ∧ ys.map (·.1) = kvs.map (·.1)
        ∧ (hasInfKVs kvs = false → standardKVs js = true) ∧ wfKVs js = true
        ∧ js.map (·.1) = kvs.map (fun kv => kv.1.toStr)
  | [], _, _ => ⟨[], [], rfl, rfl, rfl, rfl, fun _ => rfl, rfl, rfl⟩
  | (key, x) :: kvs, h, hd => by
    simp only [List.all_cons, Bool.and_eq_true] at h
    simp only [List.map_cons, distinct, Bool.and_eq_true, Bool.not_eq_eq_eq_not, Bool.not_true] at hd
    obtain ⟨j, y, g⟩ := ih x h.1.2
    obtain ⟨js, ys, h1, h2, h3, h4, h5, h6, h7⟩ := map_good P hP k t ih kvs h.2 hd.2
    have hkey : parseKey P k key.toStr = .ok key := by
      cases k <;> cases key <;> simp [Key.hasTy] at h
      · rfl
      · simp [parseKey, Key.toStr, rt_intKey P hP]
    have hfind : ys.find? (fun kv => kv.1 == key) = none :=
      find?_none_of_not_mem key ys (by rw [h4]; exact hd.1)
    refine ⟨(key.toStr, j) :: js, (key, y) :: ys, ?_, ?_, ?_, ?_, ?_, ?_, ?_⟩
    · simp [encodeKVs, g.enc, h1]
    · simp [parseMapWith, hkey, g.par, h2, hfind]
    · simp [canonKVs, g.eq, h3]
    · simp [h4]
    · intro hi
      simp only [hasInfKVs, Bool.or_eq_false_iff] at hi
      simp [standardKVs, g.std hi.1, h5 hi.2]
    · simp [wfKVs, g.wf, h6]
    · simp [h7]

mutual
theorem rt (P : Prims) (hP : PrimLaws P) : (T : Ty) → (x : Val) → inDomain Cfg.fixed T x = true →
    T.setOfContainers = false → ∃ j y, Good P T x j y
  | .none, x, hd, _ => by
    cases x <;> simp [inDomain] at hd
    exact ⟨.null, .none, by simp [encode], by simp [parse], rfl, fun _ => rfl, rfl⟩
  | .bool, x, hd, _ => by
    cases x <;> simp [inDomain] at hd
    rename_i b
    exact ⟨.bool b, .bool b, by simp [encode], by simp [parse], rfl, fun _ => rfl, rfl⟩
  | .int, x, hd, _ => by
    cases x <;> simp [inDomain] at hd
    rename_i i
    exact ⟨.int i, .int i, by simp [encode], by simp [parse], rfl, fun _ => rfl, rfl⟩
  | .float, x, hd, _ => by
    cases x <;> simp [inDomain] at hd
    rename_i f
    refine ⟨.float f, .float f, by simp [encode], by simp [parse], rfl, ?_, rfl⟩
    intro hi
    cases f <;> simp_all [Val.hasInf, Js.standard, F.isFinite, F.isNan]
  | .str, x, hd, _ => by
    cases x <;> simp [inDomain] at hd
    rename_i s
    exact ⟨.str s, .str s, by simp [encode], by simp [parse], rfl, fun _ => rfl, rfl⟩
  | .bytes, x, hd, _ => by
    cases x <;> simp [inDomain] at hd
    rename_i b
    exact ⟨.str (P.utf8Decode b), .bytes b, by simp [encode], by simp [parse, hP.utf8_rt b hd], rfl, fun _ => rfl, rfl⟩
  | .dec, x, hd, _ => by
    cases x <;> simp [inDomain] at hd
    rename_i d
    obtain ⟨d', h1, h2⟩ := rt_dec P hP d hd
    refine ⟨fromDecimal Cfg.fixed P d, .dec d', by simp [encode], by simp [parse, h1], by simp [Val.canon, h2], ?_, ?_⟩
    · intro _
      unfold fromDecimal
      cases d with
      | fin neg c e =>
        simp only []
        (repeat' split) <;> try rfl
        rename_i hu _ ht
        simp only [Dec.inDomain, Bool.and_eq_true, decide_eq_true_eq] at hd
        have := (hP.dec_float neg c e hd.1 (by simpa using hu) (by simpa [Cfg.fixed] using ht)).1
        simpa [Js.standard] using this
      | inf _ => rfl
      | nan => rfl
    · unfold fromDecimal
      cases d <;> simp only [] <;> (repeat' split) <;> rfl
  | .date, x, hd, _ => by
    cases x <;> simp [inDomain] at hd
    rename_i d
    exact ⟨.str (isoDate d), .date d, by simp [encode], by simp [parse, rt_date P hP d hd], rfl, fun _ => rfl, rfl⟩
  | .datetime, x, hd, _ => by
    cases x <;> simp [inDomain] at hd
    rename_i dt
    exact ⟨.str (isoDateTime dt), .datetime dt, by simp [encode], by simp [parse, rt_datetime P hP dt hd.1],
      rfl, fun _ => rfl, rfl⟩
  | .time, x, hd, _ => by
    cases x <;> simp [inDomain] at hd
    rename_i t
    exact ⟨.str (fromTime Cfg.fixed t), .time t, by simp [encode],
      by simp [parse, rt_time P hP t hd.1.1.1 hd.1.1.2 hd.1.2], rfl, fun _ => rfl, rfl⟩
  | .delta, x, hd, _ => by
    cases x <;> simp [inDomain] at hd
    rename_i us
    exact ⟨.str (durationIso us), .delta us, by simp [encode], by simp [parse, rt_delta P hP us hd], rfl, fun _ => rfl, rfl⟩
  | .uuid, x, hd, _ => by
    cases x <;> simp [inDomain] at hd
    rename_i n
    exact ⟨.str (P.uuidStr n), .uuid n, by simp [encode], by simp [parse, hP.uuid_rt n hd], rfl, fun _ => rfl, rfl⟩
  | .enum decl, x, hd, _ => by
    cases x <;> simp [inDomain] at hd
    rename_i decl' i
    obtain ⟨⟨⟨hdecl, hwf⟩, hi⟩, _⟩ := hd
    subst hdecl
    obtain ⟨m, hm, hto⟩ := rt_enum decl i hwf hi
    refine ⟨m.2.toJson, .enum decl i, by simp [encode, hm], by simp [parse, hto], rfl, ?_, ?_⟩
    · intro _; cases m.2 <;> rfl
    · cases m.2 <;> rfl
  | .list t, x, hd, hk => by
    cases x <;> simp [inDomain] at hd
    rename_i xs
    have hk' : t.setOfContainers = false := by simpa [Ty.setOfContainers] using hk
    obtain ⟨js, ys, h1, h2, h3, h4, h5, _⟩ :=
      list_good P t (fun x hx => rt P hP t x hx hk') xs (by simpa using hd)
    exact ⟨.arr js, .list ys, by simp [encode, h1], by simp [parse, h2], by simp [Val.canon, h3],
      by simpa [Val.hasInf, Js.standard] using h4, by simpa [Js.wf] using h5⟩
  | .tupleVar t, x, hd, hk => by
    cases x <;> simp [inDomain] at hd
    rename_i xs
    have hk' : t.setOfContainers = false := by simpa [Ty.setOfContainers] using hk
    obtain ⟨js, ys, h1, h2, h3, h4, h5, _⟩ :=
      list_good P t (fun x hx => rt P hP t x hx hk') xs (by simpa using hd)
    exact ⟨.arr js, .tuple ys, by simp [encode, h1], by simp [parse, h2], by simp [Val.canon, h3],
      by simpa [Val.hasInf, Js.standard] using h4, by simpa [Js.wf] using h5⟩
  | .set t, x, hd, hk => by
    cases x <;> simp [inDomain] at hd
    rename_i xs
    simp only [Ty.setOfContainers, Bool.or_eq_false_iff] at hk
    obtain ⟨js, ys, h1, h2, h3, h4, h5, h6⟩ :=
      list_good P t (fun x hx => rt P hP t x hx hk.2) xs (by simpa using hd.1)
    have hnc : js.any Js.isContainer = false := by
      rw [List.any_eq_false]
      intro j hj
      obtain ⟨x, _, hdx, hex⟩ := h6 j hj
      simp [enc_scalar P t x j hk.1 hdx hex]
    have hdd := dedup_of_distinct ys xs h3 hd.2
    exact ⟨.arr js, .set ys, by simp [encode, h1], by simp [parse, hnc, h2, hdd], by simp [Val.canon, h3],
      by simpa [Val.hasInf, Js.standard] using h4, by simpa [Js.wf] using h5⟩
  | .tuple ts, x, hd, hk => by
    cases x <;> simp [inDomain] at hd
    rename_i xs
    obtain ⟨js, ys, h1, h2, h3, h4, h5⟩ := rtTuple P hP ts xs hd (by simpa [Ty.setOfContainers] using hk)
    exact ⟨.arr js, .tuple ys, by simp [encode, h1], by simp [parse, h2], by simp [Val.canon, h3],
      by simpa [Val.hasInf, Js.standard] using h4, by simpa [Js.wf] using h5⟩
  | .dict k t, x, hd, hk => by
    cases x <;> simp [inDomain] at hd
    rename_i kvs
    have hk' : t.setOfContainers = false := by simpa [Ty.setOfContainers] using hk
    have hall : kvs.all (fun kv => kv.1.hasTy k && inDomain Cfg.fixed t kv.2) = true := by
      simp only [List.all_eq_true, Bool.and_eq_true]
      intro kv hkv
      exact hd.1 kv.1 kv.2 hkv
    obtain ⟨js, ys, h1, h2, h3, h4, h5, h6, h7⟩ :=
      map_good P hP k t (fun x hx => rt P hP t x hx hk') kvs hall hd.2
    have hdk : distinct (js.map (·.1)) = true := by
      have e : kvs.map (fun kv => kv.1.toStr) = (kvs.map (·.1)).map Key.toStr := by simp
      rw [h7, e]
      apply distinct_map_of_inj Key.toStr _ _ hd.2
      intro a ha b hb hab
      obtain ⟨⟨a', xa⟩, hma, rfl⟩ := List.mem_map.mp ha
      obtain ⟨⟨b', xb⟩, hmb, rfl⟩ := List.mem_map.mp hb
      exact Key.toStr_inj (hd.1 a' xa hma).1 (hd.1 b' xb hmb).1 hab
    exact ⟨.obj js, .dict ys, by simp [encode, h1], by simp [parse, h2], by simp [Val.canon, h3],
      by simpa [Val.hasInf, Js.standard] using h5, by simp [Js.wf, h6, hdk]⟩
  | .data fs, x, hd, hk => by
    cases x <;> simp [inDomain] at hd
    rename_i vs
    obtain ⟨js, ys, h1, h2, h3, h4, h5, h6, h7⟩ :=
      rtFields P hP fs vs hd.1 (by simpa [Ty.setOfContainers] using hk)
    have hnames : js.map (·.1) = fs.map (·.1) := h2
    have hdk : distinct (js.map (·.1)) = true := by rw [hnames]; exact hd.2
    have hpar := h5 js (fun n j hm => lookup_of_mem_distinct js n j hdk hm)
    exact ⟨.obj js, .data ys, by simp [encode, h1], by simp [parse, hpar], by simp [Val.canon, h4],
      by simpa [Val.hasInf, Js.standard] using h6, by simp [Js.wf, h7, hdk]⟩
  | .optional _, _, hd, _ => by simp [inDomain] at hd
theorem rtTuple (P : Prims) (hP : PrimLaws P) : (ts : List Ty) → (xs : List Val) →
    inDomainTuple Cfg.fixed ts xs = true → setOfContainersList ts = false →
    ∃ js ys, encodeList Cfg.fixed P xs = .ok js ∧ parseTuple Cfg.fixed P ts js = .ok ys
      ∧ canonList ys = canonList xs ∧ (hasInfList xs = false → standardList js = true) ∧ wfList js = true
  | [], xs, hd, _ => by
    cases xs <;> simp [inDomainTuple] at hd
    exact ⟨[], [], rfl, by simp [parseTuple], rfl, fun _ => rfl, rfl⟩
  | t :: ts, xs, hd, hk => by
    cases xs with
    | nil => simp [inDomainTuple] at hd
    | cons x xs =>
      simp only [inDomainTuple, Bool.and_eq_true] at hd
      simp only [setOfContainersList, Bool.or_eq_false_iff] at hk
      obtain ⟨j, y, g⟩ := rt P hP t x hd.1 hk.1
      obtain ⟨js, ys, h1, h2, h3, h4, h5⟩ := rtTuple P hP ts xs hd.2 hk.2
      refine ⟨j :: js, y :: ys, by simp [encodeList, g.enc, h1], by simp [parseTuple, g.par, h2],
        by simp [canonList, g.eq, h3], ?_, by simp [wfList, g.wf, h5]⟩
      intro hi
      simp only [hasInfList, Bool.or_eq_false_iff] at hi
      simp [standardList, g.std hi.1, h4 hi.2]
theorem rtFields (P : Prims) (hP : PrimLaws P) : (fs : List (Str × Ty)) → (vs : List (Str × Val)) →
    inDomainFields Cfg.fixed fs vs = true → setOfContainersFields fs = false →
    ∃ js ys, encodeFields Cfg.fixed P vs = .ok js ∧ js.map (·.1) = fs.map (·.1) ∧ ys.map (·.1) = fs.map (·.1)
      ∧ canonFields ys = canonFields vs
      ∧ (∀ all : List (Str × Js), (∀ n j, (n, j) ∈ js → lookup n all = some j) → parseFields Cfg.fixed P fs all = .ok ys)
      ∧ (hasInfFields vs = false → standardKVs js = true) ∧ wfKVs js = true
  | [], vs, hd, _ => by
    cases vs <;> simp [inDomainFields] at hd
    exact ⟨[], [], rfl, rfl, rfl, rfl, fun _ _ => by simp [parseFields], fun _ => rfl, rfl⟩
  | (n, t) :: fs, vs, hd, hk => by
    cases vs with
    | nil => simp [inDomainFields] at hd
    | cons v vs =>
      obtain ⟨n', x⟩ := v
      simp only [inDomainFields, Bool.and_eq_true, beq_iff_eq] at hd
      simp only [setOfContainersFields, Bool.or_eq_false_iff] at hk
      obtain ⟨⟨hn, hdx⟩, hdr⟩ := hd
      subst hn
      obtain ⟨j, y, g⟩ := rt P hP t x hdx hk.1
      obtain ⟨js, ys, h1, h2, h3, h4, h5, h6, h7⟩ := rtFields P hP fs vs hdr hk.2
      refine ⟨(n, j) :: js, (n, y) :: ys, by simp [encodeFields, g.enc, h1], by simp [h2], by simp [h3],
        by simp [canonFields, g.eq, h4], ?_, ?_, by simp [wfKVs, g.wf, h7]⟩
      · intro all hall
        have hl : lookup n all = some j := hall n j (by simp)
        have hr := h5 all (fun n' j' hm => hall n' j' (by simp [hm]))
        simp [parseFields, hl, g.par, hr]
      · intro hi
        simp only [hasInfFields, Bool.or_eq_false_iff] at hi
        simp [standardKVs, g.std hi.1, h6 hi.2]
end


/-! ### the property -/

/-- **Round trip** (tree level).  Full statement: for every lawful `P`, declared type `T` and in-domain
instance `x`: `encode x = ok j`, `parse T j = ok y`, `y == x`.  Partial: `T` has no `Set[<container>]`
(known finding `set-of-tuples-unhashable`, see `C14_set_of_tuples_witness`). -/
theorem C14_roundtrip_partial (P : Prims) (hP : PrimLaws P) (T : Ty) (x : Val)
    (hd : inDomain Cfg.fixed T x = true) (hk : T.setOfContainers = false) :
    ∃ j y, encode Cfg.fixed P x = .ok j ∧ parse Cfg.fixed P T j = .ok y ∧ y.canon = x.canon := by
  obtain ⟨j, y, g⟩ := rt P hP T x hd hk
  exact ⟨j, y, g.enc, g.par, g.eq⟩

/-- **Round trip through the text**: `Cls.__from__(json.dumps(inst, cls=JSONEncoder))` equals `inst` for every
data class `fs` — the JSON text layer is `P.jsonDumps` / `P.jsonLoads` under the law `json_rt`. -/
theorem C14_roundtrip_text_partial (P : Prims) (hP : PrimLaws P) (fs : List (Str × Ty)) (x : Val)
    (hd : inDomain Cfg.fixed (.data fs) x = true) (hk : (Ty.data fs).setOfContainers = false) :
    ∃ j y, encode Cfg.fixed P x = .ok j ∧ parseText Cfg.fixed P fs (P.jsonDumps j) = .ok y ∧ y.canon = x.canon := by
  obtain ⟨j, y, g⟩ := rt P hP (.data fs) x hd hk
  exact ⟨j, y, g.enc, by simp [parseText, hP.json_rt j g.wf, g.par], g.eq⟩

/-- **Encoding succeeds** on the whole domain (no exclusion). -/
theorem C14_encode_succeeds (P : Prims) (hP : PrimLaws P) (T : Ty) (x : Val)
    (hd : inDomain Cfg.fixed T x = true) (hk : T.setOfContainers = false) :
    ∃ j, encode Cfg.fixed P x = .ok j ∧ j.wf = true := by
  obtain ⟨j, y, g⟩ := rt P hP T x hd hk
  exact ⟨j, g.enc, g.wf⟩

/-- **Standard JSON**.  Full statement: the encoded tree of every in-domain instance has only finite numbers.
Partial: the instance holds no infinite float (known finding `float-inf-nonstandard-json`). -/
theorem C14_standard_partial (P : Prims) (hP : PrimLaws P) (T : Ty) (x : Val)
    (hd : inDomain Cfg.fixed T x = true) (hk : T.setOfContainers = false) (hi : x.hasInf = false) :
    ∃ j, encode Cfg.fixed P x = .ok j ∧ j.standard = true := by
  obtain ⟨j, y, g⟩ := rt P hP T x hd hk
  exact ⟨j, g.enc, g.std hi⟩

/-! ### the exclusions are real (negations with witnesses), for every `P` -/

/-- `Set[Tuple[int, int]]`, `{(1, 2)}`: in the domain, encodes to `[[1, 2]]`, does not parse back. -/
theorem C14_set_of_tuples_witness (P : Prims) :
    let T := Ty.set (.tuple [.int, .int])
    let x := Val.set [.tuple [.int 1, .int 2]]
    inDomain Cfg.fixed T x = true ∧ T.setOfContainers = true
      ∧ encode Cfg.fixed P x = .ok (.arr [.arr [.int 1, .int 2]])
      ∧ parse Cfg.fixed P T (.arr [.arr [.int 1, .int 2]]) = .perr := by
  refine ⟨by decide, by decide, ?_, ?_⟩
  · simp [encode, encodeList]
  · simp [parse, Js.isContainer]

/-- `float('inf')` is in the domain (a float that is not NaN), round-trips, but its encoding is not standard JSON. -/
theorem C14_inf_not_standard_witness (P : Prims) :
    inDomain Cfg.fixed .float (.float (.inf false)) = true
      ∧ encode Cfg.fixed P (.float (.inf false)) = .ok (.float (.inf false))
      ∧ (Js.float (.inf false)).standard = false
      ∧ parse Cfg.fixed P .float (.float (.inf false)) = .ok (.float (.inf false)) := by
  refine ⟨by decide, ?_, by decide, ?_⟩
  · simp [encode]
  · simp [parse]

/-! ### the repaired defects were defects (model of the code before each `fix:` patch) -/

def shadowEnum : EnumDecl := ⟨.none, [("A".toList, .str "B".toList), ("B".toList, .str "C".toList)]⟩

/-- `class E(Enum): A = 'B'; B = 'C'` — before the repair `E.A` came back as `E.B`; after it as `E.A`. -/
theorem C14_enum_shadow_legacy_witness (P : Prims) :
    encode Cfg.legacy P (.enum shadowEnum 0) = .ok (.str "B".toList)
      ∧ parse Cfg.legacy P (.enum shadowEnum) (.str "B".toList) = .ok (.enum shadowEnum 1)
      ∧ parse Cfg.fixed P (.enum shadowEnum) (.str "B".toList) = .ok (.enum shadowEnum 0) := by
  refine ⟨?_, ?_, ?_⟩
  · simp [encode, shadowEnum, EVal.toJson]
  · simp [parse, toEnum, shadowEnum, findIdx?, Cfg.legacy]
  · simp [parse, toEnum, shadowEnum, findIdx?, Cfg.fixed]

/-- `Decimal('1E-400')`: where `float(d)` underflows to zero (CPython), the old encoder wrote `0.0` and the
value came back as `Decimal('0')`; the repaired encoder writes the string `str(d)`. -/
theorem C14_dec_tiny_legacy_witness (P : Prims) (h0 : (P.floatOfDec (.fin false 1 (-400))).isZero = true) :
    ∃ j, encode Cfg.legacy P (.dec (.fin false 1 (-400))) = .ok j
      ∧ parse Cfg.legacy P .dec j = .ok (.dec (.fin false 0 0))
      ∧ (Val.dec (.fin false 0 0)).canon ≠ (Val.dec (.fin false 1 (-400))).canon
      ∧ encode Cfg.fixed P (.dec (.fin false 1 (-400))) = .ok (.str (P.decStr (.fin false 1 (-400)))) := by
  have hu : jsUnsafe 1 (-400) = false := by decide +kernel
  have ht : decTiny 1 (-400) = true := by decide +kernel
  refine ⟨.float (P.floatOfDec (.fin false 1 (-400))), ?_, ?_, by simp [Val.canon, Dec.canon, stripZeros], ?_⟩
  · simp [encode, fromDecimal, hu, Cfg.legacy]
  · simp [parse, toDecimal, h0]
  · simp [encode, fromDecimal, hu, ht, Cfg.fixed]


def Res.isPerr {α : Type} : Res α → Bool
  | .perr => true
  | _ => false

def Res.isOkWith {α : Type} (p : α → Bool) : Res α → Bool
  | .ok a => p a
  | _ => false

def nyWinter : DateTime := ⟨⟨2020, 1, 2⟩, ⟨3, 4, 5, 0⟩, some (-18000000000)⟩     -- 2020-01-02T03:04:05-05:00

/-- a datetime with a negative UTC offset: `invalid datetime` before the repair (`'+' in data` was the only
offset detector), parsed back after it (concrete builtins `P0`). -/
theorem C14_negative_offset_legacy_witness :
    (parse Cfg.legacy P0 .datetime (.str (isoDateTime nyWinter))).isPerr = true
      ∧ (parse Cfg.fixed P0 .datetime (.str (isoDateTime nyWinter))).isOkWith (fun y => y.beq (.datetime nyWinter)) = true := by
  constructor <;> decide +kernel

def teaTime : TimeV := ⟨⟨3, 4, 5, 123000⟩, some 7200000000⟩                     -- 03:04:05.123+02:00

/-- an aware time with milliseconds: the old `r[:12]` cut the offset off, so the value came back naive. -/
theorem C14_time_tz_legacy_witness :
    fromTime Cfg.legacy teaTime = "03:04:05.123".toList
      ∧ (parse Cfg.legacy P0 .time (.str (fromTime Cfg.legacy teaTime))).isOkWith
          (fun y => y.beq (.time ⟨teaTime.clock, none⟩)) = true
      ∧ (parse Cfg.fixed P0 .time (.str (fromTime Cfg.fixed teaTime))).isOkWith (fun y => y.beq (.time teaTime)) = true := by
  refine ⟨by decide +kernel, by decide +kernel, by decide +kernel⟩

/-! ### non-vacuity -/

/-- the hypotheses of the theorems are satisfiable: `P0` is lawful … -/
theorem C14_primlaws_P0 : PrimLaws P0 := primLaws_P0

/-- … so the round trip holds outright for the concrete builtins -/
theorem C14_roundtrip_P0 (fs : List (Str × Ty)) (x : Val)
    (hd : inDomain Cfg.fixed (.data fs) x = true) (hk : (Ty.data fs).setOfContainers = false) :
    ∃ j y, encode Cfg.fixed P0 x = .ok j ∧ parseText Cfg.fixed P0 fs (P0.jsonDumps j) = .ok y ∧ y.canon = x.canon :=
  C14_roundtrip_text_partial P0 primLaws_P0 fs x hd hk

/-- … and the domain is inhabited by an instance with a negative offset, a negative microsecond duration,
a tiny Decimal, an aware millisecond time, an enum whose value is another member's name, nested in containers -/
example : ∃ fs x, inDomain Cfg.fixed (.data fs) x = true ∧ (Ty.data fs).setOfContainers = false ∧ x.hasInf = false :=
  ⟨[("a".toList, .datetime), ("b".toList, .list .delta), ("c".toList, .dict .int .dec), ("d".toList, .set .time),
    ("e".toList, .tuple [.enum shadowEnum, .data [("n".toList, .none)]])],
   .data [("a".toList, .datetime nyWinter), ("b".toList, .list [.delta (-90061000005)]),
    ("c".toList, .dict [(.int (-7), .dec (.fin false 1 (-400)))]), ("d".toList, .set [.time teaTime]),
    ("e".toList, .tuple [.enum shadowEnum 0, .data [("n".toList, .none)]])],
   by decide +kernel, by decide +kernel, by decide +kernel⟩

end Utv.C14
