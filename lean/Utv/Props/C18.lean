import Utv.Model.C18
import Utv.Lemmas.C18
import Utv.Lemmas.C18Cost
import Utv.Lemmas.C18Unamb
import Utv.Lemmas.C18Fuel
/-!
C18 — the depth limit is exact and parse cost stays bounded.

Full statement (the property):  with `max_depth = d` a value is accepted exactly when its data-class
nesting depth is at most `d`, wherever the nested value sits (any list index, any mapping key, any
union branch), so cyclic inputs are always rejected; the number of leaf conversions grows at most
polynomially with the size and nesting depth of the input, for valid and invalid inputs alike.

All theorems are about the executable model `Utv.C18.parse` (Model/C18.lean), for every leaf
behaviour `W`, every environment of (mutually) recursive declarations `E`, every declared type `T`,
every input `v`, every amount of `fuel`, every context.
-/
namespace Utv.C18

/-! ### list views of the mutual definitions -/

theorem withinL_eq (E : Env) (n : Nat) (rs : List Res) : withinL E n rs = rs.all (within E n) := by
  induction rs with
  | nil => simp [withinL]
  | cons r rs ih => simp [withinL, ih]

theorem withinF_eq (E : Env) (n : Nat) (fs : List (String × Res)) :
    withinF E n fs = fs.all (fun p => within E n p.2) := by
  induction fs with
  | nil => simp [withinF]
  | cons r rs ih => rcases r with ⟨s, r⟩; simp [withinF, ih]

theorem withinK_eq (E : Env) (n : Nat) (fs : List (Key × Res)) :
    withinK E n fs = fs.all (fun p => within E n p.2) := by
  induction fs with
  | nil => simp [withinK]
  | cons r rs ih => rcases r with ⟨s, r⟩; simp [withinK, ih]

/-! ### one layer of parsing preserves the limited/unlimited relation -/

/-- limited parser `pd` and unlimited parser `pu`, run in contexts of the same depth and preferences -/
def Rel (E : Env) (pd pu : Parser) : Prop :=
  ∀ c c' T v, c.depth = c'.depth → c.mode = c'.mode → Good (within E c.depth) (pd c T v).1 (pu c' T v).1

theorem enter_fixed (Q : Quirks) (hQ : Q.falsyRoute = false) (c : Ctx) (b : Bool) (m : Mode) :
    enter Q c b m = .ok { c with mode := m } := by
  simp [enter, hQ]

@[simp] theorem exceeded_none (d : Nat) : exceeded none d = false := rfl

theorem unlimited_get (E : Env) (k : Nat) :
    (unlimited E)[k]? = (E[k]?).map fun cd => { cd with maxDepth := none } := by
  simp [unlimited]

section
variable {W : World} {Q : Quirks} {E : Env} {pd pu : Parser}

theorem parseField_good (hQ : Q.falsyRoute = false) (h : Rel E pd pu) (c c' : Ctx)
    (hd : c.depth = c'.depth) (hm : c.mode = c'.mode) (t : Ty) (v : Val) :
    Good (within E c.depth) (parseField Q pd c t v).1 (parseField Q pu c' t v).1 := by
  simp only [parseField, enter_fixed Q hQ, inCtx]
  exact h _ _ t v hd (by simp [hm])

theorem parseItems_good (hQ : Q.falsyRoute = false) (h : Rel E pd pu) (c c' : Ctx)
    (hd : c.depth = c'.depth) (hm : c.mode = c'.mode) (t : Ty) (vs : List Val) :
    Good (fun rs => rs.all (within E c.depth)) (parseItems Q pd c t vs).1 (parseItems Q pu c' t vs).1 := by
  simp only [parseItems, enter_fixed Q hQ, inCtx]
  apply seqM_good
  intro iv
  exact h _ _ t iv.2 hd (by simp [hm])

theorem parseEntries_good (hQ : Q.falsyRoute = false) (h : Rel E pd pu) (c c' : Ctx)
    (hd : c.depth = c'.depth) (hm : c.mode = c'.mode) (kt : KeyTy) (t : Ty) (kvs : List (Key × Val)) :
    Good (fun rs => rs.all (fun p => within E c.depth p.2))
      (parseEntries Q pd c kt t kvs).1 (parseEntries Q pu c' kt t kvs).1 := by
  simp only [parseEntries, enter_fixed Q hQ, inCtx]
  apply seqM_good (fun (p : Key × Res) => within E c.depth p.2)
  intro kv
  by_cases hk : kt.admits kv.1 = true
  · simp only [hk, Bool.not_true, Bool.false_eq_true, if_false]
    exact mapOut_good (fun r => (kv.1, r)) (within E c.depth) (fun p => within E c.depth p.2) (fun _ => rfl) _ _
      (h _ _ t kv.2 hd (by simp [hm]))
  · simp only [hk, Bool.not_false, if_true]
    exact good_err _ _ _

theorem parseFF_good (hQ : Q.falsyRoute = false) (h : Rel E pd pu) (c c' : Ctx)
    (hd : c.depth = c'.depth) (hm : c.mode = c'.mode) (fields : List (String × Ty)) (kvs : List (Key × Val)) :
    Good (fun rs => rs.all (fun p => within E c.depth p.2))
      (parseFF Q pd c fields kvs).1 (parseFF Q pu c' fields kvs).1 := by
  simp only [parseFF, ffItem]
  apply seqM_good (fun (p : String × Res) => within E c.depth p.2)
  intro ft
  simp only [ffItem]
  cases lookupKey (Key.str ft.1) kvs with
  | none => exact good_ok _ _ (by simp [within])
  | some fv =>
    exact mapOut_good (fun r => (ft.1, r)) (within E c.depth) (fun p => within E c.depth p.2) (fun _ => rfl) _ _
      (parseField_good hQ h c c' hd hm ft.2 fv)

theorem lookup_all {α} (w : α → Bool) (rs : List (String × α)) (s : String) (a : α)
    (hall : rs.all (fun p => w p.2) = true) (h : rs.lookup s = some a) : w a = true := by
  induction rs with
  | nil => simp [List.lookup] at h
  | cons r rs ih =>
    rcases r with ⟨s', a'⟩
    simp only [List.all_cons, Bool.and_eq_true] at hall
    simp only [List.lookup] at h
    split at h
    · cases h; exact hall.1
    · exact ih hall.2 h

theorem parseDF_good (hQ : Q.falsyRoute = false) (h : Rel E pd pu) (c c' : Ctx)
    (hd : c.depth = c'.depth) (hm : c.mode = c'.mode) (fields : List (String × Ty)) (kvs : List (Key × Val)) :
    Good (fun rs => rs.all (fun p => within E c.depth p.2))
      (parseDF Q pd c fields kvs).1 (parseDF Q pu c' fields kvs).1 := by
  simp only [parseDF]
  have hs := seqM_good (fun (p : String × Res) => within E c.depth p.2)
    (fun (it : String × Ty × Val) => mapOut (fun r => (it.1, r)) (parseField Q pd c it.2.1 it.2.2))
    (fun (it : String × Ty × Val) => mapOut (fun r => (it.1, r)) (parseField Q pu c' it.2.1 it.2.2))
    (fun it => mapOut_good (fun r => (it.1, r)) (within E c.depth) (fun p => within E c.depth p.2) (fun _ => rfl) _ _
      (parseField_good hQ h c c' hd hm it.2.1 it.2.2)) (knownItems fields kvs)
  constructor
  · intro fs hfs
    obtain ⟨rs, hrs, rfl⟩ := (mapOut_fst_ok _ _ fs).1 hfs
    have := hs.1 rs hrs
    rw [mapOut_isOk]
    refine ⟨?_, this.2⟩
    rw [List.all_eq_true]
    intro p hp
    obtain ⟨ft, _, rfl⟩ := List.mem_map.1 hp
    cases hl : rs.lookup ft.1 with
    | none => simp [within]
    | some r => simpa using lookup_all (within E c.depth) rs ft.1 r this.1 hl
  · intro fs hfs hw
    obtain ⟨rs, hrs, rfl⟩ := (mapOut_fst_ok _ _ fs).1 hfs
    refine (mapOut_fst_ok _ _ _).2 ⟨rs, hs.2 rs hrs ?_, rfl⟩
    -- every parsed item shows up in the assembled fields (keys of a mapping are unique)
    have hkeys : rs.map Prod.fst = (knownItems fields kvs).map (fun it => it.1) :=
      seqM_map_fst _ (fun it => it.1) (by
        intro it b hb
        obtain ⟨r, _, rfl⟩ := (mapOut_fst_ok _ _ b).1 hb
        rfl) _ rs hrs
    have hnd : (rs.map Prod.fst).Nodup := by
      rw [hkeys]; exact dedupFst_nodup _
    rw [List.all_eq_true]
    intro p hp
    rcases p with ⟨s, r⟩
    have hs' : s ∈ (knownItems fields kvs).map (fun it => it.1) := by
      rw [← hkeys]; exact List.mem_map.2 ⟨(s, r), hp, rfl⟩
    obtain ⟨it, hit, hits⟩ := List.mem_map.1 hs'
    have hit' := dedupFst_subset _ it hit
    obtain ⟨kv, _, hkv⟩ := List.mem_filterMap.1 hit'
    have hfield : ∃ t, (s, t) ∈ fields := by
      cases hk : kv.1 with
      | int i => simp [hk] at hkv
      | other n => simp [hk] at hkv
      | str s0 =>
        simp only [hk] at hkv
        cases hl : fields.lookup s0 with
        | none => simp [hl] at hkv
        | some t =>
          simp only [hl, Option.map_some, Option.some.injEq] at hkv
          subst hkv
          simp only at hits
          subst hits
          exact ⟨t, lookup_some_mem _ _ _ hl⟩
    obtain ⟨t, ht⟩ := hfield
    rw [List.all_eq_true] at hw
    have := hw (s, (rs.lookup s).getD Res.none) (List.mem_map.2 ⟨(s, t), ht, rfl⟩)
    rw [lookup_of_mem_nodup rs s r hnd hp] at this
    simpa using this

theorem unionStage_good (hQ : Q.falsyRoute = false) (h : Rel E pd pu) (c c' : Ctx)
    (hd : c.depth = c'.depth) (ts : List Ty) (v : Val) (m : Mode) (f f' : Flags) :
    Good (within E c.depth) (unionStage Q pd c ts v m f).1 (unionStage Q pu c' ts v m f').1 := by
  simp only [unionStage, enter_fixed Q hQ, inCtx]
  apply tryAll_good
  intro t
  exact h _ _ t v hd rfl

theorem parseUnion_good (hQ : Q.falsyRoute = false) (h : Rel E pd pu) (c c' : Ctx)
    (hd : c.depth = c'.depth) (hm : c.mode = c'.mode) (ts : List Ty) (v : Val) :
    Good (within E c.depth) (parseUnion Q pd c ts v).1 (parseUnion Q pu c' ts v).1 := by
  simp only [parseUnion, ← hm]
  split
  · exact good_ok _ _ (by simp [within])
  · apply orElse_good
    · split
      · exact unionStage_good hQ h c c' hd ts v _ _ _
      · exact good_err _ _ _
    · intro f f'
      apply orElse_good
      · split
        · exact unionStage_good hQ h c c' hd ts v _ _ _
        · exact good_err _ _ _
      · intro g g'
        exact unionStage_good hQ h c c' hd ts v _ _ _

/-- one layer: if the parsers for the parts are related, so are the parsers for the whole -/
theorem step_rel (hQ : Q.falsyRoute = false) (h : Rel E pd pu) :
    Rel E (step W Q E pd) (step W Q (unlimited E) pu) := by
  intro c c' T v hd hm
  cases T with
  | leaf =>
    simp only [step, ← hm]
    cases v with
    | tok n =>
      by_cases hl : W.leafOk c.mode n = true
      · simp only [hl, if_true]; exact good_ok _ _ (by simp [within])
      · simp only [hl, Bool.false_eq_true, if_false]; exact good_err _ _ _
    | none => exact good_err _ _ _
    | list vs => exact good_err _ _ _
    | dict kvs => exact good_err _ _ _
  | none =>
    simp only [step]
    cases v with
    | none => exact good_ok _ _ (by simp [within])
    | tok n => exact good_err _ _ _
    | list vs => exact good_err _ _ _
    | dict kvs => exact good_err _ _ _
  | data k =>
    simp only [step, unlimited_get]
    cases hk : E[k]? with
    | none => simp only [Option.map_none]; exact good_err _ _ _
    | some cd =>
      simp only [Option.map_some, exceeded_none, ← hm]
      cases hu : unwrapData c.mode v with
      | none => exact good_err _ _ _
      | some v1 =>
        simp only [Bool.false_eq_true, if_false]
        cases ht : toDict cd.mode v1 with
        | none => split <;> exact good_err _ _ _
        | some kvs =>
          by_cases hex : exceeded cd.maxDepth (c.depth + 1) = true
          · -- the limit rejects: nothing the unlimited run produces here is within the limit
            simp only [hex, if_true]
            apply good_err_left
            intro r hr
            obtain ⟨fs, _, rfl⟩ := (mapOut_fst_ok _ _ r).1 hr
            simp [within, hk, hex]
          · simp only [hex, Bool.false_eq_true, if_false]
            have hw : ∀ fs, within E c.depth (Res.data k fs) = fs.all (fun p => within E (c.depth + 1) p.2) := by
              intro fs
              have : exceeded cd.maxDepth (c.depth + 1) = false := by simpa using hex
              simp [within, hk, this, withinF_eq]
            apply mapOut_good (Res.data k) (fun fs => fs.all (fun p => within E (c.depth + 1) p.2)) _ hw
            have hd' : c.depth + 1 = c'.depth + 1 := by rw [hd]
            apply failIf_good
            split
            · exact parseDF_good hQ h ⟨c.depth + 1, cd.mode, cd.maxDepth⟩ ⟨c'.depth + 1, cd.mode, none⟩ hd' rfl _ _
            · exact parseFF_good hQ h ⟨c.depth + 1, cd.mode, cd.maxDepth⟩ ⟨c'.depth + 1, cd.mode, none⟩ hd' rfl _ _
  | list t =>
    simp only [step, ← hm]
    cases wrapSeq c.mode v with
    | none => exact good_err _ _ _
    | some vs =>
      exact mapOut_good Res.list (fun rs => rs.all (within E c.depth)) _
        (fun rs => by simp [within, withinL_eq]) _ _ (parseItems_good hQ h c c' hd hm t vs)
  | tuple t =>
    simp only [step, ← hm]
    cases wrapSeq c.mode v with
    | none => exact good_err _ _ _
    | some vs =>
      exact mapOut_good Res.tuple (fun rs => rs.all (within E c.depth)) _
        (fun rs => by simp [within, withinL_eq]) _ _ (parseItems_good hQ h c c' hd hm t vs)
  | dict kt t =>
    simp only [step, ← hm]
    cases toDict c.mode v with
    | none => exact good_err _ _ _
    | some kvs =>
      exact mapOut_good Res.dict (fun rs => rs.all (fun p => within E c.depth p.2)) _
        (fun rs => by simp [within, withinK_eq]) _ _ (parseEntries_good hQ h c c' hd hm kt t kvs)
  | union ts =>
    simp only [step]
    exact parseUnion_good hQ h c c' hd hm ts v

end

/-- the limited and the unlimited parser are related at every fuel -/
theorem parse_rel (W : World) (Q : Quirks) (hQ : Q.falsyRoute = false) (E : Env) (fuel : Nat) :
    Rel E (parse W Q E fuel) (parse W Q (unlimited E) fuel) := by
  induction fuel with
  | zero => intro c c' T v _ _; exact good_err _ _ _
  | succ n ih => exact step_rel hQ ih

/-! ### the depth limit is exact -/

/-- **Soundness of the limit.**  Whatever is accepted under the declared limits respects them: every
data-class instance of the result sits at a nesting level its class allows — at any list index, under
any mapping key, in any union branch (the statement is for every declared type and every input). -/
theorem C18_limit_sound (W : World) (Q : Quirks) (hQ : Q.falsyRoute = false) (E : Env) (fuel : Nat)
    (c : Ctx) (T : Ty) (v : Val) (r : Res) (h : (parse W Q E fuel c T v).1 = .ok r) :
    within E c.depth r = true :=
  ((parse_rel W Q hQ E fuel c c T v rfl rfl).1 r h).1

/-- **The limit only rejects.**  What is accepted with limits is accepted without. -/
theorem C18_limit_monotone (W : World) (Q : Quirks) (hQ : Q.falsyRoute = false) (E : Env) (fuel : Nat)
    (c : Ctx) (T : Ty) (v : Val) (r : Res) (h : (parse W Q E fuel c T v).1 = .ok r) :
    (parse W Q (unlimited E) fuel c T v).1.isOk = true :=
  ((parse_rel W Q hQ E fuel c c T v rfl rfl).1 r h).2

/-- **Completeness of the limit.**  If the value parses to `r` without limits and `r` respects the
limits, the limited parser accepts it with the same result: nothing within the limit is rejected,
whatever the position of the nested value. -/
theorem C18_limit_complete (W : World) (Q : Quirks) (hQ : Q.falsyRoute = false) (E : Env) (fuel : Nat)
    (c : Ctx) (T : Ty) (v : Val) (r : Res) (h : (parse W Q (unlimited E) fuel c T v).1 = .ok r)
    (hw : within E c.depth r = true) : (parse W Q E fuel c T v).1 = .ok r :=
  (parse_rel W Q hQ E fuel c c T v rfl rfl).2 r h hw

/-! #### one limit `d` for every class: "respects the limits" is "nesting depth ≤ d" -/

theorem withLimit_get (d : Nat) (E : Env) (k : Nat) :
    (withLimit d E)[k]? = (E[k]?).map fun cd => { cd with maxDepth := some d } := by
  simp [withLimit]

theorem unlimited_withLimit (d : Nat) (E : Env) : unlimited (withLimit d E) = unlimited E := by
  simp [unlimited, withLimit, List.map_map, Function.comp_def]

theorem exceeded_some (d n : Nat) (hd : d ≠ 0) : exceeded (some d) n = decide (n > d) := by
  simp [exceeded, hd]

mutual
theorem within_uniform (d : Nat) (hd : d ≠ 0) (E : Env) : ∀ (n : Nat) (r : Res),
    within (withLimit d E) n r = true → rdepth r = 0 ∨ n + rdepth r ≤ d
  | _, .leaf _, _ => Or.inl rfl
  | _, .none, _ => Or.inl rfl
  | n, .data k fs, h => by
    simp only [within, withLimit_get, Bool.and_eq_true] at h
    have h2 := withinF_uniform d hd E (n + 1) fs h.2
    have h1 : n + 1 ≤ d := by
      cases hk : E[k]? with
      | none => simp [hk] at h
      | some cd => simpa [hk, exceeded_some _ _ hd] using h.1
    simp only [rdepth]
    omega
  | n, .list rs, h => by
    simp only [within] at h
    simpa [rdepth] using withinL_uniform d hd E n rs h
  | n, .tuple rs, h => by
    simp only [within] at h
    simpa [rdepth] using withinL_uniform d hd E n rs h
  | n, .dict kvs, h => by
    simp only [within] at h
    simpa [rdepth] using withinK_uniform d hd E n kvs h
theorem withinL_uniform (d : Nat) (hd : d ≠ 0) (E : Env) : ∀ (n : Nat) (rs : List Res),
    withinL (withLimit d E) n rs = true → rdepthL rs = 0 ∨ n + rdepthL rs ≤ d
  | _, [], _ => Or.inl rfl
  | n, r :: rs, h => by
    simp only [withinL, Bool.and_eq_true] at h
    have h1 := within_uniform d hd E n r h.1
    have h2 := withinL_uniform d hd E n rs h.2
    simp only [rdepthL, Nat.max_def]
    split <;> omega
theorem withinF_uniform (d : Nat) (hd : d ≠ 0) (E : Env) : ∀ (n : Nat) (rs : List (String × Res)),
    withinF (withLimit d E) n rs = true → rdepthF rs = 0 ∨ n + rdepthF rs ≤ d
  | _, [], _ => Or.inl rfl
  | n, (_, r) :: rs, h => by
    simp only [withinF, Bool.and_eq_true] at h
    have h1 := within_uniform d hd E n r h.1
    have h2 := withinF_uniform d hd E n rs h.2
    simp only [rdepthF, Nat.max_def]
    split <;> omega
theorem withinK_uniform (d : Nat) (hd : d ≠ 0) (E : Env) : ∀ (n : Nat) (rs : List (Key × Res)),
    withinK (withLimit d E) n rs = true → rdepthK rs = 0 ∨ n + rdepthK rs ≤ d
  | _, [], _ => Or.inl rfl
  | n, (_, r) :: rs, h => by
    simp only [withinK, Bool.and_eq_true] at h
    have h1 := within_uniform d hd E n r h.1
    have h2 := withinK_uniform d hd E n rs h.2
    simp only [rdepthK, Nat.max_def]
    split <;> omega
end

mutual
theorem uniform_within (d : Nat) (hd : d ≠ 0) (E : Env) : ∀ (n : Nat) (r : Res),
    within (unlimited E) n r = true → (rdepth r = 0 ∨ n + rdepth r ≤ d) → within (withLimit d E) n r = true
  | _, .leaf _, _, _ => rfl
  | _, .none, _, _ => rfl
  | n, .data k fs, h, hr => by
    simp only [within, unlimited_get, Bool.and_eq_true] at h
    simp only [rdepth] at hr
    simp only [within, withLimit_get, Bool.and_eq_true]
    constructor
    · cases hk : E[k]? with
      | none => simp [hk] at h
      | some cd => simp [exceeded_some _ _ hd]; omega
    · exact uniform_withinF d hd E (n + 1) fs h.2 (by omega)
  | n, .list rs, h, hr => by
    simp only [within] at h ⊢
    exact uniform_withinL d hd E n rs h (by simpa [rdepth] using hr)
  | n, .tuple rs, h, hr => by
    simp only [within] at h ⊢
    exact uniform_withinL d hd E n rs h (by simpa [rdepth] using hr)
  | n, .dict kvs, h, hr => by
    simp only [within] at h ⊢
    exact uniform_withinK d hd E n kvs h (by simpa [rdepth] using hr)
theorem uniform_withinL (d : Nat) (hd : d ≠ 0) (E : Env) : ∀ (n : Nat) (rs : List Res),
    withinL (unlimited E) n rs = true → (rdepthL rs = 0 ∨ n + rdepthL rs ≤ d) → withinL (withLimit d E) n rs = true
  | _, [], _, _ => rfl
  | n, r :: rs, h, hr => by
    simp only [withinL, Bool.and_eq_true] at h ⊢
    simp only [rdepthL, Nat.max_def] at hr
    constructor
    · exact uniform_within d hd E n r h.1 (by split at hr <;> omega)
    · exact uniform_withinL d hd E n rs h.2 (by split at hr <;> omega)
theorem uniform_withinF (d : Nat) (hd : d ≠ 0) (E : Env) : ∀ (n : Nat) (rs : List (String × Res)),
    withinF (unlimited E) n rs = true → (rdepthF rs = 0 ∨ n + rdepthF rs ≤ d) → withinF (withLimit d E) n rs = true
  | _, [], _, _ => rfl
  | n, (_, r) :: rs, h, hr => by
    simp only [withinF, Bool.and_eq_true] at h ⊢
    simp only [rdepthF, Nat.max_def] at hr
    constructor
    · exact uniform_within d hd E n r h.1 (by split at hr <;> omega)
    · exact uniform_withinF d hd E n rs h.2 (by split at hr <;> omega)
theorem uniform_withinK (d : Nat) (hd : d ≠ 0) (E : Env) : ∀ (n : Nat) (rs : List (Key × Res)),
    withinK (unlimited E) n rs = true → (rdepthK rs = 0 ∨ n + rdepthK rs ≤ d) → withinK (withLimit d E) n rs = true
  | _, [], _, _ => rfl
  | n, (_, r) :: rs, h, hr => by
    simp only [withinK, Bool.and_eq_true] at h ⊢
    simp only [rdepthK, Nat.max_def] at hr
    constructor
    · exact uniform_within d hd E n r h.1 (by split at hr <;> omega)
    · exact uniform_withinK d hd E n rs h.2 (by split at hr <;> omega)
end

/-- **The depth limit is exact** (headline).  Every class carries `max_depth = d ≥ 1`; the entry point is
the class itself (`K(**data)`, `K.__from__`, and — after the fix — `type_transform`).

* (1) whatever is accepted has data-class nesting depth ≤ d, and is accepted without a limit as well;
* (2) for a value that parses to `r` when no limit is set: it is accepted (as `r`) under the limit
  **exactly when** the nesting depth of `r` is at most `d`.

For every leaf behaviour, declaration environment, root class, input value and fuel — the nested value may sit at
any list index, under any mapping key, in any union branch. -/
theorem C18_depth_exact (W : World) (Q : Quirks) (hQ : Q.falsyRoute = false) (hR : Q.rootLevel = false)
    (E : Env) (d : Nat) (hd : d ≠ 0) (fuel : Nat) (via : Bool) (k : Nat) (v : Val) :
    (∀ r, (parseTop W Q (withLimit d E) fuel via k v).1 = .ok r →
        rdepth r ≤ d ∧ (parseTop W Q (unlimited E) fuel via k v).1.isOk = true) ∧
    (∀ r, (parseTop W Q (unlimited E) fuel via k v).1 = .ok r →
        ((parseTop W Q (withLimit d E) fuel via k v).1 = .ok r ↔ rdepth r ≤ d)) := by
  simp only [parseTop, hR, Bool.and_false, Bool.false_eq_true, if_false]
  constructor
  · intro r h
    have h1 := C18_limit_sound W Q hQ _ fuel _ _ v r h
    have h2 := C18_limit_monotone W Q hQ _ fuel _ _ v r h
    rw [unlimited_withLimit] at h2
    refine ⟨?_, h2⟩
    have := within_uniform d hd E 0 r h1
    omega
  · intro r h
    constructor
    · intro h'
      have := within_uniform d hd E 0 r (C18_limit_sound W Q hQ _ fuel _ _ v r h')
      omega
    · intro hr
      have hu : within (unlimited E) 0 r = true := by
        have := C18_limit_sound W Q hQ (unlimited E) fuel _ _ v r h
        simpa using this
      apply C18_limit_complete W Q hQ (withLimit d E) fuel _ _ v r
      · rw [unlimited_withLimit]; exact h
      · exact uniform_within d hd E 0 r hu (Or.inr (by omega))

end Utv.C18

namespace Utv.C18

/-! ### cost: the unchanged code is exponential below a union that contains a data class

Full statement (violated by the code, kept visible):

    theorem C18_cost_poly : cost of `parse W Q E fuel c T v` ≤ weight E T * vsize v * (depth v + 1)^2

Known defect `union-retries-exponential`: a data class that is an alternative of a union is parsed with
its *own* options (cls.py:558-561), so each of the three union stages (rule.py:383-424) re-parses it from
scratch, and the stages below it start over again: the work triples per nesting level.  Proved at full
strength by induction on the nesting depth (`C18_cost_exponential`); the polynomial bound is proved under
the decidable hypothesis that no union contains a data class (`C18_cost_poly_partial`). -/

/-- `class Node: v: Leaf = None; nx: Optional['Node'] = None` -/
def nodeEnv : Env := [{ fields := [("v", .leaf), ("nx", .union [.data 0, .none])] }]

/-- `k` valid levels above a single invalid leaf (token 1) at the bottom -/
def badChain : Nat → Val
  | 0 => .dict [(.str "v", .tok 1)]
  | k + 1 => .dict [(.str "v", .tok 0), (.str "nx", badChain k)]

def chainCost : Nat → Nat
  | 0 => 1
  | k + 1 => 3 * chainCost k + 1

theorem chainCost_closed (k : Nat) : 2 * chainCost k + 1 = 3 ^ (k + 1) := by
  induction k with
  | zero => rfl
  | succ k ih => simp only [chainCost, Nat.pow_succ] at ih ⊢; omega

theorem badChain_dict (k : Nat) : ∃ kvs, badChain k = .dict kvs := by
  cases k <;> exact ⟨_, rfl⟩

theorem nodeEnv_get : nodeEnv[0]? = some { fields := [("v", .leaf), ("nx", .union [.data 0, .none])] } := rfl

/-- the three stages of `Optional['Node']` each re-parse the nested value from scratch -/
theorem union_triples (Q : Quirks) (rec : Parser) (c : Ctx) (hc : c.mode = Mode.lenient) (v : Val) (a : Nat)
    (hv : isNoneVal v = false)
    (hdata : ∀ c', rec c' (.data 0) v = (.err {}, a)) (hnone : ∀ c', rec c' .none v = (.err {}, 0)) :
    parseUnion Q rec c [.data 0, .none] v = (.err {}, 3 * a) := by
  simp [parseUnion, hv, hc, Mode.lenient, unionStage, tryAll, orElse, enter, inCtx, hdata, hnone, Flags.or]
  omega

theorem badChain_cost (W : World) (hg : ∀ m, W.leafOk m 0 = true) (hb : ∀ m, W.leafOk m 1 = false)
    (Q : Quirks) (k : Nat) : ∀ (j : Nat) (c : Ctx),
    parse W Q nodeEnv (2 * k + 2 + j) c (.data 0) (badChain k) = (.err {}, chainCost k) := by
  induction k with
  | zero =>
    intro j c
    have : 2 * 0 + 2 + j = j + 1 + 1 := by omega
    rw [this]
    simp [parse, step, nodeEnv_get, exceeded, badChain, parseFF, seqM, lookupKey, parseField, enter, inCtx,
      mapOut, hb, chainCost, Mode.lenient, failIf, unwrapData, toDict, ffItem]
  | succ k ih =>
    intro j c
    have : 2 * (k + 1) + 2 + j = (2 * k + 2 + j) + 1 + 1 := by omega
    rw [this]
    obtain ⟨kvs, hkvs⟩ := badChain_dict k
    have hnone : ∀ c', parse W Q nodeEnv (2 * k + 2 + j) c' .none (badChain k) = (.err {}, 0) := by
      intro c'
      have : 2 * k + 2 + j = (2 * k + 1 + j) + 1 := by omega
      rw [this, hkvs]; simp [parse, step]
    have hu := fun c' hc' => union_triples Q (parse W Q nodeEnv (2 * k + 2 + j)) c' hc' (badChain k) (chainCost k)
      (by rw [hkvs]; rfl) (fun c'' => ih j c'') hnone
    simp [parse, step, nodeEnv_get, exceeded, badChain, parseFF, seqM, lookupKey, parseField, enter, inCtx,
      mapOut, hg, chainCost, hu, failIf, unwrapData, toDict, ffItem]
    omega

/-- **The unchanged code is exponential** (negation of the cost clause, at full strength): an input of
`k+1` nested `Optional['Node']` levels with one invalid leaf at the bottom costs `(3^(k+1) - 1) / 2`
leaf conversions — for every `k`, every leaf behaviour that accepts token 0 and rejects token 1, with or
without the level-accounting fix, in every context. -/
theorem C18_cost_exponential (W : World) (hg : ∀ m, W.leafOk m 0 = true) (hb : ∀ m, W.leafOk m 1 = false)
    (Q : Quirks) (k j : Nat) (c : Ctx) :
    (parse W Q nodeEnv (2 * k + 2 + j) c (.data 0) (badChain k)).1.isOk = false ∧
    2 * (parse W Q nodeEnv (2 * k + 2 + j) c (.data 0) (badChain k)).2 + 1 = 3 ^ (k + 1) := by
  rw [badChain_cost W hg hb Q k j c]
  exact ⟨rfl, chainCost_closed k⟩

end Utv.C18

namespace Utv.C18

/-! ### the unchanged code (before fixes/C18-*.patch): negation witnesses, replayed on the real code by the corpus -/

/-- a concrete leaf behaviour (tokens divisible by 4 are valid) for the closed witnesses -/
def W0 : World := ⟨fun _ n => n % 4 == 0⟩

def oneClass (t : Ty) (d : Nat) : Env := [{ fields := [("v", .leaf), ("nx", t)], maxDepth := some d }]
def leafNode : Val := .dict [(.str "v", .tok 0)]
def twoLevels (wrapped : Val) : Val := .dict [(.str "v", .tok 0), (.str "nx", wrapped)]

/-- `if route:` took list index `0` for "no route": a value of nesting depth 2 under `List['Node']` was rejected with
`max_depth = 2` (and is accepted after the fix) -/
theorem C18_legacy_index0_witness :
    (parseTop W0 Quirks.legacy (oneClass (.list (.data 0)) 2) 10 false 0 (twoLevels (.list [leafNode]))).1.isOk = false ∧
    (parseTop W0 Quirks.fixed (oneClass (.list (.data 0)) 2) 10 false 0 (twoLevels (.list [leafNode]))).1.isOk = true := by
  decide

/-- the same for the mapping key `''` … -/
theorem C18_legacy_empty_key_witness :
    (parseTop W0 Quirks.legacy (oneClass (.dict .str (.data 0)) 2) 10 false 0
      (twoLevels (.dict [(.str "", leafNode)]))).1.isOk = false ∧
    (parseTop W0 Quirks.fixed (oneClass (.dict .str (.data 0)) 2) 10 false 0
      (twoLevels (.dict [(.str "", leafNode)]))).1.isOk = true := by
  decide

/-- … and the integer key `0`, while key `1` was counted correctly -/
theorem C18_legacy_zero_key_witness :
    (parseTop W0 Quirks.legacy (oneClass (.dict .int (.data 0)) 2) 10 false 0
      (twoLevels (.dict [(.int 0, leafNode)]))).1.isOk = false ∧
    (parseTop W0 Quirks.legacy (oneClass (.dict .int (.data 0)) 2) 10 false 0
      (twoLevels (.dict [(.int 1, leafNode)]))).1.isOk = true := by
  decide

/-- a class-less root context (`type_transform`) counted as a level: a flat value (nesting depth 1) was rejected
with `max_depth = 1` -/
theorem C18_legacy_root_level_witness :
    (parseTop W0 Quirks.legacy (oneClass .leaf 1) 10 true 0 leafNode).1.isOk = false ∧
    (parseTop W0 Quirks.fixed (oneClass .leaf 1) 10 true 0 leafNode).1.isOk = true := by
  decide

/-! ### non-vacuity -/

/-- the headline theorem's accepting side is inhabited: a depth-3 value under `Optional['Node']` is accepted with
`max_depth = 3` and rejected with `max_depth = 2` -/
example :
    let E : Env := [{ fields := [("v", .leaf), ("nx", .union [.data 0, .none])] }]
    let v := twoLevels (twoLevels leafNode)
    (parseTop W0 Quirks.fixed (withLimit 3 E) 20 false 0 v).1.isOk = true ∧
    (parseTop W0 Quirks.fixed (withLimit 2 E) 20 false 0 v).1.isOk = false ∧
    (parseTop W0 Quirks.fixed (unlimited E) 20 false 0 v).1.isOk = true := by
  decide

/-- the hypotheses of `C18_cost_exponential` are satisfiable -/
example : (∀ m, W0.leafOk m 0 = true) ∧ (∀ m, W0.leafOk m 1 = false) := ⟨fun _ => rfl, fun _ => rfl⟩

end Utv.C18

namespace Utv.C18

/-! ### cost: polynomial (linear in the input size) outside the known defect -/

/-- cost bound for types without any data class: weight × size -/
def CostFree (rec : Parser) : Prop :=
  ∀ c T v, noData T = true → (rec c T v).2 ≤ tyWt c.mode T * vsize v

/-- cost bound with data classes (none of them under a union): `B` × size -/
def CostOk (B : Nat) (rec : Parser) : Prop :=
  ∀ c T v, noDataUnderUnion T = true → tyWt c.mode T ≤ B → (rec c T v).2 ≤ B * vsize v

section
variable {W : World} {Q : Quirks} {E : Env} {rec : Parser}

theorem items_cost (B : Nat) (c : Ctx) (t : Ty) (vs : List Val)
    (h : ∀ c' v', c'.mode = c.mode → (rec c' t v').2 ≤ B * vsize v') :
    (parseItems Q rec c t vs).2 ≤ B * vsizeL vs := by
  rw [← sum_indexed B vs 0]
  apply seqM_cost_le
  intro iv _
  apply inCtx_cost_le
  intro c' hc'
  exact h c' iv.2 (enter_mode Q c _ _ c' hc')

theorem entries_cost (B : Nat) (c : Ctx) (kt : KeyTy) (t : Ty) (kvs : List (Key × Val))
    (h : ∀ c' v', c'.mode = c.mode → (rec c' t v').2 ≤ B * vsize v') :
    (parseEntries Q rec c kt t kvs).2 ≤ B * vsizeK kvs := by
  rw [← sum_entries B kvs]
  apply seqM_cost_le
  intro kv _
  split
  · simp
  · rw [mapOut_snd]
    apply inCtx_cost_le
    intro c' hc'
    exact h c' kv.2 (enter_mode Q c _ _ c' hc')

theorem stage_cost (c : Ctx) (ts : List Ty) (v : Val) (m : Mode) (f : Flags)
    (h : ∀ t ∈ ts, ∀ c', c'.mode = m → (rec c' t v).2 ≤ tyWt m t * vsize v) :
    (unionStage Q rec c ts v m f).2 ≤ tyWtL m ts * vsize v := by
  rw [← sum_tyWtL]
  apply tryAll_cost_le
  intro t ht
  apply inCtx_cost_le
  intro c' hc'
  exact h t ht c' (enter_mode Q c _ _ c' hc')

theorem union_cost (c : Ctx) (ts : List Ty) (v : Val)
    (h : ∀ t ∈ ts, ∀ c', (rec c' t v).2 ≤ tyWt c'.mode t * vsize v) :
    (parseUnion Q rec c ts v).2 ≤ tyWt c.mode (.union ts) * vsize v := by
  have hs : ∀ m f, (unionStage Q rec c ts v m f).2 ≤ tyWtL m ts * vsize v := fun m f =>
    stage_cost c ts v m f (fun t ht c' hc' => by have := h t ht c'; rwa [hc'] at this)
  simp only [parseUnion]
  split
  · simp
  · have h4 : ∀ f, (unionStage Q rec c ts v c.mode f).2 ≤ tyWtL c.mode ts * vsize v := fun f => hs _ f
    have h3 : ∀ f, (orElse (if (!c.mode.noLoss && !c.mode.noCast) = true then
          unionStage Q rec c ts v ⟨true, c.mode.noCast⟩ f else (Out.err f, 0))
        fun f => unionStage Q rec c ts v c.mode f).2 ≤
        (if stage3 c.mode then tyWtL ⟨true, c.mode.noCast⟩ ts else 0) * vsize v + tyWtL c.mode ts * vsize v := by
      intro f
      refine Nat.le_trans (orElse_cost_le _ _ _ h4) ?_
      apply Nat.add_le_add_right
      simp only [stage3]
      by_cases hc : (!c.mode.noLoss && !c.mode.noCast) = true
      · simp only [hc, if_true]; exact hs _ f
      · simp [hc]
    refine Nat.le_trans (orElse_cost_le _ _ _ h3) ?_
    simp only [tyWt, Nat.add_mul]
    have : (if (!c.mode.noLoss || !c.mode.noCast) = true then unionStage Q rec c ts v Mode.strict {}
        else (Out.err {}, 0)).2 ≤ (if stage2 c.mode then tyWtL Mode.strict ts else 0) * vsize v := by
      simp only [stage2]
      by_cases hc : (!c.mode.noLoss || !c.mode.noCast) = true
      · simp only [hc, if_true]; exact hs _ _
      · simp [hc]
    omega

theorem leaf_cost_le_one (c : Ctx) (v : Val) : (step W Q E rec c .leaf v).2 ≤ 1 := by
  simp only [step]
  cases v with
  | tok n => by_cases hl : W.leafOk c.mode n = true <;> simp [hl]
  | none => simp
  | list vs => simp
  | dict kvs => simp

theorem nodup_map_str (l : List String) (h : l.Nodup) : (l.map Key.str).Nodup := by
  induction l with
  | nil => simp
  | cons x xs ih =>
    rw [List.nodup_cons] at h
    simp only [List.map_cons, List.nodup_cons]
    refine ⟨?_, ih h.2⟩
    intro hm
    obtain ⟨y, hy, he⟩ := List.mem_map.1 hm
    cases he
    exact h.1 hy

/-- one layer keeps the bound for data-free types -/
theorem step_costFree (h : CostFree rec) : CostFree (step W Q E rec) := by
  intro c T v hT
  cases T with
  | leaf =>
    have := vsize_pos v
    have := leaf_cost_le_one (W := W) (Q := Q) (E := E) (rec := rec) c v
    simp only [tyWt]
    omega
  | none => simp only [step]; cases v <;> simp
  | data k => simp [noData] at hT
  | list t =>
    simp only [noData] at hT
    simp only [step, tyWt]
    cases hw : wrapSeq c.mode v with
    | none => simp
    | some vs =>
      simp only [mapOut_snd]
      refine Nat.le_trans (items_cost (tyWt c.mode t) c t vs (fun c' v' hc' => by
        have := h c' t v' hT; rwa [hc'] at this)) ?_
      exact Nat.mul_le_mul_left _ (wrapSeq_size _ _ _ hw)
  | tuple t =>
    simp only [noData] at hT
    simp only [step, tyWt]
    cases hw : wrapSeq c.mode v with
    | none => simp
    | some vs =>
      simp only [mapOut_snd]
      refine Nat.le_trans (items_cost (tyWt c.mode t) c t vs (fun c' v' hc' => by
        have := h c' t v' hT; rwa [hc'] at this)) ?_
      exact Nat.mul_le_mul_left _ (wrapSeq_size _ _ _ hw)
  | dict kt t =>
    simp only [noData] at hT
    simp only [step, tyWt]
    cases ht : toDict c.mode v with
    | some kvs =>
      simp only [mapOut_snd]
      refine Nat.le_trans (entries_cost (tyWt c.mode t) c kt t kvs (fun c' v' hc' => by
        have := h c' t v' hT; rwa [hc'] at this)) ?_
      exact Nat.mul_le_mul_left _ (toDict_size _ _ _ ht)
    | none => simp
  | union ts =>
    simp only [noData] at hT
    simp only [step]
    exact union_cost c ts v (fun t ht c' => h c' t v (noDataL_mem ts hT t ht))

theorem envOk_field (B : Nat) (hE : envOk B E = true) (k : Nat) (cd : ClassDecl) (hk : E[k]? = some cd) :
    (∀ ft ∈ cd.fields, noDataUnderUnion ft.2 = true ∧ tyWt cd.mode ft.2 ≤ B) ∧ (cd.fields.map Prod.fst).Nodup := by
  have hmem : cd ∈ E := List.mem_of_getElem? hk
  simp only [envOk, List.all_eq_true, Bool.and_eq_true, decide_eq_true_eq] at hE
  exact ⟨fun ft hft => (hE cd hmem).1 ft hft, (hE cd hmem).2⟩

theorem field_cost (B : Nat) (h2 : CostOk B rec) (c : Ctx) (t : Ty) (v : Val)
    (ht : noDataUnderUnion t = true) (hw : tyWt c.mode t ≤ B) :
    (parseField Q rec c t v).2 ≤ B * vsize v := by
  simp only [parseField]
  apply inCtx_cost_le
  intro c' hc'
  have hm := enter_mode Q c _ _ c' hc'
  exact h2 c' t v ht (by rw [hm]; exact hw)

/-- one layer keeps the bound for declarations outside the known defect -/
theorem step_costOk (B : Nat) (hE : envOk B E = true) (h1 : CostFree rec) (h2 : CostOk B rec) :
    CostOk B (step W Q E rec) := by
  intro c T v hT hB
  cases T with
  | leaf =>
    have := vsize_pos v
    simp only [tyWt] at hB
    have hle : 1 ≤ B * vsize v := Nat.le_trans (by omega) (Nat.mul_le_mul hB this)
    have := leaf_cost_le_one (W := W) (Q := Q) (E := E) (rec := rec) c v
    omega
  | none => simp only [step]; cases v <;> simp
  | data k =>
    simp only [step]
    cases hk : E[k]? with
    | none => simp
    | some cd =>
      obtain ⟨hf, hnd⟩ := envOk_field B hE k cd hk
      simp only
      cases hu : unwrapData c.mode v with
      | none => simp
      | some v1 =>
      simp only
      split
      · simp
      · cases ht : toDict cd.mode v1 with
        | none => simp
        | some kvs =>
          simp only [mapOut_snd, failIf_snd]
          have hgoal : B * vsizeK kvs ≤ B * vsize v := Nat.mul_le_mul_left _
            (Nat.le_trans (toDict_size _ _ _ ht) (unwrapData_size _ _ _ hu))
          refine Nat.le_trans ?_ hgoal
          split
          · -- data-first
            simp only [parseDF, mapOut_snd]
            have hpre : B * vsizeK (if (cd.mode.noLoss && hasUnknown cd.fields kvs) = true
                then knownPrefix cd.fields kvs else kvs) ≤ B * vsizeK kvs := by
              apply Nat.mul_le_mul_left
              split
              · exact knownPrefix_size _ _
              · exact Nat.le_refl _
            refine Nat.le_trans (Nat.le_trans
              (seqM_cost_le _ (fun (it : String × Ty × Val) => B * vsize it.2.2) _ ?_) (knownItems_sum_le B _ _)) hpre
            intro it hit
            rw [mapOut_snd]
            have := hf (it.1, it.2.1) (knownItems_field _ _ it hit)
            exact field_cost B h2 _ _ _ this.1 this.2
          · -- field-first
            simp only [parseFF, ffItem]
            have hsum : (cd.fields.map fun ft => B * sizeAt kvs (Key.str ft.1)).sum ≤ B * vsizeK kvs := by
              have h0 := sum_sizeAt_le (cd.fields.map fun ft => Key.str ft.1)
                (by
                  have : (cd.fields.map fun ft => Key.str ft.1) = (cd.fields.map Prod.fst).map Key.str := by
                    simp [List.map_map, Function.comp_def]
                  rw [this]
                  exact nodup_map_str _ hnd) kvs
              have : (cd.fields.map fun ft => B * sizeAt kvs (Key.str ft.1)).sum =
                  B * ((cd.fields.map fun ft => Key.str ft.1).map (sizeAt kvs)).sum := by
                clear h0 hf hnd hk
                induction cd.fields with
                | nil => simp
                | cons x xs ih => simp [ih, Nat.mul_add]
              rw [this]
              exact Nat.mul_le_mul_left _ h0
            refine Nat.le_trans (seqM_cost_le _ (fun ft => B * sizeAt kvs (Key.str ft.1)) _ ?_) hsum
            intro ft hft
            simp only [sizeAt, ffItem]
            cases lookupKey (Key.str ft.1) kvs with
            | none => simp
            | some fv =>
              simp only [mapOut_snd]
              have := hf ft hft
              exact field_cost B h2 _ _ _ this.1 this.2
  | list t =>
    simp only [noDataUnderUnion] at hT
    simp only [tyWt] at hB
    simp only [step]
    cases hw : wrapSeq c.mode v with
    | none => simp
    | some vs =>
      simp only [mapOut_snd]
      refine Nat.le_trans (items_cost B c t vs (fun c' v' hc' => h2 c' t v' hT (by rw [hc']; exact hB))) ?_
      exact Nat.mul_le_mul_left _ (wrapSeq_size _ _ _ hw)
  | tuple t =>
    simp only [noDataUnderUnion] at hT
    simp only [tyWt] at hB
    simp only [step]
    cases hw : wrapSeq c.mode v with
    | none => simp
    | some vs =>
      simp only [mapOut_snd]
      refine Nat.le_trans (items_cost B c t vs (fun c' v' hc' => h2 c' t v' hT (by rw [hc']; exact hB))) ?_
      exact Nat.mul_le_mul_left _ (wrapSeq_size _ _ _ hw)
  | dict kt t =>
    simp only [noDataUnderUnion] at hT
    simp only [tyWt] at hB
    simp only [step]
    cases ht : toDict c.mode v with
    | some kvs =>
      simp only [mapOut_snd]
      refine Nat.le_trans (entries_cost B c kt t kvs (fun c' v' hc' => h2 c' t v' hT (by rw [hc']; exact hB))) ?_
      exact Nat.mul_le_mul_left _ (toDict_size _ _ _ ht)
    | none => simp
  | union ts =>
    simp only [noDataUnderUnion] at hT
    have := step_costFree (W := W) (Q := Q) (E := E) h1 c (.union ts) v (by simpa [noData] using hT)
    exact Nat.le_trans this (Nat.mul_le_mul_right _ hB)

end

theorem parse_costFree (W : World) (Q : Quirks) (E : Env) (fuel : Nat) : CostFree (parse W Q E fuel) := by
  induction fuel with
  | zero => intro c T v _; simp [parse]
  | succ n ih => exact step_costFree ih

theorem parse_costOk (W : World) (Q : Quirks) (E : Env) (B : Nat) (hE : envOk B E = true) (fuel : Nat) :
    CostOk B (parse W Q E fuel) := by
  induction fuel with
  | zero => intro c T v _ _; simp [parse]
  | succ n ih => exact step_costOk B hE (parse_costFree W Q E n) ih

/-- **Cost is bounded** (partial: outside the known defect `union-retries-exponential`).  If no union of the
declarations has a data class among its alternatives (decidable, `envOk`), the number of leaf conversions is at
most `B · size(input)` where `B` bounds the weight of every field type — linear in the input, for valid and
invalid inputs alike, with or without a depth limit, for every leaf behaviour, entry point and fuel. -/
theorem C18_cost_poly_partial (W : World) (Q : Quirks) (E : Env) (B : Nat) (hE : envOk B E = true)
    (fuel : Nat) (via : Bool) (k : Nat) (v : Val) :
    (parseTop W Q E fuel via k v).2 ≤ B * vsize v :=
  parse_costOk W Q E B hE fuel _ (.data k) v rfl (by simp [tyWt])

/-- the same for an arbitrary declared type in an arbitrary context -/
theorem C18_cost_poly_partial_ty (W : World) (Q : Quirks) (E : Env) (B : Nat) (hE : envOk B E = true)
    (fuel : Nat) (c : Ctx) (T : Ty) (v : Val) (hT : noDataUnderUnion T = true) (hB : tyWt c.mode T ≤ B) :
    (parse W Q E fuel c T v).2 ≤ B * vsize v :=
  parse_costOk W Q E B hE fuel c T v hT hB

/-- non-vacuity: a recursive declaration with lists, mappings and unions of leaves satisfies `envOk` -/
example : envOk 3
    [{ fields := [("v", .union [.leaf, .none]), ("kids", .list (.data 0)), ("m", .dict .str (.data 0)),
                  ("direct", .data 0)] }] = true := by decide

/-- the known-defect region is exactly what `envOk` excludes: `Optional['Node']` is a union with a data class -/
example : envOk 1000 nodeEnv = false := by decide

end Utv.C18

namespace Utv.C18

/-! ### inputs deeper than the limit — in particular cyclic ones — are rejected -/

theorem rdepthL_mem (rs : List Res) (r : Res) (h : r ∈ rs) : rdepth r ≤ rdepthL rs := by
  induction rs with
  | nil => cases h
  | cons x xs ih =>
    simp only [rdepthL]
    rcases List.mem_cons.1 h with rfl | hm
    · exact Nat.le_max_left _ _
    · exact Nat.le_trans (ih hm) (Nat.le_max_right _ _)

theorem rdepthF_mem (rs : List (String × Res)) (s : String) (r : Res) (h : (s, r) ∈ rs) : rdepth r ≤ rdepthF rs := by
  induction rs with
  | nil => cases h
  | cons x xs ih =>
    rcases x with ⟨s', r'⟩
    simp only [rdepthF]
    rcases List.mem_cons.1 h with he | hm
    · cases he; exact Nat.le_max_left _ _
    · exact Nat.le_trans (ih hm) (Nat.le_max_right _ _)

theorem rdepthK_mem (rs : List (Key × Res)) (s : Key) (r : Res) (h : (s, r) ∈ rs) : rdepth r ≤ rdepthK rs := by
  induction rs with
  | nil => cases h
  | cons x xs ih =>
    rcases x with ⟨s', r'⟩
    simp only [rdepthK]
    rcases List.mem_cons.1 h with he | hm
    · cases he; exact Nat.le_max_left _ _
    · exact Nat.le_trans (ih hm) (Nat.le_max_right _ _)

/-- an accepted result is at least as deep as the declared types force the input to be -/
def ForcedOk (E : Env) (rec : Parser) : Prop :=
  ∀ T v n, Forced E T v n → ∀ c r, (rec c T v).1 = .ok r → n ≤ rdepth r

section
variable {W : World} {Q : Quirks} {E : Env} {rec : Parser}

theorem parseField_ok (c : Ctx) (t : Ty) (v : Val) (r : Res) (h : (parseField Q rec c t v).1 = .ok r) :
    ∃ c', (rec c' t v).1 = .ok r := by
  obtain ⟨c', _, h2⟩ := inCtx_ok _ _ r h
  exact ⟨c', h2⟩

theorem items_forced (hrec : ForcedOk E rec) (c : Ctx) (t : Ty) (vs : List Val) (rs : List Res)
    (h : (parseItems Q rec c t vs).1 = .ok rs) (x : Val) (hx : x ∈ vs) (n : Nat) (hf : Forced E t x n) :
    n ≤ rdepthL rs := by
  obtain ⟨j, hj⟩ := mem_indexed vs 0 x hx
  obtain ⟨r, hr, hp⟩ := seqM_ok_mem _ _ rs h (j, x) hj
  obtain ⟨c', _, h2⟩ := inCtx_ok _ _ r hp
  exact Nat.le_trans (hrec t x n hf c' r h2) (rdepthL_mem rs r hr)

theorem union_ok_mem (c : Ctx) (ts : List Ty) (v : Val) (r : Res) (hv : isNoneVal v = false)
    (h : (parseUnion Q rec c ts v).1 = .ok r) : ∃ t ∈ ts, ∃ c', (rec c' t v).1 = .ok r := by
  have hstage : ∀ m f, (unionStage Q rec c ts v m f).1 = .ok r → ∃ t ∈ ts, ∃ c', (rec c' t v).1 = .ok r := by
    intro m f hs
    obtain ⟨t, ht, hp⟩ := tryAll_ok_mem _ ts f r hs
    obtain ⟨c', _, h2⟩ := inCtx_ok _ _ r hp
    exact ⟨t, ht, c', h2⟩
  simp only [parseUnion, hv, Bool.false_and, Bool.false_eq_true, if_false] at h
  rcases (orElse_ok _ _ r).1 h with h1 | ⟨f, _, h2⟩
  · split at h1
    · exact hstage _ _ h1
    · cases h1
  · rcases (orElse_ok _ _ r).1 h2 with h3 | ⟨g, _, h4⟩
    · split at h3
      · exact hstage _ _ h3
      · cases h3
    · exact hstage _ _ h4

theorem step_data_eq (c : Ctx) (k : Nat) (cd : ClassDecl) (v v1 : Val) (kvs : List (Key × Val))
    (hk : E[k]? = some cd) (hu : unwrapData c.mode v = some v1) (ht : toDict cd.mode v1 = some kvs) :
    step W Q E rec c (.data k) v = step W Q E rec c (.data k) (.dict kvs) := by
  simp only [step, hk, hu, ht, unwrapData_dict, toDict_dict]

theorem step_dict_eq (c : Ctx) (kt : KeyTy) (t : Ty) (v : Val) (kvs : List (Key × Val))
    (ht : toDict c.mode v = some kvs) :
    step W Q E rec c (.dict kt t) v = step W Q E rec c (.dict kt t) (.dict kvs) := by
  simp only [step, ht, toDict_dict]

theorem step_forced (hrec : ForcedOk E rec) : ForcedOk E (step W Q E rec) := by
  intro T v n hf c r h
  induction hf generalizing c r with
  | zero => exact Nat.zero_le _
  | leafBad v n hv =>
    simp only [step] at h
    cases v <;> simp_all [isTok]
  | noneBad v n hv =>
    simp only [step] at h
    cases v <;> simp_all [isNoneVal]
  | dataBad k v n hbad =>
    simp only [step] at h
    cases hk : E[k]? with
    | none => simp [hk] at h
    | some cd =>
      simp only [hk] at h
      rcases hbad with hb | hb
      · simp only [unwrapData_scalar _ _ hb, toDict_scalar _ _ hb] at h
        split at h <;> cases h
      · simp [fieldsOf, hk] at hb
  | dataSeq k ws n _ ih =>
    cases hk : E[k]? with
    | none => simp [step, hk] at h
    | some cd =>
      cases hu : unwrapData c.mode (.list ws) with
      | none => simp [step, hk, hu] at h
      | some v1 =>
        cases ht : toDict cd.mode v1 with
        | none =>
          simp only [step, hk, hu, ht] at h
          split at h <;> cases h
        | some kvs =>
          rw [step_data_eq c k cd _ v1 kvs hk hu ht] at h
          exact ih c.mode cd.mode v1 kvs hu ht c r h
  | data k fields kvs f ft sub n hfl hlook hkey hsub _ =>
    simp only [step, unwrapData, toDict] at h
    cases hk : E[k]? with
    | none => simp [hk] at h
    | some cd =>
      simp only [fieldsOf, hk, Option.map_some, Option.some.injEq] at hfl
      subst hfl
      simp only [hk] at h
      split at h
      · cases h
      · obtain ⟨fs, hfs, rfl⟩ := (mapOut_fst_ok _ _ r).1 h
        obtain ⟨hbf, hfs⟩ := (failIf_ok _ _ fs).1 hfs
        simp only [hbf, Bool.false_eq_true, if_false] at hfs
        simp only [rdepth]
        apply Nat.succ_le_succ
        split at hfs
        · -- data-first
          simp only [parseDF] at hfs
          obtain ⟨rs, hrs, rfl⟩ := (mapOut_fst_ok _ _ fs).1 hfs
          obtain ⟨b, hb, hp⟩ := seqM_ok_mem _ _ rs hrs (f, ft, sub) (knownItems_mem _ _ f ft sub hlook hkey)
          obtain ⟨r', hr', rfl⟩ := (mapOut_fst_ok _ _ b).1 hp
          obtain ⟨c', hc'⟩ := parseField_ok _ _ _ _ hr'
          have hkeys : rs.map Prod.fst = (knownItems cd.fields kvs).map (fun it => it.1) :=
            seqM_map_fst _ (fun it => it.1) (by
              intro it b hb
              obtain ⟨r, _, rfl⟩ := (mapOut_fst_ok _ _ b).1 hb
              rfl) _ rs hrs
          have hnd : (rs.map Prod.fst).Nodup := by rw [hkeys]; exact dedupFst_nodup _
          have hl := lookup_of_mem_nodup rs f r' hnd hb
          have hmem : (f, r') ∈ cd.fields.map fun ft => (ft.1, (rs.lookup ft.1).getD Res.none) :=
            List.mem_map.2 ⟨(f, ft), lookup_some_mem _ _ _ hlook, by simp [hl]⟩
          exact Nat.le_trans (hrec ft sub n hsub c' r' hc') (rdepthF_mem _ f r' hmem)
        · -- field-first
          simp only [parseFF, ffItem] at hfs
          obtain ⟨b, hb, hp⟩ := seqM_ok_mem _ _ fs hfs (f, ft) (lookup_some_mem _ _ _ hlook)
          simp only [ffItem, hkey] at hp
          obtain ⟨r', hr', rfl⟩ := (mapOut_fst_ok _ _ b).1 hp
          obtain ⟨c', hc'⟩ := parseField_ok _ _ _ _ hr'
          exact Nat.le_trans (hrec ft sub n hsub c' r' hc') (rdepthF_mem _ f r' hb)
  | listMem t vs x n hx hsub _ =>
    simp only [step, wrapSeq] at h
    obtain ⟨rs, hrs, rfl⟩ := (mapOut_fst_ok _ _ r).1 h
    simpa [rdepth] using items_forced hrec c t vs rs hrs x hx n hsub
  | tupleMem t vs x n hx hsub _ =>
    simp only [step, wrapSeq] at h
    obtain ⟨rs, hrs, rfl⟩ := (mapOut_fst_ok _ _ r).1 h
    simpa [rdepth] using items_forced hrec c t vs rs hrs x hx n hsub
  | listWrap t v n hl hne hsub _ =>
    simp only [step] at h
    cases hw : wrapSeq c.mode v with
    | none => simp [hw] at h
    | some vs =>
      simp only [hw] at h
      obtain ⟨rs, hrs, rfl⟩ := (mapOut_fst_ok _ _ r).1 h
      have hx : v ∈ vs := wrapSeq_mem _ v vs hl hne hw
      simpa [rdepth] using items_forced hrec c t vs rs hrs v hx n hsub
  | tupleWrap t v n hl hne hsub _ =>
    simp only [step] at h
    cases hw : wrapSeq c.mode v with
    | none => simp [hw] at h
    | some vs =>
      simp only [hw] at h
      obtain ⟨rs, hrs, rfl⟩ := (mapOut_fst_ok _ _ r).1 h
      have hx : v ∈ vs := wrapSeq_mem _ v vs hl hne hw
      simpa [rdepth] using items_forced hrec c t vs rs hrs v hx n hsub
  | dictMem kt t kvs key x n hx hsub _ =>
    simp only [step, toDict] at h
    obtain ⟨rs, hrs, rfl⟩ := (mapOut_fst_ok _ _ r).1 h
    simp only [parseEntries] at hrs
    obtain ⟨b, hb, hp⟩ := seqM_ok_mem _ _ rs hrs (key, x) hx
    split at hp
    · cases hp
    · obtain ⟨r', hr', rfl⟩ := (mapOut_fst_ok _ _ b).1 hp
      obtain ⟨c', _, h2⟩ := inCtx_ok _ _ r' hr'
      simp only [rdepth]
      exact Nat.le_trans (hrec t x n hsub c' r' h2) (rdepthK_mem rs key r' hb)
  | dictBad kt t v n hv =>
    simp only [step, toDict_scalar _ _ hv] at h
    cases h
  | dictSeq kt t ws n _ ih =>
    cases ht : toDict c.mode (.list ws) with
    | none => simp [step, ht] at h
    | some kvs =>
      rw [step_dict_eq c kt t _ kvs ht] at h
      exact ih c.mode kvs ht c r h
  | union ts v n hv hall _ =>
    simp only [step] at h
    obtain ⟨t, ht, c', hc'⟩ := union_ok_mem c ts v r hv h
    exact hrec t v n (hall t ht) c' r hc'

end

theorem parse_forced (W : World) (Q : Quirks) (E : Env) (fuel : Nat) : ForcedOk E (parse W Q E fuel) := by
  induction fuel with
  | zero => intro T v n _ c r h; simp [parse] at h
  | succ m ih => exact step_forced ih

theorem fieldsOf_withLimit (d : Nat) (E : Env) (k : Nat) : fieldsOf (withLimit d E) k = fieldsOf E k := by
  simp only [fieldsOf, withLimit_get, Option.map_map]
  rfl

theorem forced_withLimit (d : Nat) (E : Env) (T : Ty) (v : Val) (n : Nat) (h : Forced E T v n) :
    Forced (withLimit d E) T v n := by
  induction h with
  | zero T v => exact .zero T v
  | leafBad v n hv => exact .leafBad v n hv
  | noneBad v n hv => exact .noneBad v n hv
  | dataBad k v n hb => exact .dataBad k v n (by rw [fieldsOf_withLimit]; exact hb)
  | data k fields kvs f ft sub n hfl hlook hkey _ ih =>
    exact .data k fields kvs f ft sub n (by rw [fieldsOf_withLimit]; exact hfl) hlook hkey ih
  | listMem t vs x n hx _ ih => exact .listMem t vs x n hx ih
  | tupleMem t vs x n hx _ ih => exact .tupleMem t vs x n hx ih
  | listWrap t v n hl hne _ ih => exact .listWrap t v n hl hne ih
  | tupleWrap t v n hl hne _ ih => exact .tupleWrap t v n hl hne ih
  | dictMem kt t kvs key x n hx _ ih => exact .dictMem kt t kvs key x n hx ih
  | dictBad kt t v n hv => exact .dictBad kt t v n hv
  | dataSeq k ws n _ ih => exact .dataSeq k ws n ih
  | dictSeq kt t ws n _ ih => exact .dictSeq kt t ws n ih
  | union ts v n hv _ ih => exact .union ts v n hv ih

/-- **Inputs deeper than the limit are rejected**: if the declared types force more than `d` nested data-class
levels on the input (whatever the positions — the spine may run through list indices, mapping keys and union
branches), the parser with `max_depth = d` does not accept it.  Stated on the *input*, independently of any
result. -/
theorem C18_deep_rejected (W : World) (Q : Quirks) (hQ : Q.falsyRoute = false) (hR : Q.rootLevel = false)
    (E : Env) (d : Nat) (hd : d ≠ 0) (fuel : Nat) (via : Bool) (k : Nat) (v : Val) (n : Nat)
    (hf : Forced E (.data k) v n) (hn : d < n) :
    (parseTop W Q (withLimit d E) fuel via k v).1.isOk = false := by
  cases h : (parseTop W Q (withLimit d E) fuel via k v).1 with
  | err f => rfl
  | ok r =>
    exfalso
    have h1 := ((C18_depth_exact W Q hQ hR E d hd fuel via k v).1 r h).1
    simp only [parseTop] at h
    have h2 := parse_forced W Q (withLimit d E) fuel (.data k) v n (forced_withLimit d E _ v n hf) _ r h
    omega

/-- `body^[n] stub`: the `n`-th unfolding of a cyclic object whose cycle is `body` -/
def unfoldCycle (body : Val → Val) (stub : Val) : Nat → Val
  | 0 => stub
  | n + 1 => body (unfoldCycle body stub n)

/-- **Cyclic inputs are always rejected.**  A cyclic object is the limit of its unfoldings
`stub, body stub, body (body stub), …`; if one turn of the cycle passes through (at least) one more data-class
level as the declarations read it (`hbody`: from a copy `body y` of the object to the copy that contains it),
then with `max_depth = d` every unfolding deeper than `d + 1` is rejected — for every `d`, every stub, every
fuel: however far the parser is allowed to look, it never accepts. -/
theorem C18_cyclic_rejected (W : World) (Q : Quirks) (hQ : Q.falsyRoute = false) (hR : Q.rootLevel = false)
    (E : Env) (k : Nat) (body : Val → Val)
    (hbody : ∀ y m, Forced E (.data k) (body y) m → Forced E (.data k) (body (body y)) (m + 1))
    (d : Nat) (hd : d ≠ 0) (fuel : Nat) (via : Bool) (stub : Val) (n : Nat) (hn : d < n) :
    (parseTop W Q (withLimit d E) fuel via k (unfoldCycle body stub (n + 1))).1.isOk = false := by
  have hf : ∀ m, Forced E (.data k) (unfoldCycle body stub (m + 1)) m := by
    intro m
    induction m with
    | zero => exact .zero _ _
    | succ m ih => exact hbody _ m ih
  exact C18_deep_rejected W Q hQ hR E d hd fuel via k _ n (hf n) hn

/-- non-vacuity of `hbody`: the cycle `data['nx'] = data` of the test-suite, read through `Optional['Node']` … -/
example : ∀ y m, Forced nodeEnv (.data 0) (.dict [(.str "v", .tok 0), (.str "nx", y)]) m →
    Forced nodeEnv (.data 0)
      (.dict [(.str "v", .tok 0), (.str "nx", .dict [(.str "v", .tok 0), (.str "nx", y)])]) (m + 1) := by
  intro y m h
  refine .data 0 _ _ "nx" (.union [.data 0, .none]) _ m rfl rfl rfl ?_
  refine .union _ _ m rfl ?_
  intro t ht
  simp only [List.mem_cons, List.mem_nil_iff, or_false] at ht
  rcases ht with rfl | rfl
  · exact h
  · exact .noneBad _ m rfl

/-- … and a cycle through list index 0 (`data['kids'] = [data]`) -/
example : ∀ y m,
    Forced [{ fields := [("kids", .list (.data 0))] }] (.data 0) (.dict [(.str "kids", .list [y])]) m →
    Forced [{ fields := [("kids", .list (.data 0))] }] (.data 0)
      (.dict [(.str "kids", .list [.dict [(.str "kids", .list [y])]])]) (m + 1) := by
  intro y m h
  refine .data 0 _ _ "kids" (.list (.data 0)) _ m rfl rfl rfl ?_
  exact .listMem _ _ _ m (by simp) h

end Utv.C18

namespace Utv.C18

/-! ### verdict-level biconditional for declarations whose unions cannot be read in two ways

With two container alternatives in one union (`Union[A, B]`, `Union[Node, Dict[str, Any]]`) the limited parser may
fall through to the other alternative when the first one is too deep — the limit then changes the *reading*, and
"the" nesting depth of the value is not defined.  When every union has at most one container alternative
(`envUnamb`, decidable: `Optional[T]`, `Union[Node, int, None]`, …) the limited parser reads the value exactly as the
unlimited one does, and the property's biconditional holds verbatim on verdicts. -/

/-- a value that is not a container never yields a data-class instance -/
def ScalarFree (rec : Parser) : Prop :=
  ∀ c T v r, isScalarVal v = true → (rec c T v).1 = .ok r → rdepth r = 0

structure Rel2 (pd pu : Parser) : Prop where
  /-- leaf / None types do not look at depth -/
  scalarEq : ∀ c c' T v, isScalarTy T = true → c.mode = c'.mode → (pd c T v).1 = (pu c' T v).1
  /-- … and accept only scalars -/
  scalarAcc : ∀ c T v r, isScalarTy T = true → (pd c T v).1 = .ok r → isScalarVal v = true
  /-- the limited run reads the value as the unlimited one -/
  agree : ∀ c c' T v r, unamb T = true → c.depth = c'.depth → c.mode = c'.mode →
    (pd c T v).1 = .ok r → (pu c' T v).1 = .ok r
  /-- where only the limit rejects, it rejects under every preference -/
  deep : ∀ c c' T v, unamb T = true → c.depth = c'.depth → c.mode = c'.mode →
    (pd c T v).1.isOk = false → (pu c' T v).1.isOk = true → ∀ c2, c2.depth = c.depth → (pd c2 T v).1.isOk = false

section
variable {W : World} {Q : Quirks} {E : Env} {rec pd pu : Parser}

theorem attempt_fixed (hQ : Q.falsyRoute = false) (c : Ctx) (v : Val) (mt : Mode × Ty) :
    attempt Q rec c v mt = rec { c with mode := mt.1 } mt.2 v := by
  simp [attempt, enter_fixed Q hQ, inCtx]

theorem items_scalarFree (h : ScalarFree rec) (c : Ctx) (t : Ty) (vs : List Val) (rs : List Res)
    (hvs : ∀ x ∈ vs, isScalarVal x = true) (hrs : (parseItems Q rec c t vs).1 = .ok rs) : rdepthL rs = 0 := by
  apply rdepthL_zero
  intro r' hr'
  obtain ⟨iv, hiv, hp⟩ := seqM_res_mem _ _ rs hrs r' hr'
  obtain ⟨c', _, h2⟩ := inCtx_ok _ _ r' hp
  exact h c' t iv.2 r' (hvs iv.2 (indexed_mem vs 0 iv.1 iv.2 hiv)) h2

theorem step_scalarFree (h : ScalarFree rec) : ScalarFree (step W Q E rec) := by
  intro c T v r hv hr
  cases T with
  | leaf =>
    simp only [step] at hr
    cases v with
    | tok n =>
      by_cases hl : W.leafOk c.mode n = true
      · simp only [hl, if_true, Out.ok.injEq] at hr; subst hr; rfl
      · simp [hl] at hr
    | none => cases hr
    | list vs => cases hr
    | dict kvs => cases hr
  | none =>
    simp only [step] at hr
    cases v with
    | none => simp only [Out.ok.injEq] at hr; subst hr; rfl
    | tok n => cases hr
    | list vs => cases hr
    | dict kvs => cases hr
  | data k =>
    simp only [step] at hr
    cases hk : E[k]? with
    | none => simp [hk] at hr
    | some cd =>
      simp only [hk, unwrapData_scalar _ _ hv, toDict_scalar _ _ hv] at hr
      split at hr <;> cases hr
  | list t =>
    simp only [step] at hr
    cases hw : wrapSeq c.mode v with
    | none => simp [hw] at hr
    | some vs =>
      simp only [hw] at hr
      obtain ⟨rs, hrs, rfl⟩ := (mapOut_fst_ok _ _ r).1 hr
      simp only [rdepth]
      exact items_scalarFree h c t vs rs (wrapSeq_scalar _ v vs hv hw) hrs
  | tuple t =>
    simp only [step] at hr
    cases hw : wrapSeq c.mode v with
    | none => simp [hw] at hr
    | some vs =>
      simp only [hw] at hr
      obtain ⟨rs, hrs, rfl⟩ := (mapOut_fst_ok _ _ r).1 hr
      simp only [rdepth]
      exact items_scalarFree h c t vs rs (wrapSeq_scalar _ v vs hv hw) hrs
  | dict kt t =>
    simp only [step] at hr
    cases v with
    | tok n => cases hr
    | none => cases hr
    | list l => simp [isScalarVal] at hv
    | dict kvs => simp [isScalarVal] at hv
  | union ts =>
    simp only [step] at hr
    by_cases hs : (isNoneVal v && hasNone ts) = true
    · simp only [parseUnion, hs, if_true, Out.ok.injEq] at hr
      subst hr; rfl
    · have hs' : (isNoneVal v && hasNone ts) = false := by simpa using hs
      rw [parseUnion_flat Q rec c ts v hs'] at hr
      obtain ⟨mt, _, hp⟩ := tryAll_ok_mem _ _ _ r hr
      obtain ⟨c', _, h2⟩ := inCtx_ok _ _ r hp
      exact h c' mt.2 v r hv h2

theorem mapOut_agree {β γ} (g : β → γ) (o o' : Out β × Nat) (h : ∀ b, o.1 = .ok b → o'.1 = .ok b) (c : γ)
    (hc : (mapOut g o).1 = .ok c) : (mapOut g o').1 = .ok c := by
  obtain ⟨b, hb, rfl⟩ := (mapOut_fst_ok g o c).1 hc
  exact (mapOut_fst_ok g o' _).2 ⟨b, h b hb, rfl⟩

theorem isOk_false_of_not_ok {β} (o : Out β) (h : ∀ b, o ≠ .ok b) : o.isOk = false := by
  cases o with
  | ok b => exact absurd rfl (h b)
  | err f => rfl

theorem isOk_true_iff {β} (o : Out β) : o.isOk = true ↔ ∃ b, o = .ok b := by
  cases o with
  | ok b => simp [Out.isOk]
  | err f => simp [Out.isOk]

theorem envUnamb_field (hE : envUnamb E = true) (k : Nat) (cd : ClassDecl) (hk : E[k]? = some cd) :
    ∀ ft ∈ cd.fields, unamb ft.2 = true := by
  have hmem : cd ∈ E := List.mem_of_getElem? hk
  simp only [envUnamb, List.all_eq_true] at hE
  exact fun ft hft => hE cd hmem ft hft

/-- one layer of `Rel2` -/
theorem step_rel2 (hQ : Q.falsyRoute = false) (hE : envUnamb E = true) (hrel : Rel E pd pu)
    (hsf : ScalarFree pu) (h2 : Rel2 pd pu) :
    Rel2 (step W Q E pd) (step W Q (unlimited E) pu) := by
  -- scalars are read alike
  have scalarIn : ∀ c c' T v r, isScalarVal v = true → c.depth = c'.depth → c.mode = c'.mode →
      (pu c' T v).1 = .ok r → (pd c T v).1 = .ok r := fun c c' T v r hv hd hm h =>
    (hrel c c' T v hd hm).2 r h (within_of_rdepth_zero E _ r (hsf c' T v r hv h))
  -- the items of a sequence
  have items_agree : ∀ (c c' : Ctx) (t : Ty) (vs : List Val) (rs : List Res), unamb t = true →
      c.depth = c'.depth → c.mode = c'.mode →
      (parseItems Q pd c t vs).1 = .ok rs → (parseItems Q pu c' t vs).1 = .ok rs := by
    intro c c' t vs rs ht hd hm h
    simp only [parseItems, enter_fixed Q hQ, inCtx] at h ⊢
    exact seqM_agree _ _ _ (fun iv _ b hb => h2.agree _ _ t iv.2 b ht hd (by simp [hm]) hb) rs h
  have items_deep : ∀ (c c' : Ctx) (t : Ty) (vs : List Val), unamb t = true →
      c.depth = c'.depth → c.mode = c'.mode →
      (parseItems Q pd c t vs).1.isOk = false → (parseItems Q pu c' t vs).1.isOk = true →
      ∃ x ∈ vs, ∀ c2 : Ctx, c2.depth = c.depth → (pd c2 t x).1.isOk = false := by
    intro c c' t vs ht hd hm hfail hok
    simp only [parseItems, enter_fixed Q hQ, inCtx] at hfail hok
    obtain ⟨iv, hiv, hbad⟩ := seqM_err_mem _ _ hfail
    obtain ⟨rs, hrs⟩ := (isOk_true_iff _).1 hok
    obtain ⟨b, _, hb⟩ := seqM_ok_mem _ _ rs hrs iv hiv
    refine ⟨iv.2, indexed_mem vs 0 iv.1 iv.2 hiv, ?_⟩
    exact h2.deep _ _ t iv.2 ht hd (by simp [hm]) hbad (by rw [hb]; rfl)
  have items_fail : ∀ (c2 : Ctx) (t : Ty) (vs : List Val) (x : Val), x ∈ vs →
      (∀ c3 : Ctx, c3.depth = c2.depth → (pd c3 t x).1.isOk = false) →
      (parseItems Q pd c2 t vs).1.isOk = false := by
    intro c2 t vs x hx hbad
    obtain ⟨j, hj⟩ := mem_indexed vs 0 x hx
    simp only [parseItems, enter_fixed Q hQ, inCtx]
    exact seqM_err_of_mem _ _ (j, x) hj (hbad _ rfl)
  constructor
  · -- scalarEq
    intro c c' T v hT hm
    cases T with
    | leaf => simp only [step, hm]
    | none => simp only [step]
    | data k => simp [isScalarTy] at hT
    | list t => simp [isScalarTy] at hT
    | tuple t => simp [isScalarTy] at hT
    | dict kt t => simp [isScalarTy] at hT
    | union ts => simp [isScalarTy] at hT
  · -- scalarAcc
    intro c T v r hT hr
    cases T with
    | leaf => cases v <;> simp_all [step, isScalarVal]
    | none => cases v <;> simp_all [step, isScalarVal]
    | data k => simp [isScalarTy] at hT
    | list t => simp [isScalarTy] at hT
    | tuple t => simp [isScalarTy] at hT
    | dict kt t => simp [isScalarTy] at hT
    | union ts => simp [isScalarTy] at hT
  · -- agree
    intro c c' T v r hT hd hm hr
    cases T with
    | leaf => simp only [step, ← hm]; simpa only [step] using hr
    | none => simp only [step]; simpa only [step] using hr
    | data k =>
      cases hk : E[k]? with
      | none => simp [step, hk] at hr
      | some cd =>
        have hk' : (unlimited E)[k]? = some { cd with maxDepth := none } := by rw [unlimited_get, hk]; rfl
        cases hu : unwrapData c.mode v with
        | none => simp [step, hk, hu] at hr
        | some v1 =>
        cases ht : toDict cd.mode v1 with
        | none => simp only [step, hk, hu, ht] at hr; split at hr <;> cases hr
        | some kvs =>
        rw [step_data_eq c k cd v v1 kvs hk hu ht] at hr
        rw [step_data_eq c' k _ v v1 kvs hk' (by rw [← hm]; exact hu) ht]
        simp only [step, unlimited_get, unwrapData, toDict] at hr ⊢
        have hf := envUnamb_field hE k cd hk
        simp only [hk, Option.map_some, exceeded_none, Bool.false_eq_true, if_false] at hr ⊢
        split at hr
        · cases hr
        · -- the mapping case
          refine mapOut_agree _ _ _ ?_ r hr
          intro fs hfs
          obtain ⟨hbf, hfs⟩ := (failIf_ok _ _ fs).1 hfs
          refine (failIf_ok _ _ fs).2 ⟨hbf, ?_⟩
          simp only [hbf, Bool.false_eq_true, if_false] at hfs ⊢
          have hfield : ∀ (t : Ty) (fv : Val) (b : Res), unamb t = true →
              (parseField Q pd ⟨c.depth + 1, cd.mode, cd.maxDepth⟩ t fv).1 = .ok b →
              (parseField Q pu ⟨c'.depth + 1, cd.mode, none⟩ t fv).1 = .ok b := by
            intro t fv b ht hb
            simp only [parseField, enter_fixed Q hQ, inCtx] at hb ⊢
            exact h2.agree { depth := c.depth + 1, mode := cd.mode, md := cd.maxDepth }
              { depth := c'.depth + 1, mode := cd.mode, md := none } t fv b ht (by simp [hd]) rfl hb
          split at hfs
          · simp only [parseDF] at hfs ⊢
            rename_i hdfs
            simp only [hdfs, if_true]
            refine mapOut_agree _ _ _ ?_ fs hfs
            intro rs hrs
            refine seqM_agree _ _ _ ?_ rs hrs
            intro it hit b hb
            exact mapOut_agree _ _ _ (fun b' hb' =>
              hfield it.2.1 it.2.2 b' (hf (it.1, it.2.1) (knownItems_field _ _ it hit)) hb') b hb
          · rename_i hdfs
            simp only [hdfs, Bool.false_eq_true, if_false]
            simp only [parseFF, ffItem] at hfs ⊢
            refine seqM_agree _ _ _ ?_ fs hfs
            intro ft hft b hb
            simp only [ffItem] at hb ⊢
            cases hl : lookupKey (Key.str ft.1) kvs with
            | none => simpa [hl] using hb
            | some fv =>
              simp only [hl] at hb ⊢
              exact mapOut_agree _ _ _ (fun b' hb' => hfield ft.2 fv b' (hf ft hft) hb') b hb
    | list t =>
      simp only [unamb] at hT
      simp only [step, ← hm] at hr ⊢
      cases hw : wrapSeq c.mode v with
      | none => simp [hw] at hr
      | some vs =>
        simp only [hw] at hr ⊢
        exact mapOut_agree _ _ _ (fun rs hrs => items_agree c c' t vs rs hT hd hm hrs) r hr
    | tuple t =>
      simp only [unamb] at hT
      simp only [step, ← hm] at hr ⊢
      cases hw : wrapSeq c.mode v with
      | none => simp [hw] at hr
      | some vs =>
        simp only [hw] at hr ⊢
        exact mapOut_agree _ _ _ (fun rs hrs => items_agree c c' t vs rs hT hd hm hrs) r hr
    | dict kt t =>
      simp only [unamb] at hT
      cases ht : toDict c.mode v with
      | none => simp [step, ht] at hr
      | some kvs =>
        rw [step_dict_eq c kt t v kvs ht] at hr
        rw [step_dict_eq c' kt t v kvs (by rw [← hm]; exact ht)]
        simp only [step, toDict] at hr ⊢
        refine mapOut_agree _ _ _ ?_ r hr
        intro rs hrs
        simp only [parseEntries, enter_fixed Q hQ, inCtx] at hrs ⊢
        refine seqM_agree _ _ _ ?_ rs hrs
        intro kv _ b hb
        by_cases hk : kt.admits kv.1 = true
        · simp only [hk, Bool.not_true, Bool.false_eq_true, if_false] at hb ⊢
          exact mapOut_agree _ _ _ (fun b' hb' => h2.agree _ _ t kv.2 b' hT hd (by simp [hm]) hb') b hb
        · simp [hk] at hb
    | union ts =>
      simp only [unamb, Bool.and_eq_true, decide_eq_true_eq] at hT
      simp only [step] at hr ⊢
      by_cases hs : (isNoneVal v && hasNone ts) = true
      · simp only [parseUnion, hs, if_true] at hr ⊢
        exact hr
      · have hs' : (isNoneVal v && hasNone ts) = false := by simpa using hs
        rw [parseUnion_flat Q _ _ ts v hs'] at hr ⊢
        rw [← hm]
        obtain ⟨astar, hastar, hpstar⟩ := tryAll_ok_mem _ _ _ r hr
        refine tryAll_agree _ _ _ _ _ ?_ ?_ r hr
        · intro a ha b hb
          rw [attempt_fixed hQ] at hb ⊢
          exact h2.agree { c with mode := a.1 } { c' with mode := a.1 } a.2 v b
            (unambL_mem ts hT.1 a.2 (attempts_mem _ _ a ha)) hd rfl hb
        · intro a ha hbad
          rw [attempt_fixed hQ] at hbad ⊢
          rw [attempt_fixed hQ] at hpstar
          apply isOk_false_of_not_ok
          intro b hb
          have hta := attempts_mem _ _ a ha
          have htstar := attempts_mem _ _ astar hastar
          by_cases hsa : isScalarTy a.2 = true
          · have := h2.scalarEq { c with mode := a.1 } { c' with mode := a.1 } a.2 v hsa rfl
            rw [this, hb] at hbad; cases hbad
          · by_cases hsv : isScalarVal v = true
            · have := scalarIn { c with mode := a.1 } { c' with mode := a.1 } a.2 v b hsv hd rfl hb
              rw [this] at hbad; cases hbad
            · by_cases hss : isScalarTy astar.2 = true
              · exact hsv (h2.scalarAcc _ astar.2 v r hss hpstar)
              · have heq : a.2 = astar.2 := container_unique ts hT.2 a.2 astar.2 hta htstar
                  (by simpa using hsa) (by simpa using hss)
                have hdeep := h2.deep { c with mode := a.1 } { c' with mode := a.1 } a.2 v
                  (unambL_mem ts hT.1 a.2 hta) hd rfl hbad (by rw [hb]; rfl)
                  { c with mode := astar.1 } rfl
                rw [heq, hpstar] at hdeep
                cases hdeep
  · -- deep
    intro c c' T v hT hd hm hfail hok c2 hc2
    cases T with
    | leaf =>
      have : (step W Q E pd c Ty.leaf v).1 = (step W Q (unlimited E) pu c' Ty.leaf v).1 := by
        simp only [step, hm]
      rw [this, hok] at hfail; cases hfail
    | none =>
      have : (step W Q E pd c Ty.none v).1 = (step W Q (unlimited E) pu c' Ty.none v).1 := by
        simp only [step]
      rw [this, hok] at hfail; cases hfail
    | data k =>
      cases hk : E[k]? with
      | none => simp [step, unlimited_get, hk, Out.isOk] at hok
      | some cd =>
        have hk' : (unlimited E)[k]? = some { cd with maxDepth := none } := by rw [unlimited_get, hk]; rfl
        cases hu : unwrapData c.mode v with
        | none => simp [step, hk', ← hm, hu, Out.isOk] at hok
        | some v1 =>
        cases ht : toDict cd.mode v1 with
        | none => simp [step, hk', ← hm, hu, ht, Out.isOk] at hok
        | some kvs =>
        cases hu2 : unwrapData c2.mode v with
        | none => simp [step, hk, hu2, Out.isOk]
        | some v2 =>
        cases ht2 : toDict cd.mode v2 with
        | none => simp only [step, hk, hu2, ht2]; split <;> rfl
        | some kvs2 =>
        have := dataPrep_indep _ _ _ v v1 v2 kvs kvs2 hu ht hu2 ht2
        subst this
        rw [step_data_eq c k cd v v1 kvs2 hk hu ht] at hfail
        rw [step_data_eq c2 k cd v v2 kvs2 hk hu2 ht2]
        have : step W Q E pd c2 (Ty.data k) (.dict kvs2) = step W Q E pd c (Ty.data k) (.dict kvs2) := by
          simp only [step, hc2, unwrapData]
        rw [this]; exact hfail
    | list t =>
      simp only [unamb] at hT
      simp only [step, ← hm] at hfail hok ⊢
      cases hw : wrapSeq c.mode v with
      | none => simp [hw, Out.isOk] at hok
      | some vs =>
        simp only [hw, mapOut_isOk] at hfail hok
        obtain ⟨x, hx, hbad⟩ := items_deep c c' t vs hT hd hm hfail hok
        cases hw2 : wrapSeq c2.mode v with
        | none => rfl
        | some vs2 =>
          simp only [mapOut_isOk]
          have := wrapSeq_indep _ _ v vs vs2 hw hw2
          subst this
          exact items_fail c2 t vs2 x hx (fun c3 hc3 => hbad c3 (by rw [hc3, hc2]))
    | tuple t =>
      simp only [unamb] at hT
      simp only [step, ← hm] at hfail hok ⊢
      cases hw : wrapSeq c.mode v with
      | none => simp [hw, Out.isOk] at hok
      | some vs =>
        simp only [hw, mapOut_isOk] at hfail hok
        obtain ⟨x, hx, hbad⟩ := items_deep c c' t vs hT hd hm hfail hok
        cases hw2 : wrapSeq c2.mode v with
        | none => rfl
        | some vs2 =>
          simp only [mapOut_isOk]
          have := wrapSeq_indep _ _ v vs vs2 hw hw2
          subst this
          exact items_fail c2 t vs2 x hx (fun c3 hc3 => hbad c3 (by rw [hc3, hc2]))
    | dict kt t =>
      simp only [unamb] at hT
      cases ht : toDict c.mode v with
      | none => simp [step, ← hm, ht, Out.isOk] at hok
      | some kvs =>
      cases ht2 : toDict c2.mode v with
      | none => simp [step, ht2, Out.isOk]
      | some kvs2 =>
        have := toDict_indep _ _ v kvs kvs2 ht ht2
        subst this
        rw [step_dict_eq c kt t v kvs2 ht] at hfail
        rw [step_dict_eq c' kt t v kvs2 (by rw [← hm]; exact ht)] at hok
        rw [step_dict_eq c2 kt t v kvs2 ht2]
        simp only [step, toDict] at hfail hok ⊢
        simp only [mapOut_isOk] at hfail hok ⊢
        simp only [parseEntries, enter_fixed Q hQ, inCtx] at hfail hok ⊢
        obtain ⟨kv, hkv, hbad⟩ := seqM_err_mem _ _ hfail
        obtain ⟨rs, hrs⟩ := (isOk_true_iff _).1 hok
        obtain ⟨b, _, hb⟩ := seqM_ok_mem _ _ rs hrs kv hkv
        refine seqM_err_of_mem _ _ kv hkv ?_
        by_cases hk : kt.admits kv.1 = true
        · simp only [hk, Bool.not_true, Bool.false_eq_true, if_false, mapOut_isOk] at hbad hb ⊢
          have hb' : (pu { c' with mode := c'.mode } t kv.2).1.isOk = true := by
            obtain ⟨r', hr', _⟩ := (mapOut_fst_ok _ _ b).1 hb
            rw [hr']; rfl
          exact h2.deep _ _ t kv.2 hT hd (by simp [hm]) hbad hb' _ (by simp [hc2])
        · simp [hk] at hb
    | union ts =>
      simp only [unamb, Bool.and_eq_true, decide_eq_true_eq] at hT
      simp only [step] at hfail hok ⊢
      by_cases hs : (isNoneVal v && hasNone ts) = true
      · simp [parseUnion, hs, Out.isOk] at hfail
      · have hs' : (isNoneVal v && hasNone ts) = false := by simpa using hs
        rw [parseUnion_flat Q _ _ ts v hs'] at hfail hok ⊢
        rw [← hm] at hok
        have hall := tryAll_err_all _ _ _ hfail
        obtain ⟨r, hr⟩ := (isOk_true_iff _).1 hok
        obtain ⟨a, ha, hpa⟩ := tryAll_ok_mem _ _ _ r hr
        have hbad := hall a ha
        rw [attempt_fixed hQ] at hbad hpa
        have hta := attempts_mem _ _ a ha
        have hsa : isScalarTy a.2 = false := by
          by_cases hsa : isScalarTy a.2 = true
          · have := h2.scalarEq { c with mode := a.1 } { c' with mode := a.1 } a.2 v hsa rfl
            rw [this, hpa] at hbad; cases hbad
          · simpa using hsa
        have hsv : isScalarVal v = false := by
          by_cases hsv : isScalarVal v = true
          · have := scalarIn { c with mode := a.1 } { c' with mode := a.1 } a.2 v r hsv hd rfl hpa
            rw [this] at hbad; cases hbad
          · simpa using hsv
        have hdeep := h2.deep { c with mode := a.1 } { c' with mode := a.1 } a.2 v
          (unambL_mem ts hT.1 a.2 hta) hd rfl hbad (by rw [hpa]; rfl)
        apply tryAll_all_err
        intro b hb
        rw [attempt_fixed hQ]
        have htb := attempts_mem _ _ b hb
        by_cases hsb : isScalarTy b.2 = true
        · apply isOk_false_of_not_ok
          intro r' hr'
          have := h2.scalarAcc _ b.2 v r' hsb hr'
          rw [hsv] at this; cases this
        · have heq : b.2 = a.2 := container_unique ts hT.2 b.2 a.2 htb hta (by simpa using hsb) hsa
          rw [heq]
          exact hdeep _ (by simp [hc2])

end

theorem parse_scalarFree (W : World) (Q : Quirks) (E : Env) (fuel : Nat) : ScalarFree (parse W Q E fuel) := by
  induction fuel with
  | zero => intro c T v r _ h; simp [parse] at h
  | succ n ih => exact step_scalarFree ih

end Utv.C18

namespace Utv.C18

theorem parse_rel2 (W : World) (Q : Quirks) (hQ : Q.falsyRoute = false) (E : Env) (hE : envUnamb E = true)
    (fuel : Nat) : Rel2 (parse W Q E fuel) (parse W Q (unlimited E) fuel) := by
  induction fuel with
  | zero =>
    constructor
    · intro c c' T v _ _; rfl
    · intro c T v r _ h; simp [parse] at h
    · intro c c' T v r _ _ _ h; simp [parse] at h
    · intro c c' T v _ _ _ _ h; simp [parse, Out.isOk] at h
  | succ n ih => exact step_rel2 hQ hE (parse_rel W Q hQ E n) (parse_scalarFree W Q (unlimited E) n) ih

theorem envUnamb_withLimit (d : Nat) (E : Env) : envUnamb (withLimit d E) = envUnamb E := by
  simp [envUnamb, withLimit, List.all_map, Function.comp_def]

/-- **The limit does not change the reading** when no union has two container alternatives: whatever is
accepted under the limits is parsed to the very same result without them. -/
theorem C18_limit_same_reading (W : World) (Q : Quirks) (hQ : Q.falsyRoute = false) (E : Env)
    (hE : envUnamb E = true) (fuel : Nat) (c : Ctx) (T : Ty) (hT : unamb T = true) (v : Val) (r : Res)
    (h : (parse W Q E fuel c T v).1 = .ok r) : (parse W Q (unlimited E) fuel c T v).1 = .ok r :=
  (parse_rel2 W Q hQ E hE fuel).agree c c T v r hT rfl rfl h

/-- **The depth limit is exact — on verdicts** (the property's biconditional, verbatim): for declarations in which
no union has two container alternatives, with `max_depth = d ≥ 1` on every class, a value is accepted **if and only
if** it is accepted without limit with a result whose data-class nesting depth is at most `d` — wherever the nested
value sits. -/
theorem C18_depth_exact_iff (W : World) (Q : Quirks) (hQ : Q.falsyRoute = false) (hR : Q.rootLevel = false)
    (E : Env) (hE : envUnamb E = true) (d : Nat) (hd : d ≠ 0) (fuel : Nat) (via : Bool) (k : Nat) (v : Val) :
    (parseTop W Q (withLimit d E) fuel via k v).1.isOk = true ↔
      ∃ r, (parseTop W Q (unlimited E) fuel via k v).1 = .ok r ∧ rdepth r ≤ d := by
  have hex := C18_depth_exact W Q hQ hR E d hd fuel via k v
  constructor
  · intro h
    obtain ⟨r, hr⟩ := (isOk_true_iff _).1 h
    refine ⟨r, ?_, (hex.1 r hr).1⟩
    have := C18_limit_same_reading W Q hQ (withLimit d E) (by rw [envUnamb_withLimit]; exact hE) fuel
      { depth := if via && Q.rootLevel then 1 else 0, mode := Mode.lenient, md := none } (.data k) rfl v r hr
    rw [unlimited_withLimit] at this
    exact this
  · rintro ⟨r, hr, hle⟩
    rw [(hex.2 r hr).2 hle]; rfl

/-- non-vacuity: the usual recursive declarations are unambiguous … -/
example : envUnamb
    [{ fields := [("v", .leaf), ("nx", .union [.data 0, .none]), ("u", .union [.leaf, .data 0, .none]),
                  ("kids", .list (.union [.data 0, .none])), ("m", .dict .str (.data 0))] }] = true := by decide

/-- … and the hypothesis is needed: with two data-class alternatives the limit changes the reading (the value
is too deep for class 0 but class 1, which has no `nx`, reads it as a flat instance) -/
theorem C18_ambiguous_union_witness :
    let E : Env := [{ fields := [("v", .leaf), ("nx", .union [.data 0, .data 1, .none])] }, { fields := [("v", .leaf)] }]
    let v := twoLevels (twoLevels leafNode)
    envUnamb E = false ∧
    (parseTop W0 Quirks.fixed (withLimit 2 E) 20 false 0 v).1.isOk = true ∧
    (match (parseTop W0 Quirks.fixed (unlimited E) 20 false 0 v).1 with
     | .ok r => rdepth r
     | .err _ => 0) = 3 := by
  decide

end Utv.C18

namespace Utv.C18

/-! ### cost of unions nested through containers (no data class in between)

`envOk` / `noData` already cover this shape: a union whose alternatives are leaves and containers of further such
unions restarts nothing, because `enter` passes the stage's preferences down (`self.options & options`) and only a
data class resets them.  The general statement is `C18_cost_containers` (weight × size, weight = `tyWt`); for the
JSON-like family `V(0) = Leaf, V(n+1) = Union[Leaf, List[V(n)]]` the weight is at most `(n+1)³`, so the work is
polynomial in the nesting depth and linear in the input — for valid and invalid inputs alike. -/

/-- **Containers and unions of leaves**: no data class anywhere in the type ⇒ cost ≤ weight(type) · size(input),
in every context, for every input. -/
theorem C18_cost_containers (W : World) (Q : Quirks) (E : Env) (fuel : Nat) (c : Ctx) (T : Ty) (v : Val)
    (hT : noData T = true) : (parse W Q E fuel c T v).2 ≤ tyWt c.mode T * vsize v :=
  parse_costFree W Q E fuel c T v hT

/-- `V(0) = Leaf`, `V(n+1) = Union[Leaf, List[V(n)]]` -/
def jsonTy : Nat → Ty
  | 0 => .leaf
  | n + 1 => .union [.leaf, .list (jsonTy n)]

theorem noData_jsonTy (n : Nat) : noData (jsonTy n) = true := by
  induction n with
  | zero => rfl
  | succ n ih => simp [jsonTy, noData, noDataL, ih]

theorem tyWt_jsonTy_strict (n : Nat) : tyWt Mode.strict (jsonTy n) = n + 1 := by
  induction n with
  | zero => rfl
  | succ n ih => simp [jsonTy, tyWt, tyWtL, stage2, stage3, Mode.strict, ih] at ih ⊢; omega

theorem sq_succ (a : Nat) : (a + 1) * (a + 1) = a * a + 2 * a + 1 := by
  simp only [Nat.add_mul, Nat.mul_add, Nat.mul_one, Nat.one_mul]; omega

theorem cube_succ (a : Nat) : (a + 1) * (a + 1) * (a + 1) = a * a * a + 3 * (a * a) + 3 * a + 1 := by
  simp only [Nat.add_mul, Nat.mul_add, Nat.mul_one, Nat.one_mul]; omega

/-- a context that already has one of the two preferences: quadratic weight -/
theorem tyWt_jsonTy_half (m : Mode) (hm : (m.noLoss && m.noCast) = false) (h3 : stage3 m = false) (n : Nat) :
    tyWt m (jsonTy n) ≤ (n + 1) * (n + 1) := by
  have h2 : stage2 m = true := by
    cases m with | mk a b => cases a <;> cases b <;> simp_all [stage2]
  induction n with
  | zero => simp [jsonTy, tyWt]
  | succ n ih =>
    have hs := tyWt_jsonTy_strict n
    simp only [jsonTy, tyWt, tyWtL, h2, h3, if_true, Bool.false_eq_true, if_false] at ih ⊢
    rw [sq_succ (n + 1)]
    omega

theorem tyWt_jsonTy_le (m : Mode) (n : Nat) : tyWt m (jsonTy n) ≤ (n + 1) * (n + 1) * (n + 1) := by
  have hsq : ∀ k : Nat, (k + 1) * (k + 1) ≤ (k + 1) * (k + 1) * (k + 1) := fun k =>
    Nat.le_mul_of_pos_right _ (Nat.succ_pos k)
  rcases m with ⟨a, b⟩
  cases a <;> cases b
  · -- lenient: all three stages
    induction n with
    | zero => simp [jsonTy, tyWt]
    | succ n ih =>
      have hs := tyWt_jsonTy_strict n
      have hh := tyWt_jsonTy_half ⟨true, false⟩ rfl rfl n
      simp only [jsonTy, tyWt, tyWtL, stage2, stage3, Bool.not_false, Bool.or_self, Bool.and_self, if_true] at ih ⊢
      rw [cube_succ (n + 1)]
      omega
  · exact Nat.le_trans (tyWt_jsonTy_half ⟨false, true⟩ rfl rfl n) (hsq n)
  · exact Nat.le_trans (tyWt_jsonTy_half ⟨true, false⟩ rfl rfl n) (hsq n)
  · have := tyWt_jsonTy_strict n
    simp only [Mode.strict] at this
    rw [this]
    exact Nat.le_trans (Nat.le_mul_of_pos_right _ (Nat.succ_pos n)) (hsq n)

/-- **Unions nested through containers cost polynomially**: for the JSON-like type of nesting depth `n`, every
input `v`, every context and leaf behaviour, valid or invalid: at most `(n+1)³ · size(v)` leaf conversions. -/
theorem C18_cost_nested_union (W : World) (Q : Quirks) (E : Env) (fuel : Nat) (c : Ctx) (n : Nat) (v : Val) :
    (parse W Q E fuel c (jsonTy n) v).2 ≤ (n + 1) * (n + 1) * (n + 1) * vsize v :=
  Nat.le_trans (C18_cost_containers W Q E fuel c (jsonTy n) v (noData_jsonTy n))
    (Nat.mul_le_mul_right _ (tyWt_jsonTy_le c.mode n))

end Utv.C18

namespace Utv.C18

/-! ### cyclic inputs built from sequences alone

`x = []; x.append(x)` given where a data class is expected: `transform_dataclass` takes the first item once
(cls.py:616-622), `to_dict` looks one item further (transform.py `_attempt_from`) — and stops.  Every unfolding of
such an object beyond three levels is a sequence whose first item is a non-empty sequence whose first item is a
non-empty sequence: it never stands for a mapping, under any preferences, with or without a depth limit, at no cost. -/

/-- **A self-containing sequence is rejected at once** (any class, context, limit, fuel; zero conversions). -/
theorem C18_seqcycle_rejected (W : World) (Q : Quirks) (E : Env) (fuel : Nat) (c : Ctx) (k : Nat)
    (stub : Val) (more : List Val) :
    (parse W Q E fuel c (.data k) (.list [.list [.list (stub :: more)]])).1.isOk = false ∧
    (parse W Q E fuel c (.data k) (.list [.list [.list (stub :: more)]])).2 = 0 := by
  cases fuel with
  | zero => exact ⟨rfl, rfl⟩
  | succ n =>
    simp only [parse, step]
    cases E[k]? with
    | none => exact ⟨rfl, rfl⟩
    | some cd =>
      have key : ∀ o : Out Res × Nat, (o = (.err { depth := true }, 0) ∨ o = (.err {}, 0)) →
          o.1.isOk = false ∧ o.2 = 0 := by
        rintro o (rfl | rfl) <;> exact ⟨rfl, rfl⟩
      apply key
      rcases c with ⟨d, ⟨cl, cc⟩, md⟩
      rcases hcd : cd.mode with ⟨a, b⟩
      by_cases hex : exceeded cd.maxDepth (d + 1) = true <;>
        cases cc <;> cases a <;> cases b <;> simp [unwrapData, toDict, hex]

/-- … and, at any position below a data class, the declarations force arbitrarily many levels on it (vacuously:
no reading exists), so `C18_deep_rejected` applies to inputs that contain it wherever a data class is expected -/
example (E : Env) (k : Nat) (stub : Val) (n : Nat) : Forced E (.data k) (.list [.list [.list [stub]]]) n := by
  refine .dataSeq k _ n ?_
  intro m m' v1 kvs hu ht
  rcases unwrapData_cases m _ _ v1 hu with rfl | rfl
  · rcases m' with ⟨a, b⟩
    cases a <;> cases b <;> simp [toDict] at ht
  · rcases m' with ⟨a, b⟩
    cases a <;> cases b <;> simp [toDict] at ht

/-- a cycle through a data class *and* a single-item sequence standing for it (`d['nx'] = [d]` with `nx: 'Node'`)
is forced one level per turn, like the plain cycle: `C18_cyclic_rejected` applies -/
example : ∀ y m,
    Forced [{ fields := [("nx", .data 0)] }] (.data 0) (.dict [(.str "nx", .list [y])]) m →
    Forced [{ fields := [("nx", .data 0)] }] (.data 0)
      (.dict [(.str "nx", .list [.dict [(.str "nx", .list [y])]])]) (m + 1) := by
  intro y m h
  refine .data 0 _ _ "nx" (.data 0) _ m rfl rfl rfl ?_
  refine .dataSeq 0 _ m ?_
  intro m1 m2 v1 kvs hu ht
  rcases unwrapData_cases m1 _ _ v1 hu with rfl | rfl
  · simp [toDict] at ht; subst ht; exact h
  · rcases m2 with ⟨a, b⟩
    cases a <;> cases b <;> simp [toDict] at ht <;> (subst ht; exact h)

end Utv.C18

namespace Utv.C18

/-! ### assignments on instances of an already parsed tree

`inst.f = w`, `inst['f'] = w`, `inst.update(f=w)`, `inst |= {f: w}` all end in `Schema.__field_setter__` /
`__setitem__`, which make a context for the instance's class **without a parent** and parse `w` as field `f`
(`parseAssign`, built from the same `classCtx` / `parseField` pieces as the `.data` branch of `step`).  The content
proved here: such an assignment *is* the parse of the one-field mapping `{f: w}` by the class at the root
(`C18_assign_is_root_parse`, through the field-first and the data-first loop), so the exactness theorems apply to the
assigned value with the instance as level 1 — from whatever level of whatever tree the instance was taken. -/

/-- the `.data` branch of `step` makes its context the way `classCtx` says (the tie between the two spellings) -/
theorem step_data_classCtx (W : World) (Q : Quirks) (E : Env) (rec : Parser) (c : Ctx) (k : Nat) (cd : ClassDecl)
    (kvs : List (Key × Val)) (hk : E[k]? = some cd) :
    step W Q E rec c (.data k) (.dict kvs) =
      match classCtx c.depth cd with
      | .err fl => (.err fl, 0)
      | .ok c' =>
        mapOut (Res.data k) (failIf (cd.mode.noLoss && hasUnknown cd.fields kvs)
          (if cd.dfs then parseDF Q rec c' cd.fields
              (if (cd.mode.noLoss && hasUnknown cd.fields kvs) then knownPrefix cd.fields kvs else kvs)
           else parseFF Q rec c' cd.fields kvs)) := by
  simp only [step, hk, unwrapData, toDict, classCtx]
  split <;> rfl

/-- the fields of an instance of which only `f` was given -/
def oneField (fields : List (String × Ty)) (f : String) (r : Res) : List (String × Res) :=
  fields.map fun ft => (ft.1, if ft.1 = f then r else Res.none)

theorem lookupKey_single_ne {α} (k k' : Key) (w : α) (h : k' ≠ k) : lookupKey k [(k', w)] = none := by
  simp [lookupKey, h]

theorem lookupKey_single_eq {α} (k : Key) (w : α) : lookupKey k [(k, w)] = some w := by
  simp [lookupKey]

theorem ffItem_absent (Q : Quirks) (rec : Parser) (c : Ctx) (f : String) (w : Val) (ft : String × Ty) (h : ft.1 ≠ f) :
    ffItem Q rec c [(Key.str f, w)] ft = (.ok (ft.1, Res.none), 0) := by
  have hne : Key.str f ≠ Key.str ft.1 := fun he => h (by cases he; rfl)
  simp only [ffItem, lookupKey_single_ne _ _ w hne]

theorem ffItem_present (Q : Quirks) (rec : Parser) (c : Ctx) (f : String) (w : Val) (t : Ty) :
    ffItem Q rec c [(Key.str f, w)] (f, t) = mapOut (fun r => (f, r)) (parseField Q rec c t w) := by
  simp only [ffItem, lookupKey_single_eq]

theorem seqM_absent (Q : Quirks) (rec : Parser) (c : Ctx) (f : String) (w : Val) (fields : List (String × Ty))
    (h : ∀ ft ∈ fields, ft.1 ≠ f) (r : Res) :
    seqM (ffItem Q rec c [(Key.str f, w)]) fields = (.ok (oneField fields f r), 0) := by
  induction fields with
  | nil => rfl
  | cons x xs ih =>
    have hx : x.1 ≠ f := h x (by simp)
    simp only [seqM, ffItem_absent Q rec c f w x hx, ih (fun ft hft => h ft (by simp [hft])), oneField, List.map_cons,
      hx, if_false, Nat.add_zero]

theorem parseFF_one (Q : Quirks) (rec : Parser) (c : Ctx) (f : String) (t : Ty) (w : Val)
    (fields : List (String × Ty)) (hnd : (fields.map Prod.fst).Nodup) (hf : fields.lookup f = some t) :
    parseFF Q rec c fields [(.str f, w)] = mapOut (oneField fields f) (parseField Q rec c t w) := by
  simp only [parseFF]
  induction fields with
  | nil => simp [List.lookup] at hf
  | cons x xs ih =>
    rcases x with ⟨s, t0⟩
    simp only [List.map_cons, List.nodup_cons] at hnd
    simp only [List.lookup] at hf
    by_cases hs : f = s
    · subst hs
      simp only [beq_self_eq_true, Option.some.injEq] at hf
      subst hf
      have habs := seqM_absent Q rec c f w xs (fun ft hft he => hnd.1 (List.mem_map.2 ⟨ft, hft, he⟩))
      simp only [seqM, ffItem_present]
      rcases parseField Q rec c t0 w with ⟨o, n⟩
      cases o with
      | err fl => simp [mapOut]
      | ok r => simp [mapOut, habs r, oneField]
    · have hbeq : (f == s) = false := by simpa using hs
      simp only [hbeq] at hf
      have hsf : ¬ (s = f) := fun he => hs he.symm
      simp only [seqM, ffItem_absent Q rec c f w (s, t0) hsf, ih hnd.2 hf]
      rcases parseField Q rec c t w with ⟨o, n⟩
      cases o with
      | err fl => simp [mapOut]
      | ok r => simp [mapOut, oneField, hsf]

theorem parseDF_one (Q : Quirks) (rec : Parser) (c : Ctx) (f : String) (t : Ty) (w : Val)
    (fields : List (String × Ty)) (hf : fields.lookup f = some t) :
    parseDF Q rec c fields [(.str f, w)] = mapOut (oneField fields f) (parseField Q rec c t w) := by
  simp only [parseDF, knownItems, List.filterMap_cons, hf, Option.map_some, List.filterMap_nil, dedupFst,
    List.filter_nil, seqM]
  rcases parseField Q rec c t w with ⟨o, n⟩
  cases o with
  | err fl => simp [mapOut]
  | ok r =>
    simp only [mapOut, Nat.add_zero, oneField]
    congr 2
    apply List.map_congr_left
    intro ft _
    by_cases hs : ft.1 = f
    · simp [hs, List.lookup]
    · have : (ft.1 == f) = false := by simpa using hs
      simp [hs, List.lookup, this]

/-- **An assignment is the root parse of the one-field mapping** (content: the setter's parent-less context is the
root context of the class; the field loops — field-first and data-first — visit the one given key and fill the rest
with defaults; no additional key is involved).  `fuel + 1`: the root parse spends one unit on the class itself. -/
theorem C18_assign_is_root_parse (W : World) (Q : Quirks) (hS : Q.setterInherits = false) (E : Env)
    (fuel level k : Nat) (cd : ClassDecl) (f : String) (t : Ty) (w : Val)
    (hk : E[k]? = some cd) (hnd : (cd.fields.map Prod.fst).Nodup) (hf : cd.fields.lookup f = some t) :
    parseTop W Q E (fuel + 1) false k (.dict [(.str f, w)]) =
      mapOut (fun r => Res.data k (oneField cd.fields f r)) (parseAssign W Q E fuel level k f w) := by
  have hknown : hasUnknown cd.fields [(Key.str f, w)] = false := by
    simp [hasUnknown, isKnown, hf]
  simp only [parseTop, Bool.false_and, Bool.false_eq_true, if_false, parse, step_data_classCtx W Q E _ _ k cd _ hk,
    parseAssign, hk, hS, hf, hknown, Bool.and_false, failIf_false]
  cases classCtx 0 cd with
  | err fl => rfl
  | ok c' =>
    simp only
    split
    · rw [parseDF_one Q _ c' f t w cd.fields hf]
      rcases parseField Q (parse W Q E fuel) c' t w with ⟨o, n⟩
      cases o <;> rfl
    · rw [parseFF_one Q _ c' f t w cd.fields hnd hf]
      rcases parseField Q (parse W Q E fuel) c' t w with ⟨o, n⟩
      cases o <;> rfl

theorem rdepthF_oneField (fields : List (String × Ty)) (f : String) (r : Res) (h : ∃ t, (f, t) ∈ fields) :
    rdepthF (oneField fields f r) = rdepth r := by
  induction fields with
  | nil => obtain ⟨t, ht⟩ := h; cases ht
  | cons x xs ih =>
    simp only [oneField, List.map_cons, rdepthF]
    by_cases hx : x.1 = f
    · simp only [hx, if_true]
      by_cases hrest : ∃ t, (f, t) ∈ xs
      · have := ih hrest
        simp only [oneField] at this
        rw [this]; exact Nat.max_self _
      · have hz : rdepthF (xs.map fun ft => (ft.1, if ft.1 = f then r else Res.none)) = 0 := by
          clear ih h
          induction xs with
          | nil => rfl
          | cons y ys ihy =>
            have hy : y.1 ≠ f := fun he => hrest ⟨y.2, by simp [← he]⟩
            simp only [List.map_cons, rdepthF, hy, if_false, rdepth]
            rw [ihy (fun ⟨t, ht⟩ => hrest ⟨t, by simp [ht]⟩)]
            rfl
        rw [hz]; exact Nat.max_eq_left (Nat.zero_le _)
    · obtain ⟨t, ht⟩ := h
      have hrest : ∃ t, (f, t) ∈ xs := by
        rcases List.mem_cons.1 ht with he | hm
        · exact absurd (by rw [← he]) hx
        · exact ⟨t, hm⟩
      have := ih hrest
      simp only [oneField] at this
      simp only [hx, if_false, rdepth, this]
      exact Nat.max_eq_right (Nat.zero_le _)

/-- **The depth limit is exact for assignments** (corollary of `C18_assign_is_root_parse` and `C18_depth_exact_iff`):
declarations whose unions cannot be read in two ways, `max_depth = d ≥ 1` on every class; an instance of class `k` taken
from **any** level of any parsed tree; `f` a declared field.  The assignment `inst.f = w` is accepted **iff** it is
accepted without limits with a value `r` of nesting depth `rdepth r + 1 ≤ d` (the instance itself is level 1). -/
theorem C18_assign_exact_iff (W : World) (Q : Quirks) (hQ : Q.falsyRoute = false) (hR : Q.rootLevel = false)
    (hS : Q.setterInherits = false) (E : Env) (hE : envUnamb E = true) (d : Nat) (hd : d ≠ 0)
    (fuel level k : Nat) (cd : ClassDecl) (f : String) (t : Ty) (w : Val)
    (hk : E[k]? = some cd) (hnd : (cd.fields.map Prod.fst).Nodup) (hf : cd.fields.lookup f = some t) :
    (parseAssign W Q (withLimit d E) fuel level k f w).1.isOk = true ↔
      ∃ r, (parseAssign W Q (unlimited E) fuel level k f w).1 = .ok r ∧ rdepth r + 1 ≤ d := by
  have hkL : (withLimit d E)[k]? = some { cd with maxDepth := some d } := by rw [withLimit_get, hk]; rfl
  have hkU : (unlimited E)[k]? = some { cd with maxDepth := none } := by rw [unlimited_get, hk]; rfl
  have eL := C18_assign_is_root_parse W Q hS (withLimit d E) fuel level k _ f t w hkL hnd hf
  have eU := C18_assign_is_root_parse W Q hS (unlimited E) fuel level k _ f t w hkU hnd hf
  have hiff := C18_depth_exact_iff W Q hQ hR E hE d hd (fuel + 1) false k (.dict [(.str f, w)])
  rw [eL, eU, mapOut_isOk] at hiff
  rw [hiff]
  have hmem : ∃ t, (f, t) ∈ cd.fields := ⟨t, lookup_some_mem _ _ _ hf⟩
  constructor
  · rintro ⟨R, hR', hle⟩
    obtain ⟨r, hr, rfl⟩ := (mapOut_fst_ok _ _ R).1 hR'
    refine ⟨r, hr, ?_⟩
    simp only [rdepth, rdepthF_oneField cd.fields f r hmem] at hle
    exact hle
  · rintro ⟨r, hr, hle⟩
    refine ⟨_, (mapOut_fst_ok _ _ _).2 ⟨r, hr, rfl⟩, ?_⟩
    simp only [rdepth, rdepthF_oneField cd.fields f r hmem]
    exact hle

/-- what the property excludes (a setter that chains its context to the one the instance was built with): a scalar
assigned to the instance at level 3 of a tree parsed with `max_depth = 3` would be rejected, the same assignment on a
directly constructed instance accepted -/
theorem C18_setter_inherits_witness :
    (parseAssign W0 { setterInherits := true } (oneClass (.union [.data 0, .none]) 3) 10 3 0 "v" (.tok 0)).1.isOk = false ∧
    (parseAssign W0 { setterInherits := true } (oneClass (.union [.data 0, .none]) 3) 10 0 0 "v" (.tok 0)).1.isOk = true ∧
    (parseAssign W0 Quirks.fixed (oneClass (.union [.data 0, .none]) 3) 10 3 0 "v" (.tok 0)).1.isOk = true := by
  decide

end Utv.C18

namespace Utv.C18

/-! ### per-class limits: the general statement, against a specification written on the result alone

The code checks every nested class against **its own** `max_depth` (cls.py:595 → `parser.make_context` passes the
class' own options; options.py:374 checks `self.options.max_depth`), the level being counted from the root of the
parse.  `Respects E n r` says exactly that on the result tree, by plain recursion (`levels`), without the parser's
`exceeded`; `within` (the Boolean the relational proof runs on) is shown equivalent to it. -/

theorem exceeded_false_iff (md : Option Nat) (l : Nat) :
    exceeded md l = false ↔ ∀ m, md = some m → m ≠ 0 → l ≤ m := by
  cases md with
  | none => simp [exceeded]
  | some k =>
    simp only [exceeded, Option.some.injEq, forall_eq']
    by_cases hk : k = 0
    · subst hk; simp
    · simp [hk]

mutual
theorem within_iff_respects (E : Env) : ∀ (n : Nat) (r : Res),
    within E n r = true ↔ ∀ p ∈ levels n r, ∃ cd, E[p.1]? = some cd ∧ ∀ m, cd.maxDepth = some m → m ≠ 0 → p.2 ≤ m
  | _, .leaf _ => by simp [within, levels]
  | _, .none => by simp [within, levels]
  | n, .data k fs => by
    have ih := withinF_iff_respects E (n + 1) fs
    simp only [within, levels, Bool.and_eq_true, List.mem_cons, forall_eq_or_imp, ih]
    constructor
    · rintro ⟨h1, h2⟩
      refine ⟨?_, h2⟩
      cases hk : E[k]? with
      | none => simp [hk] at h1
      | some cd =>
        simp only [hk] at h1
        exact ⟨cd, rfl, (exceeded_false_iff _ _).1 (by simpa using h1)⟩
    · rintro ⟨⟨cd, hk, h1⟩, h2⟩
      refine ⟨?_, h2⟩
      simp [hk, (exceeded_false_iff cd.maxDepth (n + 1)).2 h1]
  | n, .list rs => by simpa [within, levels] using withinL_iff_respects E n rs
  | n, .tuple rs => by simpa [within, levels] using withinL_iff_respects E n rs
  | n, .dict kvs => by simpa [within, levels] using withinK_iff_respects E n kvs
theorem withinL_iff_respects (E : Env) : ∀ (n : Nat) (rs : List Res),
    withinL E n rs = true ↔ ∀ p ∈ levelsL n rs, ∃ cd, E[p.1]? = some cd ∧ ∀ m, cd.maxDepth = some m → m ≠ 0 → p.2 ≤ m
  | _, [] => by simp [withinL, levelsL]
  | n, r :: rs => by
    simp only [withinL, levelsL, Bool.and_eq_true, List.mem_append, within_iff_respects E n r,
      withinL_iff_respects E n rs]
    constructor
    · rintro ⟨h1, h2⟩ p (hp | hp)
      · exact h1 p hp
      · exact h2 p hp
    · intro h; exact ⟨fun p hp => h p (Or.inl hp), fun p hp => h p (Or.inr hp)⟩
theorem withinF_iff_respects (E : Env) : ∀ (n : Nat) (rs : List (String × Res)),
    withinF E n rs = true ↔ ∀ p ∈ levelsF n rs, ∃ cd, E[p.1]? = some cd ∧ ∀ m, cd.maxDepth = some m → m ≠ 0 → p.2 ≤ m
  | _, [] => by simp [withinF, levelsF]
  | n, (_, r) :: rs => by
    simp only [withinF, levelsF, Bool.and_eq_true, List.mem_append, within_iff_respects E n r,
      withinF_iff_respects E n rs]
    constructor
    · rintro ⟨h1, h2⟩ p (hp | hp)
      · exact h1 p hp
      · exact h2 p hp
    · intro h; exact ⟨fun p hp => h p (Or.inl hp), fun p hp => h p (Or.inr hp)⟩
theorem withinK_iff_respects (E : Env) : ∀ (n : Nat) (rs : List (Key × Res)),
    withinK E n rs = true ↔ ∀ p ∈ levelsK n rs, ∃ cd, E[p.1]? = some cd ∧ ∀ m, cd.maxDepth = some m → m ≠ 0 → p.2 ≤ m
  | _, [] => by simp [withinK, levelsK]
  | n, (_, r) :: rs => by
    simp only [withinK, levelsK, Bool.and_eq_true, List.mem_append, within_iff_respects E n r,
      withinK_iff_respects E n rs]
    constructor
    · rintro ⟨h1, h2⟩ p (hp | hp)
      · exact h1 p hp
      · exact h2 p hp
    · intro h; exact ⟨fun p hp => h p (Or.inl hp), fun p hp => h p (Or.inr hp)⟩
end

theorem within_eq_respects (E : Env) (n : Nat) (r : Res) : within E n r = true ↔ Respects E n r :=
  within_iff_respects E n r

/-- **The depth limit is exact, per class** (general declarations: every class its own `max_depth` or none).
Result-wise: (1) what is accepted is accepted without limits too and every instance of its result sits within the
limit of its own class; (2) a value that parses to `r` without limits is accepted as `r` under the limits **iff**
every instance of `r` sits within the limit of its own class (`Respects`, levels counted from the root of the parse). -/
theorem C18_limit_exact (W : World) (Q : Quirks) (hQ : Q.falsyRoute = false) (E : Env) (fuel : Nat)
    (c : Ctx) (T : Ty) (v : Val) :
    (∀ r, (parse W Q E fuel c T v).1 = .ok r →
        Respects E c.depth r ∧ (parse W Q (unlimited E) fuel c T v).1.isOk = true) ∧
    (∀ r, (parse W Q (unlimited E) fuel c T v).1 = .ok r →
        ((parse W Q E fuel c T v).1 = .ok r ↔ Respects E c.depth r)) := by
  constructor
  · intro r h
    exact ⟨(within_eq_respects E _ r).1 (C18_limit_sound W Q hQ E fuel c T v r h),
      C18_limit_monotone W Q hQ E fuel c T v r h⟩
  · intro r h
    constructor
    · intro h'; exact (within_eq_respects E _ r).1 (C18_limit_sound W Q hQ E fuel c T v r h')
    · intro hr; exact C18_limit_complete W Q hQ E fuel c T v r h ((within_eq_respects E _ r).2 hr)

/-- … and on verdicts, when no union has two container alternatives: a value is accepted **iff** it is accepted without
limits and every instance of each limited class sits within that class' own limit. -/
theorem C18_limit_exact_iff (W : World) (Q : Quirks) (hQ : Q.falsyRoute = false) (E : Env) (hE : envUnamb E = true)
    (fuel : Nat) (c : Ctx) (T : Ty) (hT : unamb T = true) (v : Val) :
    (parse W Q E fuel c T v).1.isOk = true ↔
      ∃ r, (parse W Q (unlimited E) fuel c T v).1 = .ok r ∧ Respects E c.depth r := by
  constructor
  · intro h
    obtain ⟨r, hr⟩ := (isOk_true_iff _).1 h
    exact ⟨r, C18_limit_same_reading W Q hQ E hE fuel c T hT v r hr,
      (within_eq_respects E _ r).1 (C18_limit_sound W Q hQ E fuel c T v r hr)⟩
  · rintro ⟨r, hr, hres⟩
    rw [((C18_limit_exact W Q hQ E fuel c T v).2 r hr).2 hres]; rfl

end Utv.C18

namespace Utv.C18

/-! ### the single-`d` statement of the property, and where the unchanged code departs from it

The property says "with `max_depth = d` a value is accepted exactly when its nesting depth is at most `d`".  The code
gives every class its own limit (`C18_limit_exact`).  When all classes of the declaration carry the same `d`
(`uniformLimits`, decidable) `Respects` is `rdepth r ≤ d` and the single-`d` statement follows (`C18_depth_exact`,
`C18_depth_exact_iff`, restated below for a declaration that *is* uniform rather than made uniform).

Known defect `limit-not-inherited` (full statement kept visible):

    theorem C18_root_limit : limit of the root class = some d → parseTop … = .ok r → rdepth r ≤ d

is **false** of the code when a nested class declares no (or a larger) limit: `C18_limit_not_inherited_witness`. -/

/-- every class of the declaration declares `max_depth = d` -/
def uniformLimits (d : Nat) (E : Env) : Bool := E.all fun cd => cd.maxDepth == some d

theorem withLimit_of_uniform (d : Nat) (E : Env) (h : uniformLimits d E = true) : withLimit d E = E := by
  simp only [uniformLimits, List.all_eq_true, beq_iff_eq] at h
  simp only [withLimit]
  conv => rhs; rw [← List.map_id E]
  apply List.map_congr_left
  intro cd hcd
  have := h cd hcd
  cases cd
  simp_all

/-- the property's single-`d` biconditional, for declarations whose classes all declare that `d` (partial: outside the
known defect `limit-not-inherited`) -/
theorem C18_root_limit_partial (W : World) (Q : Quirks) (hQ : Q.falsyRoute = false) (hR : Q.rootLevel = false)
    (E : Env) (hE : envUnamb E = true) (d : Nat) (hd : d ≠ 0) (hu : uniformLimits d E = true)
    (fuel : Nat) (via : Bool) (k : Nat) (v : Val) :
    (parseTop W Q E fuel via k v).1.isOk = true ↔
      ∃ r, (parseTop W Q (unlimited E) fuel via k v).1 = .ok r ∧ rdepth r ≤ d := by
  have := C18_depth_exact_iff W Q hQ hR E hE d hd fuel via k v
  rwa [withLimit_of_uniform d E hu] at this

/-- **negation witness**: class 0 declares `max_depth = 1`, its field is of the recursive class 1 that declares no
limit: a value of nesting depth 4 is accepted (the corpus replays depth 7 on the real code) -/
theorem C18_limit_not_inherited_witness :
    let E : Env := [{ fields := [("v", .leaf), ("b", .data 1)], maxDepth := some 1 },
                    { fields := [("v", .leaf), ("nx", .union [.data 1, .none])] }]
    let v := Val.dict [(.str "b", twoLevels (twoLevels leafNode))]
    uniformLimits 1 E = false ∧
    (match (parseTop W0 Quirks.fixed E 20 false 0 v).1 with
     | .ok r => rdepth r
     | .err _ => 0) = 4 := by
  decide

/-- non-vacuity of `uniformLimits` -/
example : uniformLimits 3 (withLimit 3 nodeEnv) = true := by decide

end Utv.C18

namespace Utv.C18

/-! ### fuel adequacy

`fuel` only bounds the recursion of the model.  With `need H T v = vsize v · (H+2) + tyH T + 1` units (`H` = the greatest
height of a field type of the declarations) the recursion never reaches the bottom: the outcome never carries the
exhaustion flag and is the same for every larger amount.  So the `isOk = false` conclusions of `C18_deep_rejected`,
`C18_cyclic_rejected`, `C18_seqcycle_rejected` are genuine rejections (`C18_rejection_genuine`), not exhaustion. -/

/-- **Fuel adequacy**: with at least `need H T v` fuel the outcome (1) never reports exhaustion and (2) is the outcome
for every other adequate amount of fuel — the fuel-independent result. -/
theorem C18_fuel_adequate (W : World) (Q : Quirks) (E : Env) (H : Nat) (hE : envH H E = true) (fuel : Nat)
    (c : Ctx) (T : Ty) (v : Val) (hn : need H T v ≤ fuel) :
    (∀ f, (parse W Q E fuel c T v).1 = .err f → f.fuel = false) ∧
    (∀ fuel', need H T v ≤ fuel' → parse W Q E fuel' c T v = parse W Q E fuel c T v) := by
  have stable : ∀ n j, need H T v ≤ n → parse W Q E (n + j) c T v = parse W Q E n c T v := by
    intro n j hnj
    rw [parse_eq_iter, parse_eq_iter, iter_add]
    exact iter_indep H hE _ _ n c T v hnj
  constructor
  · intro f hf
    rw [parse_eq_iter, iter_indep H hE outOfFuel (fun _ _ _ => (.err {}, 0)) fuel c T v hn] at hf
    exact iter_noFuel _ (fun _ _ _ g hg => by simp at hg; subst hg; rfl) fuel c T v f hf
  · intro fuel' hn'
    by_cases hle : fuel ≤ fuel'
    · obtain ⟨j, rfl⟩ := Nat.exists_eq_add_of_le hle
      exact stable fuel j hn
    · have hle' : fuel' ≤ fuel := by omega
      obtain ⟨j, rfl⟩ := Nat.exists_eq_add_of_le hle'
      exact (stable fuel' j hn').symm

/-- a rejection obtained with adequate fuel is a rejection for every adequate fuel, and not an exhaustion -/
theorem C18_rejection_genuine (W : World) (Q : Quirks) (E : Env) (H : Nat) (hE : envH H E = true) (fuel : Nat)
    (c : Ctx) (T : Ty) (v : Val) (hn : need H T v ≤ fuel) (hrej : (parse W Q E fuel c T v).1.isOk = false) :
    (∃ f, (parse W Q E fuel c T v).1 = .err f ∧ f.fuel = false) ∧
    ∀ fuel', need H T v ≤ fuel' → (parse W Q E fuel' c T v).1.isOk = false := by
  have ha := C18_fuel_adequate W Q E H hE fuel c T v hn
  constructor
  · cases h : (parse W Q E fuel c T v).1 with
    | ok r => rw [h] at hrej; cases hrej
    | err f => exact ⟨f, rfl, ha.1 f h⟩
  · intro fuel' hn'
    rw [ha.2 fuel' hn']; exact hrej

theorem envH_withLimit (H d : Nat) (E : Env) : envH H (withLimit d E) = envH H E := by
  simp [envH, withLimit, List.all_map, Function.comp_def]

/-- **Inputs deeper than the limit are rejected — genuinely**: `C18_deep_rejected` with adequate fuel gives a
`ParseError` outcome without the exhaustion flag, for every adequate amount of fuel. -/
theorem C18_deep_rejected_adequate (W : World) (Q : Quirks) (hQ : Q.falsyRoute = false) (hR : Q.rootLevel = false)
    (E : Env) (H : Nat) (hE : envH H E = true) (d : Nat) (hd : d ≠ 0) (fuel : Nat) (via : Bool) (k : Nat) (v : Val)
    (n : Nat) (hf : Forced E (.data k) v n) (hdn : d < n) (hn : need H (.data k) v ≤ fuel) :
    ∃ f, (parseTop W Q (withLimit d E) fuel via k v).1 = .err f ∧ f.fuel = false := by
  have hrej := C18_deep_rejected W Q hQ hR E d hd fuel via k v n hf hdn
  simp only [parseTop] at hrej ⊢
  exact (C18_rejection_genuine W Q (withLimit d E) H (by rw [envH_withLimit]; exact hE) fuel _ _ v hn hrej).1

/-- non-vacuity: the declarations used above have small heights, and a concrete adequate fuel -/
example : envH 1 nodeEnv = true ∧ need 1 (.data 0) (badChain 2) = 19 := by decide

end Utv.C18

namespace Utv.C18

/-! ### every context the model builds is within its own limit

(the hypothesis `hc : exceeded c.md c.depth = false` of the T1 obligation `Utv.GenEq.C18.C18_gen_init_enter`): the root
context of `parseTop` / `parseAssign` has no limit, a class context exists only after its check passed, and `enter`
keeps level and limit. -/

theorem C18_classCtx_within (d : Nat) (cd : ClassDecl) (c' : Ctx) (h : classCtx d cd = .ok c') :
    exceeded c'.md c'.depth = false ∧ c'.depth = d + 1 ∧ c'.md = cd.maxDepth := by
  simp only [classCtx] at h
  split at h
  · cases h
  · rename_i hex
    simp only [Out.ok.injEq] at h
    subst h
    exact ⟨by simpa using hex, rfl, rfl⟩

theorem C18_enter_keeps_within (Q : Quirks) (hQ : Q.falsyRoute = false) (c : Ctx) (b : Bool) (m : Mode)
    (hc : exceeded c.md c.depth = false) :
    ∃ c', enter Q c b m = .ok c' ∧ exceeded c'.md c'.depth = false ∧ c'.depth = c.depth ∧ c'.md = c.md :=
  ⟨_, enter_fixed Q hQ c b m, hc, rfl, rfl⟩

end Utv.C18
