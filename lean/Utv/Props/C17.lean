import Utv.Lemmas.C17
/-!
C17 — forward references and declaration order do not change behaviour.

A *program* is a finite sequence of declarations (data classes, parsed functions) and uses.  Every
annotation may spell each reference as a bare name, a quoted leaf inside a generic (a `ForwardRef`
object, possibly shared between annotations because `typing` memoises), or a whole-string annotation
(written so or because of `from __future__ import annotations`); classes may be local to a function.
`run` is the model of what utype does (registration under keys, eager evaluation against the namespace
as it is when the declaration is created, lazy resolution at the first parse, un-evaluation for local
classes, ForwardRef dereference at conversion time, state threaded through nested parses).
`specRun` reads the same declarations with every reference written directly: no cells, no registry, no
state — its answer for a use depends on nothing but the declarations made so far and the input.

Full statement (the property):
    after every history of declarations and uses, a use that reaches only declarations that exist
    returns what the same declarations, read with direct references, return
  whatever the spelling of each reference, the definition order and the uses made before (also failed ones).

The unchanged code does not satisfy it for classes that live only in a function scope and name a
sibling through a string (finding `local-sibling-ref`, witness below), so:

* `C17_use_eq_direct` — the full statement, per use, no defect hypothesis, for declarations bound at
  module level (this includes classes made by a factory function, i.e. local classes);
* `C17_use_eq_direct_partial` — per use, all programs, under the decidable `KnownDefect.localSibling … = false`;
* `C17_resolved_eq_direct(_partial)` — whole-program form (every use of the program admissible ⇒ `run = specRun`);
* `C17_first_use_order_irrelevant`, `C17_definition_order_irrelevant` — hypotheses on the final use only;
* `C17_local_sibling_witness` — the negation on a concrete function-scope program;
* `C17_legacy_*_witness` — the behaviour before each fixes/C17-*.patch violates the statement.

Limits (see manifest `level_note`): model and spec follow class *names* (a name bound twice is outside the
model's faithfulness, the generator still produces it for the oracle); evaluation fails only by NameError.

No bound on the number of declarations, fields, uses, nesting of annotations, or on the fuel.
-/
namespace Utv.C17

/-! ### hypotheses, as decidable as they can be -/

/-- every declaration a use can reach exists (`S`: the reachable set, closed under mention) -/
def Reaches (defs : List (Name × Decl)) (S : List Name) : Prop :=
  ∀ k ∈ S, ∃ d, lookupD k defs = some d ∧ (∀ n ∈ d.allNames, n ∈ S) ∧
    -- base classes are reached too (chains of any depth, any number of bases)
    (∀ b ∈ d.bases, b ∈ S)

/-- finding `local-sibling-ref`: some reachable declaration names, through a string, a class that is
neither bound in the module namespace nor the declaring class itself -/
def KnownDefect.localSibling (defs : List (Name × Decl)) (S : List Name) : Bool :=
  S.any fun k => match lookupD k defs with
    | none => false
    | some d => d.strNames.any fun n => !(boundNames defs).contains n && !(!d.isFunc && n == k)

theorem closed_of_reaches {defs : List (Name × Decl)} {S : List Name} (hr : Reaches defs S)
    (hd : KnownDefect.localSibling defs S = false) : Closed defs S := by
  intro k hk
  obtain ⟨d, hl, hall, hbase⟩ := hr k hk
  refine ⟨d, hl, hall, ?_, hbase⟩
  intro n hn
  have := hd
  simp only [KnownDefect.localSibling, List.any_eq_false] at this
  have h1 := this k hk
  simp only [hl, List.any_eq_true, not_exists, not_and] at h1
  have h2 := h1 n hn
  by_cases hb : n ∈ boundNames defs
  · exact Or.inl hb
  · right
    have hc : (boundNames defs).contains n = false := by simpa using hb
    simp only [hc, Bool.not_false, Bool.true_and, Bool.not_eq_true, Bool.not_eq_false'] at h2
    simp only [Bool.and_eq_true, Bool.not_eq_true', beq_iff_eq] at h2
    exact ⟨h2.1, h2.2⟩

/-- well-formed programs: declarations consistent with the reading `cval` of the ForwardRef objects;
every use reaches only existing declarations and does not fall under the known defect -/
def ProgOK (cval : Cell → Ty) : List (Name × Decl) → List Op → Prop
  | _, [] => True
  | defs, .defn k d :: ops => DeclOK cval d ∧ ProgOK cval ((k, d) :: defs) ops
  | defs, .use k _ :: ops =>
      (∃ S, k ∈ S ∧ Reaches defs S ∧ KnownDefect.localSibling defs S = false) ∧ ProgOK cval defs ops

theorem inv_init (cval : Cell → Ty) : Inv cval State.init [] :=
  ⟨rfl, by intro p hp; simp [State.init] at hp, ParsersOK.nil⟩

theorem useTop_spec {cval : Cell → Ty} (leaf : Val → Option Val) (chk : Nat → Val → Bool) (fuel : Nat) {s : State} {defs : List (Name × Decl)}
    (h : Inv cval s defs) {S : List Name} {k : Name} (hk : k ∈ S) (hS : Closed defs S) (kvs : List (Nat × Val)) :
    (useTop Cfg.fixed leaf chk fuel s k kvs).2 = specParse leaf chk (envOf defs) fuel (.data k) (.dict kvs) ∧
    Inv cval (useTop Cfg.fixed leaf chk fuel s k kvs).1 defs := by
  obtain ⟨s1, ps1, hr, hinv1, _, _⟩ := resolveParser_ok h hS hk
  simp only [useTop, hr]
  exact parse_spec leaf chk hS fuel s1 (.data k) (.dict kvs) hinv1 (by simpa [TyIn] using hk)

theorem run_spec {cval : Cell → Ty} (leaf : Val → Option Val) (chk : Nat → Val → Bool) (fuel : Nat) :
    ∀ (ops : List Op) (s : State) (defs : List (Name × Decl)), Inv cval s defs → ProgOK cval defs ops →
    run Cfg.fixed leaf chk fuel s ops = specRun leaf chk fuel defs ops := by
  intro ops
  induction ops with
  | nil => intro s defs _ _; rfl
  | cons op ops ih =>
    intro s defs h hp
    cases op with
    | defn k d =>
      simp only [ProgOK] at hp
      simp only [run, specRun]
      exact ih _ _ (define_inv h k d hp.1) hp.2
    | use k kvs =>
      simp only [ProgOK] at hp
      obtain ⟨⟨S, hk, hr, hd⟩, hrest⟩ := hp
      obtain ⟨u1, u2⟩ := useTop_spec leaf chk fuel h hk (closed_of_reaches hr hd) kvs
      simp only [run, specRun]
      rw [← u1, ih _ _ u2 hrest]

/-- **C17 (partial: outside finding `local-sibling-ref`).**  For every program — any number of
declarations, any spelling of each reference, any definition order, any interleaving of uses — in
which every use reaches only declarations that exist: every use returns exactly what the same
declarations, read with direct references, return.  For every leaf converter and every fuel. -/
theorem C17_resolved_eq_direct_partial (cval : Cell → Ty) (leaf : Val → Option Val) (chk : Nat → Val → Bool) (fuel : Nat) (ops : List Op)
    (h : ProgOK cval [] ops) :
    run Cfg.fixed leaf chk fuel State.init ops = specRun leaf chk fuel [] ops :=
  run_spec leaf chk fuel ops State.init [] (inv_init cval) h

/-- The design's formulation: at a use that reaches only existing declarations, lazy resolution
succeeds and leaves the parser with exactly the directly written field types — structural equality
of `Ty`, where a field declared with `Field(...)`/`Param(...)` constraints has the *constrained* type
`Ty.con k t` (the `(annotation, constraints)` pair kept with a pending reference is what is installed) —
inherited fields included, nothing pending. -/
theorem C17_types_after_resolution {cval : Cell → Ty} {s : State} {defs : List (Name × Decl)} (h : Inv cval s defs)
    {S : List Name} {k : Name} (hk : k ∈ S) (hr : Reaches defs S) (hd : KnownDefect.localSibling defs S = false) :
    ∃ s1 ps1, resolveParser Cfg.fixed s k = (s1, true) ∧
      lookupP k s1.parsers = some ps1 ∧
      allFieldsF s1.parsers.length s1.parsers k = directFieldsF defs.length defs k ∧
      Inv cval s1 defs := by
  obtain ⟨s1, ps1, h1, h2, h3, h4⟩ := resolveParser_ok h (closed_of_reaches hr hd) hk
  exact ⟨s1, ps1, h1, h3, h4, h2⟩

/-! ### the full statement for module-level programs -/

mutual
theorem quoted_names_sub (a : Ann) : ∀ p ∈ quotedOf a, p.2 ∈ names a := by
  cases a with
  | quoted c n => intro p hp; simp [quotedOf] at hp; subst hp; simp [names]
  | list a => simpa [quotedOf, names] using quoted_names_sub a
  | dict a => simpa [quotedOf, names] using quoted_names_sub a
  | con _ a => simpa [quotedOf, names] using quoted_names_sub a
  | tuple as => simpa [quotedOf, names] using quoted_namesL_sub as
  | union as => simpa [quotedOf, names] using quoted_namesL_sub as
  | _ => intro p hp; simp [quotedOf] at hp
theorem quoted_namesL_sub (as : List Ann) : ∀ p ∈ quotedOfL as, p.2 ∈ namesL as := by
  cases as with
  | nil => intro p hp; simp [quotedOfL] at hp
  | cons a as =>
    intro p hp
    simp only [quotedOfL, List.mem_append] at hp
    simp only [namesL, List.mem_append]
    rcases hp with hp | hp
    · exact Or.inl (quoted_names_sub a p hp)
    · exact Or.inr (quoted_namesL_sub as p hp)
end

theorem strNames_sub_allNames (d : Decl) : ∀ n ∈ d.strNames, n ∈ d.allNames := by
  intro n hn
  simp only [Decl.strNames, Decl.allNames, List.mem_flatMap] at hn ⊢
  obtain ⟨fa, hfa, hn⟩ := hn
  refine ⟨fa, hfa, ?_⟩
  rcases fa with ⟨f, fa⟩
  cases fa with
  | plain a =>
    simp only [FieldAnn.strNames, List.mem_map] at hn
    obtain ⟨p, hp, rfl⟩ := hn
    exact quoted_names_sub a p hp
  | str c e => exact hn

theorem lookupD_mem {k : Name} {d : Decl} : ∀ {defs : List (Name × Decl)}, lookupD k defs = some d → (k, d) ∈ defs
  | [], h => by simp [lookupD] at h
  | (k', d') :: rest, h => by
    simp only [lookupD] at h
    split at h
    · rename_i he
      have : k' = k := by simpa using he
      cases h; subst this; simp
    · exact List.mem_cons_of_mem _ (lookupD_mem h)

/-- every declaration made so far is bound in the module namespace -/
def AllBound (defs : List (Name × Decl)) : Prop := ∀ p ∈ defs, p.2.bound = true

theorem localSibling_false_of_allBound {defs : List (Name × Decl)} {S : List Name} (hb : AllBound defs)
    (hr : Reaches defs S) : KnownDefect.localSibling defs S = false := by
  simp only [KnownDefect.localSibling, List.any_eq_false]
  intro k hk
  obtain ⟨d, hl, hall, _⟩ := hr k hk
  simp only [hl, List.any_eq_true, not_exists, not_and]
  intro n hn
  have hnS := hall n (strNames_sub_allNames d n hn)
  obtain ⟨d', hl', _, _⟩ := hr n hnS
  have hmem := lookupD_mem hl'
  have : n ∈ boundNames defs := by
    simp only [boundNames, List.mem_map, List.mem_filter]
    exact ⟨(n, d'), ⟨hmem, hb _ hmem⟩, rfl⟩
  simp [this]

/-- programs at module level: consistent declarations, each bound to its name; every use reaches
only existing declarations.  No defect hypothesis. -/
def ProgOKModule (cval : Cell → Ty) : List (Name × Decl) → List Op → Prop
  | _, [] => True
  | defs, .defn k d :: ops => DeclOK cval d ∧ d.bound = true ∧ ProgOKModule cval ((k, d) :: defs) ops
  | defs, .use k _ :: ops => (∃ S, k ∈ S ∧ Reaches defs S) ∧ ProgOKModule cval defs ops

theorem progOK_of_module {cval : Cell → Ty} : ∀ (ops : List Op) (defs : List (Name × Decl)), AllBound defs →
    ProgOKModule cval defs ops → ProgOK cval defs ops := by
  intro ops
  induction ops with
  | nil => intro _ _ _; trivial
  | cons op ops ih =>
    intro defs hb h
    cases op with
    | defn k d =>
      simp only [ProgOKModule] at h
      simp only [ProgOK]
      refine ⟨h.1, ih _ ?_ h.2.2⟩
      intro p hp
      rcases List.mem_cons.mp hp with hp | hp
      · subst hp; exact h.2.1
      · exact hb p hp
    | use k kvs =>
      simp only [ProgOKModule] at h
      simp only [ProgOK]
      obtain ⟨⟨S, hk, hr⟩, hrest⟩ := h
      exact ⟨⟨S, hk, hr, localSibling_false_of_allBound hb hr⟩, ih _ hb hrest⟩

/-- **C17, full strength, for programs whose declarations are bound at module level** (plain
classes, `@utype.dataclass` classes, parsed functions, classes made inside a factory function and
bound to their name — i.e. local classes with `force_clear`): no defect hypothesis.  Whatever the
spelling of each reference (bare, quoted inside any generic, whole string / postponed annotations,
several ForwardRef objects of one name, objects shared between declarations), whatever the definition
order and the order of uses, each use that reaches only existing declarations returns what the
directly written declarations return — from the first call on. -/
theorem C17_resolved_eq_direct (cval : Cell → Ty) (leaf : Val → Option Val) (chk : Nat → Val → Bool) (fuel : Nat) (ops : List Op)
    (h : ProgOKModule cval [] ops) :
    run Cfg.fixed leaf chk fuel State.init ops = specRun leaf chk fuel [] ops :=
  C17_resolved_eq_direct_partial cval leaf chk fuel ops
    (progOK_of_module ops [] (by intro p hp; simp at hp) h)

/-! ### per use: whatever happened before — including uses that failed because a class did not exist yet -/

def defsOf : List Op → List (Name × Decl)
  | [] => []
  | .defn k d :: ops => defsOf ops ++ [(k, d)]
  | .use _ _ :: ops => defsOf ops

/-- only the declarations have to be consistent; nothing is asked of the uses of the history -/
def DeclsOK (cval : Cell → Ty) : List Op → Prop
  | [] => True
  | .defn _ d :: ops => DeclOK cval d ∧ DeclsOK cval ops
  | .use _ _ :: ops => DeclsOK cval ops

/-- the state a history leaves behind -/
def stateAfter (leaf : Val → Option Val) (chk : Nat → Val → Bool) (fuel : Nat) : State → List Op → State
  | s, [] => s
  | s, .defn k d :: ops => stateAfter leaf chk fuel (define Cfg.fixed s k d) ops
  | s, .use k kvs :: ops => stateAfter leaf chk fuel (useTop Cfg.fixed leaf chk fuel s k kvs).1 ops

theorem run_append_use (leaf : Val → Option Val) (chk : Nat → Val → Bool) (fuel : Nat) (k : Name) (kvs : List (Nat × Val)) :
    ∀ (pre : List Op) (s : State),
    run Cfg.fixed leaf chk fuel s (pre ++ [.use k kvs]) =
      run Cfg.fixed leaf chk fuel s pre ++ [(useTop Cfg.fixed leaf chk fuel (stateAfter leaf chk fuel s pre) k kvs).2] := by
  intro pre
  induction pre with
  | nil => intro s; simp [run, stateAfter]
  | cons op pre ih =>
    intro s
    cases op with
    | defn k' d => simp [run, stateAfter, ih]
    | use k' kvs' => simp [run, stateAfter, ih]

theorem stateAfter_inv {cval : Cell → Ty} (leaf : Val → Option Val) (chk : Nat → Val → Bool) (fuel : Nat) :
    ∀ (pre : List Op) (s : State) (defs : List (Name × Decl)), Inv cval s defs → DeclsOK cval pre →
    Inv cval (stateAfter leaf chk fuel s pre) (defsOf pre ++ defs) := by
  intro pre
  induction pre with
  | nil => intro s defs h _; simpa [stateAfter, defsOf] using h
  | cons op pre ih =>
    intro s defs h hd
    cases op with
    | defn k d =>
      simp only [DeclsOK] at hd
      simp only [stateAfter, defsOf, List.append_assoc, List.singleton_append]
      exact ih _ _ (define_inv h k d hd.1) hd.2
    | use k kvs =>
      simp only [DeclsOK] at hd
      simp only [stateAfter, defsOf]
      exact ih _ _ (useTop_inv leaf chk fuel h k kvs) hd

/-- **C17, per use (partial: outside finding `local-sibling-ref`).**  After ANY history of consistent
declarations and uses — also uses that aborted with NameError or failed because a class they reach did not
exist yet — a use that reaches only existing declarations returns exactly what the directly written
declarations return.  Nothing is assumed about the earlier uses. -/
theorem C17_use_eq_direct_partial (cval : Cell → Ty) (leaf : Val → Option Val) (chk : Nat → Val → Bool) (fuel : Nat)
    (pre : List Op) (k : Name) (kvs : List (Nat × Val)) (hd : DeclsOK cval pre)
    (S : List Name) (hk : k ∈ S) (hr : Reaches (defsOf pre) S) (hdef : KnownDefect.localSibling (defsOf pre) S = false) :
    (run Cfg.fixed leaf chk fuel State.init (pre ++ [.use k kvs])).getLast? =
      some (specParse leaf chk (envOf (defsOf pre)) fuel (.data k) (.dict kvs)) := by
  rw [run_append_use]
  have hinv := stateAfter_inv leaf chk fuel pre State.init [] (inv_init cval) hd
  simp only [List.append_nil] at hinv
  have := (useTop_spec leaf chk fuel hinv hk (closed_of_reaches hr hdef) kvs).1
  simp [this]

/-- **C17, per use, full strength for module-level declarations**: no defect hypothesis. -/
theorem C17_use_eq_direct (cval : Cell → Ty) (leaf : Val → Option Val) (chk : Nat → Val → Bool) (fuel : Nat)
    (pre : List Op) (k : Name) (kvs : List (Nat × Val)) (hd : DeclsOK cval pre) (hb : AllBound (defsOf pre))
    (S : List Name) (hk : k ∈ S) (hr : Reaches (defsOf pre) S) :
    (run Cfg.fixed leaf chk fuel State.init (pre ++ [.use k kvs])).getLast? =
      some (specParse leaf chk (envOf (defsOf pre)) fuel (.data k) (.dict kvs)) :=
  C17_use_eq_direct_partial cval leaf chk fuel pre k kvs hd S hk hr (localSibling_false_of_allBound hb hr)

/-! ### history independence: earlier uses (first-use order) cannot be observed -/

theorem specRun_append (leaf : Val → Option Val) (chk : Nat → Val → Bool) (fuel : Nat) : ∀ (ops₁ ops₂ : List Op) (defs : List (Name × Decl)),
    specRun leaf chk fuel defs (ops₁ ++ ops₂) = specRun leaf chk fuel defs ops₁ ++ specRun leaf chk fuel (defsOf ops₁ ++ defs) ops₂ := by
  intro ops₁
  induction ops₁ with
  | nil => intro ops₂ defs; simp [specRun, defsOf]
  | cons op ops ih =>
    intro ops₂ defs
    cases op with
    | defn k d => simp [specRun, defsOf, ih, List.append_assoc]
    | use k kvs => simp [specRun, defsOf, ih]

/-- Two histories that make the same declarations in the same order but use them differently before —
other uses, another first-use order, no uses at all, uses that failed because a class did not exist
yet — answer a final use (one that reaches only existing declarations) identically.  Nothing is
assumed about the earlier uses. -/
theorem C17_first_use_order_irrelevant (cval : Cell → Ty) (leaf : Val → Option Val) (chk : Nat → Val → Bool) (fuel : Nat)
    (ops₁ ops₂ : List Op) (k : Name) (kvs : List (Nat × Val))
    (h₁ : DeclsOK cval ops₁) (h₂ : DeclsOK cval ops₂) (hd : defsOf ops₁ = defsOf ops₂)
    (S : List Name) (hk : k ∈ S) (hr : Reaches (defsOf ops₁) S) (hdef : KnownDefect.localSibling (defsOf ops₁) S = false) :
    (run Cfg.fixed leaf chk fuel State.init (ops₁ ++ [.use k kvs])).getLast? =
    (run Cfg.fixed leaf chk fuel State.init (ops₂ ++ [.use k kvs])).getLast? := by
  rw [C17_use_eq_direct_partial cval leaf chk fuel ops₁ k kvs h₁ S hk hr hdef,
      C17_use_eq_direct_partial cval leaf chk fuel ops₂ k kvs h₂ S hk (hd ▸ hr) (hd ▸ hdef), hd]

/-! ### definition order cannot be observed -/

theorem lookupD_perm (k : Name) {l₁ l₂ : List (Name × Decl)} (hp : l₁.Perm l₂) :
    (l₁.map (·.1)).Nodup → lookupD k l₁ = lookupD k l₂ := by
  induction hp with
  | nil => intro _; rfl
  | cons x _ ih =>
    intro hn
    simp only [List.map_cons, List.nodup_cons] at hn
    rcases x with ⟨k', d'⟩
    simp only [lookupD, ih hn.2]
  | swap x y l =>
    intro hn
    rcases x with ⟨kx, dx⟩
    rcases y with ⟨ky, dy⟩
    simp only [List.map_cons, List.nodup_cons, List.mem_cons, not_or] at hn
    simp only [lookupD]
    by_cases hx : (kx == k) = true <;> by_cases hy : (ky == k) = true
    · exfalso
      have h1 : kx = k := by simpa using hx
      have h2 : ky = k := by simpa using hy
      exact hn.1.1 (by rw [h1, h2])
    · simp [hx, hy]
    · simp [hx, hy]
    · simp [hx, hy]
  | trans h₁ _ ih₁ ih₂ =>
    intro hn
    rw [ih₁ hn, ih₂ ((h₁.map _).nodup_iff.mp hn)]

/-- Two histories that make the same declarations (distinct names) in a different order — whatever
uses happened in between — answer a final use that reaches only existing declarations identically. -/
theorem C17_definition_order_irrelevant (cval : Cell → Ty) (leaf : Val → Option Val) (chk : Nat → Val → Bool) (fuel : Nat)
    (ops₁ ops₂ : List Op) (k : Name) (kvs : List (Nat × Val))
    (h₁ : DeclsOK cval ops₁) (h₂ : DeclsOK cval ops₂)
    (hperm : (defsOf ops₁).Perm (defsOf ops₂)) (hnd : ((defsOf ops₁).map (·.1)).Nodup)
    (S : List Name) (hk : k ∈ S)
    (hr₁ : Reaches (defsOf ops₁) S) (hdef₁ : KnownDefect.localSibling (defsOf ops₁) S = false)
    (hr₂ : Reaches (defsOf ops₂) S) (hdef₂ : KnownDefect.localSibling (defsOf ops₂) S = false) :
    (run Cfg.fixed leaf chk fuel State.init (ops₁ ++ [.use k kvs])).getLast? =
    (run Cfg.fixed leaf chk fuel State.init (ops₂ ++ [.use k kvs])).getLast? := by
  rw [C17_use_eq_direct_partial cval leaf chk fuel ops₁ k kvs h₁ S hk hr₁ hdef₁,
      C17_use_eq_direct_partial cval leaf chk fuel ops₂ k kvs h₂ S hk hr₂ hdef₂]
  have hdf : ∀ (n : Nat) (k' : Name), directFieldsF n (defsOf ops₁) k' = directFieldsF n (defsOf ops₂) k' := by
    intro n
    induction n with
    | zero => intro k'; simp only [directFieldsF, lookupD_perm k' hperm hnd]
    | succ n ih =>
      intro k'
      simp only [directFieldsF, lookupD_perm k' hperm hnd]
      cases lookupD k' (defsOf ops₂) with
      | none => rfl
      | some d => simp only [flatMap_congr' (fun b _ => ih b)]
  have : envOf (defsOf ops₁) = envOf (defsOf ops₂) := by
    funext k'
    simp only [envOf, lookupD_perm k' hperm hnd, hdf, hperm.length_eq]
  rw [this]

/-! ### the property in its own words: same as the declaration written with direct references -/

mutual
def Ann.toDirect : Ann → Ann
  | .quoted _ n => .name n
  | .list a => .list a.toDirect
  | .dict a => .dict a.toDirect
  | .con k a => .con k a.toDirect
  | .tuple as => .tuple (toDirectL as)
  | .union as => .union (toDirectL as)
  | a => a
def toDirectL : List Ann → List Ann
  | [] => []
  | a :: as => a.toDirect :: toDirectL as
end

def FieldAnn.toDirect : FieldAnn → FieldAnn
  | .plain a => .plain a.toDirect
  | .str _ e => .plain e.toDirect

def Decl.toDirect (d : Decl) : Decl := { d with fields := d.fields.map fun p => (p.1, p.2.toDirect) }

/-- the program with every reference written as a bare name (idealised: Python itself would reject a
bare name that is not defined yet — which is exactly why the string spellings exist) -/
def Op.toDirect : Op → Op
  | .defn k d => .defn k d.toDirect
  | .use k kvs => .use k kvs

mutual
theorem direct_toDirect (a : Ann) : direct a.toDirect = direct a := by
  cases a <;> simp [Ann.toDirect, direct, direct_toDirect, directL_toDirect]
theorem directL_toDirect (as : List Ann) : directL (toDirectL as) = directL as := by
  cases as <;> simp [toDirectL, directL, direct_toDirect, directL_toDirect]
end

mutual
theorem names_toDirect (a : Ann) : names a.toDirect = names a := by
  cases a <;> simp [Ann.toDirect, names, names_toDirect, namesL_toDirect]
theorem namesL_toDirect (as : List Ann) : namesL (toDirectL as) = namesL as := by
  cases as <;> simp [toDirectL, namesL, names_toDirect, namesL_toDirect]
end

mutual
theorem quotedOf_toDirect (a : Ann) : quotedOf a.toDirect = [] := by
  cases a <;> simp [Ann.toDirect, quotedOf, quotedOf_toDirect, quotedOfL_toDirect]
theorem quotedOfL_toDirect (as : List Ann) : quotedOfL (toDirectL as) = [] := by
  cases as <;> simp [toDirectL, quotedOfL, quotedOf_toDirect, quotedOfL_toDirect]
end

mutual
theorem annOK_toDirect (cval : Cell → Ty) (a : Ann) : AnnOK cval a.toDirect := by
  cases a <;> simp [Ann.toDirect, AnnOK, annOK_toDirect, annsOK_toDirect]
theorem annsOK_toDirect (cval : Cell → Ty) (as : List Ann) : AnnsOK cval (toDirectL as) := by
  cases as <;> simp [toDirectL, AnnsOK, annOK_toDirect, annsOK_toDirect]
end

theorem fieldAnn_direct_toDirect (fa : FieldAnn) : fa.toDirect.direct = fa.direct := by
  cases fa <;> simp [FieldAnn.toDirect, FieldAnn.direct, direct_toDirect]

theorem fieldAnn_allNames_toDirect (fa : FieldAnn) : fa.toDirect.allNames = fa.allNames := by
  cases fa <;> simp [FieldAnn.toDirect, FieldAnn.allNames, names_toDirect]

theorem fieldAnn_strNames_toDirect (fa : FieldAnn) : fa.toDirect.strNames = [] := by
  cases fa <;> simp [FieldAnn.toDirect, FieldAnn.strNames, quotedOf_toDirect]

def dirDefs (defs : List (Name × Decl)) : List (Name × Decl) := defs.map fun p => (p.1, p.2.toDirect)

theorem lookupD_dirDefs (k : Name) : ∀ defs : List (Name × Decl),
    lookupD k (dirDefs defs) = (lookupD k defs).map Decl.toDirect
  | [] => rfl
  | (k', d) :: rest => by
    simp only [dirDefs, List.map_cons, lookupD]
    split
    · rfl
    · exact lookupD_dirDefs k rest

theorem fields_direct_toDirect (d : Decl) :
    d.toDirect.fields.map (fun p => (p.1, p.2.direct)) = d.fields.map (fun p => (p.1, p.2.direct)) := by
  simp [Decl.toDirect, List.map_map, Function.comp_def, fieldAnn_direct_toDirect]

theorem directFieldsF_dirDefs (defs : List (Name × Decl)) : ∀ (n : Nat) (k : Name),
    directFieldsF n (dirDefs defs) k = directFieldsF n defs k := by
  intro n
  induction n with
  | zero =>
    intro k
    simp only [directFieldsF, lookupD_dirDefs]
    cases lookupD k defs with
    | none => rfl
    | some d => simp [fields_direct_toDirect]
  | succ n ih =>
    intro k
    simp only [directFieldsF, lookupD_dirDefs]
    cases lookupD k defs with
    | none => rfl
    | some d =>
      have hb : d.toDirect.bases = d.bases := rfl
      simp only [Option.map_some, hb, fields_direct_toDirect, flatMap_congr' (fun b _ => ih b)]

theorem envOf_dirDefs (defs : List (Name × Decl)) : envOf (dirDefs defs) = envOf defs := by
  funext k
  simp only [envOf, lookupD_dirDefs]
  cases lookupD k defs with
  | none => rfl
  | some d =>
    have hlen : (dirDefs defs).length = defs.length := by simp [dirDefs]
    have hrule : d.toDirect.rule = d.rule := rfl
    simp [hlen, directFieldsF_dirDefs, hrule]

theorem specRun_toDirect (leaf : Val → Option Val) (chk : Nat → Val → Bool) (fuel : Nat) : ∀ (ops : List Op) (defs : List (Name × Decl)),
    specRun leaf chk fuel (dirDefs defs) (ops.map Op.toDirect) = specRun leaf chk fuel defs ops := by
  intro ops
  induction ops with
  | nil => intro _; rfl
  | cons op ops ih =>
    intro defs
    cases op with
    | defn k d =>
      simp only [List.map_cons, Op.toDirect, specRun]
      exact ih ((k, d) :: defs)
    | use k kvs =>
      simp only [List.map_cons, Op.toDirect, specRun, envOf_dirDefs, ih defs]

theorem decl_allNames_toDirect (d : Decl) : d.toDirect.allNames = d.allNames := by
  simp [Decl.allNames, Decl.toDirect, List.flatMap_map, fieldAnn_allNames_toDirect]

theorem decl_strNames_toDirect (d : Decl) : d.toDirect.strNames = [] := by
  simp [Decl.strNames, Decl.toDirect, List.flatMap_map, fieldAnn_strNames_toDirect]

theorem declOK_toDirect (cval : Cell → Ty) (d : Decl) : DeclOK cval d.toDirect := by
  refine ⟨?_, ?_, ?_⟩
  · intro fa hfa
    simp only [Decl.toDirect, List.mem_map] at hfa
    obtain ⟨fb, _, rfl⟩ := hfa
    rcases fb with ⟨f, fb⟩
    cases fb <;> exact annOK_toDirect cval _
  · intro fa hfa fb _ c hc
    simp only [Decl.toDirect, List.mem_map] at hfa
    obtain ⟨fa', _, rfl⟩ := hfa
    rcases fa' with ⟨f, fa'⟩
    cases fa' <;> simp [FieldAnn.toDirect, FieldAnn.strCell] at hc
  · have : (d.toDirect.fields.flatMap (·.2.strCell)) = [] := by
      simp only [Decl.toDirect, List.flatMap_map, List.flatMap_eq_nil_iff]
      intro fa _
      rcases fa with ⟨f, fa⟩
      cases fa <;> simp [FieldAnn.toDirect, FieldAnn.strCell]
    rw [this]; exact List.nodup_nil

theorem progOK_toDirect (cval : Cell → Ty) : ∀ (ops : List Op) (defs : List (Name × Decl)),
    ProgOK cval defs ops → ProgOK cval (dirDefs defs) (ops.map Op.toDirect) := by
  intro ops
  induction ops with
  | nil => intro _ _; trivial
  | cons op ops ih =>
    intro defs h
    cases op with
    | defn k d =>
      simp only [ProgOK] at h
      simp only [List.map_cons, Op.toDirect, ProgOK]
      exact ⟨declOK_toDirect cval d, ih ((k, d) :: defs) h.2⟩
    | use k kvs =>
      simp only [ProgOK] at h
      obtain ⟨⟨S, hk, hr, _⟩, hrest⟩ := h
      simp only [List.map_cons, Op.toDirect, ProgOK]
      refine ⟨⟨S, hk, ?_, ?_⟩, ih defs hrest⟩
      · intro k' hk'
        obtain ⟨d, hl, hall, hbase⟩ := hr k' hk'
        exact ⟨d.toDirect, by simp [lookupD_dirDefs, hl], by simpa [decl_allNames_toDirect] using hall, hbase⟩
      · simp only [KnownDefect.localSibling, List.any_eq_false]
        intro k' _
        simp only [lookupD_dirDefs]
        cases lookupD k' defs with
        | none => simp
        | some d => simp [decl_strNames_toDirect]

/-- A program and the *idealised* program with every reference written as a bare name behave identically,
use by use.  The right-hand side is a program of the model only: `mkTy (.name n) = .data n` does not
ask whether `n` is bound yet, whereas Python rejects a bare name that precedes its definition (which is
why the string spellings exist).  It restates `C17_resolved_eq_direct_partial` through the spec and is
not a headline result; the version whose right-hand side is a Python program follows. -/
theorem C17_same_as_idealised_direct_spelling (cval : Cell → Ty) (leaf : Val → Option Val) (chk : Nat → Val → Bool) (fuel : Nat) (ops : List Op)
    (h : ProgOK cval [] ops) :
    run Cfg.fixed leaf chk fuel State.init ops = run Cfg.fixed leaf chk fuel State.init (ops.map Op.toDirect) := by
  rw [C17_resolved_eq_direct_partial cval leaf chk fuel ops h,
      C17_resolved_eq_direct_partial cval leaf chk fuel _ (progOK_toDirect cval ops [] h)]
  exact (specRun_toDirect leaf chk fuel ops []).symm

/-- every bare name of a declaration is bound when the declaration is made (so Python accepts it) -/
def BareNamesBound : List (Name × Decl) → List Op → Prop
  | _, [] => True
  | defs, .defn k d :: ops =>
      (∀ fa ∈ d.fields, ∀ n ∈ fa.2.toDirect.allNames, ∃ d', lookupD n defs = some d') ∧
      BareNamesBound ((k, d) :: defs) ops
  | defs, .use _ _ :: ops => BareNamesBound defs ops

/-- **C17 in the words of the property**, for programs whose directly written counterpart is itself a
Python program (every class is declared after the classes it names; no self or mutual reference): the
program and its direct spelling behave identically on every input, use by use. -/
theorem C17_same_as_direct_spelling (cval : Cell → Ty) (leaf : Val → Option Val) (chk : Nat → Val → Bool) (fuel : Nat)
    (ops : List Op) (h : ProgOK cval [] ops) (_hrun : BareNamesBound [] (ops.map Op.toDirect)) :
    run Cfg.fixed leaf chk fuel State.init ops = run Cfg.fixed leaf chk fuel State.init (ops.map Op.toDirect) :=
  C17_same_as_idealised_direct_spelling cval leaf chk fuel ops h

/-! ### negation witnesses (replayed on the real code by the harness: findings.d/C17.json, corpus)
and non-vacuity of every hypothesis -/

def leaf0 : Val → Option Val
  | .int i => some (.int i)
  | _ => none

/-- constraint 3 = "at most 3" on ints, 4 = "at most one element" on lists; everything else holds -/
def chk0 (c : Nat) (v : Val) : Bool :=
  match c, v with
  | 3, .int i => i ≤ 3
  | 4, .list xs => xs.length ≤ 1
  | _, _ => true

theorem declOK_plainInt' (cval : Cell → Ty) (f : Nat) (d : Decl) (hf : d.fields = [(f, .plain .int)]) :
    DeclOK cval d := by
  refine ⟨?_, ?_, ?_⟩
  · intro fa hfa
    rw [hf] at hfa
    simp only [List.mem_cons, List.mem_nil_iff, or_false] at hfa
    subst hfa; simp [FieldAnnOK, AnnOK]
  · intro fa hfa fb _ c hc
    rw [hf] at hfa
    simp only [List.mem_cons, List.mem_nil_iff, or_false] at hfa
    subst hfa; simp [FieldAnn.strCell] at hc
  · rw [hf]; simp [FieldAnn.strCell]

theorem declOK_plainInt (cval : Cell → Ty) (f : Nat) (bs : List Name) :
    DeclOK cval { fields := [(f, .plain .int)], bases := bs } :=
  declOK_plainInt' cval f _ rfl

def Outcome.kind : Outcome → Nat
  | .ok _ => 0
  | .perr => 1
  | .nameErr => 2
  | .fuel => 3

/-- class B (name 1): `x: int` -/
def declB : Decl := { fields := [(50, .plain .int)] }

/-- class A (name 0): `f0: List['B']`, `f1: Dict[str, 'B']` — two ForwardRef objects (cells 1, 2) of one name -/
def declA2 : Decl := { fields := [(0, .plain (.list (.quoted 1 1))), (1, .plain (.dict (.quoted 2 1)))] }

/-- A is declared before B; the second annotation of A is used -/
def progMulti : List Op :=
  [.defn 0 declA2, .defn 1 declB, .use 0 [(1, .dict [(60, .dict [(50, .int 5)])])]]

/-- Before fixes/C17-multiuse.patch: `setdefault` keeps only the first ForwardRef object of the name,
the second annotation fails although the directly written declaration parses. -/
theorem C17_legacy_multiuse_witness :
    (run Cfg.legacy leaf0 chk0 10 State.init progMulti).map Outcome.kind = [1] ∧
    (specRun leaf0 chk0 10 [] progMulti).map Outcome.kind = [0] := by decide

/-- a class made inside a factory function (`<locals>` in its qualname, bound to its name):
`f0: Optional['B']`, B declared later at module level -/
def declAopt : Decl := { fields := [(0, .plain (.union [.quoted 1 1, .none]))], isLocal := true }

def progUnion : List Op :=
  [.defn 0 declAopt, .defn 1 declB, .use 0 [(0, .dict [(50, .int 5)])]]

/-- Before fixes/C17-union-resolve.patch (keys already unique): the Optional member is never replaced
and the local class un-evaluates the ForwardRef object after resolving it. -/
theorem C17_legacy_union_witness :
    (run ⟨true, false, true, true⟩ leaf0 chk0 10 State.init progUnion).map Outcome.kind = [1] ∧
    (specRun leaf0 chk0 10 [] progUnion).map Outcome.kind = [0] := by decide

/-- class A (name 0): `f0: 'B'`;  class C (name 2) inherits from A;  B is declared last -/
def progInherit : List Op :=
  [.defn 0 { fields := [(0, .str 7 (.name 1))] },
   .defn 2 { fields := [(2, .plain .int)], bases := [0] },
   .defn 1 declB,
   .use 2 [(0, .dict [(50, .int 5)])]]

/-- Before fixes/C17-inherited-refs.patch: the subclass, used before its base was ever parsed, still
holds the base's unevaluated ForwardRef. -/
theorem C17_legacy_inherited_witness :
    (run ⟨true, true, false, true⟩ leaf0 chk0 10 State.init progInherit).map Outcome.kind = [1] ∧
    (specRun leaf0 chk0 10 [] progInherit).map Outcome.kind = [0] := by decide

/-- three levels: Document (0) names 'Person' (3); Article(Document) (1) and BlogPost(Article) (2) add
plain fields only; Person is declared last and the most derived class is the first one used -/
def progChain : List Op :=
  [.defn 0 { fields := [(0, .str 7 (.name 3)), (1, .plain (.list (.quoted 1 3)))] },
   .defn 1 { fields := [(2, .plain .int)], bases := [0] },
   .defn 2 { fields := [(3, .plain .int)], bases := [1] },
   .defn 3 declB,
   .use 2 [(0, .dict [(50, .int 5)]), (1, .list [.dict [(50, .int 6)]]), (3, .int 1)]]

/-- a diamond: D(B, C), B(A), C(A); A names 'E' declared last; D is used first -/
def progDiamond : List Op :=
  [.defn 0 { fields := [(0, .plain (.union [.quoted 1 4, .none]))] },
   .defn 1 { fields := [(1, .plain .int)], bases := [0] },
   .defn 2 { fields := [(2, .str 8 (.list (.name 4)))], bases := [0] },
   .defn 3 { fields := [(3, .plain .int)], bases := [1, 2] },
   .defn 4 declB,
   .use 3 [(0, .dict [(50, .int 5)]), (2, .list [.dict [(50, .int 6)]])]]

/-- Before fixes/C17-inherited-refs.patch a chain of any length fails at its far end … -/
theorem C17_legacy_chain_witness :
    (run ⟨true, true, false, true⟩ leaf0 chk0 10 State.init progChain).map Outcome.kind = [1] ∧
    (specRun leaf0 chk0 10 [] progChain).map Outcome.kind = [0] := by decide

/-- … with the fix the whole family resolves from the first call on the most derived class -/
example : (run Cfg.fixed leaf0 chk0 10 State.init progChain).map Outcome.kind = [0] ∧
          (run Cfg.fixed leaf0 chk0 10 State.init progDiamond).map Outcome.kind = [0] ∧
          (specRun leaf0 chk0 10 [] progDiamond).map Outcome.kind = [0] := by decide

/-- two factory-local classes share the memoised `List['B']` ForwardRef (cell 1); A also names 'C' (2),
which is declared late: use A (NameError), use E (un-evaluates the shared object), declare C, use A -/
def declAab : Decl := { fields := [(0, .plain (.list (.quoted 1 1))), (1, .str 7 (.name 2))], isLocal := true }
def declEab : Decl := { fields := [(0, .plain (.list (.quoted 1 1)))], isLocal := true }
def histAbort : List Op :=
  [.defn 0 declAab, .defn 3 declEab, .defn 1 declB,
   .use 0 [(0, .list [.dict [(50, .int 5)]])],
   .use 3 [(0, .list [.dict [(50, .int 5)]])],
   .defn 2 declB]

/-- Before fixes/C17-abort-keeps-pending.patch: the aborted first use popped 'B' from A's registry without
rewriting A's fields; once E had un-evaluated the shared object, A could never parse `f0` again —
a permanent ParseError on a use that reaches only existing declarations (found by the review). -/
theorem C17_legacy_abort_witness :
    (run ⟨true, true, true, false⟩ leaf0 chk0 10 State.init (histAbort ++ [.use 0 [(0, .list [.dict [(50, .int 5)]])]])).map Outcome.kind
      = [2, 0, 1] ∧
    (run Cfg.fixed leaf0 chk0 10 State.init (histAbort ++ [.use 0 [(0, .list [.dict [(50, .int 5)]])]])).map Outcome.kind
      = [2, 0, 0] := by decide

/-- Non-vacuity of the per-use theorem on exactly that history: its hypotheses hold although the history
contains a use that aborted. -/
example : DeclsOK (fun c => if c == 7 then .data 2 else .data 1) histAbort ∧
    Reaches (defsOf histAbort) [0, 1, 2] ∧ KnownDefect.localSibling (defsOf histAbort) [0, 1, 2] = false := by
  refine ⟨⟨⟨?_, ?_, ?_⟩, ⟨?_, ?_, ?_⟩, declOK_plainInt _ 50 [], declOK_plainInt _ 50 [], trivial⟩, ?_, by decide⟩
  · intro fa hfa
    simp only [declAab, List.mem_cons, List.mem_nil_iff, or_false] at hfa
    rcases hfa with rfl | rfl <;> simp [FieldAnnOK, AnnOK, direct]
  · intro fa hfa fb hfb c hc
    simp only [declAab, List.mem_cons, List.mem_nil_iff, or_false] at hfa hfb
    rcases hfa with rfl | rfl
    · simp [FieldAnn.strCell] at hc
    · simp only [FieldAnn.strCell, List.mem_singleton] at hc
      subst hc
      rcases hfb with rfl | rfl <;> simp [FieldAnn.quotedCells, quotedOf]
  · simp [declAab, FieldAnn.strCell]
  · intro fa hfa
    simp only [declEab, List.mem_cons, List.mem_nil_iff, or_false] at hfa
    subst hfa; simp [FieldAnnOK, AnnOK]
  · intro fa hfa fb _ c hc
    simp only [declEab, List.mem_cons, List.mem_nil_iff, or_false] at hfa
    subst hfa; simp [FieldAnn.strCell] at hc
  · simp [declEab, FieldAnn.strCell]
  · intro k hk
    simp only [List.mem_cons, List.mem_nil_iff, or_false] at hk
    rcases hk with rfl | rfl | rfl
    · exact ⟨declAab, by simp [defsOf, histAbort, lookupD], by simp [Decl.allNames, declAab, FieldAnn.allNames, names], by simp [declAab]⟩
    · exact ⟨declB, by simp [defsOf, histAbort, lookupD], by simp [Decl.allNames, declB, FieldAnn.allNames, names], by simp [declB]⟩
    · exact ⟨declB, by simp [defsOf, histAbort, lookupD], by simp [Decl.allNames, declB, FieldAnn.allNames, names], by simp [declB]⟩

/-- both classes live only in a function scope; A names its sibling B through a string -/
def progLocal : List Op :=
  [.defn 1 { declB with isLocal := true, bound := false },
   .defn 0 { fields := [(0, .plain (.list (.quoted 1 1)))], isLocal := true, bound := false },
   .use 0 [(0, .list [.dict [(50, .int 5)]])]]

/-- Finding `local-sibling-ref` (current code): NameError at the first parse, although B exists and
the directly written declaration parses.  The full statement is false of the code … -/
theorem C17_local_sibling_witness :
    (run Cfg.fixed leaf0 chk0 10 State.init progLocal).map Outcome.kind = [2] ∧
    (specRun leaf0 chk0 10 [] progLocal).map Outcome.kind = [0] := by decide

/-- … and this program is exactly what the decidable hypothesis of the partial theorem excludes. -/
theorem C17_local_sibling_is_known_defect :
    KnownDefect.localSibling [(0, { fields := [(0, .plain (.list (.quoted 1 1)))], isLocal := true, bound := false }),
                              (1, { declB with isLocal := true, bound := false })] [0, 1] = true := by decide

/-- with the fixes the three programs that are not in function scope behave as written directly -/
example : (run Cfg.fixed leaf0 chk0 10 State.init progMulti).map Outcome.kind = [0] ∧
          (run Cfg.fixed leaf0 chk0 10 State.init progUnion).map Outcome.kind = [0] ∧
          (run Cfg.fixed leaf0 chk0 10 State.init progInherit).map Outcome.kind = [0] := by decide

/-- Non-vacuity: the hypotheses of `C17_resolved_eq_direct` (hence of the partial theorem) hold for a
program that exercises the lazy path — forward reference, two ForwardRef objects of one name. -/
example : ProgOKModule (fun _ => .data 1) [] progMulti := by
  refine ⟨⟨?_, ?_, ?_⟩, rfl, ⟨?_, ?_, ?_⟩, rfl, ⟨[0, 1], by simp, ?_⟩, trivial⟩
  · intro fa hfa
    simp only [declA2, List.mem_cons, List.mem_nil_iff, or_false] at hfa
    rcases hfa with rfl | rfl <;> simp [FieldAnnOK, AnnOK]
  · intro fa hfa fb _ c hc
    simp only [declA2, List.mem_cons, List.mem_nil_iff, or_false] at hfa
    rcases hfa with rfl | rfl <;> simp [FieldAnn.strCell] at hc
  · simp [declA2, FieldAnn.strCell]
  · intro fa hfa
    simp only [declB, List.mem_cons, List.mem_nil_iff, or_false] at hfa
    subst hfa; simp [FieldAnnOK, AnnOK]
  · intro fa hfa fb _ c hc
    simp only [declB, List.mem_cons, List.mem_nil_iff, or_false] at hfa
    subst hfa; simp [FieldAnn.strCell] at hc
  · simp [declB, FieldAnn.strCell]
  · intro k hk
    simp only [List.mem_cons, List.mem_nil_iff, or_false] at hk
    rcases hk with rfl | rfl
    · exact ⟨declA2, by simp [lookupD], by simp [Decl.allNames, declA2, FieldAnn.allNames, names], by simp [declA2]⟩
    · exact ⟨declB, by simp [lookupD], by simp [Decl.allNames, declB, FieldAnn.allNames, names], by simp [declB]⟩

/-- `class A: f0: 'Q' = Field(le=3); f1: List['Q'] = Field(max_length=1)`, then the constrained scalar type
`class Q(int, Rule)` (name 1) is declared; uses at and beyond the bounds -/
def progCon : List Op :=
  [.defn 0 { fields := [(0, .str 7 (.con 3 (.name 1))), (1, .plain (.con 4 (.list (.quoted 2 1))))] },
   .defn 1 { fields := [], rule := some 0 },
   .use 0 [(0, .int 3)], .use 0 [(0, .int 4)],
   .use 0 [(1, .list [.int 9])], .use 0 [(1, .list [.int 9, .int 9])]]

/-- the constraints declared with a forward reference survive its lazy resolution: same verdicts as
the directly written declaration, at the bound and beyond it -/
example : (run Cfg.fixed leaf0 chk0 10 State.init progCon).map Outcome.kind = [0, 1, 0, 1] ∧
          (specRun leaf0 chk0 10 [] progCon).map Outcome.kind = [0, 1, 0, 1] := by decide

def declDoc : Decl := { fields := [(0, .str 7 (.name 3)), (1, .plain (.list (.quoted 1 3)))] }
def declArt : Decl := { fields := [(2, .plain .int)], bases := [0] }
def declBlog : Decl := { fields := [(3, .plain .int)], bases := [1] }

/-- Non-vacuity with inheritance: the hypotheses hold for the three-level chain whose most derived
class is used first (the reachable set contains the whole chain and the referenced class). -/
example : ProgOKModule (fun _ => .data 3) []
    [.defn 0 declDoc, .defn 1 declArt, .defn 2 declBlog, .defn 3 declB,
     .use 2 [(0, .dict [(50, .int 5)]), (1, .list [.dict [(50, .int 6)]]), (3, .int 1)]] := by
  refine ⟨⟨?_, ?_, ?_⟩, rfl, declOK_plainInt _ 2 [0], rfl, declOK_plainInt _ 3 [1], rfl,
    declOK_plainInt _ 50 [], rfl, ⟨[0, 1, 2, 3], by simp, ?_⟩, trivial⟩
  · intro fa hfa
    simp only [declDoc, List.mem_cons, List.mem_nil_iff, or_false] at hfa
    rcases hfa with rfl | rfl <;> simp [FieldAnnOK, AnnOK, direct]
  · intro fa hfa fb hfb c hc
    simp only [declDoc, List.mem_cons, List.mem_nil_iff, or_false] at hfa hfb
    rcases hfa with rfl | rfl
    · simp only [FieldAnn.strCell, List.mem_singleton] at hc
      subst hc
      rcases hfb with rfl | rfl <;> simp [FieldAnn.quotedCells, quotedOf]
    · simp [FieldAnn.strCell] at hc
  · simp [declDoc, FieldAnn.strCell]
  · intro k hk
    simp only [List.mem_cons, List.mem_nil_iff, or_false] at hk
    rcases hk with rfl | rfl | rfl | rfl
    · exact ⟨declDoc, by simp [lookupD], by simp [Decl.allNames, declDoc, FieldAnn.allNames, names], by simp [declDoc]⟩
    · exact ⟨declArt, by simp [lookupD], by simp [Decl.allNames, declArt, FieldAnn.allNames, names], by simp [declArt]⟩
    · exact ⟨declBlog, by simp [lookupD], by simp [Decl.allNames, declBlog, FieldAnn.allNames, names], by simp [declBlog]⟩
    · exact ⟨declB, by simp [lookupD], by simp [Decl.allNames, declB, FieldAnn.allNames, names], by simp [declB]⟩

/-- a parsed function made inside another function (`isLocal`), declared before the class it names:
parameter `a: 'B'`, `-> List['B']`, `*args: 'B'`, `**kw: Optional['B']` (fields 0-3) -/
def progLocalFunc : List Op :=
  [.defn 100 { fields := [(0, .str 7 (.name 1)), (1, .plain (.list (.quoted 1 1))),
                          (2, .str 8 (.list (.name 1))), (3, .plain (.dict (.union [.quoted 2 1, .none])))],
               isLocal := true, isFunc := true },
   .defn 1 declB,
   .use 100 [(0, .dict [(50, .int 1)]), (1, .list [.dict [(50, .int 2)]]),
             (2, .list [.dict [(50, .int 3)], .dict []]), (3, .dict [(60, .none), (61, .dict [(50, .int 4)])])],
   .use 100 [(1, .list [.dict [(50, .int 2)]])]]

/-- every slot of the local function is resolved at the first call and stays resolved, although the
ForwardRef objects of a local parser are un-evaluated again (fixes/C17-local-func-slots.patch made the
code do what the model does: *args / return types are rewritten together with the fields) -/
example : (run Cfg.fixed leaf0 chk0 10 State.init progLocalFunc).map Outcome.kind = [0, 0] ∧
          (specRun leaf0 chk0 10 [] progLocalFunc).map Outcome.kind = [0, 0] := by decide

def declBf : Decl := { fields := [(50, .plain .int)], isLocal := true, bound := false }
def declAf : Decl := { fields := [(0, .plain (.list (.name 1))), (1, .plain (.union [.quoted 1 0, .none]))],
                       isLocal := true, bound := false }

/-- Non-vacuity of `ProgOK` where it adds to the module theorem: classes that live only in a function
scope (`bound := false`); A (0) names its sibling B (1) by a bare name and itself through a string — the
self-reference disjunct `d.isFunc = false ∧ n = k` of `Closed` is what makes the use admissible. -/
example : ProgOK (fun _ => .data 0) []
    [.defn 1 declBf, .defn 0 declAf, .use 0 [(1, .dict [(0, .list [.dict [(50, .int 5)]])])]] := by
  refine ⟨declOK_plainInt' _ 50 _ rfl, ⟨?_, ?_, ?_⟩, ⟨[0, 1], by simp, ?_, by decide⟩, trivial⟩
  · intro fa hfa
    simp only [declAf, List.mem_cons, List.mem_nil_iff, or_false] at hfa
    rcases hfa with rfl | rfl <;> simp [FieldAnnOK, AnnOK, AnnsOK]
  · intro fa hfa fb _ c hc
    simp only [declAf, List.mem_cons, List.mem_nil_iff, or_false] at hfa
    rcases hfa with rfl | rfl <;> simp [FieldAnn.strCell] at hc
  · simp [declAf, FieldAnn.strCell]
  · intro k hk
    simp only [List.mem_cons, List.mem_nil_iff, or_false] at hk
    rcases hk with rfl | rfl
    · exact ⟨declAf, by simp [lookupD], by simp [Decl.allNames, declAf, FieldAnn.allNames, names, namesL], by simp [declAf]⟩
    · exact ⟨declBf, by simp [lookupD], by simp [Decl.allNames, declBf, FieldAnn.allNames, names], by simp [declBf]⟩

/-- … and on that program the model (self reference resolved, sibling by bare name) agrees with the spec -/
example : (run Cfg.fixed leaf0 chk0 10 State.init
    [.defn 1 declBf, .defn 0 declAf, .use 0 [(1, .dict [(0, .list [.dict [(50, .int 5)]])])]]).map Outcome.kind = [0] := by
  decide

end Utv.C17
