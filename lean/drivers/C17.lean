import Utv.Model.C17
import Utv.Util.J
open Lean Utv.J Utv.C17

instance : Inhabited Ann := ⟨.int⟩
instance : Inhabited Val := ⟨.none⟩

partial def mkAnn (j : Json) : Ann :=
  match j with
  | .str "int" => .int
  | .str "none" => .none
  | _ =>
    match obj? j "name" with
    | some n => .name (nat! n)
    | none =>
    match obj? j "q" with
    | some q => (match arr! q with | [c, n] => .quoted (nat! c) (nat! n) | _ => .int)
    | none =>
    match obj? j "list" with
    | some a => .list (mkAnn a)
    | none =>
    match obj? j "dict" with
    | some a => .dict (mkAnn a)
    | none =>
    match obj? j "tuple" with
    | some as => .tuple ((arr! as).map mkAnn)
    | none =>
    match obj? j "union" with
    | some as => .union ((arr! as).map mkAnn)
    | none =>
    match obj? j "con" with
    | some c => (match arr! c with | [k, a] => .con (nat! k) (mkAnn a) | _ => .int)
    | none => .int

def mkFieldAnn (j : Json) : FieldAnn :=
  match obj? j "plain" with
  | some a => .plain (mkAnn a)
  | none => .str (nat! (fld j "str")) (mkAnn (fld j "e"))

partial def mkVal (j : Json) : Val :=
  match j with
  | .null => .none
  | .str s => .str s
  | .num _ => .int (int! j)
  | _ =>
    match obj? j "list" with
    | some xs => .list ((arr! xs).map mkVal)
    | none =>
    match obj? j "dict" with
    | some kvs => .dict ((arr! kvs).map fun p => match arr! p with
        | [k, v] => (nat! k, mkVal v) | _ => (0, .none))
    | none => .none

def kvsOf (j : Json) : List (Nat × Val) :=
  (arr! j).map fun p => match arr! p with
    | [k, v] => (nat! k, mkVal v) | _ => (0, .none)

def mkOp (j : Json) : Op :=
  match obj? j "use" with
  | some k => .use (nat! k) (kvsOf (fld j "kvs"))
  | none =>
    let fields := (arr! (fld j "fields")).map fun p => match arr! p with
      | [f, fa] => (nat! f, mkFieldAnn fa) | _ => (0, .plain .int)
    .defn (nat! (fld j "def")) { fields := fields, isLocal := bool! (fld j "local"),
                                 bound := bool! (fld j "bound"), isFunc := bool! (fld j "func"),
                                 bases := (arr! (fld j "bases")).map nat!, rule := optNat (fld j "rule") }

partial def outVal : Val → Json
  | .none => .null
  | .int i => Json.num i
  | .str s => .str s
  | .list xs => Json.mkObj [("list", Json.arr (xs.map outVal).toArray)]
  | .tup xs => Json.mkObj [("tup", Json.arr (xs.map outVal).toArray)]
  | .dict kvs => Json.mkObj [("dict", Json.arr (kvs.map fun (k, v) => Json.arr #[Json.num k, outVal v]).toArray)]
  | .inst k fs => Json.mkObj [("inst", Json.arr #[Json.num k,
      Json.arr (fs.map fun (f, v) => Json.arr #[Json.num f, outVal v]).toArray])]

def outO : Outcome → Json
  | .ok v => Json.mkObj [("ok", outVal v)]
  | .perr => .str "perr"
  | .nameErr => .str "name"
  | .fuel => .str "fuel"

/-- the concrete leaf converter of the correspondence run (`int`): ints pass, digit strings convert -/
def leafInt : Val → Option Val
  | .int i => some (.int i)
  | .str s => s.toInt?.map .int
  | .none => some (.int 0)
  | _ => none

def lenOf : Val → Option Nat
  | .list xs => some xs.length
  | .tup xs => some xs.length
  | .dict kvs => some kvs.length
  | _ => none

/-- the constraints of the correspondence run: id = kind * 1000 + bound,
kinds 0 le, 1 ge, 2 gt, 3 lt, 6 multiple_of (on ints), 4 max_length, 5 min_length (on containers) -/
def chkCon (c : Nat) (v : Val) : Bool :=
  let b := c % 1000
  match c / 1000, v with
  | 0, .int i => i ≤ b
  | 1, .int i => i ≥ b
  | 2, .int i => i > b
  | 3, .int i => i < b
  | 4, v => (match lenOf v with | some n => n ≤ b | none => false)
  | 5, v => (match lenOf v with | some n => n ≥ b | none => false)
  | 6, .int i => b != 0 && i % b == 0
  | _, _ => false

def handle (j : Json) : Json :=
  let cfg : Cfg := match obj? j "cfg" with
    | some c => ⟨bool! (fld c "uniqueKeys"), bool! (fld c "resolveUnion"), bool! (fld c "inheritRefs"), bool! (fld c "abortKeeps")⟩
    | none => Cfg.fixed
  let fuel := match optNat (fld j "fuel") with | some n => n | none => 60
  let ops := (arr! (fld j "ops")).map mkOp
  let m := run cfg leafInt chkCon fuel State.init ops
  let sp := specRun leafInt chkCon fuel [] ops
  Json.mkObj [("model", Json.arr (m.map outO).toArray), ("spec", Json.arr (sp.map outO).toArray)]

def main : IO Unit := serve handle
