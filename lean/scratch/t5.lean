import Utv.Lemmas.C20
namespace Utv.C20

theorem Resolved.mono {W : World} {g g' : G} (R : Resolved W g) (h : ∀ i ∈ g'.pending, i ∈ g.pending) :
    Resolved W g' := fun i hi => R i (h i hi)

theorem tinv_frame {W : World} {prog : Nat → List Call} {g g' : G} {j : Nat} {h : Th}
    (T : TInv W prog g j h) (hlock : h.pc.inCS = true ↔ g'.lock = some j)
    (hsame : h.pc.inCS = true → g' = g) (hpend : ∀ i ∈ g'.pending, i ∈ g.pending) : TInv W prog g' j h := by
  refine { alive := T.alive, wrongF := T.wrongF, hist := T.hist, callNe := T.callNe, finE := T.finE,
           lockI := hlock, hinv := ?_, pinv := ?_ }
  · by_cases hcs : h.pc.inCS = true
    · rw [hsame hcs]; exact T.hinv
    · have H := T.hinv
      cases hpc : h.pc <;> simp only [HInv, hpc, PC.inCS] at hcs H ⊢ <;> first | exact H | exact absurd rfl hcs | trivial
  · have P := T.pinv
    cases hpc : h.pc <;> simp only [PInv, hpc] at P ⊢ <;> first
      | trivial
      | exact P
      | exact P.mono hpend
      | exact ⟨P.1.mono hpend, P.2⟩

theorem inv_step {W : World} {prog : Nat → List Call} {s : Sys} (k : Nat) (I : Inv W prog s) :
    Inv W prog (s.step W false k) := by
  have OK := step_thread I.ginv (I.tinv k)
  refine ⟨OK.ginv, ?_⟩
  intro j
  by_cases hj : j = k
  · subst hj
    simpa [Sys.step] using OK.tinv
  · have Tj := I.tinv j
    simp only [Sys.step, hj, if_false]
    rcases OK.frame with h | ⟨h1, h2⟩
    · exact tinv_frame Tj (by rw [h]; exact Tj.lockI) (fun _ => h) OK.pend
    · have hncs : (s.th j).pc.inCS = false := by
        cases hc : (s.th j).pc.inCS with
        | false => rfl
        | true =>
          have := Tj.lockI.mp hc
          rcases h1 with h1 | h1 <;> rw [h1] at this <;> simp at this
          exact absurd this.symm hj
      refine tinv_frame Tj ?_ (by simp [hncs]) OK.pend
      simp only [hncs, Bool.false_eq_true, false_iff]
      intro h
      rcases h2 with h2 | h2 <;> rw [h2] at h <;> simp at h
      exact hj h.symm

theorem inv_init (W : World) (prog : Nat → List Call) : Inv W prog (init W prog) := by
  refine ⟨?_, ?_⟩
  · refine { nodup := ?_, isRef := ?_, undef := ?_, done := ?_, plain := ?_, noJunk := ?_, free := ?_ }
    · exact List.nodup_range.sublist List.filter_sublist
    · intro i hi
      simp only [init, G.init, List.mem_filter, List.mem_range] at hi
      simp [World.ref, hi.1, hi.2]
    · intro i hr hd
      simp only [World.ref, Bool.and_eq_true, decide_eq_true_eq] at hr
      simp [init, G.init, World.ref, hr.1, hr.2]
    · intro i hr hd hnp
      simp only [World.ref, Bool.and_eq_true, decide_eq_true_eq] at hr
      simp [init, G.init, hr.1, hr.2] at hnp
    · intro i hr; simp [init, G.init, hr]
    · intro i; simp only [init, G.init]; split <;> simp
    · intro _ i hi
      simp only [init, G.init, List.mem_filter, List.mem_range] at hi
      simp [init, G.init, World.ref, hi.1, hi.2]
  · intro k
    exact { alive := rfl, wrongF := rfl, hist := by simp [init], callNe := by simp [init], finE := by simp [init],
            lockI := by simp [init, G.init, PC.inCS], hinv := trivial, pinv := trivial }

theorem inv_run {W : World} {prog : Nat → List Call} (sched : List Nat) :
    ∀ {s : Sys}, Inv W prog s → Inv W prog (run W false s sched) := by
  induction sched with
  | nil => intro s I; exact I
  | cons k ks ih => intro s I; exact ih (inv_step k I)

theorem inv_reachable (W : World) (prog : Nat → List Call) (sched : List Nat) :
    Inv W prog (run W false (init W prog) sched) := inv_run sched (inv_init W prog)

end Utv.C20
