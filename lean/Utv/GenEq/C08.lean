import Utv.GenEq.Support
import Utv.Gen.Options
import Utv.Model.C08
/-!
C08 — T1 obligation: `Opts.userAddition` (what the decorator's `Options(addition=…, no_data_loss=…)` stores as
`addition`) is what the regenerated `Options.__init__` does.
-/
namespace Utv.GenEq.C08
open Utv.Obj Utv.C08 Utv.Gen

abbrev U := OVal Unit

def kwAddition : Option Bool → List (String × U)
  | none => []
  | some b => [("addition", .bool b)]

/-- `none` = nothing is stored (the argument stays `unprovided`) -/
def encStored : Option Bool → U
  | none => .unprovided
  | some b => .bool b

theorem C08_gen_options_init (W : World Unit) (self : U) (o : Opts) :
    (Options.Options_init W self (("no_data_loss", .bool o.noDataLoss) :: kwAddition o.addition)
        >>= fun r => getattr r "addition")
      = .ok (encStored o.userAddition) := by
  gen_obligation "C08_gen_options_init: the regenerated code (Utv.Gen) is no longer equal to the hand model here" by
    obtain ⟨_, _, addition, ndl, _⟩ := o
    cases ndl <;> cases addition <;>
      obj_simp [Options.Options_init, Options.multi, kwAddition, lookupAttr, isinstance, callable, OVal.isUnprovided,
        OVal.isNone, getattr, Opts.userAddition, encStored]

end Utv.GenEq.C08
