import Utv.Model.C08Spec
/-!
Helper definitions and lemmas for Props/C08: well-formedness of a declaration, the known-defect predicates,
association-list facts, `get_field` versus the specification's accepted spellings, and the characterisation of
what `parse_data` hands to the raw call under either search strategy.
-/
namespace Utv.C08
set_option linter.unusedSectionVars false
variable {N V T : Type} [DecidableEq N] [DecidableEq V]

/-! ### vocabulary of the theorems -/

/-- `str.lower` is idempotent -/
def LowerIdem (W : World N V T) : Prop := ∀ n, W.lower (W.lower n) = W.lower n

/-- positional-only parameters come first (Python's syntax) -/
def poFirst : List (Param N V T) → Bool
  | [] => true
  | p :: ps => (p.posOnly || ps.all (fun q => !q.posOnly)) && poFirst ps

/-- A declaration Python's syntax and utype's own ConfigErrors let through (base.py:277-332, field.py:685-699):
distinct parameter names; `/` before the rest; no spelling accepted by two fields; a case-sensitive field does not
collide, up to case, with a case-insensitive one; private parameters carry no `Param(...)` settings. -/
structure WF (W : World N V T) (s : Sig N V T) : Prop where
  names_nodup : ((s.pos ++ s.kos).map (·.name)).Nodup
  po_first : poFirst s.pos = true
  kos_not_po : ∀ p ∈ s.kos, p.posOnly = false
  fields_unique : ∀ f ∈ s.fields W, ∀ g ∈ s.fields W, ∀ a ∈ f.allNames W, a ∈ g.allNames W → f = g
  ci_sep : ∀ f ∈ s.fields W, f.ci = false → ∀ a ∈ f.allNames W, W.lower a ∉ ciNames W (s.fields W)
  priv_plain : ∀ p ∈ s.pos ++ s.kos, W.priv p.name = true → p.alias = none ∧ p.aliasFrom = [] ∧ p.ci = false

namespace KnownDefect

/-- finding `private-kw-dropped`: a keyword of the call is the name of a private (underscore) declared parameter -/
def privateKw (W : World N V T) (s : Sig N V T) (kw : List (N × V)) : Bool :=
  kw.any (fun e => (s.excludeVars W).contains e.1)

/-- finding `private-unparsed`: a private parameter carries an annotation -/
def privateAnnotated (W : World N V T) (s : Sig N V T) : Bool :=
  (s.pos ++ s.kos).any (fun p => W.priv p.name && p.ann.isSome)

end KnownDefect

/-! ### association lists -/

theorem lookup_map_set (d : List (N × V)) (k x : N) (v : V) :
    (d.map (fun e => if e.1 = k then (k, v) else e)).lookup x
      = if x = k then (d.lookup k).map (fun _ => v) else d.lookup x := by
  induction d with
  | nil => simp
  | cons e d ih =>
    obtain ⟨a, b⟩ := e
    simp only [List.map_cons, List.lookup_cons]
    by_cases hak : a = k
    · subst hak
      by_cases hx : x = a
      · subst hx; simp
      · have h1 : (x == a) = false := by simpa using hx
        rw [List.lookup_cons, h1, ih]
        simp [hx, h1]
    · have hka : (k == a) = false := by simpa using fun h' => hak h'.symm
      simp only [hak, if_false, List.lookup_cons, hka]
      by_cases hx : x = a
      · subst hx
        have : ¬ x = k := hak
        simp [this]
      · have h1 : (x == a) = false := by simpa using hx
        simp only [h1, ih]

theorem lookup_dictSet (d : List (N × V)) (k x : N) (v : V) :
    (dictSet d k v).lookup x = if x = k then some v else d.lookup x := by
  unfold dictSet
  split
  · rename_i h
    rw [lookup_map_set]
    by_cases hx : x = k
    · cases hh : d.lookup k with
      | none => simp [hh] at h
      | some _ => simp [hx]
    · simp [hx]
  · rename_i h
    rw [List.lookup_append]
    by_cases hx : x = k
    · subst hx
      have : d.lookup x = none := by
        cases hh : d.lookup x with
        | none => rfl
        | some _ => simp [hh] at h
      simp [this, List.lookup]
    · have : (x == k) = false := by simpa using hx
      simp [hx, List.lookup, this]

theorem dictSet_fresh (d : List (N × V)) (k : N) (v : V) (h : d.lookup k = none) :
    dictSet d k v = d ++ [(k, v)] := by
  unfold dictSet; simp [h]

theorem dictUpdate_append (d u₁ u₂ : List (N × V)) :
    dictUpdate d (u₁ ++ u₂) = dictUpdate (dictUpdate d u₁) u₂ := by
  induction u₁ generalizing d with
  | nil => rfl
  | cons e u ih => obtain ⟨k, v⟩ := e; simp [dictUpdate, ih]

/-- later writes win; with distinct keys in `u` that is just `u.lookup` first -/
theorem lookup_dictUpdate (d u : List (N × V)) (x : N) (hu : (u.map (·.1)).Nodup) :
    (dictUpdate d u).lookup x = (u.lookup x).or (d.lookup x) := by
  induction u generalizing d with
  | nil => simp [dictUpdate]
  | cons e u ih =>
    obtain ⟨k, v⟩ := e
    simp only [List.map_cons, List.nodup_cons] at hu
    simp only [dictUpdate, ih _ hu.2, lookup_dictSet, List.lookup_cons]
    by_cases hx : x = k
    · subst hx
      have : u.lookup x = none := by
        rw [List.lookup_eq_none_iff]
        intro p hp
        have : p.1 ≠ x := fun h => hu.1 (h ▸ List.mem_map_of_mem hp)
        simpa using fun h => this h.symm
      simp [this]
    · have : (x == k) = false := by simpa using hx
      simp [hx, this]

theorem dictUpdate_fresh (d u : List (N × V)) (hu : (u.map (·.1)).Nodup)
    (hd : ∀ e ∈ u, d.lookup e.1 = none) : dictUpdate d u = d ++ u := by
  induction u generalizing d with
  | nil => simp [dictUpdate]
  | cons e u ih =>
    obtain ⟨k, v⟩ := e
    simp only [List.map_cons, List.nodup_cons] at hu
    have hk : d.lookup k = none := hd (k, v) (by simp)
    simp only [dictUpdate, dictSet_fresh d k v hk]
    rw [ih _ hu.2]
    · simp
    · intro e he
      rw [List.lookup_append, hd e (by simp [he])]
      have : e.1 ≠ k := fun h => hu.1 (h ▸ List.mem_map_of_mem he)
      have : (e.1 == k) = false := by simpa using this
      simp [List.lookup, this]

theorem lookup_filter_key (l : List (N × V)) (p : N → Bool) (x : N) (hx : p x = true) :
    (l.filter (fun e => p e.1)).lookup x = l.lookup x := by
  induction l with
  | nil => rfl
  | cons e l ih =>
    obtain ⟨k, v⟩ := e
    by_cases hk : p k = true
    · simp only [List.filter_cons, hk, if_true, List.lookup_cons, ih]
    · have : (x == k) = false := by
        simp only [beq_eq_false_iff_ne, ne_eq]
        intro h; subst h; exact hk hx
      simp only [List.filter_cons, hk, List.lookup_cons, this]
      simpa using ih

theorem lookup_filter_key_none (l : List (N × V)) (p : N → Bool) (x : N) (hx : p x = false) :
    (l.filter (fun e => p e.1)).lookup x = none := by
  rw [List.lookup_eq_none_iff]
  intro e he
  have := (List.mem_filter.mp he).2
  simp only [bne_iff_ne, ne_eq]
  intro h; subst h; simp [hx] at this

/-! ### `get_field` (resolve) against the accepted spellings of the specification -/

def specNames (p : Param N V T) : List N := p.name :: (p.alias.toList ++ p.aliasFrom)

theorem mem_allNames (W : World N V T) (p : Param N V T) (a : N) :
    a ∈ p.allNames W ↔ if p.ci = true then a ∈ (specNames p).map W.lower else a ∈ specNames p := by
  unfold Param.allNames specNames
  cases p.alias <;> by_cases hci : p.ci = true <;> simp [hci] <;> exact or_left_comm

/-- key `k` is a spelling `get_field` maps to field `f` -/
def Matches (W : World N V T) (f : Param N V T) (k : N) : Prop :=
  k ∈ f.allNames W ∨ (f.ci = true ∧ W.lower k ∈ f.allNames W)

theorem accepted_iff (W : World N V T) (hW : LowerIdem W) (p : Param N V T) (k : N) :
    Spec.accepted W p k = true ↔ Matches W p k := by
  unfold Spec.accepted Matches
  simp only [mem_allNames]
  by_cases hci : p.ci = true
  · simp only [hci, if_true, Bool.true_and, Bool.or_eq_true, List.contains_iff_mem, true_and]
    show (k ∈ specNames p ∨ W.lower k ∈ (specNames p).map W.lower) ↔ _
    constructor
    · rintro (h | h)
      · exact Or.inr (List.mem_map_of_mem h)
      · exact Or.inr h
    · rintro (h | h)
      · obtain ⟨m, hm, rfl⟩ := List.mem_map.mp h
        exact Or.inr (by rw [hW]; exact List.mem_map_of_mem hm)
      · exact Or.inr h
  · simp only [hci, Bool.false_and, Bool.or_false, List.contains_iff_mem]
    show k ∈ specNames p ↔ _
    simp

theorem allNames_sub_ciNames (W : World N V T) (fs : List (Param N V T)) (f : Param N V T) (hf : f ∈ fs)
    (hci : f.ci = true) (a : N) (ha : a ∈ f.allNames W) : a ∈ ciNames W fs := by
  unfold ciNames
  exact List.mem_flatMap.mpr ⟨f, List.mem_filter.mpr ⟨hf, by simpa using hci⟩, ha⟩

theorem lower_fixed_of_ci (W : World N V T) (hW : LowerIdem W) (f : Param N V T) (hci : f.ci = true) (a : N)
    (ha : a ∈ f.allNames W) : W.lower a = a := by
  rw [mem_allNames] at ha
  simp only [hci, if_true] at ha
  obtain ⟨m, _, rfl⟩ := List.mem_map.mp ha
  exact hW m

section resolve
variable (W : World N V T) (hW : LowerIdem W) (s : Sig N V T) (wf : WF W s)
include hW wf

theorem matches_unique (f g : Param N V T) (hf : f ∈ s.fields W) (hg : g ∈ s.fields W) (k : N)
    (h1 : Matches W f k) (h2 : Matches W g k) : f = g := by
  rcases h1 with h1 | ⟨c1, h1⟩ <;> rcases h2 with h2 | ⟨c2, h2⟩
  · exact wf.fields_unique f hf g hg k h1 h2
  · -- k ∈ f, lower k ∈ g (g ci)
    by_cases cf : f.ci = true
    · have := lower_fixed_of_ci W hW f cf k h1
      rw [this] at h2
      exact wf.fields_unique f hf g hg k h1 h2
    · exfalso
      exact wf.ci_sep f hf (by simpa using cf) k h1 (allNames_sub_ciNames W _ g hg c2 _ h2)
  · by_cases cg : g.ci = true
    · have := lower_fixed_of_ci W hW g cg k h2
      rw [this] at h1
      exact wf.fields_unique f hf g hg k h1 h2
    · exfalso
      exact wf.ci_sep g hg (by simpa using cg) k h2 (allNames_sub_ciNames W _ f hf c1 _ h1)
  · exact wf.fields_unique f hf g hg _ h1 h2

theorem matches_of_resolve (k : N) (f : Param N V T) (h : resolve W (s.fields W) k = some f) :
    f ∈ s.fields W ∧ Matches W f k := by
  unfold resolve at h
  split at h
  · rename_i g hg
    cases h
    exact ⟨List.mem_of_find?_eq_some hg, Or.inl (by simpa using List.find?_some hg)⟩
  · split at h
    · rename_i hc
      have hf := List.mem_of_find?_eq_some h
      have hm : W.lower k ∈ f.allNames W := by simpa using List.find?_some h
      refine ⟨hf, Or.inr ⟨?_, hm⟩⟩
      by_cases cf : f.ci = true
      · exact cf
      · exfalso
        have := wf.ci_sep f hf (by simpa using cf) _ hm
        rw [hW] at this
        exact this (by simpa using hc)
    · cases h

theorem resolve_of_matches (k : N) (f : Param N V T) (hf : f ∈ s.fields W) (hm : Matches W f k) :
    resolve W (s.fields W) k = some f := by
  cases hr : resolve W (s.fields W) k with
  | some g =>
    obtain ⟨hg, hmg⟩ := matches_of_resolve W hW s wf k g hr
    rw [matches_unique W hW s wf g f hg hf k hmg hm]
  | none =>
    exfalso
    unfold resolve at hr
    split at hr
    · cases hr
    · rename_i hnone
      rcases hm with h1 | ⟨c, h1⟩
      · exact (List.find?_eq_none.mp hnone) f hf (by simpa using h1)
      · have hc : (ciNames W (s.fields W)).contains (W.lower k) = true := by
          simpa using allNames_sub_ciNames W _ f hf c _ h1
        simp only [hc, if_true] at hr
        exact (List.find?_eq_none.mp hr) f hf (by simpa using h1)

theorem resolve_none_iff (k : N) :
    resolve W (s.fields W) k = none ↔ ∀ f ∈ s.fields W, ¬ Matches W f k := by
  constructor
  · intro h f hf hm
    rw [resolve_of_matches W hW s wf k f hf hm] at h
    cases h
  · intro h
    cases hr : resolve W (s.fields W) k with
    | none => rfl
    | some g =>
      obtain ⟨hg, hmg⟩ := matches_of_resolve W hW s wf k g hr
      exact absurd hmg (h g hg)

end resolve

/-! ### classification of a keyword of the call -/

theorem mem_fields (W : World N V T) (s : Sig N V T) (p : Param N V T) :
    p ∈ s.fields W ↔ p ∈ s.pos ++ s.kos ∧ W.priv p.name = false := by
  unfold Sig.fields; simp [or_and_right]

theorem mem_kwParams (s : Sig N V T) (p : Param N V T) :
    p ∈ Spec.kwParams s ↔ (p ∈ s.pos ∧ p.posOnly = false) ∨ p ∈ s.kos := by
  unfold Spec.kwParams; simp

theorem kwTarget_iff (s : Sig N V T) (k : N) :
    s.kwTarget k = true ↔ ∃ p ∈ Spec.kwParams s, p.name = k := by
  unfold Sig.kwTarget
  simp only [Bool.or_eq_true, List.any_eq_true, Bool.and_eq_true, Bool.not_eq_true', beq_iff_eq, mem_kwParams]
  constructor
  · rintro (⟨p, hp, h1, h2⟩ | ⟨p, hp, h2⟩)
    · exact ⟨p, Or.inl ⟨hp, h1⟩, h2⟩
    · exact ⟨p, Or.inr hp, h2⟩
  · rintro ⟨p, (⟨hp, h1⟩ | hp), h2⟩
    · exact Or.inl ⟨p, hp, h1, h2⟩
    · exact Or.inr ⟨p, hp, h2⟩

theorem eq_of_name_eq {l : List (Param N V T)} (h : (l.map (·.name)).Nodup) {p q : Param N V T}
    (hp : p ∈ l) (hq : q ∈ l) (hn : p.name = q.name) : p = q := by
  induction l with
  | nil => cases hp
  | cons a l ih =>
    simp only [List.map_cons, List.nodup_cons] at h
    rcases List.mem_cons.mp hp with rfl | hp' <;> rcases List.mem_cons.mp hq with rfl | hq'
    · rfl
    · exact absurd (hn ▸ List.mem_map_of_mem hq') h.1
    · exact absurd (hn ▸ List.mem_map_of_mem hp') h.1
    · exact ih h.2 hp' hq'

theorem mem_excludeVars_of_priv (W : World N V T) (s : Sig N V T) (p : Param N V T) (hp : p ∈ s.pos ++ s.kos)
    (h : W.priv p.name = true) : p.name ∈ s.excludeVars W := by
  unfold Sig.excludeVars
  simp only [List.mem_filter, List.mem_append, List.mem_map]
  exact ⟨Or.inl (Or.inl ⟨p, by simpa using hp, rfl⟩), h⟩

section classify
variable (W : World N V T) (hW : LowerIdem W) (s : Sig N V T) (wf : WF W s)
include hW wf

theorem kwParams_sub (p : Param N V T) (hp : p ∈ Spec.kwParams s) : p ∈ s.pos ++ s.kos ∧ p.posOnly = false := by
  rcases (mem_kwParams s p).mp hp with ⟨h1, h2⟩ | h
  · exact ⟨List.mem_append_left _ h1, h2⟩
  · exact ⟨List.mem_append_right _ h, wf.kos_not_po p h⟩

/-- a kw-parameter that accepts a non-private key is a field matching it -/
theorem field_of_accepted (k : N) (hk : k ∉ s.excludeVars W) (p : Param N V T) (hp : p ∈ Spec.kwParams s)
    (ha : Spec.accepted W p k = true) : p ∈ s.fields W ∧ Matches W p k := by
  obtain ⟨hmem, _⟩ := kwParams_sub W hW s wf p hp
  by_cases hpriv : W.priv p.name = true
  · exfalso
    obtain ⟨h1, h2, h3⟩ := wf.priv_plain p hmem hpriv
    unfold Spec.accepted at ha
    simp [h1, h2, h3] at ha
    exact hk (ha ▸ mem_excludeVars_of_priv W s p hmem hpriv)
  · exact ⟨(mem_fields W s p).mpr ⟨hmem, by simpa using hpriv⟩, (accepted_iff W hW p k).mp ha⟩

/-- the key names (under some accepted spelling) the keyword-capable field `f` -/
theorem key_field (k : N) (hk : k ∉ s.excludeVars W) (f : Param N V T)
    (hr : resolve W (s.fields W) k = some f) (hpo : f.posOnly = false) :
    Spec.normKey W s k = f.name ∧ f ∈ Spec.kwParams s ∧ W.priv f.name = false ∧ s.kwTarget f.name = true
      ∧ Spec.annOfKey s f.name = f.ann := by
  obtain ⟨hf, hm⟩ := matches_of_resolve W hW s wf k f hr
  obtain ⟨hmem, hnp⟩ := (mem_fields W s f).mp hf
  have hkw : f ∈ Spec.kwParams s := by
    rw [mem_kwParams]
    rcases List.mem_append.mp hmem with h | h
    · exact Or.inl ⟨h, hpo⟩
    · exact Or.inr h
  refine ⟨?_, hkw, hnp, (kwTarget_iff s _).mpr ⟨f, hkw, rfl⟩, ?_⟩
  · unfold Spec.normKey
    cases hfind : (Spec.kwParams s).find? (fun p => Spec.accepted W p k) with
    | none =>
      exfalso
      have := (List.find?_eq_none.mp hfind) f hkw
      exact this ((accepted_iff W hW f k).mpr hm)
    | some p =>
      have hp := List.mem_of_find?_eq_some hfind
      have ha := List.find?_some hfind
      obtain ⟨hpf, hpm⟩ := field_of_accepted W hW s wf k hk p hp ha
      rw [matches_unique W hW s wf p f hpf hf k hpm hm]
  · unfold Spec.annOfKey
    cases hfind : (Spec.kwParams s).find? (fun p => p.name == f.name) with
    | none =>
      exfalso
      exact (List.find?_eq_none.mp hfind) f hkw (by simp)
    | some q =>
      have hq := List.mem_of_find?_eq_some hfind
      have hn : q.name = f.name := by simpa using List.find?_some hfind
      rw [eq_of_name_eq wf.names_nodup (kwParams_sub W hW s wf q hq).1 hmem hn]

/-- the key is an ordinary extra key: no keyword-capable parameter takes it -/
theorem key_extra (k : N) (hk : k ∉ s.excludeVars W)
    (hr : resolve W (s.fields W) k = none ∨ ∃ f, resolve W (s.fields W) k = some f ∧ f.posOnly = true) :
    Spec.normKey W s k = k ∧ s.kwTarget k = false
      ∧ Spec.annOfKey s k = (match s.vk with | some (_, t) => t | none => none) := by
  have hnone : (Spec.kwParams s).find? (fun p => Spec.accepted W p k) = none := by
    cases hfind : (Spec.kwParams s).find? (fun p => Spec.accepted W p k) with
    | none => rfl
    | some p =>
      exfalso
      have hp := List.mem_of_find?_eq_some hfind
      have hacc := List.find?_some hfind
      obtain ⟨hpf, hpm⟩ := field_of_accepted W hW s wf k hk p hp hacc
      have := resolve_of_matches W hW s wf k p hpf hpm
      rcases hr with h | ⟨f, h, hpo⟩
      · rw [h] at this; cases this
      · rw [h] at this
        have hfp : f = p := by injection this
        rw [hfp, (kwParams_sub W hW s wf p hp).2] at hpo
        cases hpo
  have hnt : s.kwTarget k = false := by
    cases ht : s.kwTarget k with
    | false => rfl
    | true =>
      exfalso
      obtain ⟨p, hp, hn⟩ := (kwTarget_iff s k).mp ht
      refine (List.find?_eq_none.mp hnone) p hp ?_
      unfold Spec.accepted
      simp [hn]
  refine ⟨by unfold Spec.normKey; rw [hnone], hnt, ?_⟩
  unfold Spec.annOfKey
  cases hfind : (Spec.kwParams s).find? (fun p => p.name == k) with
  | none => rfl
  | some q =>
    exfalso
    have hq := List.mem_of_find?_eq_some hfind
    have hn : q.name = k := by simpa using List.find?_some hfind
    rw [(kwTarget_iff s k).mpr ⟨q, hq, hn⟩] at hnt
    cases hnt

end classify

/-! ### what the keyword half produces -/

theorem convBy_eq (W : World N V T) (t : Option T) (v : V) :
    convBy W t v = match Spec.convO W t v with | some x => .ok x | none => .error .perr := by
  unfold convBy Spec.convO
  cases t with
  | none => rfl
  | some t => cases W.conv t v <;> rfl

theorem parseAddition_eq (W : World N V T) (s : Sig N V T) (k : N) (v : V) (hk : k ∉ s.excludeVars W) :
    parseAddition W s k v =
      match s.vk with
      | none => .ok none
      | some (_, t) => match Spec.convO W t v with
        | some x => .ok (some x)
        | none => .error .perr := by
  unfold parseAddition
  have : (s.excludeVars W).contains k = false := by simpa using hk
  simp only [this]
  cases s.vk with
  | none => rfl
  | some nt =>
    obtain ⟨n, t⟩ := nt
    simp only [convBy_eq]
    cases Spec.convO W t v <;> rfl

theorem err_eq (e : Err) : e = .perr := by cases e; rfl

def isTarget (s : Sig N V T) (e : N × V) : Bool := s.kwTarget e.1

/-- what the raw call must observe of the keyword dict `kw'` handed over by `parse_data`, relative to the converted
normalised keywords `ckw`: every keyword-capable parameter is absent when private or already passed positionally
(`excl`), otherwise carries the converted given value or the declared default; the other keys are the converted
extra keys, in call order -/
def Obs (W : World N V T) (s : Sig N V T) (excl : List N) (ckw kw' : List (N × V)) : Prop :=
  (∀ p ∈ Spec.kwParams s, kw'.lookup p.name =
      if W.priv p.name || excl.contains p.name then none else (ckw.lookup p.name).or p.dflt) ∧
  kw'.filter (fun e => !isTarget s e) = ckw.filter (fun e => !isTarget s e)

theorem convKw_keys (W : World N V T) (s : Sig N V T) (l c : List (N × V)) (h : Spec.convKw W s l = some c) :
    c.map (·.1) = l.map (·.1) := by
  induction l generalizing c with
  | nil => simp [Spec.convKw] at h; subst h; rfl
  | cons e l ih =>
    obtain ⟨k, v⟩ := e
    simp only [Spec.convKw] at h
    split at h
    · rename_i v' r h1 h2
      cases h
      simp [ih r h2]
    · cases h

theorem lookup_isSome_iff (l : List (N × V)) (x : N) : (l.lookup x).isSome = true ↔ x ∈ l.map (·.1) := by
  induction l with
  | nil => simp
  | cons e l ih =>
    obtain ⟨k, v⟩ := e
    simp only [List.lookup_cons, List.map_cons, List.mem_cons]
    by_cases hx : x = k
    · subst hx; simp
    · have : (x == k) = false := by simpa using hx
      simp [this, hx, ih]

theorem lookup_eq_none_iff_not_mem (l : List (N × V)) (x : N) : l.lookup x = none ↔ x ∉ l.map (·.1) := by
  rw [← lookup_isSome_iff]
  cases l.lookup x <;> simp

set_option hygiene false in
/-- the extra-key branch of `dfLoop`, shared by `resolve = none` and `resolve = some positional-only field` -/
local macro "df_extra " hr:term : tactic => `(tactic| (
  obtain ⟨hnk, hnt, hann⟩ := key_extra W hW s wf k hk $hr
  rw [parseAddition_eq W s k v hk]
  simp only [Spec.normalise, List.map_cons, Spec.convKw, hnk, hann]
  cases hvk : s.vk with
  | none =>
    exfalso
    have := h5 hvk (k, v) (by simp)
    simp only [hnk, hnt] at this
    cases this
  | some nt =>
    obtain ⟨n, t⟩ := nt
    simp only
    cases hc : Spec.convO W t v with
    | none => simp
    | some x =>
      simp only
      rw [ih r (dictSet a k x) h1' h3' h5' hn' hfresh']
      simp only [Spec.normalise]
      cases Spec.convKw W s (List.map (fun e => (Spec.normKey W s e.1, e.2)) rest) with
      | none => rfl
      | some c => simp [isTarget, hnt, dictUpdate]))

section dataFirst
variable (W : World N V T) (hW : LowerIdem W) (s : Sig N V T) (wf : WF W s) (o : Opts) (excl : List N)
include hW wf

theorem dfLoop_eq (rest : List (N × V)) :
    ∀ (r a : List (N × V)),
    (∀ e ∈ rest, e.1 ∉ s.excludeVars W) →
    (∀ e ∈ rest, ∀ f, resolve W (s.fields W) e.1 = some f → f.posOnly = false → excl.contains f.name = false) →
    (s.vk = none → ∀ e ∈ rest, s.kwTarget (Spec.normKey W s e.1) = true) →
    ((Spec.normalise W s rest).map (·.1)).Nodup →
    (∀ e ∈ rest, r.lookup (Spec.normKey W s e.1) = none) →
    dfLoop W s o excl rest r a =
      match Spec.convKw W s (Spec.normalise W s rest) with
      | none => .error .perr
      | some c => .ok (dictUpdate r (c.filter (isTarget s)), dictUpdate a (c.filter (fun e => !isTarget s e))) := by
  induction rest with
  | nil => intro r a _ _ _ _ _; simp [dfLoop, Spec.normalise, Spec.convKw, dictUpdate]
  | cons e rest ih =>
    obtain ⟨k, v⟩ := e
    intro r a h1 h3 h5 hn hfresh
    have hk : k ∉ s.excludeVars W := h1 (k, v) (by simp)
    have h1' : ∀ e ∈ rest, e.1 ∉ s.excludeVars W := fun e he => h1 e (by simp [he])
    have h3' : ∀ e ∈ rest, ∀ f, resolve W (s.fields W) e.1 = some f → f.posOnly = false →
        excl.contains f.name = false := fun e he => h3 e (by simp [he])
    have h5' : s.vk = none → ∀ e ∈ rest, s.kwTarget (Spec.normKey W s e.1) = true :=
      fun hv e he => h5 hv e (by simp [he])
    simp only [Spec.normalise, List.map_cons, List.nodup_cons] at hn
    have hn' : ((Spec.normalise W s rest).map (·.1)).Nodup := by simpa [Spec.normalise] using hn.2
    have hdist : ∀ e ∈ rest, Spec.normKey W s e.1 ≠ Spec.normKey W s k := by
      intro e he heq
      apply hn.1
      simp only [List.mem_map]
      exact ⟨(Spec.normKey W s e.1, e.2), ⟨e, he, rfl⟩, heq⟩
    have hfresh' : ∀ e ∈ rest, r.lookup (Spec.normKey W s e.1) = none := fun e he => hfresh e (by simp [he])
    unfold dfLoop
    cases hr : resolve W (s.fields W) k with
    | none =>
      simp only
      df_extra (Or.inl hr)
    | some f =>
      cases hpo : f.posOnly with
      | true =>
        simp only [hpo, ↓reduceIte]
        df_extra (Or.inr ⟨f, hr, hpo⟩)
      | false =>
        obtain ⟨hnk, hkw, hnp, hkt, hann⟩ := key_field W hW s wf k hk f hr hpo
        have hfr : r.lookup f.name = none := hnk ▸ hfresh (k, v) (by simp)
        have hex : excl.contains f.name = false := h3 (k, v) (by simp) f hr hpo
        simp only [hpo, hfr, hex, Option.isSome_none, Bool.and_false, Bool.false_eq_true, ↓reduceIte]
        simp only [Spec.normalise, List.map_cons, Spec.convKw, hnk, hann, convBy_eq]
        cases hc : Spec.convO W f.ann v with
        | none => simp
        | some p =>
          simp only
          rw [ih (dictSet r f.name p) a h1' h3' h5' hn' ?_]
          · simp only [Spec.normalise]
            cases Spec.convKw W s (List.map (fun e => (Spec.normKey W s e.1, e.2)) rest) with
            | none => rfl
            | some c => simp [isTarget, hkt, dictUpdate]
          · intro e he
            rw [lookup_dictSet]
            have : Spec.normKey W s e.1 ≠ f.name := hnk ▸ hdist e he
            simp [this, hfresh' e he]

omit hW wf in
theorem filterMap_congr' {α β : Type} {f g : α → Option β} {l : List α} (h : ∀ x ∈ l, f x = g x) :
    l.filterMap f = l.filterMap g := by
  induction l with
  | nil => rfl
  | cons a l ih =>
    simp only [List.filterMap_cons, h a (by simp)]
    rw [ih (fun x hx => h x (by simp [hx]))]

omit hW wf in
/-- the entries `dfDefaults` appends -/
theorem dfDefaults_eq (l : List (Param N V T)) (hl : (l.map (·.name)).Nodup) :
    ∀ (R : List (N × V)),
    (∀ f ∈ l, R.lookup f.name = none → excl.contains f.name = false → f.dflt.isSome = true) →
    dfDefaults excl l R = .ok (R ++ l.filterMap (fun f =>
      if (R.lookup f.name).isSome || excl.contains f.name then none else f.dflt.map (fun d => (f.name, d)))) := by
  induction l with
  | nil => intro R _; simp [dfDefaults]
  | cons f l ih =>
    intro R hreq
    simp only [List.map_cons, List.nodup_cons] at hl
    unfold dfDefaults
    by_cases hskip : ((R.lookup f.name).isSome || excl.contains f.name) = true
    · simp only [hskip, if_true, List.filterMap_cons]
      exact ih hl.2 R (fun g hg => hreq g (by simp [hg]))
    · have hskip' : ((R.lookup f.name).isSome || excl.contains f.name) = false := Bool.eq_false_iff.mpr hskip
      simp only [Bool.or_eq_false_iff] at hskip'
      have hnone : R.lookup f.name = none := by
        cases hh : R.lookup f.name with
        | none => rfl
        | some _ => simp [hh] at hskip'
      have hd := hreq f (by simp) hnone hskip'.2
      cases hdf : f.dflt with
      | none => simp [hdf] at hd
      | some d =>
        simp only [hskip, Bool.false_eq_true, if_false, List.filterMap_cons, hdf, Option.map_some]
        rw [dictSet_fresh R f.name d hnone, ih hl.2]
        · congr 1
          rw [List.append_assoc]
          congr 1
          simp only [List.singleton_append, List.cons.injEq, true_and]
          apply filterMap_congr'
          intro g hg
          have hne : g.name ≠ f.name := fun h => hl.1 (h ▸ List.mem_map_of_mem hg)
          have hb : (g.name == f.name) = false := by simpa using hne
          rw [List.lookup_append]
          simp only [List.lookup_cons, hb, List.lookup_nil, Option.or_none]
        · intro g hg hl' he
          have hne : g.name ≠ f.name := fun h => hl.1 (h ▸ List.mem_map_of_mem hg)
          have hb : (g.name == f.name) = false := by simpa using hne
          rw [List.lookup_append] at hl'
          simp only [List.lookup_cons, hb, List.lookup_nil, Option.or_none] at hl'
          exact hreq g (by simp [hg]) (by simpa using hl') he

/-- every keyword of the call either names (under an accepted spelling) a keyword-capable field that was not passed
positionally, or is an extra key -/
theorem key_cases (kw : List (N × V))
    (h1 : ∀ e ∈ kw, e.1 ∉ s.excludeVars W)
    (h3 : ∀ e ∈ kw, ∀ f, resolve W (s.fields W) e.1 = some f → f.posOnly = false → excl.contains f.name = false)
    (e : N × V) (he : e ∈ kw) :
    (∃ f, f ∈ Spec.kwParams s ∧ Spec.normKey W s e.1 = f.name ∧ W.priv f.name = false
        ∧ excl.contains f.name = false ∧ s.kwTarget f.name = true)
    ∨ (Spec.normKey W s e.1 = e.1 ∧ s.kwTarget e.1 = false) := by
  cases hr : resolve W (s.fields W) e.1 with
  | none => exact Or.inr ⟨(key_extra W hW s wf e.1 (h1 e he) (Or.inl hr)).1, (key_extra W hW s wf e.1 (h1 e he) (Or.inl hr)).2.1⟩
  | some f =>
    cases hpo : f.posOnly with
    | true =>
      have := key_extra W hW s wf e.1 (h1 e he) (Or.inr ⟨f, hr, hpo⟩)
      exact Or.inr ⟨this.1, this.2.1⟩
    | false =>
      obtain ⟨a, b, c, d, _⟩ := key_field W hW s wf e.1 (h1 e he) f hr hpo
      exact Or.inl ⟨f, b, a, c, h3 e he f hr hpo, d⟩

omit hW in
theorem fields_names_nodup : ((s.fields W).map (·.name)).Nodup := by
  unfold Sig.fields
  exact List.Pairwise.sublist (List.Sublist.map _ List.filter_sublist) wf.names_nodup

theorem dataFirst_obs (kw : List (N × V))
    (h1 : ∀ e ∈ kw, e.1 ∉ s.excludeVars W)
    (h3 : ∀ e ∈ kw, ∀ f, resolve W (s.fields W) e.1 = some f → f.posOnly = false → excl.contains f.name = false)
    (h5 : s.vk = none → ∀ e ∈ kw, s.kwTarget (Spec.normKey W s e.1) = true)
    (hn : ((Spec.normalise W s kw).map (·.1)).Nodup)
    (hpo : ∀ f ∈ s.fields W, f.posOnly = true → excl.contains f.name = true)
    (hreq : ∀ f ∈ s.fields W, excl.contains f.name = false →
        ((Spec.normalise W s kw).lookup f.name).isSome = true ∨ f.dflt.isSome = true) :
    match Spec.convKw W s (Spec.normalise W s kw) with
    | none => dataFirst W s o excl kw = .error .perr
    | some c => ∃ kw', dataFirst W s o excl kw = .ok kw' ∧ Obs W s excl c kw' := by
  have hloop := dfLoop_eq W hW s wf o excl kw [] [] h1 h3 h5 hn (by intro e _; rfl)
  cases hc : Spec.convKw W s (Spec.normalise W s kw) with
  | none =>
    simp only [hc] at hloop
    simp [dataFirst, hloop]
  | some c =>
    simp only [hc] at hloop
    have hkeys : c.map (·.1) = (Spec.normalise W s kw).map (·.1) := convKw_keys W s _ c hc
    have hcn : (c.map (·.1)).Nodup := hkeys ▸ hn
    have hsubT : ((c.filter (isTarget s)).map (·.1)).Nodup :=
      List.Pairwise.sublist (List.Sublist.map _ List.filter_sublist) hcn
    have hsubN : ((c.filter (fun e => !isTarget s e)).map (·.1)).Nodup :=
      List.Pairwise.sublist (List.Sublist.map _ List.filter_sublist) hcn
    have hR : dictUpdate [] (c.filter (isTarget s)) = c.filter (isTarget s) := by
      rw [dictUpdate_fresh [] _ hsubT (by intro e _; rfl)]; rfl
    have hA : dictUpdate [] (c.filter (fun e => !isTarget s e)) = c.filter (fun e => !isTarget s e) := by
      rw [dictUpdate_fresh [] _ hsubN (by intro e _; rfl)]; rfl
    rw [hR, hA] at hloop
    -- a field that is not excluded is keyword-capable, hence a target
    have htarget : ∀ f ∈ s.fields W, excl.contains f.name = false → f ∈ Spec.kwParams s := by
      intro f hf hex
      obtain ⟨hmem, _⟩ := (mem_fields W s f).mp hf
      have hnpo : f.posOnly = false := by
        cases h : f.posOnly with
        | false => rfl
        | true => rw [hpo f hf h] at hex; cases hex
      rw [mem_kwParams]
      rcases List.mem_append.mp hmem with h | h
      · exact Or.inl ⟨h, hnpo⟩
      · exact Or.inr h
    -- keys of c
    have hckey : ∀ x, (c.lookup x).isSome = true → ∃ e ∈ kw, Spec.normKey W s e.1 = x := by
      intro x hx
      rw [lookup_isSome_iff, hkeys] at hx
      simp only [Spec.normalise, List.map_map, List.mem_map, Function.comp] at hx
      obtain ⟨e, he, rfl⟩ := hx
      exact ⟨e, he, rfl⟩
    obtain ⟨R, hRdef⟩ : ∃ R, R = c.filter (isTarget s) := ⟨_, rfl⟩
    obtain ⟨A, hAdef⟩ : ∃ A, A = c.filter (fun e => !isTarget s e) := ⟨_, rfl⟩
    rw [← hRdef, ← hAdef] at hloop
    rw [← hRdef] at hsubT
    rw [← hAdef] at hsubN
    have hRlook : ∀ x, s.kwTarget x = true → R.lookup x = c.lookup x := by
      intro x hx; rw [hRdef]; exact lookup_filter_key c s.kwTarget x hx
    have hRnone : ∀ x, s.kwTarget x = false → R.lookup x = none := by
      intro x hx; rw [hRdef]; exact lookup_filter_key_none c s.kwTarget x hx
    have hAnone : ∀ x, s.kwTarget x = true → A.lookup x = none := by
      intro x hx; rw [hAdef]; exact lookup_filter_key_none c (fun k => !s.kwTarget k) x (by simp [hx])
    have hAmem : ∀ e ∈ A, s.kwTarget e.1 = false := by
      intro e he
      rw [hAdef] at he
      have := (List.mem_filter.mp he).2
      simpa [isTarget] using this
    have hRmem : ∀ e ∈ R, isTarget s e = true := by
      intro e he
      rw [hRdef] at he
      exact (List.mem_filter.mp he).2
    -- defaults
    have hreq' : ∀ f ∈ s.fields W, R.lookup f.name = none → excl.contains f.name = false → f.dflt.isSome = true := by
      intro f hf hnone hex
      rcases hreq f hf hex with h | h
      · exfalso
        have ht : s.kwTarget f.name = true := (kwTarget_iff s _).mpr ⟨f, htarget f hf hex, rfl⟩
        rw [hRlook _ ht] at hnone
        have h2 : (c.lookup f.name).isSome = true := by
          rw [lookup_isSome_iff, hkeys, ← lookup_isSome_iff]; exact h
        rw [hnone] at h2; cases h2
      · exact h
    have hdef := dfDefaults_eq excl (s.fields W) (fields_names_nodup W s wf) R hreq'
    obtain ⟨D, hDdef⟩ : ∃ D, D = (s.fields W).filterMap (fun f =>
      if (R.lookup f.name).isSome || excl.contains f.name then none else f.dflt.map (fun d => (f.name, d))) := ⟨_, rfl⟩
    rw [← hDdef] at hdef
    have hDkey : ∀ e ∈ D, ∃ f ∈ s.fields W, e.1 = f.name ∧ excl.contains f.name = false ∧ R.lookup f.name = none
        ∧ f.dflt = some e.2 := by
      intro e he
      simp only [hDdef, List.mem_filterMap] at he
      obtain ⟨f, hf, hfe⟩ := he
      split at hfe
      · cases hfe
      · rename_i hcond
        have hcond' := Bool.eq_false_iff.mpr hcond
        simp only [Bool.or_eq_false_iff] at hcond'
        cases hd : f.dflt with
        | none => simp [hd] at hfe
        | some d =>
          simp only [hd, Option.map_some, Option.some.injEq] at hfe
          subst hfe
          refine ⟨f, hf, rfl, hcond'.2, ?_, hd⟩
          cases hh : R.lookup f.name with
          | none => rfl
          | some _ => simp [hh] at hcond'
    have hDtarget : ∀ e ∈ D, isTarget s e = true := by
      intro e he
      obtain ⟨f, hf, hn', hex, _, _⟩ := hDkey e he
      show s.kwTarget e.1 = true
      rw [hn']
      exact (kwTarget_iff s _).mpr ⟨f, htarget f hf hex, rfl⟩
    have hfreshA : ∀ e ∈ A, (R ++ D).lookup e.1 = none := by
      intro e he
      have hnt : s.kwTarget e.1 = false := hAmem e he
      rw [List.lookup_append, hRnone _ hnt]
      simp only [Option.none_or]
      rw [lookup_eq_none_iff_not_mem]
      intro hmem
      obtain ⟨e', he', heq⟩ := List.mem_map.mp hmem
      have := hDtarget e' he'
      simp only [isTarget, heq, hnt] at this
      cases this
    refine ⟨(R ++ D) ++ A, ?_, ?_, ?_⟩
    · simp only [dataFirst, hloop, hdef]
      rw [dictUpdate_fresh _ A hsubN hfreshA]
    · -- lookups at keyword-capable parameters
      intro p hp
      have ht : s.kwTarget p.name = true := (kwTarget_iff s _).mpr ⟨p, hp, rfl⟩
      have hAn : A.lookup p.name = none := hAnone _ ht
      have hRl : R.lookup p.name = c.lookup p.name := hRlook _ ht
      rw [List.lookup_append, List.lookup_append, hAn, hRl, Option.or_none]
      obtain ⟨hpmem, _⟩ := kwParams_sub W hW s wf p hp
      by_cases hskip : (W.priv p.name || excl.contains p.name) = true
      · simp only [hskip, if_true]
        have hcl : c.lookup p.name = none := by
          cases hh : c.lookup p.name with
          | none => rfl
          | some _ =>
            exfalso
            obtain ⟨e, he, hne⟩ := hckey p.name (by simp [hh])
            rcases key_cases W hW s wf excl kw h1 h3 e he with ⟨f, hf, h2, h3', h4, _⟩ | ⟨h2, h3'⟩
            · have hfp : f = p := eq_of_name_eq wf.names_nodup (kwParams_sub W hW s wf f hf).1 hpmem (by rw [← h2, hne])
              subst hfp
              rw [h3', h4] at hskip; cases hskip
            · rw [h2] at hne
              rw [hne, ht] at h3'; cases h3'
        rw [hcl, Option.none_or, lookup_eq_none_iff_not_mem]
        intro hmem
        obtain ⟨e', he', heq⟩ := List.mem_map.mp hmem
        obtain ⟨f, hf, hn', hex, _, _⟩ := hDkey e' he'
        have hfp : f = p := eq_of_name_eq wf.names_nodup ((mem_fields W s f).mp hf).1 hpmem (by rw [← hn', heq])
        subst hfp
        have : W.priv f.name = false := ((mem_fields W s f).mp hf).2
        rw [this, hex] at hskip; cases hskip
      · have hskip' := Bool.eq_false_iff.mpr hskip
        simp only [Bool.or_eq_false_iff] at hskip'
        simp only [hskip', Bool.or_self, Bool.false_eq_true, if_false]
        have hpf : p ∈ s.fields W := (mem_fields W s p).mpr ⟨hpmem, hskip'.1⟩
        cases hcl : c.lookup p.name with
        | some v => simp
        | none =>
          simp only [Option.none_or]
          -- the default entry of p is the only entry of D under p's name
          have hRn : R.lookup p.name = none := by rw [hRl, hcl]
          have hD : D.lookup p.name = p.dflt := by
            have hnd := fields_names_nodup W s wf
            rw [hDdef]
            have : ∀ (l : List (Param N V T)), (l.map (·.name)).Nodup → p ∈ l →
                (l.filterMap (fun f => if (R.lookup f.name).isSome || excl.contains f.name then none
                  else f.dflt.map (fun d => (f.name, d)))).lookup p.name = p.dflt := by
              intro l
              induction l with
              | nil => intro _ h; cases h
              | cons g l ih =>
                intro hnd hpl
                simp only [List.map_cons, List.nodup_cons] at hnd
                rcases List.mem_cons.mp hpl with rfl | hpl'
                · simp only [List.filterMap_cons, hRn, hskip'.2, Option.isSome_none, Bool.or_self,
                    Bool.false_eq_true, if_false]
                  cases hd : p.dflt with
                  | some d => simp [List.lookup_cons]
                  | none =>
                    simp only [Option.map_none]
                    rw [lookup_eq_none_iff_not_mem]
                    intro hmem
                    obtain ⟨e', he', heq⟩ := List.mem_map.mp hmem
                    obtain ⟨f, hf, hfe⟩ := List.mem_filterMap.mp he'
                    split at hfe
                    · cases hfe
                    · cases hdf : f.dflt with
                      | none => simp [hdf] at hfe
                      | some d' =>
                        simp only [hdf, Option.map_some, Option.some.injEq] at hfe
                        subst hfe
                        exact hnd.1 (heq ▸ List.mem_map_of_mem hf)
                · have hne : p.name ≠ g.name := fun h => hnd.1 (h ▸ List.mem_map_of_mem hpl')
                  simp only [List.filterMap_cons]
                  split
                  · exact ih hnd.2 hpl'
                  · rename_i x hx
                    split at hx
                    · cases hx
                    · cases hdg : g.dflt with
                      | none => simp [hdg] at hx
                      | some d' =>
                        simp only [hdg, Option.map_some, Option.some.injEq] at hx
                        subst hx
                        have : (p.name == g.name) = false := by simpa using hne
                        simp only [List.lookup_cons, this]
                        exact ih hnd.2 hpl'
            exact this _ hnd hpf
          exact hD
    · -- the extra keys
      simp only [List.filter_append]
      have e1 : R.filter (fun e => !isTarget s e) = [] := by
        rw [List.filter_eq_nil_iff]
        intro e he
        simp [hRmem e he]
      have e2 : D.filter (fun e => !isTarget s e) = [] := by
        rw [List.filter_eq_nil_iff]
        intro e he
        simp [hDtarget e he]
      have e3 : A.filter (fun e => !isTarget s e) = A := by
        rw [List.filter_eq_self]
        intro e he
        simp [isTarget, hAmem e he]
      rw [e1, e2, e3, hAdef]; rfl

end dataFirst

end Utv.C08
