import Utv.Model.C20Lazy
/-! C20 — invariant of the build-then-publish protocol of lazily initialised parser attributes. -/
namespace Utv.C20.Lazy

def okSlot (W : World) (v : Option (List Nat)) : Prop := v = none ∨ v = some (full W)

structure TI (W : World) (t : Th) : Prop where
  views : ∀ v ∈ t.views, okSlot W v
  rets  : ∀ r ∈ t.rets, r = full W
  loop  : (t.pc = .forL ∨ t.pc = .get ∨ t.pc = .chk ∨ t.pc = .put ∨ t.pc = .cont) →
            t.loc = (List.range t.i).filter W.hasField ∧ t.i ≤ W.n
  inner : (t.pc = .get ∨ t.pc = .chk ∨ t.pc = .put ∨ t.pc = .cont) → t.i < W.n
  putF  : t.pc = .put → W.hasField t.i = true
  contF : t.pc = .cont → W.hasField t.i = false
  retF  : t.pc = .ret → t.loc = full W

structure Inv (W : World) (s : Sys) : Prop where
  slot : okSlot W s.slot
  th   : ∀ k, TI W (s.th k)

theorem filter_range_succ (p : Nat → Bool) (i : Nat) :
    (List.range (i + 1)).filter p = (List.range i).filter p ++ (if p i then [i] else []) := by
  rw [List.range_succ, List.filter_append]
  simp only [List.filter_cons, List.filter_nil]

theorem inv_setTh {W : World} {s : Sys} {k : Nat} {t : Th} {v : Option (List Nat)} (I : Inv W s)
    (hv : okSlot W v) (ht : TI W t) : Inv W (setTh s k t v) :=
  ⟨hv, fun j => by
    simp only [setTh]
    split
    · exact ht
    · exact I.th j⟩

theorem inv_other {W : World} {s : Sys} (k : Nat) (I : Inv W s) : Inv W (other s k) := by
  have T := I.th k
  unfold other
  refine inv_setTh I I.slot { views := ?_, rets := T.rets, loop := T.loop, inner := T.inner, putF := T.putF, contF := T.contF, retF := T.retF }
  intro v hv
  rcases List.mem_append.mp hv with h | h
  · exact T.views v h
  · simp at h; subst h; exact I.slot

theorem inv_body {W : World} {s : Sys} (k : Nat) (I : Inv W s) : Inv W (body W false s k) := by
  have T := I.th k
  cases hpc : (s.th k).pc with
  | out =>
    simp only [body, hpc]
    exact inv_setTh I I.slot { views := T.views, rets := T.rets, loop := by simp, inner := by simp, putF := by simp, contF := by simp, retF := by simp }
  | new =>
    simp only [body, hpc, Bool.false_eq_true, if_false]
    exact inv_setTh I I.slot { views := T.views, rets := T.rets, loop := fun _ => by simp, inner := by simp, putF := by simp, contF := by simp,
                               retF := by simp }
  | forL =>
    have hl := T.loop (Or.inl hpc)
    simp only [body, hpc]
    split
    · rename_i h
      exact inv_setTh I I.slot { views := T.views, rets := T.rets, loop := fun _ => hl, inner := fun _ => h, putF := by simp, contF := by simp,
                                 retF := by simp }
    · rename_i h
      have hi : (s.th k).i = W.n := by omega
      exact inv_setTh I I.slot { views := T.views, rets := T.rets, loop := by simp, inner := by simp, putF := by simp, contF := by simp,
                                 retF := fun _ => by simp only [full]; rw [← hi]; exact hl.1 }
  | get =>
    have hl := T.loop (Or.inr (Or.inl hpc)); have hi := T.inner (Or.inl hpc)
    simp only [body, hpc]
    exact inv_setTh I I.slot { views := T.views, rets := T.rets, loop := fun _ => hl, inner := fun _ => hi, putF := by simp, contF := by simp,
                               retF := by simp }
  | chk =>
    have hl := T.loop (Or.inr (Or.inr (Or.inl hpc))); have hi := T.inner (Or.inr (Or.inl hpc))
    simp only [body, hpc]
    split
    · rename_i h
      exact inv_setTh I I.slot { views := T.views, rets := T.rets, loop := fun _ => hl, inner := fun _ => hi,
                                 putF := fun _ => h, contF := by simp, retF := by simp }
    · rename_i h
      exact inv_setTh I I.slot { views := T.views, rets := T.rets, loop := fun _ => hl, inner := fun _ => hi,
                                 putF := by simp, contF := fun _ => by simpa using h, retF := by simp }
  | cont =>
    have hl := T.loop (Or.inr (Or.inr (Or.inr (Or.inr hpc)))); have hi := T.inner (Or.inr (Or.inr (Or.inr hpc)))
    have h := T.contF hpc
    simp only [body, hpc]
    refine inv_setTh I I.slot { views := T.views, rets := T.rets, loop := fun _ => ⟨?_, by simp only; omega⟩,
                                 inner := by simp, putF := by simp, contF := by simp, retF := by simp }
    simp only [filter_range_succ, h, Bool.false_eq_true, if_false, List.append_nil]
    exact hl.1
  | put =>
    have hl := T.loop (Or.inr (Or.inr (Or.inr (Or.inl hpc)))); have hi := T.inner (Or.inr (Or.inr (Or.inl hpc))); have hf := T.putF hpc
    simp only [body, hpc, Bool.false_eq_true, if_false]
    refine inv_setTh I I.slot { views := T.views, rets := T.rets, loop := fun _ => ⟨?_, by simp only; omega⟩,
                                 inner := by simp, putF := by simp, contF := by simp, retF := by simp }
    simp only [filter_range_succ, hf, if_true, hl.1]
  | ret =>
    have hr := T.retF hpc
    simp only [body, hpc, Bool.false_eq_true, if_false]
    refine inv_setTh I (Or.inr (by rw [hr])) { views := T.views, rets := ?_, loop := by simp, inner := by simp,
                                                putF := by simp, contF := by simp, retF := by simp }
    intro r h
    rcases List.mem_append.mp h with h | h
    · exact T.rets r h
    · simp at h; rw [h, hr]

theorem inv_init (W : World) : Inv W init :=
  ⟨Or.inl rfl, fun _ => { views := by simp [init], rets := by simp [init], loop := by simp [init], inner := by simp [init],
                          putF := by simp [init], contF := by simp [init], retF := by simp [init] }⟩

theorem inv_run {W : World} (sched : List (Nat × Bool)) : ∀ {s : Sys}, Inv W s → Inv W (run W false s sched) := by
  induction sched with
  | nil => intro s I; exact I
  | cons e es ih =>
    intro s I
    apply ih
    unfold step
    split
    · exact inv_body e.1 I
    · exact inv_other e.1 I

end Utv.C20.Lazy
