import Utv.Lemmas.C10Items
/-!
C10, calls with positional arguments: what the positional loop reports, item by item, and its relation to
"the argument fails on its own" (`posFailing`); `parsed_keys` in closed form (`givenPos`).
-/
namespace Utv.C10

/-! ### `parse_data` with excluded keys: closed form and verdict -/

theorem runItems_collect (W : World) (n : Nat) (decl : List FieldDecl) (ex : List String) (mx : Option Nat)
    (hk : capOk mx 0) (o : Opts) (data : Data) :
    runItems W n decl ex ⟨true, mx⟩ o data =
      if reportsX (parse W n) ⟨true, mx⟩ o decl ex false data = [] then
        .ok (valueX (parse W n) ⟨true, mx⟩ o decl ex data)
      else .error (.collected (cap mx (reportsX (parse W n) ⟨true, mx⟩ o decl ex false data))) := by
  unfold runItems
  exact ran_finish hk (parseData_ran (parse W n) mx o decl ex false [] hk data)

theorem runItems_isError (W : World) (n : Nat) (decl : List FieldDecl) (ex : List String) (o : Opts) (data : Data) :
    isError (runItems W n decl ex .ff o data) = !(reportsX (parse W n) .ff o decl ex false data).isEmpty := by
  have hg := parse_good W ⟨true, none⟩ n
  have hv : isError (runItems W n decl ex .ff o data) = isError (runItems W n decl ex ⟨true, none⟩ o data) := by
    unfold runItems
    rcases sim_finish (parseData_sim hg decl ex false o data) with ⟨r, hF, hC⟩ | ⟨⟨c, x, hF⟩, c', x', hC⟩
    · rw [hF, hC]
    · rw [hF, hC]; rfl
  rw [hv, runItems_collect W n decl ex none trivial, ← reportsX_eq hg]
  cases reportsX (parse W n) .ff o decl ex false data with
  | nil => rfl
  | cons e es => rfl

theorem failsAloneX_iff (W : World) (n : Nat) (decl : List FieldDecl) (ex : List String) (o : Opts) (data : Data)
    (i : String) :
    failsAloneX W n decl ex o data i =
      (isItem decl data i && !(reportsX (parse W n) .ff o (declOf decl i) ex false (dataOf data i)).isEmpty) := by
  unfold failsAloneX
  rw [runItems_isError]

/-- a declaration of one field given exactly that field: rejected iff `parse_value` reports -/
theorem run_single (W : World) (n : Nat) (f : FieldDecl) (hp : f.posOnly = false) (o : Opts) (v : Val) :
    isError (runItems W n [f] [] .ff o [(f.name, v)]) = (repField (parse W n) .ff o f v).isSome := by
  rw [runItems_isError]
  unfold reportsX
  rw [countReports_false, List.nil_append]
  by_cases hd : o.dfs = true
  · simp only [hd, if_true]
    rw [reportsDF_eq]
    have h1 : g1 (parse W n) .ff o [f] [] (f.name, v) = repField (parse W n) .ff o f v := by
      simp [g1, hp]
    have h2 : g2 [(f.name, v)] [] f = none := by
      simp [g2, hasKey]
    simp only [List.filterMap_cons, List.filterMap_nil, h1, h2]
    cases repField (parse W n) .ff o f v <;> rfl
  · simp only [hd, Bool.false_eq_true, if_false]
    rw [reportsFF_eq]
    have h1' : h1 (parse W n) .ff o [(f.name, v)] [] f = repField (parse W n) .ff o f v := by
      simp [h1, List.lookup]
    have h2' : h2 (parse W n) .ff o [f] [] (f.name, v) = none := by
      simp [h2]
    simp only [List.filterMap_cons, List.filterMap_nil, h1', h2']
    cases repField (parse W n) .ff o f v <;> rfl

/-! ### the positional loop -/

/-- what one iteration of the positional loop reports (it does not depend on the accumulators) -/
def posRep (rec : P) (m : Mode) (o : Opts) (sg : Sig) (it : Val × Nat) : Option Err :=
  (posStep rec m o sg ([], []) it).err?

theorem posStep_err? (rec : P) (m : Mode) (o : Opts) (sg : Sig) (acc : List Val × List String) (it : Val × Nat) :
    (posStep rec m o sg acc it).err? = posRep rec m o sg it := by
  unfold posRep posStep
  by_cases hv : (sg.hasVar && decide (it.2 ≥ sg.npos)) = true
  · simp only [hv, if_true]
    cases sg.posTy with
    | none => rfl
    | some T =>
      simp only
      cases verdict rec T m o it.1 with
      | some r => rfl
      | none => cases o.invalidItems <;> rfl
  · simp only [hv, Bool.false_eq_true, if_false]
    cases (sg.decl.take sg.npos)[it.2]? with
    | none => rfl
    | some f =>
      simp only
      cases fieldValue rec m o f it.1 with
      | keep r => cases r <;> rfl
      | report e r => cases r <;> rfl
      | abort e x => rfl

theorem posReports_eq (rec : P) (m : Mode) (o : Opts) (sg : Sig) (args : List Val) :
    posReports rec m o sg args = args.zipIdx.filterMap (posRep rec m o sg) := by
  unfold posReports
  exact trace_filterMap (posRep rec m o sg) (posStep_noAbort rec m o sg) (posStep_err? rec m o sg) _ _

theorem repField_varField (rec : P) (m : Mode) (o : Opts) (sg : Sig) (v : Val) :
    repField rec m o (varField sg o) v =
      match sg.posTy with
      | none => none
      | some T =>
        match verdict rec T m o v with
        | some _ => none
        | none =>
          match o.invalidItems with
          | .throw => some { kind := .parse, item := some "*args" }
          | _ => none := by
  unfold repField fieldValue varField
  cases sg.posTy with
  | none => rfl
  | some T =>
    simp only
    cases verdict rec T m o v with
    | some r => rfl
    | none =>
      simp only [Option.getD_some]
      cases o.invalidItems <;> simp [Step.err?]

theorem policy_cases (p : Policy) : p = .throw ∨ p = .exclude ∨ p = .preserve := by
  cases p <;> simp

theorem posRep_field (rec : P) (m : Mode) (o : Opts) (sg : Sig) (it : Val × Nat) (f : FieldDecl)
    (hv : ¬ (sg.hasVar && decide (it.2 ≥ sg.npos)) = true) (hget : (sg.decl.take sg.npos)[it.2]? = some f) :
    posRep rec m o sg it = repField rec m o f it.1 := by
  unfold posRep posStep repField
  simp only [hv, Bool.false_eq_true, if_false, hget]
  cases fieldValue rec m o f it.1 with
  | keep r => cases r <;> rfl
  | report e r => cases r <;> rfl
  | abort e x => rfl

theorem posRep_none (rec : P) (m : Mode) (o : Opts) (sg : Sig) (it : Val × Nat)
    (hv : ¬ (sg.hasVar && decide (it.2 ≥ sg.npos)) = true) (hget : (sg.decl.take sg.npos)[it.2]? = none) :
    posRep rec m o sg it = none := by
  unfold posRep posStep
  simp only [hv, Bool.false_eq_true, if_false, hget]
  rfl

theorem posRep_var (rec : P) (m : Mode) (o : Opts) (sg : Sig) (it : Val × Nat)
    (hv : (sg.hasVar && decide (it.2 ≥ sg.npos)) = true) :
    posRep rec m o sg it =
      (repField rec m o (varField sg o) it.1).map fun _ =>
        { kind := .parse, item := some ("*args:" ++ toString it.2) } := by
  unfold posRep posStep
  rw [repField_varField]
  simp only [hv, if_true]
  cases sg.posTy with
  | none => rfl
  | some T =>
    simp only
    cases verdict rec T m o it.1 with
    | some r => rfl
    | none => cases o.invalidItems <;> rfl

/-- a reported positional error names the item that fails on its own, and conversely -/
theorem posRep_posFailing (W : World) (n : Nat) (sg : Sig) (o : Opts) (it : Val × Nat) :
    (∀ e, posRep (parse W n) .ff o sg it = some e → ∃ i, e.item = some i ∧ posFailing W n sg o it = some i) ∧
    (∀ i, posFailing W n sg o it = some i → ∃ e, posRep (parse W n) .ff o sg it = some e ∧ e.item = some i) := by
  unfold posFailing
  by_cases hv : (sg.hasVar && decide (it.2 ≥ sg.npos)) = true
  · simp only [hv, if_true]
    rw [show ("*args" : String) = (varField sg o).name from rfl, run_single _ _ _ rfl, posRep_var _ _ _ _ _ hv]
    rcases Option.eq_none_or_eq_some (repField (parse W n) .ff o (varField sg o) it.1) with hr | ⟨e0, hr⟩
    · simp [hr]
    · simp [hr]
  · simp only [hv, Bool.false_eq_true, if_false]
    rcases Option.eq_none_or_eq_some ((sg.decl.take sg.npos)[it.2]?) with hget | ⟨f, hget⟩
    · simp [hget, posRep_none _ _ _ _ _ hv hget]
    · simp only [hget]
      have hname : f.name = ({ f with posOnly := false } : FieldDecl).name := rfl
      have hrep : repField (parse W n) .ff o ({ f with posOnly := false } : FieldDecl) it.1 =
          repField (parse W n) .ff o f it.1 := rfl
      rw [hname, run_single _ _ _ rfl, hrep, posRep_field _ _ _ _ _ f hv hget]
      constructor
      · intro e he
        refine ⟨f.name, repField_item he, ?_⟩
        simp [he]
      · intro i hi
        rcases Option.eq_none_or_eq_some (repField (parse W n) .ff o f it.1) with hr | ⟨e, hr⟩
        · rw [hr] at hi; simp at hi
        · rw [hr] at hi
          simp only [Option.isSome_some, if_true, Option.some.injEq] at hi
          exact ⟨e, hr, by rw [← hi]; exact repField_item hr⟩

/-! ### `parsed_keys` in closed form -/

theorem drop_of_getElem? {l : List α} {k : Nat} {a : α} (h : l[k]? = some a) : l.drop k = a :: l.drop (k + 1) := by
  induction l generalizing k with
  | nil => simp at h
  | cons x xs ih =>
    cases k with
    | zero => simp at h; simp [h]
    | succ k => simp at h; simpa using ih h

theorem drop_of_getElem?_none {l : List α} {k : Nat} (h : l[k]? = none) : l.drop k = [] := by
  rw [List.getElem?_eq_none_iff] at h
  exact List.drop_eq_nil_of_le h

theorem fin_posStep_keys (rec : P) (m : Mode) (o : Opts) (sg : Sig) (args : List Val) (k : Nat)
    (acc : List Val × List String) :
    (fin (posStep rec m o sg) (args.zipIdx k) acc).2 =
      acc.2 ++ (((sg.decl.take sg.npos).drop k).take args.length).map (·.name) := by
  induction args generalizing k acc with
  | nil => simp [fin]
  | cons a as ih =>
    simp only [List.zipIdx_cons, fin, List.length_cons]
    generalize hgen : posStep rec m o sg acc (a, k) = s
    unfold posStep at hgen
    by_cases hv : (sg.hasVar && decide (k ≥ sg.npos)) = true
    · simp only [hv, if_true] at hgen
      have hk : sg.npos ≤ k := by
        simp only [Bool.and_eq_true, decide_eq_true_eq] at hv
        exact hv.2
      have hnil : (sg.decl.take sg.npos).drop k = [] :=
        List.drop_eq_nil_of_le (Nat.le_trans (List.length_take_le _ _) hk)
      have hnil' : (sg.decl.take sg.npos).drop (k + 1) = [] :=
        List.drop_eq_nil_of_le (Nat.le_trans (List.length_take_le _ _) (Nat.le_succ_of_le hk))
      have hres : ∀ acc' : List Val × List String, acc'.2 = acc.2 →
          (fin (posStep rec m o sg) (as.zipIdx (k + 1)) acc').2 =
            acc.2 ++ (((sg.decl.take sg.npos).drop k).take (as.length + 1)).map (·.name) := by
        intro acc' h2
        rw [ih (k + 1) acc', hnil, hnil', h2]
        simp
      rcases hpt : sg.posTy with _ | T
      · simp only [hpt] at hgen; subst hgen; exact hres _ rfl
      · simp only [hpt] at hgen
        rcases Option.eq_none_or_eq_some (verdict rec T m o a) with hvd | ⟨r, hvd⟩
        · simp only [hvd] at hgen
          rcases policy_cases o.invalidItems with hp | hp | hp <;>
            (simp only [hp] at hgen; subst hgen; exact hres _ rfl)
        · simp only [hvd] at hgen; subst hgen; exact hres _ rfl
    · simp only [hv, Bool.false_eq_true, if_false] at hgen
      rcases Option.eq_none_or_eq_some ((sg.decl.take sg.npos)[k]?) with hget | ⟨f, hget⟩
      · simp only [hget] at hgen
        subst hgen
        simp only
        rw [ih (k + 1) acc, drop_of_getElem?_none hget]
        have : (sg.decl.take sg.npos).drop (k + 1) = [] := by
          rw [List.getElem?_eq_none_iff] at hget
          exact List.drop_eq_nil_of_le (Nat.le_succ_of_le hget)
        rw [this]; simp
      · simp only [hget] at hgen
        have hd := drop_of_getElem? hget
        have hres : ∀ acc' : List Val × List String, acc'.2 = acc.2 ++ [f.name] →
            (fin (posStep rec m o sg) (as.zipIdx (k + 1)) acc').2 =
              acc.2 ++ (((sg.decl.take sg.npos).drop k).take (as.length + 1)).map (·.name) := by
          intro acc' h2
          rw [ih (k + 1) acc', hd, h2]
          simp
        cases hfv : fieldValue rec m o f a with
        | keep r =>
          cases r <;> (simp only [hfv] at hgen; subst hgen; exact hres _ rfl)
        | report e r =>
          cases r <;> (simp only [hfv] at hgen; subst hgen; exact hres _ rfl)
        | abort e x => exact absurd hfv (fieldValue_noAbort rec m o f a e x)

theorem posFin_keys (rec : P) (m : Mode) (o : Opts) (sg : Sig) (args : List Val) :
    (posFin rec m o sg args).2 = givenPos sg args := by
  unfold posFin givenPos
  have := fin_posStep_keys rec m o sg args 0 ([], [])
  simpa using this

/-- without positional-only parameters the second loop of `parse_params` does nothing -/
theorem callReports_noPosOnly (rec : P) (m : Mode) (o : Opts) (sg : Sig) (hpo : sg.nposOnly = 0) (args : List Val)
    (kwargs : Data) :
    callReports rec m o sg args kwargs =
      posReports rec m o sg args ++ reportsX rec m o sg.decl (givenPos sg args) true kwargs := by
  unfold callReports posOnlyReports keysFin
  rw [hpo]
  simp only [List.take_zero, List.zipIdx_nil, trace, fin, List.nil_append, List.append_nil]
  rw [posFin_keys]

end Utv.C10
