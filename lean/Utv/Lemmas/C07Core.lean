import Utv.Model.C07Spec
import Utv.Lemmas.C07Trace
/-! C07 — `Valid`, immutability and provenance are kept by every primitive update. -/
namespace Utv.C07
open Map
variable {V : Type} {C : Cls} {W : World V} {conf : String → V → Prop} {addOk : V → Prop}

/-! ### what `coerce` does -/

theorem coerce_cases (s : State V) (p : Field) :
    coerce C W s p = s ∨ ∃ v, compute C W s p = some v ∧ coerce C W s p = { s with data := s.data.set p.name v } := by
  unfold coerce
  split
  · exact Or.inl rfl
  · split
    · exact Or.inl rfl
    · split
      · exact Or.inl rfl
      · rename_i v hv
        exact Or.inr ⟨v, hv, rfl⟩

theorem compute_getter {s : State V} {p : Field} {v : V} (h : compute C W s p = some v) :
    ∃ xs, W.getter p.name xs = some v := by
  unfold compute at h
  cases hm : p.deps.mapM (fun d => (getField C d).bind (fieldGet W s)) with
  | none => simp [hm] at h
  | some xs => exact ⟨xs, by simpa [hm] using h⟩

/-! ### Valid -/

theorem valid_setData (hwf : WF C) {s : State V} (h : Valid C conf addOk s) {f : Field} (hf : f ∈ C.fields)
    (hno : f.noOutput = false) {pv : V} (hc : conf f.name pv) :
    Valid C conf addOk { s with data := s.data.set f.name pv } := by
  refine ⟨?_, ?_, h.confAttr, ?_, ?_, ?_, ?_⟩
  · intro k v g hk hg
    simp only [get_set] at hk
    by_cases e : k = f.name
    · subst e
      rw [getField_name hwf hf] at hg
      cases hg
      rfl
    · simp only [e, if_false] at hk
      exact h.keyName k v g hk hg
  · intro g hg v hv
    simp only [get_set] at hv
    by_cases e : g.name = f.name
    · have := name_inj hwf hg hf e
      subst this
      simp only [if_true] at hv
      cases hv
      exact hc
    · simp only [e, if_false] at hv
      exact h.confData g hg v hv
  · intro k v hk hg
    simp only [get_set] at hk
    by_cases e : k = f.name
    · subst e
      rw [getField_name hwf hf] at hg
      cases hg
    · simp only [e, if_false] at hk
      exact h.addition k v hk hg
  · intro g hg hr hi
    have := h.required g hg hr hi
    unfold present at this ⊢
    split
    · rename_i hn; simpa [hn] using this
    · rename_i hn
      simp only [hn] at this
      simp only [has_set]
      simp [show s.data.has g.name = true by simpa using this]
  · intro g hg hn
    simp only [get_set]
    by_cases e : g.name = f.name
    · have := name_inj hwf hg hf e
      subst this
      rw [hno] at hn
      cases hn
    · simp only [e, if_false]
      exact h.viewsNo g hg hn
  · intro g hg hn hnone
    simp only [get_set] at hnone
    by_cases e : g.name = f.name
    · simp [e] at hnone
    · simp only [e, if_false] at hnone
      exact h.viewsOut g hg hn hnone

theorem valid_setAttr (hwf : WF C) {s : State V} (h : Valid C conf addOk s) {f : Field} (hf : f ∈ C.fields)
    (hno : f.noOutput = true) {pv : V} (hc : conf f.name pv) :
    Valid C conf addOk { data := s.data.del f.name, attrs := s.attrs.set f.attname pv } := by
  have hnone : s.data.get f.name = none := h.viewsNo f hf hno
  have hdata : ∀ k, (s.data.del f.name).get k = s.data.get k := by
    intro k
    rw [get_del]
    split
    · rename_i e; rw [e, hnone]
    · rfl
  refine ⟨?_, ?_, ?_, ?_, ?_, ?_, ?_⟩
  · intro k v g hk hg
    rw [hdata] at hk
    exact h.keyName k v g hk hg
  · intro g hg v hv
    rw [hdata] at hv
    exact h.confData g hg v hv
  · intro g hg v hv
    simp only [get_set] at hv
    by_cases e : g.attname = f.attname
    · have := att_inj hwf hg hf e
      subst this
      simp only [if_true] at hv
      cases hv
      exact hc
    · simp only [e, if_false] at hv
      exact h.confAttr g hg v hv
  · intro k v hk hg
    rw [hdata] at hk
    exact h.addition k v hk hg
  · intro g hg hr hi
    have := h.required g hg hr hi
    unfold present at this ⊢
    split
    · rename_i hn
      simp only [hn, if_true] at this
      simp only [has_set]
      simp [this]
    · rename_i hn
      simp only [hn] at this
      have h2 : s.data.has g.name = true := by simpa using this
      obtain ⟨v, hv⟩ := (has_iff _ _).mp h2
      exact (has_iff _ _).mpr ⟨v, by rw [hdata]; exact hv⟩
  · intro g hg hn
    rw [hdata]
    exact h.viewsNo g hg hn
  · intro g hg hn hnone'
    rw [hdata] at hnone'
    simp only [get_set]
    by_cases e : g.attname = f.attname
    · have := att_inj hwf hg hf e
      subst this
      rw [hno] at hn
      cases hn
    · simp only [e, if_false]
      exact h.viewsOut g hg hn hnone'

theorem valid_storeField (hwf : WF C) {s : State V} (h : Valid C conf addOk s) {f : Field} (hf : f ∈ C.fields)
    {pv : V} (hc : conf f.name pv) : Valid C conf addOk (storeField s f pv) := by
  unfold storeField
  split
  · rename_i hn; exact valid_setAttr hwf h hf hn hc
  · rename_i hn; exact valid_setData hwf h hf (by simpa using hn) hc

theorem valid_coerce (hwf : WF C) (hl : Laws W conf addOk) {s : State V} (h : Valid C conf addOk s) {p : Field}
    (hp : p ∈ C.fields) (hpp : p.isProp = true) : Valid C conf addOk (coerce C W s p) := by
  rcases coerce_cases (C := C) (W := W) s p with e | ⟨v, hv, e⟩
  · rw [e]; exact h
  · rw [e]
    obtain ⟨xs, hx⟩ := compute_getter hv
    exact valid_setData hwf h hp (hwf.propPlain p hp hpp).2.2.1 (hl.getterSound _ _ _ hx)

/-- an invariant kept by recomputing any property is kept by the dependants loop -/
theorem coerceDependants_preserves (P : State V → Prop)
    (hP : ∀ s p, P s → p ∈ C.fields → p.isProp = true → P (coerce C W s p)) (f : Field) :
    ∀ s : State V, P s → P (coerceDependants C W s f) := by
  unfold coerceDependants
  induction f.dependants with
  | nil => intro s h; exact h
  | cons q qs ih =>
    intro s h
    simp only [List.foldl_cons]
    apply ih
    split
    · rename_i p hq
      split
      · rename_i hpp; exact hP s p h (getField_some hq).1 hpp
      · exact h
    · exact h

theorem clearAttrs_get (s : State V) (a : String) :
    (clearAttrs C s).get a = if C.fields.any (fun f => s.data.has f.name && decide (f.attname = a)) then none
      else s.attrs.get a := by
  unfold clearAttrs
  suffices ∀ (l : List Field) (m : Map V),
      (l.foldl (fun a f => if s.data.has f.name then a.del f.attname else a) m).get a =
        if l.any (fun f => s.data.has f.name && decide (f.attname = a)) then none else m.get a from this _ _
  intro l
  induction l with
  | nil => intro m; simp
  | cons g l ih =>
    intro m
    simp only [List.foldl_cons, List.any_cons]
    rw [ih]
    by_cases hg : s.data.has g.name = true
    · by_cases ha : g.attname = a
      · simp [hg, ha, get_del]
      · have ha' : ¬ a = g.attname := fun e => ha e.symm
        simp [hg, ha, ha', get_del]
    · simp [hg]

theorem valid_prim (hwf : WF C) (hl : Laws W conf addOk) {strict : Bool} (s : State V) (p : Prim V)
    (h : Valid C conf addOk s) (hok : Prim.ok strict C W s p) : Valid C conf addOk (p.apply C W s) := by
  cases p with
  | store f pv =>
    obtain ⟨hf, _, _, _, x, hx⟩ := hok
    exact coerceDependants_preserves (Valid C conf addOk) (fun s p h hp hpp => valid_coerce hwf hl h hp hpp) f _
      (valid_storeField hwf h hf (hl.parseSound _ _ _ hx))
  | recompute q =>
    exact valid_coerce hwf hl h hok.1 hok.2
  | setAdd k v =>
    obtain ⟨hk, _, hadd⟩ := hok
    have hne : ∀ g ∈ C.fields, g.name ≠ k := fun g hg => getField_none_ne hwf hk hg
    refine ⟨?_, ?_, h.confAttr, ?_, ?_, ?_, ?_⟩
    · intro k' v' g hk' hg
      simp only [Prim.apply, get_set] at hk'
      by_cases e : k' = k
      · subst e; rw [hk] at hg; cases hg
      · simp only [e, if_false] at hk'
        exact h.keyName k' v' g hk' hg
    · intro g hg v' hv
      simp only [Prim.apply, get_set, hne g hg, if_false] at hv
      exact h.confData g hg v' hv
    · intro k' v' hk' hg
      simp only [Prim.apply, get_set] at hk'
      by_cases e : k' = k
      · simp only [e, if_true] at hk'
        cases hk'
        rcases hadd with ha | ⟨ha, x, hx⟩
        · exact Or.inl ha
        · exact Or.inr ⟨ha, hl.addSound _ _ hx⟩
      · simp only [e, if_false] at hk'
        exact h.addition k' v' hk' hg
    · intro g hg hr hi
      have := h.required g hg hr hi
      unfold present at this ⊢
      split
      · rename_i hn; simpa [hn, Prim.apply] using this
      · rename_i hn
        simp only [hn] at this
        simp only [Prim.apply, has_set]
        simp [show s.data.has g.name = true by simpa using this]
    · intro g hg hn
      simp only [Prim.apply, get_set, hne g hg, if_false]
      exact h.viewsNo g hg hn
    · intro g hg hn hnone
      simp only [Prim.apply, get_set, hne g hg, if_false] at hnone
      exact h.viewsOut g hg hn hnone
  | remove f =>
    obtain ⟨hf, _, _, hreq, hhas, _⟩ := hok
    have hfno : f.noOutput = false := by
      cases hn : f.noOutput with
      | false => rfl
      | true =>
        have := h.viewsNo f hf hn
        rw [(has_false_iff _ _).mpr this] at hhas
        cases hhas
    refine ⟨?_, ?_, ?_, ?_, ?_, ?_, ?_⟩
    · intro k v g hk hg
      simp only [Prim.apply, get_del] at hk
      split at hk
      · cases hk
      · exact h.keyName k v g hk hg
    · intro g hg v hv
      simp only [Prim.apply, get_del] at hv
      split at hv
      · cases hv
      · exact h.confData g hg v hv
    · intro g hg v hv
      simp only [Prim.apply, get_del] at hv
      split at hv
      · cases hv
      · exact h.confAttr g hg v hv
    · intro k v hk hg
      simp only [Prim.apply, get_del] at hk
      split at hk
      · cases hk
      · exact h.addition k v hk hg
    · intro g hg hr hi
      have hgf : g ≠ f := by
        intro e
        subst e
        rcases hreq with h1 | h1
        · rw [h1] at hr; cases hr
        · rw [h1] at hi; cases hi
      have hne : g.name ≠ f.name := fun e => hgf (name_inj hwf hg hf e)
      have hna : g.attname ≠ f.attname := fun e => hgf (att_inj hwf hg hf e)
      have := h.required g hg hr hi
      unfold present at this ⊢
      simp only [Prim.apply, has_del, hne, hna, decide_false, Bool.not_false, Bool.true_and]
      exact this
    · intro g hg hn
      simp only [Prim.apply, get_del]
      split
      · rfl
      · exact h.viewsNo g hg hn
    · intro g hg hn hnone
      simp only [Prim.apply, get_del] at hnone ⊢
      by_cases e : g.name = f.name
      · have := name_inj hwf hg hf e
        subst this
        simp
      · simp only [e, if_false] at hnone
        have := h.viewsOut g hg hn hnone
        split
        · rfl
        · exact this
  | delKey k =>
    have hk : getField C k = none := hok
    have hne : ∀ g ∈ C.fields, g.name ≠ k := fun g hg => getField_none_ne hwf hk hg
    refine ⟨?_, ?_, h.confAttr, ?_, ?_, ?_, ?_⟩
    · intro k' v' g hk' hg
      simp only [Prim.apply, get_del] at hk'
      split at hk'
      · cases hk'
      · exact h.keyName k' v' g hk' hg
    · intro g hg v' hv
      simp only [Prim.apply, get_del, hne g hg, if_false] at hv
      exact h.confData g hg v' hv
    · intro k' v' hk' hg
      simp only [Prim.apply, get_del] at hk'
      split at hk'
      · cases hk'
      · exact h.addition k' v' hk' hg
    · intro g hg hr hi
      have := h.required g hg hr hi
      unfold present at this ⊢
      simp only [Prim.apply, has_del, hne g hg, decide_false, Bool.not_false, Bool.true_and]
      exact this
    · intro g hg hn
      simp only [Prim.apply, get_del, hne g hg, if_false]
      exact h.viewsNo g hg hn
    · intro g hg hn hnone
      simp only [Prim.apply, get_del, hne g hg, if_false] at hnone
      exact h.viewsOut g hg hn hnone
  | clear =>
    have hall : ∀ f ∈ C.fields, f.immutable = false ∧ (f.required = false ∨ C.opts.ignoreRequired = true) := hok
    refine ⟨?_, ?_, ?_, ?_, ?_, ?_, ?_⟩
    · intro k v g hk; simp [Prim.apply] at hk
    · intro g hg v hv; simp [Prim.apply] at hv
    · intro g hg v hv
      simp only [Prim.apply, clearAttrs_get] at hv
      split at hv
      · cases hv
      · exact h.confAttr g hg v hv
    · intro k v hk; simp [Prim.apply] at hk
    · intro g hg hr hi
      rcases (hall g hg).2 with h1 | h1
      · rw [h1] at hr; cases hr
      · rw [h1] at hi; cases hi
    · intro g hg hn; simp [Prim.apply]
    · intro g hg hn _
      simp only [Prim.apply, clearAttrs_get]
      split
      · rfl
      · rename_i hany
        cases hd : s.data.get g.name with
        | none => exact h.viewsOut g hg hn hd
        | some v =>
          exfalso
          apply hany
          rw [List.any_eq_true]
          exact ⟨g, hg, by simp [(has_iff _ _).mpr ⟨v, hd⟩]⟩
  | setAttrOther a v =>
    have ha : fieldByAtt C a = none := hok
    have hne : ∀ g ∈ C.fields, g.attname ≠ a := fun g hg => fieldByAtt_none ha hg
    refine ⟨h.keyName, h.confData, ?_, h.addition, ?_, h.viewsNo, ?_⟩
    · intro g hg v' hv
      simp only [Prim.apply, get_set, hne g hg, if_false] at hv
      exact h.confAttr g hg v' hv
    · intro g hg hr hi
      have := h.required g hg hr hi
      unfold present at this ⊢
      simp only [Prim.apply, has_set, hne g hg, decide_false, Bool.false_or]
      exact this
    · intro g hg hn hnone
      simp only [Prim.apply, get_set, hne g hg, if_false]
      exact h.viewsOut g hg hn hnone
  | delAttrOther a =>
    have ha : fieldByAtt C a = none := hok
    have hne : ∀ g ∈ C.fields, g.attname ≠ a := fun g hg => fieldByAtt_none ha hg
    refine ⟨h.keyName, h.confData, ?_, h.addition, ?_, h.viewsNo, ?_⟩
    · intro g hg v' hv
      simp only [Prim.apply, get_del, hne g hg, if_false] at hv
      exact h.confAttr g hg v' hv
    · intro g hg hr hi
      have := h.required g hg hr hi
      unfold present at this ⊢
      simp only [Prim.apply, has_del, hne g hg, decide_false, Bool.not_false, Bool.true_and]
      exact this
    · intro g hg hn hnone
      simp only [Prim.apply, get_del, hne g hg, if_false]
      exact h.viewsOut g hg hn hnone

/-! ### immutable fields -/

theorem stored_coerce (hwf : WF C) {f : Field} (hf : f ∈ C.fields) (hi : f.immutable = true) (s : State V)
    {p : Field} (hp : p ∈ C.fields) (hpp : p.isProp = true) : stored (coerce C W s p) f = stored s f := by
  rcases coerce_cases (C := C) (W := W) s p with e | ⟨v, _, e⟩
  · rw [e]
  · rw [e]
    have hne : f.name ≠ p.name := by
      intro e'
      have := name_inj hwf hf hp e'
      subst this
      rw [(hwf.propPlain f hp hpp).2.1] at hi
      cases hi
    simp [stored, get_set, hne]

theorem stored_prim (hwf : WF C) {strict : Bool} {f : Field} (hf : f ∈ C.fields) (hi : f.immutable = true)
    (s : State V) (p : Prim V) (hok : Prim.ok strict C W s p) : stored (p.apply C W s) f = stored s f := by
  cases p with
  | store g pv =>
    obtain ⟨hg, _, hgi, _, _⟩ := hok
    have hgf : f ≠ g := by intro e; subst e; rw [hgi] at hi; cases hi
    have hne : f.name ≠ g.name := fun e => hgf (name_inj hwf hf hg e)
    have hna : f.attname ≠ g.attname := fun e => hgf (att_inj hwf hf hg e)
    have h1 : stored (storeField s g pv) f = stored s f := by
      unfold storeField
      split <;> simp [stored, get_set, get_del, hne, hna]
    have := coerceDependants_preserves (C := C) (W := W) (fun t => stored t f = stored s f)
      (fun t p ht hp hpp => by rw [stored_coerce hwf hf hi t hp hpp]; exact ht) g _ h1
    exact this
  | recompute q => exact stored_coerce hwf hf hi s hok.1 hok.2
  | setAdd k v =>
    have hne : f.name ≠ k := getField_none_ne hwf hok.1 hf
    simp [Prim.apply, stored, get_set, hne]
  | remove g =>
    obtain ⟨hg, hgi, _⟩ := hok
    have hgf : f ≠ g := by intro e; subst e; rw [hgi] at hi; cases hi
    have hne : f.name ≠ g.name := fun e => hgf (name_inj hwf hf hg e)
    have hna : f.attname ≠ g.attname := fun e => hgf (att_inj hwf hf hg e)
    simp [Prim.apply, stored, get_del, hne, hna]
  | delKey k =>
    have hk : getField C k = none := hok
    have hne : f.name ≠ k := getField_none_ne hwf hk hf
    simp [Prim.apply, stored, get_del, hne]
  | clear =>
    have hall : ∀ f ∈ C.fields, f.immutable = false ∧ (f.required = false ∨ C.opts.ignoreRequired = true) := hok
    rw [(hall f hf).1] at hi
    cases hi
  | setAttrOther a v =>
    have ha : fieldByAtt C a = none := hok
    have hne : f.attname ≠ a := fieldByAtt_none ha hf
    simp [Prim.apply, stored, get_set, hne]
  | delAttrOther a =>
    have ha : fieldByAtt C a = none := hok
    have hne : f.attname ≠ a := fieldByAtt_none ha hf
    simp [Prim.apply, stored, get_del, hne]

/-! ### provenance -/

/-- every entry of `t` is an entry of `s` or has a legitimate origin -/
def Prov (C : Cls) (W : World V) (s t : State V) : Prop := ∀ k v, t.data.get k = some v → Origin C W s k v

theorem Prov.refl (s : State V) : Prov C W s s := fun _ _ h => Or.inl h

theorem Prov.trans {a b c : State V} (h1 : Prov C W a b) (h2 : Prov C W b c) : Prov C W a c := by
  intro k v hk
  rcases h2 k v hk with h | h | h | h
  · exact h1 k v h
  · exact Or.inr (Or.inl h)
  · exact Or.inr (Or.inr (Or.inl h))
  · exact Or.inr (Or.inr (Or.inr h))

theorem prov_coerce (hwf : WF C) (s : State V) {p : Field} (hp : p ∈ C.fields) : Prov C W s (coerce C W s p) := by
  rcases coerce_cases (C := C) (W := W) s p with e | ⟨v, hv, e⟩
  · rw [e]; exact Prov.refl s
  · rw [e]
    intro k v' hk
    simp only [get_set] at hk
    by_cases e' : k = p.name
    · simp only [e', if_true] at hk
      cases hk
      obtain ⟨xs, hx⟩ := compute_getter hv
      exact Or.inr (Or.inr (Or.inl ⟨p, xs, by rw [e']; exact getField_name hwf hp, hx⟩))
    · simp only [e', if_false] at hk
      exact Or.inl hk

theorem prov_prim (hwf : WF C) {strict : Bool} (s : State V) (p : Prim V) (hok : Prim.ok strict C W s p) :
    Prov C W s (p.apply C W s) := by
  cases p with
  | store f pv =>
    obtain ⟨hf, _, _, _, x, hx⟩ := hok
    have h1 : Prov C W s (storeField s f pv) := by
      intro k v hk
      unfold storeField at hk
      split at hk
      · simp only [get_del] at hk
        split at hk
        · cases hk
        · exact Or.inl hk
      · simp only [get_set] at hk
        by_cases e : k = f.name
        · simp only [e, if_true] at hk
          cases hk
          exact Or.inr (Or.inl ⟨f, x, by rw [e]; exact getField_name hwf hf, hx⟩)
        · simp only [e, if_false] at hk
          exact Or.inl hk
    exact coerceDependants_preserves (C := C) (W := W) (fun t => Prov C W s t)
      (fun t p ht hp _ => ht.trans (prov_coerce hwf t hp)) f _ h1
  | recompute q => exact prov_coerce hwf s hok.1
  | setAdd k v =>
    obtain ⟨hk, _, hadd⟩ := hok
    intro k' v' hk'
    simp only [Prim.apply, get_set] at hk'
    by_cases e : k' = k
    · simp only [e, if_true] at hk'
      cases hk'
      refine Or.inr (Or.inr (Or.inr ⟨by rw [e]; exact hk, ?_⟩))
      rcases hadd with ha | ⟨_, x, hx⟩
      · exact Or.inl ha
      · exact Or.inr ⟨x, hx⟩
    · simp only [e, if_false] at hk'
      exact Or.inl hk'
  | remove f =>
    intro k v hk
    simp only [Prim.apply, get_del] at hk
    split at hk
    · cases hk
    · exact Or.inl hk
  | delKey k =>
    intro k' v hk
    simp only [Prim.apply, get_del] at hk
    split at hk
    · cases hk
    · exact Or.inl hk
  | clear => intro k v hk; simp [Prim.apply] at hk
  | setAttrOther a v => exact Prov.refl s
  | delAttrOther a => exact Prov.refl s

end Utv.C07
