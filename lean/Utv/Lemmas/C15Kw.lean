import Utv.Lemmas.C15Parse
/-! Simple keywords: a constraint of the built type answers for its keyword; keywords of another primitive type
are vacuous on a value of this one. -/
set_option linter.unusedSimpArgs false
set_option linter.unusedVariables false
namespace Utv.C15
open Utv.JsonSchema

/-- the simple assertion keywords of the fragment and the constraint each becomes -/
def simpleKws : List (String × String) :=
  [("multipleOf", "multiple_of"), ("maximum", "le"), ("minimum", "ge"), ("exclusiveMaximum", "lt"),
   ("exclusiveMinimum", "gt"), ("enum", "enum"), ("const", "const"), ("maxItems", "max_length"),
   ("minItems", "min_length"), ("uniqueItems", "unique_items"), ("maxProperties", "max_length"),
   ("minProperties", "min_length"), ("minLength", "min_length"), ("maxLength", "max_length"), ("pattern", "regex")]

theorem simpleKws_cmap (k name : String) (h : (k, name) ∈ simpleKws) : cmapOf k = some name := by
  simp [simpleKws] at h
  rcases h with ⟨rfl, rfl⟩ | ⟨rfl, rfl⟩ | ⟨rfl, rfl⟩ | ⟨rfl, rfl⟩ | ⟨rfl, rfl⟩ | ⟨rfl, rfl⟩ | ⟨rfl, rfl⟩ | ⟨rfl, rfl⟩ |
    ⟨rfl, rfl⟩ | ⟨rfl, rfl⟩ | ⟨rfl, rfl⟩ | ⟨rfl, rfl⟩ | ⟨rfl, rfl⟩ | ⟨rfl, rfl⟩ | ⟨rfl, rfl⟩ <;>
    simp [cmapOf, constraintsMap, List.lookup]

theorem numSat_numKw (rel : Num → Num → Bool) (v j : Json) (h : numSat rel v j = true) : numKw rel v j = true := by
  cases v <;> cases j <;> simp_all [numSat, numKw]

theorem lenSat_sizeKw (size : Json → Option Nat) (hsize : ∀ j n, size j = some n → sizeOf? j = some n)
    (rel : Num → Num → Bool) (v j : Json) (h : lenSat rel v j = true) : sizeKw size rel v j = true := by
  cases v <;> simp_all [lenSat, sizeKw]
  cases hs : size j with
  | none => simp
  | some n => simp [hsize j n hs] at h; simpa using h

theorem strSize_sizeOf (j : Json) (n : Nat) (h : strSize j = some n) : sizeOf? j = some n := by
  cases j <;> simp_all [strSize, sizeOf?]
theorem arrSize_sizeOf (j : Json) (n : Nat) (h : arrSize j = some n) : sizeOf? j = some n := by
  cases j <;> simp_all [arrSize, sizeOf?]
theorem objSize_sizeOf (j : Json) (n : Nat) (h : objSize j = some n) : sizeOf? j = some n := by
  cases j <;> simp_all [objSize, sizeOf?]

/-- Lemma A: the constraint, in its strict sense on the JSON form, gives the keyword's assertion -/
theorem sat_check (R : Rx) (hR : ∀ p x, R.full p x = true → R.search p x = true) (C : Ctx) (hC : C.search = R.search)
    (k name : String) (v j : Json) (hk : (k, name) ∈ simpleKws) (h : sat R (name, v) j = true) :
    checkSimple C k v j = true := by
  simp [simpleKws] at hk
  rcases hk with ⟨rfl, rfl⟩ | ⟨rfl, rfl⟩ | ⟨rfl, rfl⟩ | ⟨rfl, rfl⟩ | ⟨rfl, rfl⟩ | ⟨rfl, rfl⟩ | ⟨rfl, rfl⟩ | ⟨rfl, rfl⟩ |
    ⟨rfl, rfl⟩ | ⟨rfl, rfl⟩ | ⟨rfl, rfl⟩ | ⟨rfl, rfl⟩ | ⟨rfl, rfl⟩ | ⟨rfl, rfl⟩ | ⟨rfl, rfl⟩
  · simp only [sat] at h; simp at h; simp [checkSimple]; exact numSat_numKw _ v j h
  · simp only [sat] at h; simp at h; simp [checkSimple]; exact numSat_numKw _ v j h
  · simp only [sat] at h; simp at h; simp [checkSimple]; exact numSat_numKw _ v j h
  · simp only [sat] at h; simp at h; simp [checkSimple]; exact numSat_numKw _ v j h
  · simp only [sat] at h; simp at h; simp [checkSimple]; exact numSat_numKw _ v j h
  · simp only [sat] at h; simp at h; simp [checkSimple, kEnum]; cases v <;> simp_all
  · simp only [sat] at h; simp at h; simp [checkSimple]; exact h
  · simp only [sat] at h; simp at h; simp [checkSimple]; exact lenSat_sizeKw arrSize arrSize_sizeOf _ v j h
  · simp only [sat] at h; simp at h; simp [checkSimple]; exact lenSat_sizeKw arrSize arrSize_sizeOf _ v j h
  · simp only [sat] at h; simp at h; simp [checkSimple, kUnique]
    cases v <;> try simp_all
    rename_i b; cases b <;> try simp_all
    cases j <;> simp_all
  · simp only [sat] at h; simp at h; simp [checkSimple]; exact lenSat_sizeKw objSize objSize_sizeOf _ v j h
  · simp only [sat] at h; simp at h; simp [checkSimple]; exact lenSat_sizeKw objSize objSize_sizeOf _ v j h
  · simp only [sat] at h; simp at h; simp [checkSimple]; exact lenSat_sizeKw strSize strSize_sizeOf _ v j h
  · simp only [sat] at h; simp at h; simp [checkSimple]; exact lenSat_sizeKw strSize strSize_sizeOf _ v j h
  · simp only [sat] at h; simp at h; simp [checkSimple, kPattern]
    cases v <;> try simp_all
    cases j <;> try simp_all
    all_goals (try (rw [hC]; exact hR _ _ h))

/-- the keyword is kept by `get_constraints` for primitive type `ty` -/
def kept (ty : Option String) (k : String) : Bool :=
  match groupKeywords ty with
  | some l => l.contains k
  | none => true

theorem mem_getConstraints (kvs : Obj) (ty : Option String) (k name : String) (v : Json)
    (hm : (k, v) ∈ kvs) (hc : cmapOf k = some name) (hk : kept ty k = true) : (name, v) ∈ getConstraints kvs ty := by
  unfold getConstraints
  apply List.mem_filterMap.mpr
  refine ⟨(k, v), hm, ?_⟩
  simp only [hc]
  unfold kept at hk
  cases hg : groupKeywords ty with
  | none => rfl
  | some l => simp [hg] at hk ⊢; exact hk

theorem groupKeywords_string : groupKeywords (some "string") = some ["pattern", "maxLength", "minLength", "enum", "const"] := by
  simp [groupKeywords, typeGroups, List.filter]
theorem groupKeywords_integer : groupKeywords (some "integer") = some ["multipleOf", "maximum", "exclusiveMaximum", "minimum",
    "exclusiveMinimum", "decimalPlaces", "maxDigits", "enum", "const"] := by
  simp [groupKeywords, typeGroups, List.filter]
theorem groupKeywords_number : groupKeywords (some "number") = some ["multipleOf", "maximum", "exclusiveMaximum", "minimum",
    "exclusiveMinimum", "decimalPlaces", "maxDigits", "enum", "const"] := by
  simp [groupKeywords, typeGroups, List.filter]
theorem groupKeywords_array : groupKeywords (some "array") = some ["maxItems", "minItems", "uniqueItems", "maxContains",
    "minContains", "contains", "enum", "const"] := by
  simp [groupKeywords, typeGroups, List.filter]
theorem groupKeywords_object : groupKeywords (some "object") = some ["maxProperties", "minProperties", "enum", "const"] := by
  simp [groupKeywords, typeGroups, List.filter]
theorem groupKeywords_boolean : groupKeywords (some "boolean") = some ["enum", "const"] := by
  simp [groupKeywords, typeGroups, List.filter]
theorem groupKeywords_null : groupKeywords (some "null") = some ["enum", "const"] := by
  simp [groupKeywords, typeGroups, List.filter]

/-- Lemma S: every simple keyword of the schema holds of a value of the schema's primitive type that meets the
constraints `get_constraints` kept -/
theorem simple_ok (R : Rx) (hR : ∀ p x, R.full p x = true → R.search p x = true) (C : Ctx) (hC : C.search = R.search)
    (kvs : Obj) (ty : Option String) (j : Json)
    (hty : ∀ t, ty = some t → primitiveNames.contains t = true ∧ typeIs t j = true)
    (hcons : ∀ c ∈ getConstraints kvs ty, sat R c j = true)
    (k name : String) (v : Json) (hk : (k, name) ∈ simpleKws) (hm : (k, v) ∈ kvs) : checkSimple C k v j = true := by
  by_cases hkept : kept ty k = true
  · exact sat_check R hR C hC k name v j hk (hcons _ (mem_getConstraints kvs ty k name v hm (simpleKws_cmap k name hk) hkept))
  · -- filtered out: the keyword is about another primitive type than the value's
    cases ty with
    | none => simp [kept, groupKeywords] at hkept
    | some t =>
      obtain ⟨htn, htj⟩ := hty t rfl
      simp [primitiveNames] at htn
      simp [simpleKws] at hk
      rcases htn with rfl | rfl | rfl | rfl | rfl | rfl | rfl <;>
      simp [kept, groupKeywords_string, groupKeywords_integer, groupKeywords_number, groupKeywords_array,
        groupKeywords_object, groupKeywords_boolean, groupKeywords_null] at hkept <;>
      cases j <;> simp [typeIs] at htj <;>
      rcases hk with ⟨rfl, rfl⟩ | ⟨rfl, rfl⟩ | ⟨rfl, rfl⟩ | ⟨rfl, rfl⟩ | ⟨rfl, rfl⟩ | ⟨rfl, rfl⟩ | ⟨rfl, rfl⟩ | ⟨rfl, rfl⟩ |
        ⟨rfl, rfl⟩ | ⟨rfl, rfl⟩ | ⟨rfl, rfl⟩ | ⟨rfl, rfl⟩ | ⟨rfl, rfl⟩ | ⟨rfl, rfl⟩ | ⟨rfl, rfl⟩ <;>
      simp at hkept <;>
      (cases v <;> simp [checkSimple, numKw, sizeKw, strSize, arrSize, objSize, kUnique, kPattern]) <;>
      (try (split <;> rfl))

/-! ### the primitive type of what conforms to a class -/

theorem primOk_typeIs (p : Prim) (j : Json) (h : primOk p j = true) : typeIs (primitiveOf p) j = true := by
  cases p <;> cases j <;> simp [primOk, primitiveOf, typeIs] at h ⊢
  exact h

theorem typeMap_primitive (t : String) (p : Prim) (ht : primitiveNames.contains t = true) (h : typeMap t = some p) :
    primitiveOf p = t := by
  simp [primitiveNames] at ht
  rcases ht with rfl | rfl | rfl | rfl | rfl | rfl | rfl <;> simp [typeMap] at h <;> subst h <;> rfl

theorem typeMap_some (t : String) (ht : primitiveNames.contains t = true) : ∃ p, typeMap t = some p := by
  simp [primitiveNames] at ht
  rcases ht with rfl | rfl | rfl | rfl | rfl | rfl | rfl <;> simp [typeMap]

end Utv.C15
