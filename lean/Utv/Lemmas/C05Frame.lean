import Utv.Lemmas.C05Table
/-! "… and on nothing else": what an option does NOT touch.  For each behaviour option the contract with the option
changed is compared with the contract without — either equal outright (the option has nothing to act on) or equal up to
the one documented component. -/
namespace Utv.C05
open Spec

variable {V : Type}

/-- two option sets under which every field and every unknown key fare alike give the same contract, but for the
params check -/
theorem contract_congr [DecidableEq V] (W : World V) (P : Parser V) (o o' : Opts V) (data : List (Key × V))
    (hp : paramsContract o' data.length = paramsContract o data.length)
    (hf : ∀ f, fieldContract W o' f data = fieldContract W o f data)
    (ha : ∀ kv, additionContract W P.additionTyped (P.excludeVars.contains kv.1) o' kv
              = additionContract W P.additionTyped (P.excludeVars.contains kv.1) o kv) :
    contract W P o' data = contract W P o data := by
  unfold contract
  simp only [hp, hf, ha]

/-! #### max_params / min_params: one error in front, nothing else -/

def Opts.noParams (o : Opts V) : Opts V := { o with maxParams := none, minParams := none }

theorem frame_params [DecidableEq V] (W : World V) (P : Parser V) (o : Opts V) (data : List (Key × V)) :
    (contract W P o data).result = (contract W P o.noParams data).result
    ∧ (contract W P o data).errs = paramsContract o data.length ++ (contract W P o.noParams data).errs := by
  have hp : paramsContract o.noParams data.length = [] := rfl
  have hf : ∀ f, fieldContract W o.noParams f data = fieldContract W o f data := fun _ => rfl
  have ha : ∀ (t x : Bool) kv, additionContract W t x o.noParams kv = additionContract W t x o kv := fun _ _ _ => rfl
  constructor
  · unfold contract; simp only [hf, ha]
  · unfold contract; simp only [hp, hf, ha, List.nil_append, List.append_assoc]

/-! #### ignore_alias_conflicts: only the alias-conflict errors -/

def Err.isAliasConflict : Err → Bool | .aliasConflict _ => true | _ => false

theorem frame_conflicts_field [DecidableEq V] (W : World V) (o : Opts V) (b : Bool) (f : PField V)
    (data : List (Key × V)) :
    let o' := { o with ignoreAliasConflicts := b }
    (fieldContract W o' f data).value = (fieldContract W o f data).value
    ∧ (fieldContract W o' f data).provided = (fieldContract W o f data).provided
    ∧ (fieldContract W o' f data).active = (fieldContract W o f data).active
    ∧ (fieldContract W o' f data).errs.filter (!·.isAliasConflict)
        = (fieldContract W o f data).errs.filter (!·.isAliasConflict) := by
  intro o'
  have hreq : required o' f = required o f := rfl
  have hfil : filled W o' f = filled W o f := rfl
  have hni : ∀ c, noInput W o' f c = noInput W o f c := fun _ => rfl
  have hiv : o'.invalidValues = o.invalidValues := rfl
  unfold fieldContract
  cases candidates W f data with
  | nil => simp [hreq, hfil]
  | cons c rest =>
    simp only [hreq, hfil, hni, hiv]
    have hc : ∀ (x : Bool), (if x = true then [Err.aliasConflict f.name] else []).filter (!·.isAliasConflict) = [] := by
      intro x; cases x <;> simp [Err.isAliasConflict]
    split
    · simp
    · cases convert W f c with
      | some r => simp only [hc]; simp
      | none =>
        cases f.onError.getD o.invalidValues with
        | throw => simp only [List.filter_append, hc]; simp
        | preserve => simp only [hc]; simp
        | exclude =>
          simp only
          split
          · simp only [List.filter_append, hc]; simp
          · simp only [hc]; simp

/-- the contract over an arbitrary per-field outcome `g` -/
def contractWith [DecidableEq V] (W : World V) (P : Parser V) (o : Opts V) (data : List (Key × V))
    (g : PField V → FieldOut V) : Contract V :=
  let fs := P.fields.map (·.2)
  let outs := fs.map fun f => (f, g f)
  let present (n : Key) : Bool := outs.any fun fo => fo.1.name = n && fo.2.provided && fo.2.value.isSome
  let wanted := (outs.filter (·.2.active)).flatMap (·.1.deps)
  let lack := (fs.map (·.name)).filter fun n => wanted.contains n && !present n
  let extra := data.filter fun kv => !fs.any (accepts W · kv.1)
  let adds := extra.map fun kv => (kv.1, additionContract W P.additionTyped (P.excludeVars.contains kv.1) o kv)
  { result := outs.filterMap (fun fo => fo.2.value.map (fo.1.name, ·))
              ++ adds.filterMap (fun a => a.2.1.map (a.1, ·))
    errs := paramsContract o data.length ++ outs.flatMap (·.2.errs)
            ++ (if lack.isEmpty then [] else [.depsAbsence lack]) ++ adds.flatMap (·.2.2) }

theorem contract_eq_with [DecidableEq V] (W : World V) (P : Parser V) (o : Opts V) (data : List (Key × V)) :
    contract W P o data = contractWith W P o data (fun f => fieldContract W o f data) := rfl

/-- per-field outcomes that agree on everything but the errors: same result, and the errors agree wherever the fields'
errors do -/
theorem contractWith_errs_congr [DecidableEq V] (W : World V) (P : Parser V) (o : Opts V) (data : List (Key × V))
    (g g' : PField V → FieldOut V) (p : Err → Bool)
    (hv : ∀ f, (g' f).value = (g f).value) (hp : ∀ f, (g' f).provided = (g f).provided)
    (hac : ∀ f, (g' f).active = (g f).active)
    (he : ∀ f, (g' f).errs.filter p = (g f).errs.filter p) :
    (contractWith W P o data g').result = (contractWith W P o data g).result
    ∧ (contractWith W P o data g').errs.filter p = (contractWith W P o data g).errs.filter p := by
  unfold contractWith
  simp only [List.filterMap_map, List.any_map, List.filter_map, List.flatMap_map, Function.comp_def,
    List.filter_append, List.filter_flatMap, hv, hp, hac, he, and_self]

theorem frame_conflicts [DecidableEq V] (W : World V) (P : Parser V) (o : Opts V) (b : Bool) (data : List (Key × V)) :
    (contract W P { o with ignoreAliasConflicts := b } data).result = (contract W P o data).result
    ∧ (contract W P { o with ignoreAliasConflicts := b } data).errs.filter (!·.isAliasConflict)
        = (contract W P o data).errs.filter (!·.isAliasConflict) := by
  have h := contractWith_errs_congr W P o data (fun f => fieldContract W o f data)
    (fun f => fieldContract W { o with ignoreAliasConflicts := b } f data) (!·.isAliasConflict)
    (fun f => (frame_conflicts_field W o b f data).1) (fun f => (frame_conflicts_field W o b f data).2.1)
    (fun f => (frame_conflicts_field W o b f data).2.2.1) (fun f => (frame_conflicts_field W o b f data).2.2.2)
  exact h

/-! #### options with nothing to act on change nothing -/

theorem fieldContract_congr [DecidableEq V] (W : World V) (o o' : Opts V) (f : PField V) (data : List (Key × V))
    (h1 : required o' f = required o f) (h2 : filled W o' f = filled W o f)
    (h3 : ∀ c, noInput W o' f c = noInput W o f c) (h4 : o'.ignoreAliasConflicts = o.ignoreAliasConflicts)
    (h5 : o'.invalidValues = o.invalidValues) : fieldContract W o' f data = fieldContract W o f data := by
  unfold fieldContract
  simp only [h1, h2, h3, h4, h5]

theorem contractWith_congr [DecidableEq V] (W : World V) (P : Parser V) (o : Opts V) (data : List (Key × V))
    (g g' : PField V → FieldOut V) (h : ∀ kf ∈ P.fields, g' kf.2 = g kf.2) :
    contractWith W P o data g' = contractWith W P o data g := by
  have : (P.fields.map (·.2)).map (fun f => (f, g' f)) = (P.fields.map (·.2)).map (fun f => (f, g f)) := by
    apply List.map_congr_left
    intro f hf
    obtain ⟨kf, hkf, rfl⟩ := List.mem_map.1 hf
    rw [h kf hkf]
  unfold contractWith
  simp only [this]

/-- **ignore_required** acts on required fields only: with none declared, the contract is the same with it on or off. -/
theorem frame_ignoreRequired [DecidableEq V] (W : World V) (P : Parser V) (o : Opts V) (b : Bool)
    (data : List (Key × V)) (hno : ∀ kf ∈ P.fields, kf.2.required = .no) :
    contract W P { o with ignoreRequired := b } data = contract W P o data := by
  have hreq : ∀ (o : Opts V) kf, kf ∈ P.fields → required o kf.2 = false := by
    intro o kf hkf; unfold required; rw [hno kf hkf]; simp
  exact contractWith_congr W P o data _ _ fun kf hkf =>
    fieldContract_congr W o _ kf.2 data (by rw [hreq _ kf hkf, hreq _ kf hkf]) rfl (fun _ => rfl) rfl rfl

/-- a field that is not declared required is not touched by ignore_required, whatever the other fields are -/
theorem frame_ignoreRequired_field [DecidableEq V] (W : World V) (o : Opts V) (b : Bool) (f : PField V)
    (data : List (Key × V)) (hno : f.required = .no) :
    fieldContract W { o with ignoreRequired := b } f data = fieldContract W o f data := by
  have hreq : ∀ (o : Opts V), required o f = false := by
    intro o; unfold required; rw [hno]; simp
  exact fieldContract_congr W o _ f data (by rw [hreq, hreq]) rfl (fun _ => rfl) rfl rfl

/-- **no_default / defer_default** act on defaults only: with no default declared and none forced, the contract is the
same whatever they are. -/
theorem frame_defaults [DecidableEq V] (W : World V) (P : Parser V) (o : Opts V) (a b : Bool)
    (data : List (Key × V)) (hno : ∀ kf ∈ P.fields, kf.2.default = none) (hforce : o.forceDefault = none) :
    contract W P { o with noDefault := a, deferDefault := b } data = contract W P o data := by
  have hfil : ∀ (o : Opts V) kf, kf ∈ P.fields → o.forceDefault = none → filled W o kf.2 = none := by
    intro o kf hkf hf; unfold filled; rw [hno kf hkf, hf]; simp
  exact contractWith_congr W P o data _ _ fun kf hkf =>
    fieldContract_congr W o _ kf.2 data rfl (by have h1 := hfil { o with noDefault := a, deferDefault := b } kf hkf hforce; have h2 := hfil o kf hkf hforce; exact h1.trans h2.symm) (fun _ => rfl) rfl rfl

/-- **force_default / defer_default** are void under no_default -/
theorem frame_forceDefault [DecidableEq V] (W : World V) (P : Parser V) (o : Opts V) (d : Option V) (b : Bool)
    (data : List (Key × V)) (hnd : o.noDefault = true) :
    contract W P { o with forceDefault := d, deferDefault := b } data = contract W P o data := by
  have hfil : ∀ (o : Opts V) (f : PField V), o.noDefault = true → filled W o f = none := by
    intro o f h; unfold filled; rw [h]; simp
  exact contractWith_congr W P o data _ _ fun kf _ =>
    fieldContract_congr W o _ kf.2 data rfl (by have h1 := hfil { o with forceDefault := d, deferDefault := b } kf.2 hnd; have h2 := hfil o kf.2 hnd; exact h1.trans h2.symm) (fun _ => rfl) rfl rfl

/-- a field whose accepted input converts is not touched by any default option -/
theorem frame_defaults_given [DecidableEq V] (W : World V) (o o' : Opts V) (f : PField V) (data : List (Key × V))
    (c : V) (rest : List V) (r : V) (hc : candidates W f data = c :: rest) (hni : noInput W o f c = false)
    (hcv : convert W f c = some r)
    (h1 : ∀ c, noInput W o' f c = noInput W o f c) (h4 : o'.ignoreAliasConflicts = o.ignoreAliasConflicts) :
    fieldContract W o' f data = fieldContract W o f data := by
  unfold fieldContract
  rw [hc]
  simp only [h1, h4, hni, hcv]
  simp

/-- **collect_errors / max_errors** do not enter the contract (they only select what `finish` reports) -/
theorem frame_collect [DecidableEq V] (W : World V) (P : Parser V) (o : Opts V) (a : Bool) (m : Option Nat)
    (data : List (Key × V)) :
    contract W P { o with collectErrors := a, maxErrors := m } data = contract W P o data := rfl

/-- **data_first_search** does not enter the contract -/
theorem frame_strategy [DecidableEq V] (W : World V) (P : Parser V) (o : Opts V) (s : Option Bool)
    (data : List (Key × V)) :
    contract W P { o with dataFirstSearch := s } data = contract W P o data := rfl

/-! #### addition acts on the unknown keys only -/

theorem flatMap_const_nil' {α β : Type} (l : List α) : l.flatMap (fun _ => ([] : List β)) = [] := by
  induction l with
  | nil => rfl
  | cons a l ih => simp [List.flatMap_cons, ih]

theorem filterMap_const_none' {α β : Type} (l : List α) : l.filterMap (fun _ => (none : Option β)) = [] := by
  induction l with
  | nil => rfl
  | cons a l ih => simp [List.filterMap_cons, ih]

theorem frame_addition [DecidableEq V] (W : World V) (P : Parser V) (o : Opts V) (data : List (Key × V)) :
    (contract W P o data).result
      = (contract W P { o with addition := .ignore } data).result
        ++ (extras W P data).filterMap (fun kv =>
              (additionContract W P.additionTyped (P.excludeVars.contains kv.1) o kv).1.map (kv.1, ·))
    ∧ (contract W P o data).errs
      = (contract W P { o with addition := .ignore } data).errs
        ++ (extras W P data).flatMap (fun kv =>
              (additionContract W P.additionTyped (P.excludeVars.contains kv.1) o kv).2) := by
  have hp : paramsContract { o with addition := .ignore } data.length = paramsContract o data.length := rfl
  have ha : ∀ (t x : Bool) kv, additionContract W t x { o with addition := .ignore } kv = (none, []) := fun _ _ _ => rfl
  rw [extras_eq]
  constructor
  · show (contractWith W P o data fun f => fieldContract W o f data).result
        = (contractWith W P { o with addition := .ignore } data fun f => fieldContract W o f data).result ++ _
    unfold contractWith
    simp only [ha, List.filterMap_map, Function.comp_def, Option.map_none, filterMap_const_none', List.append_nil]
  · show (contractWith W P o data fun f => fieldContract W o f data).errs
        = (contractWith W P { o with addition := .ignore } data fun f => fieldContract W o f data).errs ++ _
    unfold contractWith
    simp only [hp, ha, List.flatMap_map, Function.comp_def, flatMap_const_nil', List.append_nil]
