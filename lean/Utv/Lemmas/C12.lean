import Utv.Model.Conv
/-! Helper lemmas for the C12 theorems: how the two preferences act on `_attempt_from`,
`_from_byte_like`, `_attempt_from_number`. -/
namespace Utv.C12
open Utv.Conv Utv.Conv.Outcome
open Utv.Py (FloatV DecV NumV Q)

/-- `x` only restricts `y`: whatever `x` returns, `y` returns the same -/
def Sub {α} (x y : Outcome α) : Prop := ∀ r, x = .ok r → y = .ok r

theorem Sub.refl {α} (x : Outcome α) : Sub x x := fun _ h => h

theorem Sub.bind {α β} {x y : Outcome α} {f g : α → Outcome β}
    (h : Sub x y) (hf : ∀ a, Sub (f a) (g a)) : Sub (x >>= f) (y >>= g) := by
  intro r hr
  obtain ⟨a, ha, hfa⟩ := Outcome.bind_eq_ok.mp hr
  rw [h a ha]
  exact hf a r hfa

theorem Sub.of_not_ok {α} {x y : Outcome α} (h : ∀ r, x ≠ .ok r) : Sub x y :=
  fun r hr => absurd hr (h r)

theorem attemptFrom_ndl (E : Env) (v : V) :
    Sub (attemptFrom E ⟨false, true⟩ v) (attemptFrom E ⟨false, false⟩ v) := by
  intro r
  cases v <;> simp [attemptFrom]
  case seq k c xs =>
    cases xs with
    | nil => simp
    | cons x xs =>
      cases xs with
      | nil => simp
      | cons y ys => by_cases h : multi (V.seq k c (x :: y :: ys)) = true <;> simp [h]

theorem decodeB_strict (P : Prims) (L : PrimLaws P) (bs : List UInt8) (s : String) :
    decodeB P true bs = .ok s → decodeB P false bs = .ok s := by
  unfold decodeB
  split
  · exact id
  · exact L.decode_strict bs s

theorem fromByteLike_ndl (P : Prims) (L : PrimLaws P) (n : Bool) (v : V) :
    Sub (fromByteLike P ⟨n, true⟩ v) (fromByteLike P ⟨n, false⟩ v) := by
  intro r
  cases v <;> simp [fromByteLike]
  case bytes k c bs =>
    intro h
    obtain ⟨s, hs, hr⟩ := Outcome.bind_eq_ok.mp h
    rw [decodeB_strict P L bs s hs]
    simpa using hr


theorem attemptFrom_ndl' (E : Env) (n : Bool) (v : V) :
    Sub (attemptFrom E ⟨n, true⟩ v) (attemptFrom E ⟨n, false⟩ v) := by
  cases n
  · exact attemptFrom_ndl E v
  · intro r h; simpa [attemptFrom] using h

/-! ### (A) `no_data_loss` only restricts, flag `no_explicit_cast` fixed -/

theorem toNull_ndl (n : Bool) (v : V) : toNull ⟨n, true⟩ v = toNull ⟨n, false⟩ v := by
  cases v <;> rfl

theorem toStr_ndl (P : Prims) (L : PrimLaws P) (E : Env) (n : Bool) (c : Nat) (v : V) :
    Sub (toStr P E ⟨n, true⟩ c v) (toStr P E ⟨n, false⟩ c v) := by
  cases v <;> try exact Sub.refl _
  all_goals
    unfold toStr
    apply Sub.bind (attemptFrom_ndl' E n _)
    intro a
    apply Sub.bind (fromByteLike_ndl P L n a)
    intro b
    exact Sub.refl _

theorem toBytes_ndl (P : Prims) (E : Env) (n : Bool) (b : BytesK) (c : Nat) (v : V) :
    Sub (toBytes P E ⟨n, true⟩ b c v) (toBytes P E ⟨n, false⟩ b c v) := by
  unfold toBytes
  apply Sub.bind (attemptFrom_ndl' E n _)
  intro a
  exact Sub.refl _

theorem pyStrip_empty : pyStrip "" = "" := by decide
theorem bracketed_empty : bracketed "" = false := by decide
attribute [local irreducible] bracketed pyStrip splitFirstSep pyLower

theorem arrayTail_ndl (n : Bool) (b : SeqK) (c : Nat) (d : V) :
    Sub (arrayTail ⟨n, true⟩ b c d) (arrayTail ⟨n, false⟩ b c d) := by
  intro r
  cases d <;> simp [arrayTail]
  case dict c' kvs => by_cases hb : b = SeqK.set <;> simp [hb]

theorem arrayOfString_ndl (P : Prims) (n : Bool) (b : SeqK) (c : Nat) (s0 : String) :
    Sub (arrayOfString P ⟨n, true⟩ b c s0) (arrayOfString P ⟨n, false⟩ b c s0) := by
  intro r h
  unfold arrayOfString at h ⊢
  simp only [] at h ⊢
  split at h
  · rename_i hb
    simp only [hb, if_true]
    split at h
    · split at h
      · exact h
      · exact arrayTail_ndl n b c _ r h
    · obtain ⟨lit, hl, hr⟩ := Outcome.bind_eq_ok.mp h
      simp only [hl, Outcome.ok_bind]
      by_cases hm : multi lit = true
      · simpa [hm] using hr
      · simp only [hm] at hr ⊢
        exact arrayTail_ndl n b c lit r hr
    all_goals simp at h
  · rename_i hb
    simp only [hb]
    split at h
    · exact h
    · exact arrayTail_ndl n b c _ r h

theorem toArray_ndl (P : Prims) (L : PrimLaws P) (n : Bool) (b : SeqK) (c : Nat) (v : V) :
    Sub (toArray P ⟨n, true⟩ b c v) (toArray P ⟨n, false⟩ b c v) := by
  intro r h
  cases n
  · unfold toArray at h ⊢
    split at h
    · rename_i h1; simp only [h1, if_true]; exact h
    · rename_i h1; simp only [h1]
      split at h
      · rename_i h2; simp only [h2, if_true]; exact h
      · rename_i h2; simp only [h2]
        simp only [Bool.false_eq_true, if_false] at h ⊢
        obtain ⟨d, hd, hr⟩ := Outcome.bind_eq_ok.mp h
        simp only [fromByteLike_ndl P L false v d hd, Outcome.ok_bind]
        split at hr
        · exact arrayOfString_ndl P false b c _ r hr
        · exact arrayTail_ndl false b c _ r hr
  · simpa [toArray] using h

theorem pairsOf_true_ok : ∀ (xs : List V) (acc kvs : List (V × V)), pairsOf true xs acc = .ok kvs →
    pairsOf false xs acc = .ok kvs ∧ xs.any (fun x => isInst x .dict) = false := by
  intro xs
  induction xs with
  | nil => intro acc kvs h; simpa [pairsOf] using h
  | cons item rest ih =>
    intro acc kvs h
    unfold pairsOf at h ⊢
    by_cases hd : isInst item .dict = true
    · simp [hd] at h
    · simp only [hd, Bool.and_false, Bool.false_eq_true, if_false] at h ⊢
      split at h
      · split at h
        · rename_i hh
          simp only [hh, if_true]
          have := ih _ _ h
          simp [this.1, this.2, hd]
        · simp at h
      all_goals simp at h

theorem pairsOf_true_perr : ∀ (xs : List V) (acc : List (V × V)) (e : PErr), pairsOf true xs acc = .perr e →
    xs.any (fun x => isInst x .dict) = true ∨ ∃ e', pairsOf false xs acc = .perr e' := by
  intro xs
  induction xs with
  | nil => intro acc e h; simp [pairsOf] at h
  | cons item rest ih =>
    intro acc e h
    unfold pairsOf at h ⊢
    by_cases hd : isInst item .dict = true
    · left; simp [hd]
    · simp only [hd, Bool.and_false, Bool.false_eq_true, if_false] at h ⊢
      split at h
      · split at h
        · rename_i hh
          simp only [hh, if_true]
          rcases ih _ _ h with h1 | h1
          · left; simp [h1]
          · right; exact h1
        · rename_i hh
          right; simp [hh]
      · right; exact ⟨_, rfl⟩
      · right; exact ⟨_, rfl⟩
      all_goals simp at h

/-- known defect `dict-json-control-char`: `json.loads(strict=True)` rejects the text but `strict=False`
accepts it (a raw control character inside a JSON string); under no_data_loss `to_dict` then falls back
to `ast.literal_eval`, which may read the same text differently -/
def KnownDefect.jsonControlCharText (P : Prims) (s : String) : Bool :=
  match P.jsonLoads true s, P.jsonLoads false s with
  | .perr .jsonDecode, .ok _ => true
  | _, _ => false

theorem jsonLoadsS_agree (P : Prims) (L : PrimLaws P) (s : String)
    (h : KnownDefect.jsonControlCharText P s = false) : jsonLoadsS P true s = jsonLoadsS P false s := by
  unfold jsonLoadsS
  split
  · rfl
  · rcases L.json_strict s with h1 | ⟨h1, j, h2⟩
    · exact h1
    · simp [KnownDefect.jsonControlCharText, h1, h2] at h

theorem dictOfString_ndl (P : Prims) (L : PrimLaws P) (E : Env) (c : Nat) (s0 : String)
    (hk : KnownDefect.jsonControlCharText P s0 = false) :
    Sub (dictOfString P E ⟨false, true⟩ c s0) (dictOfString P E ⟨false, false⟩ c s0) := by
  intro r h
  unfold dictOfString at h ⊢
  dsimp only at h ⊢
  simp only [jsonLoadsS_agree P L s0 hk] at h
  split at h
  · exact h
  · split at h
    · rename_i hb
      simp only [hb, if_true]
      obtain ⟨lit, hl, h2⟩ := Outcome.bind_eq_ok.mp h
      obtain ⟨res, hres, h3⟩ := Outcome.bind_eq_ok.mp h2
      simp only [hl, Outcome.ok_bind, attemptFrom_ndl E lit res hres]
      exact h3
    · rename_i hb
      simp only [hb]
      exact h
  all_goals simp at h

/-- the text `to_dict` ends up parsing for `v` (what `_attempt_from` and `_from_byte_like` leave) -/
def dictText (P : Prims) (E : Env) (v : V) : Option String :=
  match (attemptFrom E ⟨false, false⟩ v >>= fromByteLike P ⟨false, false⟩) with
  | .ok (.str _ s) => some s
  | _ => none

def KnownDefect.jsonControlChar (P : Prims) (E : Env) (v : V) : Bool :=
  match dictText P E v with
  | some s => KnownDefect.jsonControlCharText P s
  | none => false

theorem dictRest_ndl (P : Prims) (L : PrimLaws P) (E : Env) (c : Nat) (v : V)
    (hk : KnownDefect.jsonControlChar P E v = false) :
    Sub (dictRest P E ⟨false, true⟩ c v) (dictRest P E ⟨false, false⟩ c v) := by
  intro r h
  unfold dictRest at h ⊢
  obtain ⟨d1, h1, h'⟩ := Outcome.bind_eq_ok.mp h
  obtain ⟨d2, h2, h''⟩ := Outcome.bind_eq_ok.mp h'
  have l1 := attemptFrom_ndl E v d1 h1
  have l2 := fromByteLike_ndl P L false d1 d2 h2
  simp only [l1, l2, Outcome.ok_bind]
  split at h''
  · rename_i c' s
    have : KnownDefect.jsonControlCharText P s = false := by
      simpa [KnownDefect.jsonControlChar, dictText, l1, l2] using hk
    exact dictOfString_ndl P L E c s this r h''
  · exact h''

theorem dictOfString_empty (P : Prims) (E : Env) (f : Flags) (c : Nat) (r : V) :
    dictOfString P E f c "" ≠ .ok r := by
  simp [dictOfString, jsonLoadsS, pyStrip_empty, bracketed_empty]

theorem pairsOf_map_single {α} (g : α → V) (hg : ∀ a, (∃ e, iterOf (g a) = .perr e) ∨ ∃ x, iterOf (g a) = .ok [x])
    (a : α) (rest : List α) (acc : List (V × V)) : ∃ e, pairsOf false ((a :: rest).map g) acc = .perr e := by
  simp only [List.map_cons]
  unfold pairsOf
  simp only [Bool.false_and, Bool.false_eq_true, if_false]
  rcases hg a with ⟨e, he⟩ | ⟨x, hx⟩
  · exact ⟨e, by simp [he]⟩
  · exact ⟨.valueError, by simp [hx]⟩

/-- on a value that is not `multi`, the rest of `to_dict` either builds `dict(v)` or `dict(v)` raises -/
theorem dictRest_not_multi (P : Prims) (E : Env) (f : Flags) (c : Nat) (v : V)
    (hf : f.nec = false) (hm : multi v = false) (r : V) (h : dictRest P E f c v = .ok r) :
    (∃ kvs, dictOf v = .ok kvs ∧ r = .dict c kvs) ∨ (∃ e, dictOf v = .perr e) := by
  cases v
  case str c' s =>
    cases hs : s.toList with
    | nil =>
      have hs' : s = "" := String.toList_eq_nil_iff.mp hs
      subst hs'
      exfalso
      simp [dictRest, attemptFrom, hf, fromByteLike] at h
      exact dictOfString_empty P E f c r h
    | cons a rest =>
      right
      simp only [dictOf, iterOf, Outcome.ok_bind, hs]
      exact pairsOf_map_single (fun ch => V.str 0 (String.singleton ch))
        (fun a => Or.inr ⟨_, by simp [iterOf]; rfl⟩) a rest []
  case bytes k c' bs =>
    cases bs with
    | nil =>
      exfalso
      simp [dictRest, attemptFrom, hf, fromByteLike, decodeB] at h
      exact dictOfString_empty P E f c r h
    | cons a rest =>
      right
      simp only [dictOf, iterOf, Outcome.ok_bind]
      exact pairsOf_map_single (fun (b : UInt8) => V.int 0 b.toNat)
        (fun a => Or.inl ⟨.typeError, by simp [iterOf]⟩) a rest []
  case seq k c' xs =>
    cases k <;> simp [multi] at hm
    left
    simp [dictRest, attemptFrom, hf, fromByteLike, multi, dictOf, iterOf, SeqK.isSet] at h ⊢
    obtain ⟨kvs, hk, hr⟩ := Outcome.bind_eq_ok.mp h
    exact ⟨kvs, hk, by simpa using hr.symm⟩
  case dict c' kvs' =>
    left
    simp [dictRest, attemptFrom, hf, fromByteLike, dictOf] at h ⊢
    exact h.symm
  all_goals (right; simp [dictOf, iterOf])

theorem toDict_ndl (P : Prims) (L : PrimLaws P) (E : Env) (n : Bool) (c : Nat) (v : V)
    (hk : KnownDefect.jsonControlChar P E v = false) :
    Sub (toDict P E ⟨n, true⟩ c v) (toDict P E ⟨n, false⟩ c v) := by
  intro r h
  unfold toDict at h ⊢
  split at h
  · rename_i h1; simp only [h1, if_true]; exact h
  · rename_i h1; simp only [h1]
    split at h
    · exact h
    · cases n
      · dsimp only at h ⊢
        simp only [Bool.false_eq_true, if_false, if_true] at h ⊢
        by_cases hm : multi v = true
        · simp only [hm, if_true, Bool.true_and] at h ⊢
          obtain ⟨k, c', xs, rfl⟩ : ∃ k c' xs, v = V.seq k c' xs := by
            cases v <;> simp [multi] at hm
            exact ⟨_, _, _, rfl⟩
          simp only [itemsOf]
          cases hi : (iterOf (V.seq k c' xs) >>= fun items => pairsOf true items []) with
          | ok kvs =>
            simp only [hi] at h
            obtain ⟨items, h1', h2'⟩ := Outcome.bind_eq_ok.mp hi
            have hx : items = xs := by
              simp only [iterOf] at h1'
              split at h1' <;> simp_all
            subst hx
            obtain ⟨h3, h4⟩ := pairsOf_true_ok _ _ _ h2'
            simp [h4, dictOf, h1', h3]
            simpa using h
          | perr e =>
            simp only [hi] at h
            have hl := dictRest_ndl P L E c _ hk r h
            by_cases ha : (xs.any fun x => isInst x Base.dict) = true
            · simp only [ha, if_true]; exact hl
            · simp only [ha]
              cases hio : iterOf (V.seq k c' xs) with
              | ok items =>
                have hx : items = xs := by
                  simp only [iterOf] at hio
                  split at hio <;> simp_all
                subst hx
                simp only [hio, Outcome.ok_bind] at hi
                rcases pairsOf_true_perr _ _ _ hi with h5 | ⟨e', h5⟩
                · exact absurd h5 ha
                · simp [dictOf, hio, h5]; exact hl
              | perr e' => simp [iterOf] at hio; split at hio <;> simp at hio
              | escape e' => simp [hio] at hi
              | diverge => simp [hio] at hi
              | unmodelled w => simp [hio] at hi
          | escape e => simp [hi] at h
          | diverge => simp [hi] at h
          | unmodelled w => simp [hi] at h
        · have hm' : multi v = false := by simpa using hm
          simp only [hm', Bool.false_and, Bool.false_eq_true, if_false] at h ⊢
          have hl := dictRest_ndl P L E c _ hk r h
          rcases dictRest_not_multi P E ⟨false, false⟩ c v rfl hm' r hl with ⟨kvs, h1', h2'⟩ | ⟨e, h1'⟩
          · simp [h1', h2']
          · simp [h1']; exact hl
      · dsimp only at h ⊢
        simp at h

end Utv.C12
