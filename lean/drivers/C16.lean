import Utv.Model.C16
import Utv.Util.J
open Lean Utv.J Utv.C16

def pairs (j : Json) : List (Nat × Nat) := (arr! j).map fun p => match arr! p with
  | [a, b] => (nat! a, nat! b) | _ => (0, 0)

def mkWorld (j : Json) : World :=
  let issub := pairs (fld j "issub")
  let isinst := pairs (fld j "isinst")
  let hasattr := pairs (fld j "hasattr")
  let custom := (arr! (fld j "custom")).map fun p => match arr! p with
    | [k, t, v] => ((nat! k, nat! t), nat! v) | _ => ((0, 0), 2)
  let shortcut := pairs (fld j "shortcut")
  let fallback := pairs (fld j "fallback")
  { issub := fun t c => issub.contains (t, c)
    isinst := fun t m => isinst.contains (t, m)
    hasattr := fun t a => hasattr.contains (t, a)
    custom := fun k t => match custom.lookup (k, t) with
      | some 0 => some false | some 1 => some true | _ => none
    shortcut := fun t => shortcut.lookup t
    fallback := fun t => fallback.lookup t }

def mkOp (j : Json) : Op :=
  match obj? j "res" with
  | some t => .res (nat! t)
  | none =>
    let r := fld j "reg"
    let det := match optNat (fld r "custom") with
      | some k => Det.custom k
      | none => Det.std ((arr! (fld r "classes")).map nat!) (bool! (fld r "sub"))
                  (optNat (fld r "meta")) (optNat (fld r "attr"))
    .reg ⟨det, nat! (fld r "fn"), int! (fld r "prio")⟩

def handle (j : Json) : Json :=
  let W := mkWorld j
  let ops := (arr! (fld j "ops")).map mkOp
  let legacy := bool! (fld j "legacy")
  let outs := if legacy then (runLegacy W { cacheOn := bool! (fld j "cache") } ops).2
              else (run W { cacheOn := bool! (fld j "cache") } ops).2
  let spec := specRun W [] ops
  Json.mkObj [("model", Json.arr (outs.map fun | some n => Json.num n | none => Json.null).toArray),
              ("spec", Json.arr (spec.map fun | some n => Json.num n | none => Json.null).toArray)]

def main : IO Unit := serve handle
