import Utv.Model.C07Spec
import Utv.Lemmas.C07Core
/-! C07 — stored properties stay equal to their getter, outside the known defect. -/
namespace Utv.C07
open Map
variable {V : Type} {C : Cls} {W : World V}

/-- the dependencies of `p` are stored alike in `s` and `t` -/
def SameDeps (C : Cls) (s t : State V) (p : Field) : Prop :=
  ∀ d ∈ p.deps, ∀ df, getField C d = some df → stored t df = stored s df

def Ready (C : Cls) (s : State V) (p : Field) : Prop :=
  ∀ d ∈ p.deps, ∀ df, getField C d = some df → avail s df = true

theorem fieldGet_congr {s t : State V} {f : Field} (h : stored t f = stored s f) :
    fieldGet W t f = fieldGet W s f := by
  unfold stored at h
  have h1 : t.data.get f.name = s.data.get f.name := congrArg Prod.fst h
  have h2 : t.attrs.get f.attname = s.attrs.get f.attname := congrArg Prod.snd h
  unfold fieldGet
  rw [h1, h2]

theorem avail_congr {s t : State V} {f : Field} (h : stored t f = stored s f) : avail t f = avail s f := by
  unfold stored at h
  have h1 : t.data.get f.name = s.data.get f.name := congrArg Prod.fst h
  have h2 : t.attrs.get f.attname = s.attrs.get f.attname := congrArg Prod.snd h
  unfold avail has
  rw [h1, h2]

theorem mapM_congr_opt {α β : Type} (g g' : α → Option β) :
    ∀ l : List α, (∀ a ∈ l, g a = g' a) → l.mapM g = l.mapM g' := by
  intro l
  induction l with
  | nil => intro _; rfl
  | cons a l ih =>
    intro h
    simp only [List.mapM_cons]
    rw [h a (by simp), ih (fun b hb => h b (by simp [hb]))]

theorem compute_congr {s t : State V} {p : Field} (h : SameDeps C s t p) : compute C W t p = compute C W s p := by
  unfold compute
  congr 1
  apply mapM_congr_opt
  intro d hd
  cases hg : getField C d with
  | none => rfl
  | some df => exact fieldGet_congr (h d hd df hg)

theorem ready_congr {s t : State V} {p : Field} (h : SameDeps C s t p) (hr : Ready C s p) : Ready C t p := by
  intro d hd df hg
  rw [avail_congr (h d hd df hg)]
  exact hr d hd df hg

theorem dep_field (hwf : WF C) {p : Field} (hp : p ∈ C.fields) (hpp : p.isProp = true) {d : String}
    (hd : d ∈ p.deps) {df : Field} (hg : getField C d = some df) :
    df ∈ C.fields ∧ df.name = d ∧ df.isProp = false := by
  obtain ⟨f, hf, hfn, hfp⟩ := hwf.depsPlain p hp hpp d hd
  rw [← hfn, getField_name hwf hf] at hg
  cases hg
  exact ⟨hf, hfn, hfp⟩

theorem dep_resolves (hwf : WF C) {p : Field} (hp : p ∈ C.fields) (hpp : p.isProp = true) {d : String}
    (hd : d ∈ p.deps) : ∃ df, getField C d = some df := by
  obtain ⟨f, hf, hfn, _⟩ := hwf.depsPlain p hp hpp d hd
  exact ⟨f, by rw [← hfn]; exact getField_name hwf hf⟩

/-- a change of the keys at a property's own name only does not disturb any property's dependencies -/
theorem sameDeps_of_prop_key (hwf : WF C) {s : State V} {q : Field} (hq : q ∈ C.fields) (hqp : q.isProp = true)
    (w : V) {r : Field} (hr : r ∈ C.fields) (hrp : r.isProp = true) :
    SameDeps C s { s with data := s.data.set q.name w } r := by
  intro d hd df hg
  obtain ⟨hdf, _, hdp⟩ := dep_field hwf hr hrp hd hg
  have hne : df.name ≠ q.name := by
    intro e
    have := name_inj hwf hdf hq e
    subst this
    rw [hqp] at hdp
    cases hdp
  simp [stored, get_set, hne]

theorem blocked_false_of_ready (hwf : WF C) {s : State V} {p : Field} (hp : p ∈ C.fields) (hpp : p.isProp = true)
    (hr : Ready C s p) : blocked C s p = false := by
  unfold blocked
  rw [Bool.and_eq_false_iff]
  right
  rw [List.any_eq_false]
  intro d hd
  obtain ⟨df, hg⟩ := dep_resolves hwf hp hpp hd
  obtain ⟨_, hn, _⟩ := dep_field hwf hp hpp hd hg
  have := hr d hd df hg
  unfold avail at this
  rw [hn] at this
  rw [hg]
  cases h1 : s.data.has d <;> cases h2 : s.attrs.has df.attname <;> simp_all

theorem ready_of_not_blocked (hwf : WF C) {s : State V} {p : Field} (hp : p ∈ C.fields) (hpp : p.isProp = true)
    (h : blocked C s p = false) : Ready C s p := by
  unfold blocked at h
  intro d hd df hdf
  obtain ⟨_, hn, _⟩ := dep_field hwf hp hpp hd hdf
  unfold avail
  rw [hn]
  cases hall : p.deps.all s.data.has with
  | true =>
    have := List.all_eq_true.mp hall d hd
    simp [this]
  | false =>
    simp only [hall, Bool.not_false, Bool.true_and] at h
    have := List.any_eq_false.mp h d hd
    rw [hdf] at this
    cases h1 : s.data.has d <;> cases h2 : s.attrs.has df.attname <;> simp_all

/-- with every dependency readable the early return of `__coerce_property__` is not taken -/
theorem coerce_of_ready (hwf : WF C) {s : State V} {p : Field} (hp : p ∈ C.fields) (hpp : p.isProp = true)
    (hr : Ready C s p) :
    coerce C W s p = match compute C W s p with
      | none => s
      | some v => { s with data := s.data.set p.name v } := by
  unfold coerce
  rw [(hwf.propPlain p hp hpp).2.2.1, blocked_false_of_ready hwf hp hpp hr]
  simp only [Bool.false_eq_true, if_false]
  cases compute C W s p <;> rfl

/-- … and when it is not taken, every dependency is readable -/
theorem ready_of_coerce (hwf : WF C) {s : State V} {p : Field} (hp : p ∈ C.fields) (hpp : p.isProp = true)
    (h : coerce C W s p ≠ s) : Ready C s p := by
  apply ready_of_not_blocked hwf hp hpp
  cases hb : blocked C s p with
  | false => rfl
  | true =>
    exfalso
    apply h
    unfold coerce
    simp [hb]

theorem compute_some_of_ready (hwf : WF C) (htot : ∀ p xs, (W.getter p xs).isSome = true) {s : State V} {p : Field}
    (hp : p ∈ C.fields) (hpp : p.isProp = true) (hr : Ready C s p) : ∃ v, compute C W s p = some v := by
  unfold compute
  have : ∃ xs, p.deps.mapM (fun d => (getField C d).bind (fieldGet W s)) = some xs := by
    suffices ∀ l : List String, (∀ d ∈ l, d ∈ p.deps) →
        ∃ xs, l.mapM (fun d => (getField C d).bind (fieldGet W s)) = some xs from this p.deps (fun _ h => h)
    intro l
    induction l with
    | nil => intro _; exact ⟨[], rfl⟩
    | cons d l ih =>
      intro hl
      obtain ⟨xs, hxs⟩ := ih (fun x hx => hl x (by simp [hx]))
      have hd : d ∈ p.deps := hl d (by simp)
      obtain ⟨df, hg⟩ := dep_resolves hwf hp hpp hd
      have hav := hr d hd df hg
      have : ∃ x, fieldGet W s df = some x := by
        unfold avail has at hav
        unfold fieldGet
        cases h1 : s.data.get df.name with
        | some x => exact ⟨x, rfl⟩
        | none =>
          cases h2 : s.attrs.get df.attname with
          | some x => exact ⟨x, rfl⟩
          | none => simp [h1, h2] at hav
      obtain ⟨x, hx⟩ := this
      exact ⟨x :: xs, by simp [List.mapM_cons, hg, hx, hxs]⟩
  obtain ⟨xs, hxs⟩ := this
  rw [hxs]
  have := htot p.name xs
  cases hgt : W.getter p.name xs with
  | none => simp [hgt] at this
  | some v => exact ⟨v, by simp [hgt]⟩

/-- `Fresh` with some properties waiting for their recomputation (names in `S`) -/
def FreshPending (C : Cls) (W : World V) (S : List String) (s : State V) : Prop :=
  ∀ p ∈ C.fields, p.isProp = true → ∀ v, s.data.get p.name = some v →
    Ready C s p ∧ (p.name ∉ S → compute C W s p = some v)

theorem fresh_iff_pending_nil (s : State V) : Fresh C W s ↔ FreshPending C W [] s := by
  constructor
  · intro h p hp hpp v hv
    obtain ⟨h1, h2⟩ := h p hp hpp v hv
    exact ⟨h2, fun _ => h1⟩
  · intro h p hp hpp v hv
    obtain ⟨h1, h2⟩ := h p hp hpp v hv
    exact ⟨h2 (by simp), h1⟩

/-- one recomputation: the property itself becomes fresh, the others are not disturbed -/
theorem pending_coerce (hwf : WF C) (htot : ∀ p xs, (W.getter p xs).isSome = true) {S : List String} {s : State V}
    {p : Field} (hp : p ∈ C.fields) (hpp : p.isProp = true) (h : FreshPending C W (p.name :: S) s) :
    FreshPending C W S (coerce C W s p) := by
  -- what the recomputation does
  have hcase : coerce C W s p = s ∧ s.data.get p.name = none ∨
      ∃ w, compute C W s p = some w ∧ Ready C s p ∧ coerce C W s p = { s with data := s.data.set p.name w } := by
    cases hget : s.data.get p.name with
    | some v =>
      have hr := (h p hp hpp v hget).1
      obtain ⟨w, hw⟩ := compute_some_of_ready hwf htot hp hpp hr
      refine Or.inr ⟨w, hw, hr, ?_⟩
      rw [coerce_of_ready hwf hp hpp hr, hw]
    | none =>
      by_cases e : coerce C W s p = s
      · exact Or.inl ⟨e, rfl⟩
      · have hr := ready_of_coerce hwf hp hpp e
        rcases coerce_cases (C := C) (W := W) s p with e' | ⟨w, hw, e'⟩
        · exact absurd e' e
        · exact Or.inr ⟨w, hw, hr, e'⟩
  rcases hcase with ⟨e, hnone⟩ | ⟨w, hw, hr, e⟩
  · rw [e]
    intro r hr hrp v hv
    obtain ⟨h1, h2⟩ := h r hr hrp v hv
    refine ⟨h1, fun hn => h2 ?_⟩
    intro hmem
    rcases List.mem_cons.mp hmem with e' | e'
    · rw [e', hnone] at hv; cases hv
    · exact hn e'
  · rw [e]
    intro r hr' hrp v hv
    have hsame := sameDeps_of_prop_key hwf hp hpp w hr' hrp (s := s)
    by_cases er : r.name = p.name
    · have := name_inj hwf hr' hp er
      subst this
      simp only [get_set, if_true] at hv
      cases hv
      exact ⟨ready_congr hsame hr, fun _ => by rw [compute_congr hsame]; exact hw⟩
    · simp only [get_set, er, if_false] at hv
      obtain ⟨h1, h2⟩ := h r hr' hrp v hv
      refine ⟨ready_congr hsame h1, fun hn => ?_⟩
      rw [compute_congr hsame]
      apply h2
      intro hmem
      rcases List.mem_cons.mp hmem with e' | e'
      · exact er e'
      · exact hn e'

theorem fresh_coerce (hwf : WF C) (htot : ∀ p xs, (W.getter p xs).isSome = true) {s : State V} {p : Field}
    (hp : p ∈ C.fields) (hpp : p.isProp = true) (h : Fresh C W s) : Fresh C W (coerce C W s p) := by
  rw [fresh_iff_pending_nil] at h ⊢
  apply pending_coerce hwf htot hp hpp
  intro r hr hrp v hv
  obtain ⟨h1, h2⟩ := h r hr hrp v hv
  exact ⟨h1, fun _ => h2 (by simp)⟩

/-- the dependants loop (schema.py:343-348) discharges the pending set -/
theorem pending_loop (hwf : WF C) (htot : ∀ p xs, (W.getter p xs).isSome = true) {f : Field} (hf : f ∈ C.fields) :
    ∀ (l : List String), (∀ q ∈ l, q ∈ f.dependants) → ∀ s : State V, FreshPending C W l s →
      Fresh C W (l.foldl (fun s q =>
        match getField C q with
        | some p => if p.isProp then coerce C W s p else s
        | none => s) s) := by
  intro l
  induction l with
  | nil => intro _ s h; exact (fresh_iff_pending_nil s).mpr h
  | cons q l ih =>
    intro hl s h
    simp only [List.foldl_cons]
    apply ih (fun x hx => hl x (by simp [hx]))
    have hq : q ∈ f.dependants := hl q (by simp)
    -- a pending name that resolves to no property has nothing waiting
    have skip : (∀ p, getField C q = some p → p.isProp = false) → FreshPending C W l s := by
      intro hno r hr hrp v hv
      obtain ⟨h1, h2⟩ := h r hr hrp v hv
      refine ⟨h1, fun hn => h2 ?_⟩
      intro hmem
      rcases List.mem_cons.mp hmem with e' | e'
      · have := hno r (by rw [← e']; exact getField_name hwf hr)
        rw [hrp] at this
        cases this
      · exact hn e'
    split
    · rename_i p hg
      split
      · rename_i hpp
        have hpn : p.name = q := hwf.depNames f hf q hq p hg
        rw [← hpn] at h
        exact pending_coerce hwf htot (getField_some hg).1 hpp h
      · rename_i hpp
        apply skip
        intro p' hg'
        rw [hg] at hg'
        cases hg'
        simpa using hpp
    · rename_i hg
      apply skip
      intro p' hg'
      rw [hg] at hg'
      cases hg'

/-- a change that leaves every stored property and its dependencies alone keeps `Fresh` -/
theorem fresh_of_frame {s t : State V} (h : Fresh C W s)
    (hd : ∀ r ∈ C.fields, r.isProp = true → ∀ v, t.data.get r.name = some v →
      s.data.get r.name = some v ∧ SameDeps C s t r) : Fresh C W t := by
  intro r hr hrp v hv
  obtain ⟨h1, hsame⟩ := hd r hr hrp v hv
  obtain ⟨h2, h3⟩ := h r hr hrp v h1
  exact ⟨by rw [compute_congr hsame]; exact h2, ready_congr hsame h3⟩

theorem fresh_prim (hwf : WF C) (htot : ∀ p xs, (W.getter p xs).isSome = true) (s : State V) (p : Prim V)
    (h : Fresh C W s) (hok : Prim.ok true C W s p) : Fresh C W (p.apply C W s) := by
  cases p with
  | store f pv =>
    obtain ⟨hf, hfp, _, _, _⟩ := hok
    simp only [Prim.apply, coerceDependants]
    apply pending_loop hwf htot hf f.dependants (fun _ hq => hq)
    -- after the store: every stored property still has readable dependencies; those not depending on f are fresh
    have hdata : ∀ r ∈ C.fields, r.isProp = true → (storeField s f pv).data.get r.name = s.data.get r.name := by
      intro r hr hrp
      have hne : r.name ≠ f.name := by
        intro e
        have := name_inj hwf hr hf e
        subst this
        rw [hrp] at hfp
        cases hfp
      unfold storeField
      split <;> simp [get_set, get_del, hne]
    have hother : ∀ g ∈ C.fields, g ≠ f → stored (storeField s f pv) g = stored s g := by
      intro g hg hgf
      have hne : g.name ≠ f.name := fun e => hgf (name_inj hwf hg hf e)
      have hna : g.attname ≠ f.attname := fun e => hgf (att_inj hwf hg hf e)
      unfold storeField
      split <;> simp [stored, get_set, get_del, hne, hna]
    have hself : avail (storeField s f pv) f = true := by
      unfold storeField avail
      split <;> simp [has_set]
    intro r hr hrp v hv
    rw [hdata r hr hrp] at hv
    obtain ⟨h1, h2⟩ := h r hr hrp v hv
    refine ⟨?_, ?_⟩
    · intro d hd df hg
      obtain ⟨hdf, _, _⟩ := dep_field hwf hr hrp hd hg
      by_cases e : df = f
      · rw [e]; exact hself
      · rw [avail_congr (hother df hdf e)]
        exact h2 d hd df hg
    · intro hn
      have hsame : SameDeps C s (storeField s f pv) r := by
        intro d hd df hg
        obtain ⟨hdf, hdn, _⟩ := dep_field hwf hr hrp hd hg
        apply hother df hdf
        intro e
        subst e
        exact hn (hwf.depsListed r hr hrp df hdf (by rw [hdn]; exact hd))
      rw [compute_congr hsame]
      exact h1
  | recompute q => exact fresh_coerce hwf htot hok.1 hok.2 h
  | setAdd k v =>
    have hk : getField C k = none := hok.1
    have hne : ∀ g ∈ C.fields, g.name ≠ k := fun g hg => getField_none_ne hwf hk hg
    apply fresh_of_frame h
    intro r hr hrp v' hv
    simp only [Prim.apply, get_set, hne r hr, if_false] at hv
    refine ⟨hv, ?_⟩
    intro d hd df hg
    obtain ⟨hdf, _, _⟩ := dep_field hwf hr hrp hd hg
    simp [Prim.apply, stored, get_set, hne df hdf]
  | remove f =>
    obtain ⟨hf, _, _, _, _, hstrict⟩ := hok
    have hnodep := hstrict rfl
    apply fresh_of_frame h
    intro r hr hrp v hv
    simp only [Prim.apply, get_del] at hv
    split at hv
    · cases hv
    · refine ⟨hv, ?_⟩
      intro d hd df hg
      obtain ⟨hdf, hdn, _⟩ := dep_field hwf hr hrp hd hg
      have hdf_ne : df ≠ f := by
        intro e
        subst e
        have := hnodep r.name (hwf.depsListed r hr hrp df hdf (by rw [hdn]; exact hd))
        rw [(has_iff _ _).mpr ⟨v, hv⟩] at this
        cases this
      have hne : df.name ≠ f.name := fun e => hdf_ne (name_inj hwf hdf hf e)
      have hna : df.attname ≠ f.attname := fun e => hdf_ne (att_inj hwf hdf hf e)
      simp [Prim.apply, stored, get_del, hne, hna]
  | delKey k =>
    have hk : getField C k = none := hok
    have hne : ∀ g ∈ C.fields, g.name ≠ k := fun g hg => getField_none_ne hwf hk hg
    apply fresh_of_frame h
    intro r hr hrp v' hv
    simp only [Prim.apply, get_del, hne r hr, if_false] at hv
    refine ⟨hv, ?_⟩
    intro d hd df hg
    obtain ⟨hdf, _, _⟩ := dep_field hwf hr hrp hd hg
    simp [Prim.apply, stored, get_del, hne df hdf]
  | clear =>
    intro r hr hrp v hv
    simp [Prim.apply] at hv
  | setAttrOther a v =>
    have ha : fieldByAtt C a = none := hok
    apply fresh_of_frame h
    intro r hr hrp v' hv
    refine ⟨hv, ?_⟩
    intro d hd df hg
    obtain ⟨hdf, _, _⟩ := dep_field hwf hr hrp hd hg
    simp [Prim.apply, stored, get_set, fieldByAtt_none ha hdf]
  | delAttrOther a =>
    have ha : fieldByAtt C a = none := hok
    apply fresh_of_frame h
    intro r hr hrp v' hv
    refine ⟨hv, ?_⟩
    intro d hd df hg
    obtain ⟨hdf, _, _⟩ := dep_field hwf hr hrp hd hg
    simp [Prim.apply, stored, get_del, fieldByAtt_none ha hdf]

end Utv.C07
