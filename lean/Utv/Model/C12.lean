/-
Parse-level places that read the two preferences (C12):
  * `Options.__init__` (options.py:151-155): no_data_loss ⇒ addition=False unless the caller chose one
    (with fix C12-ndl-addition-default: also when `addition` is left at its default),
  * the tuple prefix parser `_parse_tuple_args` (rule.py:1891-1899): excess items,
  * unknown keys of a data class / function (`parse_addition`, base.py:390-399),
  * list / tuple input of a data class (`transform_dataclass`, cls.py:596-606).
-/
import Utv.Model.Conv
namespace Utv.C12M
open Utv.Conv

/-- the `addition` option: left at its default, `None`, `False`, or `True` / a type -/
inductive Addition where
  | unset | none | no | yes
  deriving DecidableEq, Repr

/-- options.py:151-155 (after the fix): the value of `Options(...).addition` (the class default is `None`) -/
def normAddition (ndl : Bool) (a : Addition) : Addition :=
  if ndl then
    (match a with
     | .unset => .no
     | .none => .no
     | a => a)
  else
    (match a with
     | .unset => .none
     | a => a)

/-- base.py:390-399 `parse_addition` for an unknown key: rejected (ExceedError), dropped, or kept -/
inductive KeyFate where
  | rejected | dropped | kept
  deriving DecidableEq, Repr

def unknownKey (a : Addition) : KeyFate :=
  match a with
  | .no => .rejected
  | .yes => .kept
  | _ => .dropped

/-- rule.py:1896-1899: the indices handed to `context.handle_error(TupleExceedError)`; with the default
(fail-fast) context the first one raises -/
def tupleExcess (a : Addition) (ndl : Bool) (nargs nvals : Nat) : List Nat :=
  if nvals > nargs && (a == .no || ndl) then List.range' nargs (nvals - nargs) else []

/-- cls.py:596-606: what `transform_dataclass` hands on for a list / tuple input (the data-class instance
shortcuts are outside `V`) -/
def dataclassUnwrap (f : Flags) (v : V) : Outcome V :=
  match v with
  | .seq k _ xs =>
    if (k == .list || k == .tuple) && !f.nec then
      match xs with
      | [] => .ok v
      | x :: rest => if f.ndl && !rest.isEmpty then .perr .typeError else .ok x
    else .ok v
  | _ => .ok v

/-- `transform_dataclass` followed by the input stage of `init_dataclass` (cls.py:563-574): the mapping that
reaches `cls.__init__(**data)`.  `fr` are the preferences of the running transformer (they decide the
unwrapping), `fc` those of the data class's own options (they decide how a non-mapping becomes a dict). -/
def dataclassInput (P : Prims) (E : Env) (fr fc : Flags) (v : V) : Outcome V :=
  dataclassUnwrap fr v >>= fun d =>
    if isInst d .dict then .ok d
    else if fc.nec then .perr .typeError
    else toDict P E fc 0 d

/-! ### `transform_dataclass` with instances of the class among the input (cls.py:615-630) -/

/-- what `transform_dataclass` does with its input: return an object that already is an instance, or hand a
value to `init_dataclass` -/
inductive DcResult where
  | instance (v : V)
  | init (v : V)
  deriving Repr

/-- cls.py:615-630.  `isExact d` = `type(d) == cls`, `isInst d` = `isinstance(d, cls)`, `allowSub` =
`Options.allow_subclasses` (of the running transformer).  The length check under no_data_loss comes
*before* the look at the first item: several items never collapse, whatever they are. -/
def dataclassStep (isExact isInst : V → Bool) (allowSub : Bool) (f : Flags) (v : V) : Outcome DcResult :=
  let unwrapped : Outcome (V × Bool) :=
    match v with
    | .seq k _ xs =>
      if (k == .list || k == .tuple) && !f.nec then
        match xs with
        | [] => .ok (v, false)
        | x :: rest => if f.ndl && !rest.isEmpty then .perr .typeError else .ok (x, true)
      else .ok (v, false)
    | _ => .ok (v, false)
  unwrapped >>= fun (d, fromList) =>
    if fromList && isExact d then .ok (.instance d)
    else if allowSub && isInst d then .ok (.instance d)
    else .ok (.init d)

/-! ### Union types: the stages of `LogicalType.logical_parse` built from the flags (rule.py:381-431) -/

/-- `for con in args: try: return transformer(value, con) except Exception: collect` — the first member that
converts; every exception class is caught, a hang is not -/
def firstOk (g : Target → Outcome V) : List Target → Outcome (Option V)
  | [] => .ok none
  | t :: ts =>
    match g t with
    | .ok r => .ok (some r)
    | .perr _ => firstOk g ts
    | .escape _ => firstOk g ts
    | .diverge => .diverge
    | .unmodelled w => .unmodelled w

/-- rule.py:381-431 over an abstract member converter `conv flags member value`:
1. a value whose exact type is a member passes through; 2. unless both preferences are already set, every
member is tried under both (the strict stage); 3. if neither is set, every member under no_data_loss;
4. every member under the context's own flags; else the collected errors are raised (a ParseError). -/
def unionParse (conv : Flags → Target → V → Outcome V) (f : Flags) (ts : List Target) (v : V) : Outcome V :=
  if ts.any (fun t => typeEq v t) then .ok v else
  (if !f.ndl || !f.nec then firstOk (fun t => conv ⟨true, true⟩ t v) ts else .ok none) >>= fun s2 =>
  match s2 with
  | some r => .ok r
  | none =>
    (if !f.ndl && !f.nec then firstOk (fun t => conv ⟨false, true⟩ t v) ts else .ok none) >>= fun s3 =>
    match s3 with
    | some r => .ok r
    | none =>
      firstOk (fun t => conv f t v) ts >>= fun s4 =>
      match s4 with
      | some r => .ok r
      | none => .perr .typeError

end Utv.C12M
