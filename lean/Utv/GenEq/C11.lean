import Utv.GenEq.Support
import Utv.Gen.Field
import Utv.Gen.Options
import Utv.Gen.Parse
import Utv.Model.C11
/-!
C11 — T1 obligations: `Req.holds` / `RunOpts.ignoresRequired` (what `FieldDecl.resolveR` takes a field's `required` to
be under the running options) are `ParserField.is_required` and the `force_default ⇒ ignore_required` line of
`Options.__init__`, regenerated from the source on every run.  Modes are characters, mode sets Python mode strings;
C11's fragment has no `no_input`, no field `mode`, no `final`.
-/
namespace Utv.GenEq.C11
open Utv.Obj Utv.C11 Utv.Gen

variable {α : Type}

def encReq : Req Char → OVal α
  | .no => .bool false
  | .yes => .bool true
  | .modes ms => .str (String.ofList ms)

def encField (r : Req Char) : OVal α :=
  .obj "ParserField" [("required", encReq r), ("default", .unprovided), ("default_factory", .none),
    ("no_input", .bool false), ("mode", .none), ("final", .bool false)]

def encMode : Option Char → OVal α
  | none => .none
  | some c => .str (String.singleton c)

def encOptVal : Option α → OVal α
  | none => .unprovided
  | some v => .val v

/-- `is_required(options)` for the options `Options.__init__` makes of the running options -/
theorem C11_gen_is_required (W : Obj.World α) (req : Req Char) (mode : Option Char) (ir : Bool) :
    Field.is_required W (encField req) (.obj "Options" [("mode", encMode mode), ("ignore_required", .bool ir)])
      = .ok (.bool (!ir && req.holds mode)) := by
  gen_obligation "C11_gen_is_required: the regenerated code (Utv.Gen) is no longer equal to the hand model here" by
    cases req <;> cases mode <;> cases ir <;>
      obj_simp [Field.is_required, Field.always_no_input, Field.no_default, encField, encReq, encMode, getattr, lookupAttr,
        isinstance, contains, isInfixB_singleton, SeqK.name, OVal.isTrue, OVal.isUnprovided, Req.holds]
    all_goals (try grind)

/-- `Options(mode=…, ignore_required=…, force_default=…)` stores `ignore_required = ignoresRequired` -/
theorem C11_gen_options_init (W : Obj.World α) (self : OVal α) (r : RunOpts Char α) :
    (Options.Options_init W self [("mode", encMode r.mode), ("ignore_required", .bool r.ignoreRequired),
        ("force_default", encOptVal r.forceDefault)] >>= fun x => getattr x "ignore_required")
      = .ok (.bool r.ignoresRequired) := by
  gen_obligation "C11_gen_options_init: the regenerated code (Utv.Gen) is no longer equal to the hand model here" by
    obtain ⟨mode, ir, fd⟩ := r
    cases fd <;>
      obj_simp [Options.Options_init, Options.multi, lookupAttr, isinstance, callable, OVal.isUnprovided, OVal.isNone,
        getattr, encOptVal, RunOpts.ignoresRequired]

/-! ### `ParserField.parse_value`: on_error policy × required × EXCLUDED (the conversion is the world's) -/

variable {κ : Type}

def encPolicy : Policy → OVal α
  | .throw => .str "throw"
  | .exclude => .str "exclude"
  | .preserve => .str "preserve"

/-- the `ParserField` a resolved `Field` stands for (`required` / `default` are already those of this parse; C11's
fragment: a type is declared, no discriminator, not deprecated); `nm` is its name, whatever it is -/
def encPField (f : Field κ α) (nm : OVal α) : OVal α :=
  .obj "ParserField" [
    ("field", .obj "Field" [("deprecated", .bool false)]), ("deprecated_to", .none),
    ("type", .cls 0), ("discriminator_types", .seq .tuple []), ("discriminator_map", .none), ("discriminator_keys", .seq .list []), ("name", nm), ("EXCLUDED", .obj "Excluded" []),
    ("on_error", match f.onError with | none => .none | some p => encPolicy p),
    ("required", .bool f.required), ("default", encOptVal f.default), ("default_factory", .none),
    ("defer_default", .bool false), ("no_input", .bool false), ("mode", .none), ("final", .bool false)]

/-- the options of a fail-fast parse with `invalid_values = inv` -/
def encRunOptions (inv : Policy) : OVal α :=
  .obj "Options" [
    ("EXCLUDE", .str "exclude"), ("PRESERVE", .str "preserve"), ("invalid_values", encPolicy inv),
    ("ignore_required", .bool false), ("mode", .none), ("no_default", .bool false), ("defer_default", .bool false),
    ("force_default", .unprovided), ("collect_errors", .bool false), ("max_errors", .none)]

/-- a fail-fast context that has collected nothing yet -/
def encContext (inv : Policy) : OVal α :=
  .obj "RuntimeContext" [("errors", .seq .list []), ("tmp_errors", .seq .list []), ("options", encRunOptions inv)]

/-- entering the field's sub-context and converting there is the model's `f.parse`; `copy_value` hands its argument on -/
structure WorldOk (W : Obj.World α) (f : Field κ α) (nm ctx : OVal α) : Prop where
  enter : W.ext "enter" [ctx, nm, .none] = .ok (.obj "RuntimeContext" [("transformer", .fn 0)])
  conv : ∀ x, W.call (.fn 0) [.val x, .cls 0] =
    match f.parse x with
    | some y => .ok (.val y)
    | none => .error .typeError
  copy : ∀ v, W.ext "copy_value" [v] = .ok v

/-- what the caller sees: a value, `unprovided` (or the EXCLUDED marker), or the error `handle_error` raised -/
def decodeOut : OVal α × Outcome α → FieldOut α
  | (_, .ret (.val v)) => .value v
  | (_, .ret _) => .unprovided
  | (_, .raise _) => .raise

macro "pv_simp" "[" ls:Lean.Parser.Tactic.simpLemma,* "]" : tactic =>
  `(tactic| obj_simp [Parse.parse_value, Parse.invalid_value, Options.handle_error, Field.get_on_error, Field.is_required, Field.get_default,
      Field.always_no_input, Field.no_default, encPField, encContext, encRunOptions, encPolicy, encOptVal, getattr, setattr,
      lookupAttr, setAttrL, append, isinstance, OVal.isNone, OVal.isTrue, OVal.isUnprovided, eq, eqS, decodeOut, Except.map,
      tryCatch, tryCatchThe, MonadExceptOf.tryCatch, Except.tryCatch, Exc.isA, Field.policy, $ls,*])

theorem C11_gen_parse_value (W : Obj.World α) (inv : Policy) (f : Field κ α) (nm : OVal α) (x : α)
    (hw : WorldOk W f nm (encContext inv)) :
    (Parse.parse_value W (encPField f nm) (.val x) (encContext inv) (.bool false)).map decodeOut
      = .ok (parseValue inv f x) := by
  gen_obligation "C11_gen_parse_value: the regenerated code (Utv.Gen) is no longer equal to the hand model here" by
    obtain ⟨name, required, default, onError, deps, parse⟩ := f
    have hc := hw.conv x
    have he := hw.enter
    simp only at hc
    cases hp : parse x with
    | some y =>
      rw [hp] at hc
      cases inv <;> simp only [encContext, encRunOptions, encPolicy] at he <;> pv_simp [he, hc, parseValue, hp] <;> rfl
    | none =>
      rw [hp] at hc
      cases onError with
      | none =>
        cases inv <;> simp only [encContext, encRunOptions, encPolicy] at he <;> cases required <;> cases default <;>
          pv_simp [he, hc, parseValue, hp, hw.copy] <;> rfl
      | some p =>
        cases inv <;> simp only [encContext, encRunOptions, encPolicy] at he <;> cases p <;> cases required <;>
          cases default <;> pv_simp [he, hc, parseValue, hp, hw.copy] <;> rfl

/-- … and as the data loops call it (`excluded_as_absent=True`): a value the 'exclude' policy drops comes back as the
`EXCLUDED` marker (the model's `.unprovided`) whether or not a default exists -/
theorem C11_gen_parse_value_abs (W : Obj.World α) (inv : Policy) (f : Field κ α) (nm : OVal α) (x : α)
    (hw : WorldOk W f nm (encContext inv)) :
    (Parse.parse_value W (encPField f nm) (.val x) (encContext inv) (.bool true)).map decodeOut
      = .ok (parseValueAbs inv f x) := by
  gen_obligation "C11_gen_parse_value_abs: the regenerated code (Utv.Gen) is no longer equal to the hand model here" by
    obtain ⟨name, required, default, onError, deps, parse⟩ := f
    have hc := hw.conv x
    have he := hw.enter
    simp only at hc
    cases hp : parse x with
    | some y =>
      rw [hp] at hc
      cases inv <;> simp only [encContext, encRunOptions, encPolicy] at he <;> pv_simp [he, hc, parseValueAbs, hp] <;> rfl
    | none =>
      rw [hp] at hc
      cases onError with
      | none =>
        cases inv <;> simp only [encContext, encRunOptions, encPolicy] at he <;> cases required <;> cases default <;>
          pv_simp [he, hc, parseValueAbs, hp, hw.copy] <;> rfl
      | some p =>
        cases inv <;> simp only [encContext, encRunOptions, encPolicy] at he <;> cases p <;> cases required <;>
          cases default <;> pv_simp [he, hc, parseValueAbs, hp, hw.copy] <;> rfl

/-! ### `BaseParser.parse_addition` -/

/-- the parser as `parse_addition` reads it: nothing excluded, an addition type only for `typed` -/
def encParser (a : Addition α) : OVal α :=
  .obj "ClassParser" [("exclude_vars", .seq .list []),
    ("addition_type", match a with | .typed _ => .cls 0 | _ => .none)]

def encAddOpt : Addition α → OVal α
  | .ignore => .none
  | .forbid => .bool false
  | _ => .bool true

/-- a fail-fast context with `invalid_values = inv` and `addition` as the model's -/
def encAddContext (inv : Policy) (a : Addition α) : OVal α :=
  .obj "RuntimeContext" [("errors", .seq .list []), ("tmp_errors", .seq .list []),
    ("options", .obj "Options" [("EXCLUDE", .str "exclude"), ("PRESERVE", .str "preserve"),
      ("invalid_values", encPolicy inv), ("addition", encAddOpt a), ("collect_errors", .bool false),
      ("max_errors", .none)])]

structure AddWorldOk (W : Obj.World α) (a : Addition α) (key ctx : OVal α) : Prop where
  enter : W.ext "enter" [ctx, key, .none] = .ok (.obj "RuntimeContext" [("transformer", .fn 0)])
  conv : ∀ p x, a = .typed p → W.call (.fn 0) [.val x, .cls 0] =
    match p x with
    | some y => .ok (.val y)
    | none => .error .typeError

def decodeAdd : OVal α × Outcome α → AddOut α
  | (_, .ret (.val v)) => .value v
  | (_, .ret _) => .unprovided
  | (_, .raise (.obj "ExceedError" _)) => .exceed
  | (_, .raise _) => .raise

theorem C11_gen_parse_addition (W : Obj.World α) (inv : Policy) (a : Addition α) (key : OVal α) (x : α)
    (hw : AddWorldOk W a key (encAddContext inv a)) :
    (Parse.parse_addition W (encParser a) key (.val x) (encAddContext inv a)).map decodeAdd
      = .ok (parseAddition inv a x) := by
  gen_obligation "C11_gen_parse_addition: the regenerated code (Utv.Gen) is no longer equal to the hand model here" by
    have he := hw.enter
    cases a with
    | typed p =>
      have hc := hw.conv p x rfl
      cases hp : p x <;> rw [hp] at hc <;> cases inv <;>
        simp only [encAddContext, encPolicy, encAddOpt] at he <;>
        obj_simp [Parse.parse_addition, Options.handle_error, encParser, encAddContext, encAddOpt, encPolicy, getattr, setattr,
          lookupAttr, setAttrL, append, contains, memS, OVal.isFalse, he, hc, eq, eqS, decodeAdd, Except.map, parseAddition, hp,
          tryCatch, tryCatchThe, MonadExceptOf.tryCatch, Except.tryCatch, Exc.isA] <;> rfl
    | _ =>
      cases inv <;>
        obj_simp [Parse.parse_addition, Options.handle_error, encParser, encAddContext, encAddOpt, encPolicy, getattr, setattr,
          lookupAttr, setAttrL, append, contains, memS, OVal.isFalse, decodeAdd, Except.map, parseAddition]

end Utv.GenEq.C11
