#!/bin/bash
# usage: tools/mkws.sh Cxx   -> builder workspace /tmp/w/Cxx/{verif,repo} (scratch; removed with tools/rmws.sh)
set -e
P=$1
mkdir -p /tmp/w/$P
git -C /verif worktree add -f /tmp/w/$P/verif -b build/$P >/dev/null 2>&1 || git -C /verif worktree add -f /tmp/w/$P/verif build/$P
git -C /repo worktree add -f --detach /tmp/w/$P/repo HEAD >/dev/null
mkdir -p /tmp/w/$P/verif/lean/.lake
cp -r /verif/lean/.lake/build /tmp/w/$P/verif/lean/.lake/ 2>/dev/null || true
cp -r /verif/lean/Utv/Gen /tmp/w/$P/verif/lean/Utv/ 2>/dev/null || true
echo /tmp/w/$P
