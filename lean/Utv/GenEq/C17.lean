import Utv.GenEq.Support
import Utv.Gen.Forward
import Utv.Model.C17
/-!
C17 — T1 obligations: `resolve_forward_type` (utype/parser/rule.py), regenerated on every run as
`Utv.Gen.Forward.resolve_forward_type`, is the leaf step of the hand model's `resolveTy` (`Model/C17.lean`): a `ForwardRef`
whose cell has been evaluated is replaced by the value of the cell and reported as resolved, an unevaluated one and a plain
class are handed back unchanged.

Encoding.  A `ForwardRef` object carries its cell number, `__forward_evaluated__` (the cell has a value in `State.cells`) and
`__forward_value__` (that value, as the caller's encoding `ev` of declared types renders it).  A plain class (`int`,
`NoneType`, a data class) is a class known by number.  The descent through generic arguments (`Rule.resolve_forward_refs`,
which rewrites `__args__` of a class object in place) is not translated.
-/
namespace Utv.GenEq.C17
open Utv.Obj Utv.Gen

variable {V : Type}

abbrev MTy := Utv.C17.Ty
abbrev MCell := Utv.C17.Cell

/-- the `ForwardRef` object of cell `c` in a state whose evaluated cells are `cells` -/
def encRef (ev : MTy → OVal V) (cells : List (MCell × MTy)) (c : MCell) : OVal V :=
  .obj "ForwardRef" [("__forward_arg__", .int c),
    ("__forward_evaluated__", .bool (Utv.C17.lookupCell c cells).isSome),
    ("__forward_value__", match Utv.C17.lookupCell c cells with | some v => ev v | none => .none)]

/-- a `ForwardRef`: evaluated → the model's `resolveTy` of it and `True`; pending → the object itself and `False` -/
theorem C17_gen_resolve_forward_type_ref (W : World V) (cfg : Utv.C17.Cfg) (ev : MTy → OVal V)
    (cells : List (MCell × MTy)) (c : MCell) :
    Forward.resolve_forward_type W (encRef ev cells c)
      = .ok (.seq .tuple [
          if (Utv.C17.lookupCell c cells).isSome then ev (Utv.C17.resolveTy cfg cells (.fref c)) else encRef ev cells c,
          .bool (Utv.C17.lookupCell c cells).isSome]) := by
  gen_obligation "C17_gen_resolve_forward_type_ref: the regenerated code (Utv.Gen) is no longer equal to the hand model here" by
    unfold Forward.resolve_forward_type
    have hi : isinstance (encRef ev cells c) ["ForwardRef"] = .ok true := rfl
    have he : getattr (encRef ev cells c) "__forward_evaluated__" = .ok (.bool (Utv.C17.lookupCell c cells).isSome) := rfl
    have hv : getattr (encRef ev cells c) "__forward_value__"
        = .ok (match Utv.C17.lookupCell c cells with | some v => ev v | none => .none) := rfl
    simp only [hi, he, hv, truthy_bool, bind, Except.bind, pure, Except.pure, if_true, Utv.C17.resolveTy]
    cases Utv.C17.lookupCell c cells <;> rfl

/-- a plain class (`int`, `NoneType`, a data class) is handed back as it is, not resolved: `resolveTy` leaves it alone -/
theorem C17_gen_resolve_forward_type_plain (W : World V) (k : Nat) :
    Forward.resolve_forward_type W (.cls k) = .ok (.seq .tuple [.cls k, .bool false]) := by
  gen_obligation "C17_gen_resolve_forward_type_plain: the regenerated code (Utv.Gen) is no longer equal to the hand model here" by
    rfl

/-- a constrained / generic type (a class whose metaclass is `LogicalType`): the object itself, and whatever its own
`resolve_forward_refs()` reports — the descent the model's `resolveTy` makes through `list / dict / tuple / union / con`
happens there, on the class object in place (not translated: no hand counterpart at this level) -/
theorem C17_gen_resolve_forward_type_rule (W : World V) (m r : OVal V) (attrs : List (String × OVal V))
    (hm : lookupAttr "resolve_forward_refs" attrs = some m) (hr : W.call m [] = .ok r) :
    Forward.resolve_forward_type W (.obj "LogicalType" attrs) = .ok (.seq .tuple [.obj "LogicalType" attrs, r]) := by
  gen_obligation "C17_gen_resolve_forward_type_rule: the regenerated code (Utv.Gen) is no longer equal to the hand model here" by
    unfold Forward.resolve_forward_type
    have h1 : isinstance (OVal.obj "LogicalType" attrs : OVal V) ["ForwardRef"] = .ok false := rfl
    have h2 : isinstance (OVal.obj "LogicalType" attrs : OVal V) ["LogicalType"] = .ok true := rfl
    have h3 : getattr (OVal.obj "LogicalType" attrs : OVal V) "resolve_forward_refs" = .ok m := by
      simp [getattr, hm, pure, Except.pure]
    simp only [h1, h2, h3, hr, bind, Except.bind, pure, Except.pure, Bool.false_eq_true, if_false, if_true]

theorem resolveTy_plain (cfg : Utv.C17.Cfg) (cells : List (MCell × MTy)) :
    Utv.C17.resolveTy cfg cells .int = .int ∧ Utv.C17.resolveTy cfg cells .none = .none
      ∧ ∀ n, Utv.C17.resolveTy cfg cells (.data n) = .data n := by
  simp [Utv.C17.resolveTy]

end Utv.GenEq.C17
