import Utv.Props.C02
import Utv.Lemmas.Num
import Utv.Model.C03Frag
/-!
C03 — idempotence; lax constraints converge in one step.

For every lax (transforming) validator regenerated from rule.py (T1): the output is a fixed point of the same lax
validator and, on the exact domains, satisfies the strict form of the same constraint.
`lax_max_digits` is the exception on the unchanged tree (rounding can carry into a new digit): negation witness
and partial theorem below; known finding `lax-max-digits-carry`.
-/
namespace Utv.C03
open Utv.Py Utv.Gen Utv.Rule Utv.C02

/-! ### lax_ge / lax_le on every non-NaN number (bool, int, float, Decimal, infinities, mixed) -/

theorem lax_ge_val (P : Prims) (v b : PyVal) (x : Bool) (h : Py.lt v b = .ok x) :
    Constraints.lax_ge P v b = .ok (if x then b else v) := by
  unfold Constraints.lax_ge
  py_simp [h]
  cases x <;> rfl

theorem lax_le_val (P : Prims) (v b : PyVal) (x : Bool) (h : Py.gt v b = .ok x) :
    Constraints.lax_le P v b = .ok (if x then b else v) := by
  unfold Constraints.lax_le
  py_simp [h]
  cases x <;> rfl

theorem C03_lax_ge_fixpoint (P : Prims) (v b : PyVal) (hv : Numeric v) (hb : Numeric b) :
    ∃ w, Constraints.lax_ge P v b = .ok w ∧ Constraints.lax_ge P w b = .ok w ∧ Constraints.ge P w b = .ok w := by
  obtain ⟨x, hx, nx⟩ := hv
  obtain ⟨y, hy, ny⟩ := hb
  have hlt := lt_numeric hx hy nx ny
  rw [lax_ge_val P v b _ hlt]
  cases hl : NumV.lt x y with
  | true =>
    refine ⟨b, rfl, ?_, ?_⟩
    · rw [lax_ge_val P b b _ (lt_numeric hy hy ny ny), NumV.lt_irrefl]; rfl
    · rw [C02_ge_iff]
      simp [Py.ge, Py.le, lt_numeric hy hy ny ny, NumV.lt_irrefl, eq_numeric hy hy, NumV.eq_refl y ny,
        bind, Except.bind, pure, Except.pure]
  | false =>
    refine ⟨v, rfl, ?_, ?_⟩
    · rw [lax_ge_val P v b _ hlt, hl]; rfl
    · rw [C02_ge_iff]
      have := NumV.tri x y nx ny hl
      simp only [Py.ge, Py.le, lt_numeric hy hx ny nx, eq_numeric hy hx, bind, Except.bind, pure, Except.pure]
      rw [NumV.eq_symm y x]
      rcases this with h | h <;> simp [h]

theorem C03_lax_le_fixpoint (P : Prims) (v b : PyVal) (hv : Numeric v) (hb : Numeric b) :
    ∃ w, Constraints.lax_le P v b = .ok w ∧ Constraints.lax_le P w b = .ok w ∧ Constraints.le P w b = .ok w := by
  obtain ⟨x, hx, nx⟩ := hv
  obtain ⟨y, hy, ny⟩ := hb
  have hgt : Py.gt v b = .ok (NumV.lt y x) := lt_numeric hy hx ny nx
  rw [lax_le_val P v b _ hgt]
  cases hl : NumV.lt y x with
  | true =>
    refine ⟨b, rfl, ?_, ?_⟩
    · have : Py.gt b b = .ok (NumV.lt y y) := lt_numeric hy hy ny ny
      rw [lax_le_val P b b _ this, NumV.lt_irrefl]; rfl
    · rw [C02_le_iff]
      simp [Py.le, lt_numeric hy hy ny ny, NumV.lt_irrefl, eq_numeric hy hy, NumV.eq_refl y ny,
        bind, Except.bind, pure, Except.pure]
  | false =>
    refine ⟨v, rfl, ?_, ?_⟩
    · rw [lax_le_val P v b _ hgt, hl]; rfl
    · rw [C02_le_iff]
      have := NumV.tri y x ny nx hl
      simp only [Py.le, lt_numeric hx hy nx ny, eq_numeric hx hy, bind, Except.bind, pure, Except.pure]
      rw [NumV.eq_symm x y]
      rcases this with h | h <;> simp [h]

/-- the hypotheses are satisfiable by mixed numeric types -/
example : Numeric (.int 3) ∧ Numeric (.dec (.fin false 25 (-1))) ∧ Numeric (.float (.inf true)) ∧ Numeric (.bool true) :=
  ⟨⟨_, rfl, rfl⟩, ⟨_, rfl, rfl⟩, ⟨_, rfl, rfl⟩, ⟨_, rfl, rfl⟩⟩

/-! ### lax_multiple_of on ints -/

theorem C03_lax_multiple_of_fixpoint (P : Prims) (a m : Int) (hm : m ≠ 0) :
    ∃ w : Int, Constraints.lax_multiple_of P (.int a) (.int m) = .ok (.int w) ∧
      Constraints.lax_multiple_of P (.int w) (.int m) = .ok (.int w) ∧
      Constraints.multiple_of P (.int w) (.int m) = .ok (.int w) := by
  have hm' : (m == 0) = false := by simpa using hm
  by_cases h0 : a.fmod m = 0
  · refine ⟨a, ?_, ?_, ?_⟩ <;>
      simp [Constraints.lax_multiple_of, Constraints.multiple_of, Py.mod, asInt?, hm', Py.truthy, h0, bind,
        Except.bind, pure, Except.pure]
  · have hw : (a.fdiv m * m).fmod m = 0 := Int.mul_fmod_left _ _
    refine ⟨a.fdiv m * m, ?_, ?_, ?_⟩ <;>
      simp [Constraints.lax_multiple_of, Constraints.multiple_of, Py.mod, Py.floordiv, Py.mul, asInt?, hm',
        Py.truthy, h0, hw, bind, Except.bind, pure, Except.pure]

/-! ### lax_length / lax_max_length on strings, lists and tuples -/

/-- values with positional slicing -/
def Sliceable : PyVal → Prop
  | .str _ => True
  | .seq k _ => k = .list ∨ k = .tuple
  | _ => False

theorem sliceTo_len (v : PyVal) (n : Nat) (lg : Int) (hs : Sliceable v) (hl : lenOf v = some n)
    (h0 : 0 ≤ lg) (hle : lg ≤ n) :
    ∃ w, Py.sliceTo v (.int lg) = .ok w ∧ lenOf w = some lg.toNat ∧ Sliceable w := by
  cases v with
  | str s =>
    refine ⟨_, rfl, ?_, trivial⟩
    simp only [lenOf, Option.some.injEq] at hl ⊢
    have : ¬ lg < 0 := by omega
    simp [sliceStop, this, String.length_ofList, List.length_take, String.length_toList]
    omega
  | seq k xs =>
    simp only [Sliceable] at hs
    have hk : (k == Cls.set || k == Cls.frozenset) = false := by rcases hs with rfl | rfl <;> rfl
    refine ⟨.seq k (xs.take (sliceStop lg xs.length)), by simp [Py.sliceTo, hk, pure, Except.pure], ?_, hs⟩
    simp only [lenOf, Option.some.injEq] at hl ⊢
    have : ¬ lg < 0 := by omega
    simp [sliceStop, this, List.length_take]
    omega
  | _ => simp [Sliceable] at hs

theorem C03_lax_length_fixpoint (P : Prims) (v : PyVal) (n : Nat) (lg : Int) (hs : Sliceable v)
    (hl : lenOf v = some n) (h0 : 0 ≤ lg) :
    (n < lg → Constraints.lax_length P v (.int lg) = .error .valueError) ∧
    (lg ≤ n → ∃ w, Constraints.lax_length P v (.int lg) = .ok w ∧
        Constraints.lax_length P w (.int lg) = .ok w ∧ Constraints.length P w (.int lg) = .ok w) := by
  constructor
  · intro hlt
    unfold Constraints.lax_length
    have hne : (n : Int) ≠ lg := by omega
    py_simp [hasLen_of_lenOf hl, len_of_lenOf hl, ne_int, hne, Py.truthy, hlt]
  · intro hle
    have key : ∀ (u : PyVal) (k : Nat), lenOf u = some k → (k : Int) = lg →
        Constraints.lax_length P u (.int lg) = .ok u := by
      intro u k hu hk
      unfold Constraints.lax_length
      py_simp [hasLen_of_lenOf hu, len_of_lenOf hu, ne_int, hk]
    by_cases heq : (n : Int) = lg
    · exact ⟨v, key v n hl heq, key v n hl heq, (C02_length_iff P v v n lg hl).mpr ⟨heq, rfl⟩⟩
    · obtain ⟨w, hw, hwl, _⟩ := sliceTo_len v n lg hs hl h0 hle
      have hk : ((lg.toNat : Nat) : Int) = lg := by omega
      refine ⟨w, ?_, key w _ hwl hk, (C02_length_iff P w w _ lg hwl).mpr ⟨hk, rfl⟩⟩
      unfold Constraints.lax_length
      have hlt : ¬ (n : Int) < lg := by omega
      py_simp [hasLen_of_lenOf hl, len_of_lenOf hl, ne_int, heq, Py.truthy, hlt, hw]

theorem C03_lax_max_length_fixpoint (P : Prims) (v : PyVal) (n : Nat) (m : Int) (hs : Sliceable v)
    (hl : lenOf v = some n) (h0 : 0 ≤ m) :
    ∃ w, Constraints.lax_max_length P v (.int m) = .ok w ∧
      Constraints.lax_max_length P w (.int m) = .ok w ∧ Constraints.max_length P w (.int m) = .ok w := by
  have key : ∀ (u : PyVal) (k : Nat), lenOf u = some k → (k : Int) ≤ m →
      Constraints.lax_max_length P u (.int m) = .ok u := by
    intro u k hu hk
    unfold Constraints.lax_max_length
    have : ¬ m < (k : Int) := by omega
    py_simp [hasLen_of_lenOf hu, len_of_lenOf hu, this]
  by_cases hle : (n : Int) ≤ m
  · exact ⟨v, key v n hl hle, key v n hl hle, (C02_max_length_iff P v v n m hl).mpr ⟨hle, rfl⟩⟩
  · obtain ⟨w, hw, hwl, _⟩ := sliceTo_len v n m hs hl h0 (by omega)
    have hk : ((m.toNat : Nat) : Int) ≤ m := by omega
    refine ⟨w, ?_, key w _ hwl hk, (C02_max_length_iff P w w _ m hwl).mpr ⟨hk, rfl⟩⟩
    unfold Constraints.lax_max_length
    have hlt : m < (n : Int) := by omega
    py_simp [hasLen_of_lenOf hl, len_of_lenOf hl, Py.truthy, hlt, hw]

/-! ### lax_const / lax_enum -/

theorem C03_lax_const_fixpoint (P : Prims) (v c : PyVal) (hc : Py.eq c c = true) :
    Constraints.lax_const P v c = .ok c ∧ Constraints.lax_const P c c = .ok c ∧ Constraints.const P c c = .ok c := by
  refine ⟨rfl, rfl, ?_⟩
  rw [C02_const_iff]
  exact ⟨hc, Or.inl rfl, rfl⟩

theorem C03_lax_enum_fixpoint (P : Prims) (v x : PyVal) (k : Cls) (xs : List PyVal)
    (hk : Cls.sub k .enumMeta = false) (hv : Py.isinstance v .enum = false) (hx' : Py.isinstance x .enum = false)
    (hx : Py.eq x x = true) :
    ∃ w, Constraints.lax_enum P v (.seq k (x :: xs)) = .ok w ∧
      Constraints.lax_enum P w (.seq k (x :: xs)) = .ok w ∧ Constraints.enum P w (.seq k (x :: xs)) = .ok w := by
  have h1 : Py.isinstance (.seq k (x :: xs)) .enumMeta = false := by simpa [Py.isinstance, typeOf] using hk
  have mem : memEq x (x :: xs) = true := by simp [memEq, hx]
  have fix : ∀ u, Py.isinstance u .enum = false → memEq u (x :: xs) = true →
      Constraints.lax_enum P u (.seq k (x :: xs)) = .ok u := by
    intro u hu hm
    unfold Constraints.lax_enum
    py_simp [h1, hu, Py.contains, hm]
  by_cases hm : memEq v (x :: xs) = true
  · exact ⟨v, fix v hv hm, fix v hv hm, (C02_enum_iff P v v k _ hk hv).mpr ⟨hm, rfl⟩⟩
  · refine ⟨x, ?_, fix x hx' mem, (C02_enum_iff P x x k _ hk hx').mpr ⟨mem, rfl⟩⟩
    unfold Constraints.lax_enum
    py_simp [h1, hv, Py.contains, hm, Py.toList, Py.iter, Py.index]

/-! ### lax_unique_items on lists and tuples -/

/-- keep the first occurrence of every element (`==`) -/
def dedupFrom : List PyVal → List PyVal → List PyVal
  | acc, [] => acc
  | acc, x :: xs => if memEq x acc then dedupFrom acc xs else dedupFrom (acc ++ [x]) xs

theorem forIn_dedup (f : PyVal → PyVal → M (ForInStep PyVal))
    (hf : ∀ v acc, f v (.seq .list acc) =
      .ok (.yield (.seq .list (if memEq v acc then acc else acc ++ [v])))) :
    ∀ xs acc, forIn xs (PyVal.seq .list acc) f = (.ok (.seq .list (dedupFrom acc xs)) : M PyVal) := by
  intro xs
  induction xs with
  | nil => intro acc; simp [dedupFrom, pure, Except.pure]
  | cons x xs ih =>
    intro acc
    rw [List.forIn_cons, hf]
    cases hm : memEq x acc <;> simp [dedupFrom, hm, bind, Except.bind, ih]

theorem lax_unique_items_seq (P : Prims) (k : Cls) (xs : List PyVal) (hk : k = .list ∨ k = .tuple) :
    Constraints.lax_unique_items P (.seq k xs) (.bool true) = .ok (.seq k (dedupFrom [] xs)) := by
  unfold Constraints.lax_unique_items
  simp only [Py.truthy, Py.iter]
  rw [show (pure xs : M (List PyVal)) = .ok xs from rfl]
  simp only [bind, Except.bind, Bool.not_true]
  rw [forIn_dedup _ (by
    intro v acc
    simp only [Py.contains, Py.append, bind, Except.bind, pure, Except.pure]
    cases memEq v acc <;> simp)]
  rcases hk with rfl | rfl <;> simp [Py.construct, Py.typeOf, Py.iter, bind, Except.bind, pure, Except.pure]

theorem memEq_false_forall (x : PyVal) : ∀ acc, memEq x acc = false → ∀ a ∈ acc, Py.eq x a = false := by
  intro acc
  induction acc with
  | nil => intro _ a ha; cases ha
  | cons y ys ih =>
    intro hx a ha
    simp only [memEq, Bool.or_eq_false_iff] at hx
    rcases List.mem_cons.mp ha with rfl | h'
    · exact hx.1
    · exact ih hx.2 a h'

theorem noDupFrom_snoc (acc : List PyVal) (x : PyVal) (h : noDupFrom [] acc = true) (hx : memEq x acc = false) :
    noDupFrom [] (acc ++ [x]) = true := by
  rw [noDupFrom_iff] at h ⊢
  refine ⟨by intro y _; rfl, ?_⟩
  rw [List.pairwise_append]
  refine ⟨h.2, by simp, ?_⟩
  intro a ha b hb
  simp only [List.mem_singleton] at hb
  subst hb
  exact memEq_false_forall b acc hx a ha

theorem dedupFrom_noDup (xs : List PyVal) : ∀ acc, noDupFrom [] acc = true → noDupFrom [] (dedupFrom acc xs) = true := by
  induction xs with
  | nil => intro acc h; simpa [dedupFrom] using h
  | cons x xs ih =>
    intro acc h
    simp only [dedupFrom]
    cases hm : memEq x acc with
    | true => simpa using ih acc h
    | false => simpa using ih _ (noDupFrom_snoc acc x h hm)

theorem dedupFrom_of_noDup (xs : List PyVal) : ∀ acc, noDupFrom acc xs = true → dedupFrom acc xs = acc ++ xs := by
  induction xs with
  | nil => intro acc _; simp [dedupFrom]
  | cons x xs ih =>
    intro acc h
    simp only [noDupFrom, Bool.and_eq_true, Bool.not_eq_true'] at h
    simp [dedupFrom, h.1, ih _ h.2]

theorem C03_lax_unique_items_fixpoint (P : Prims) (k : Cls) (xs : List PyVal) (hk : k = .list ∨ k = .tuple) :
    ∃ w, Constraints.lax_unique_items P (.seq k xs) (.bool true) = .ok w ∧
      Constraints.lax_unique_items P w (.bool true) = .ok w ∧
      Constraints.unique_items P w (.bool true) = .ok w := by
  have hnd : noDupFrom [] (dedupFrom [] xs) = true := dedupFrom_noDup xs [] rfl
  refine ⟨.seq k (dedupFrom [] xs), lax_unique_items_seq P k xs hk, ?_, ?_⟩
  · rw [lax_unique_items_seq P k _ hk, dedupFrom_of_noDup _ [] hnd]; rfl
  · rw [unique_items_seq, hnd]; rfl

/-! ### lax_decimal_places on Decimals -/

theorem decQuantize_idem (s : Bool) (c : Nat) (e d : Int) (w : PyVal) (h : decQuantize s c e d = .ok w) :
    ∃ c', w = .dec (.fin s c' (-d)) ∧ decQuantize s c' (-d) d = .ok w := by
  have hsub : (e - -d).toNat = (e + d).toNat := by congr 1; omega
  have hsub2 : (-d - e).toNat = (-(d + e)).toNat := by congr 1; omega
  by_cases he : e ≥ -d
  · by_cases hp : numDigits (c * 10 ^ (e + d).toNat) > decPrec
    · simp [decQuantize, he, hsub, hp, throw, throwThe, MonadExceptOf.throw] at h
    · simp only [decQuantize, he, hsub, hp, if_true, if_false, pure, Except.pure, Except.ok.injEq] at h
      subst h
      refine ⟨_, rfl, ?_⟩
      simp [decQuantize, hp, pure, Except.pure]
  · by_cases hp : numDigits (divRoundHalfEven (↑c) (-d - e).toNat).natAbs > decPrec
    · simp [decQuantize, he, hp, throw, throwThe, MonadExceptOf.throw] at h
    · simp only [decQuantize, he, hp, if_false, pure, Except.pure, Except.ok.injEq] at h
      subst h
      refine ⟨_, rfl, ?_⟩
      simp [decQuantize, hp, pure, Except.pure]

theorem C03_lax_decimal_places_fixpoint (P : Prims) (s : Bool) (c : Nat) (e d : Int) (w : PyVal) (hd : 0 ≤ d)
    (h : Constraints.lax_decimal_places P (.dec (.fin s c e)) (.int d) = .ok w) :
    Constraints.lax_decimal_places P w (.int d) = .ok w ∧ Constraints.decimal_places P w (.int d) = .ok w := by
  have hq : decQuantize s c e d = .ok w := by
    simpa [Constraints.lax_decimal_places, Py.round, asInt?, bind, Except.bind, pure, Except.pure] using h
  obtain ⟨c', rfl, hq'⟩ := decQuantize_idem s c e d w hq
  constructor
  · simpa [Constraints.lax_decimal_places, Py.round, asInt?, bind, Except.bind, pure, Except.pure] using hq'
  · rw [C02_decimal_places_decimal]
    refine ⟨?_, hq'⟩
    rw [← (C02_parse_decimal_spec c' (-d)).2]
    unfold codeDecimals
    split <;> omega

/-! ### lax_max_digits — NOT a fixed point on the unchanged tree (known finding `lax-max-digits-carry`) -/

/-- `Decimal('99.99')` with `Lax(max_digits=3)`: rounds to `100.0` (4 digits), which the strict constraint rejects
and which a second pass changes again to `100`. -/
theorem C03_lax_max_digits_carry_witness (P : Prims) :
    Constraints.lax_max_digits P (.dec (.fin false 9999 (-2))) (.int 3) = .ok (.dec (.fin false 1000 (-1))) ∧
    Constraints.max_digits P (.dec (.fin false 1000 (-1))) (.int 3) = .error .valueError ∧
    Constraints.lax_max_digits P (.dec (.fin false 1000 (-1))) (.int 3) = .ok (.dec (.fin false 100 0)) := by
  refine ⟨?_, ?_, ?_⟩ <;> rfl

/-- the defect is exactly "rounding carried into a new digit" -/
def KnownDefect.laxMaxDigitsCarry (w : PyVal) (m : Int) : Bool :=
  match w with
  | .dec (.fin _ c e) => decide (codeDigits c e > m)
  | _ => false

/-- what *is* true of `lax_max_digits`: any Decimal that already satisfies the strict constraint is a fixed point of the lax
one (so a first pass that did not carry — `KnownDefect.laxMaxDigitsCarry … = false` for its output — converges in one step).
The hypothesis is the strict form of the OUTPUT; an input-side "no carry" characterisation is not proved — the positive
part of the `lax_max_digits` clause rests on the correspondence run and the oracle. -/
theorem C03_lax_max_digits_fixpoint_if_strict_partial (P : Prims) (s' : Bool) (c' : Nat) (e' m : Int)
    (hk : KnownDefect.laxMaxDigitsCarry (.dec (.fin s' c' e')) m = false) :
    Constraints.lax_max_digits P (.dec (.fin s' c' e')) (.int m) = .ok (.dec (.fin s' c' e')) ∧
    Constraints.max_digits P (.dec (.fin s' c' e')) (.int m) = .ok (.dec (.fin s' c' e')) := by
  have hle : codeDigits c' e' ≤ m := by simpa [KnownDefect.laxMaxDigitsCarry] using hk
  constructor
  · unfold Constraints.lax_max_digits
    rw [parseDecimal_fin]
    py_simp [Py.unpack2, hle]
  · rw [C02_max_digits_decimal, ← (C02_parse_decimal_spec c' e').1]
    exact ⟨hle, rfl⟩

/-- non-vacuity: a rounding without carry satisfies the hypotheses (123.456, max_digits=4 → 123.5) -/
example (P : Prims) : Constraints.lax_max_digits P (.dec (.fin false 123456 (-3))) (.int 4) = .ok (.dec (.fin false 1235 (-1)))
    ∧ KnownDefect.laxMaxDigitsCarry (.dec (.fin false 1235 (-1))) 4 = false := ⟨rfl, rfl⟩

/-! ### strict constraints: re-validation of an accepted value is the identity -/

theorem C03_strict_idempotent (P : Prims) (cs : List (String × PyVal)) (v r : PyVal)
    (hp : ∀ c ∈ cs, ∃ f, validatorOf c.1 = some f ∧ Preserving f)
    (h : validate P cs v = .ok r) : validate P cs r = .ok r := by
  have := (C02_validate_iff P cs v r hp).mp h
  rw [this.2] at h ⊢
  exact h

/-! ### the validator phase with a lax constraint after a strict one is NOT idempotent on the unchanged tree
(known finding `lax-result-not-revalidated`): `gt=3, multiple_of=Lax(3)` accepts 4, returns 3, and rejects 3. -/

theorem C03_lax_after_strict_witness (P : Prims) :
    validate P [("gt", .int 3), ("lax_multiple_of", .int 3)] (.int 4) = .ok (.int 3) ∧
    validate P [("gt", .int 3), ("lax_multiple_of", .int 3)] (.int 3) = .error .valueError := by
  constructor <;> rfl

/-- the validator loop on a one-constraint list is that validator (helper) -/
theorem single_lax_of_fixpoint (P : Prims) (name : String) (b v w : PyVal) (f : Validator)
    (hf : validatorOf name = some f) (h1 : f P v b = .ok w) (hfix : f P w b = .ok w) :
    validate P [(name, b)] v = .ok w ∧ validate P [(name, b)] w = .ok w := by
  simp [validate, hf, h1, hfix, bind, Except.bind, pure, Except.pure]

/-- a declaration whose only constraint is `multiple_of = Lax(m)` on ints is idempotent and its output satisfies the strict form -/
theorem C03_validate_single_lax_multiple_of (P : Prims) (a m : Int) (hm : m ≠ 0) :
    ∃ w : Int, validate P [("lax_multiple_of", .int m)] (.int a) = .ok (.int w) ∧
      validate P [("lax_multiple_of", .int m)] (.int w) = .ok (.int w) ∧
      validate P [("multiple_of", .int m)] (.int w) = .ok (.int w) := by
  obtain ⟨w, h1, h2, h3⟩ := C03_lax_multiple_of_fixpoint P a m hm
  refine ⟨w, ?_, ?_, ?_⟩
  · exact (single_lax_of_fixpoint P _ _ _ _ _ rfl h1 h2).1
  · exact (single_lax_of_fixpoint P _ _ _ _ _ rfl h1 h2).2
  · simp [validate, validatorOf, h3, bind, Except.bind, pure, Except.pure]

/-- … and with only `ge = Lax(b)` on any mix of numbers -/
theorem C03_validate_single_lax_ge (P : Prims) (v b : PyVal) (hv : Numeric v) (hb : Numeric b) :
    ∃ w, validate P [("lax_ge", b)] v = .ok w ∧ validate P [("lax_ge", b)] w = .ok w ∧ validate P [("ge", b)] w = .ok w := by
  obtain ⟨w, h1, h2, h3⟩ := C03_lax_ge_fixpoint P v b hv hb
  refine ⟨w, (single_lax_of_fixpoint P _ _ _ _ _ rfl h1 h2).1, (single_lax_of_fixpoint P _ _ _ _ _ rfl h1 h2).2, ?_⟩
  simp [validate, validatorOf, h3, bind, Except.bind, pure, Except.pure]

/-- two Lax constraints (known finding `lax-result-not-revalidated`): `ge = Lax(4), multiple_of = Lax(3)` takes 2 to 4 and then
to 3, which violates `ge = 4`; the output of the declaration does not satisfy its own first constraint -/
theorem C03_two_lax_witness (P : Prims) :
    validate P [("lax_ge", .int 4), ("lax_multiple_of", .int 3)] (.int 2) = .ok (.int 3) ∧
    Constraints.ge P (.int 3) (.int 4) = .error .valueError ∧
    validate P [("lax_ge", .int 4), ("lax_multiple_of", .int 3)] (.int 3) = .ok (.int 3) := by
  refine ⟨?_, ?_, ?_⟩ <;> rfl

/-- `lax_ge` / `lax_le` on strings (lexicographic order): fixed point and strict form -/
theorem C03_lax_ge_le_str (P : Prims) (s b : String) :
    (∃ w, Constraints.lax_ge P (.str s) (.str b) = .ok w ∧ Constraints.lax_ge P w (.str b) = .ok w ∧ Constraints.ge P w (.str b) = .ok w) ∧
    (∃ w, Constraints.lax_le P (.str s) (.str b) = .ok w ∧ Constraints.lax_le P w (.str b) = .ok w ∧ Constraints.le P w (.str b) = .ok w) := by
  constructor
  · rw [lax_ge_val P _ _ _ (lt_str s b)]
    by_cases h : s < b
    · refine ⟨.str b, by simp [h], ?_, ?_⟩
      · rw [lax_ge_val P _ _ _ (lt_str b b)]; simp [String.lt_irrefl]
      · rw [C02_ge_iff]; simp [Py.ge, Py.le, String.lt_irrefl, bind, Except.bind, pure, Except.pure]
    · refine ⟨.str s, by simp [h], ?_, ?_⟩
      · rw [lax_ge_val P _ _ _ (lt_str s b)]; simp [h]
      · rw [C02_ge_iff]
        simp only [Py.ge, Py.le, lt_str, eq_str, bind, Except.bind, pure, Except.pure, Except.ok.injEq, and_true]
        by_cases h2 : b < s
        · simp [h2]
        · have : b = s := String.le_antisymm (String.not_lt.mp h) (String.not_lt.mp h2)
          simp [this]
  · have hgt : Py.gt (.str s) (.str b) = .ok (decide (b < s)) := by simp [Py.gt]
    rw [lax_le_val P _ _ _ hgt]
    by_cases h : b < s
    · refine ⟨.str b, by simp [h], ?_, ?_⟩
      · have : Py.gt (.str b) (.str b) = .ok (decide (b < b)) := by simp [Py.gt]
        rw [lax_le_val P _ _ _ this]; simp [String.lt_irrefl]
      · rw [C02_le_iff]; simp [Py.le, String.lt_irrefl, bind, Except.bind, pure, Except.pure]
    · refine ⟨.str s, by simp [h], ?_, ?_⟩
      · rw [lax_le_val P _ _ _ hgt]; simp [h]
      · rw [C02_le_iff]
        simp only [Py.le, lt_str, eq_str, bind, Except.bind, pure, Except.pure, Except.ok.injEq, and_true]
        by_cases h2 : s < b
        · simp [h2]
        · have : s = b := String.le_antisymm (String.not_lt.mp h) (String.not_lt.mp h2)
          simp [this]

/-- `decimal_places = Lax(d)` on an int (`round(i, d)`, `d ≥ 0`): the int itself, a fixed point that satisfies the strict form -/
theorem C03_lax_decimal_places_int (P : Prims) (i d : Int) (hd : 0 ≤ d) :
    Constraints.lax_decimal_places P (.int i) (.int d) = .ok (.int i) ∧
    Constraints.decimal_places P (.int i) (.int d) = .ok (.int i) := by
  constructor
  · simp [Constraints.lax_decimal_places, Py.round, asInt?, hd, bind, Except.bind, pure, Except.pure]
  · exact C02_decimal_places_int P i d hd

/-! ### container types with item types: every declared constraint holds on the RESULT, and the result re-parses

`Rule.parse` (rule.py:1723-1760, `Utv.C02D.parseTyped`): the args parser converts the items, the converted items are packed
into the origin container (a set de-duplicates: `[1, '1']` becomes `{1}`), and only then the validators, the contains
family and the hook run.  So whatever the input was, the constraints are checked on the value that is returned. -/

open Utv.C02D in
/-- a hook that hands its argument back when it accepts -/
def PostPreserving (d : Decl) : Prop := ∀ x y, d.post x = .ok y → y = x

open Utv.C02D in
/-- **the result satisfies every declared constraint** — length / unique / … validators and the contains family are
checked on the converted, packed value `w`, and `w` is what is returned (validators: any of the twelve input-preserving
strict ones, `C02_preserving_of_name`; `const`, `decimal_places` and `Lax(...)` declarations are outside this theorem) -/
theorem C03_result_satisfies_constraints_core (P : Prims) (d : Decl) (v r : PyVal)
    (hp : ∀ c ∈ d.validators, ∃ f, validatorOf c.1 = some f ∧ Preserving f) (hpost : PostPreserving d)
    (h : parseCore P d v = .ok r) :
    applyArgs d v = .ok r ∧
    (∀ c ∈ d.validators, ∃ f, validatorOf c.1 = some f ∧ f P r c.2 = .ok r) ∧
    ContainsHolds d.acc d.cont r ∧ d.post r = .ok r := by
  unfold parseCore at h
  cases ha : applyArgs d v with
  | error e => simp [ha, bind, Except.bind] at h
  | ok w =>
    simp only [ha, bind, Except.bind] at h
    cases hv : validate P d.validators w with
    | error e => simp [hv] at h
    | ok w2 =>
      obtain ⟨hall, rfl⟩ := (C02_validate_iff P d.validators w w2 hp).mp hv
      simp only [hv] at h
      cases hc : parseContains d.acc d.cont w2 with
      | error e => simp [hc] at h
      | ok w3 =>
        obtain ⟨hch, rfl⟩ := (C02_contains_iff d.acc d.cont w2 w3).mp hc
        simp only [hc] at h
        have : r = w3 := hpost w3 r h
        subst this
        exact ⟨rfl, hall, hch, h⟩

open Utv.C02D in
/-- the same for the whole parse of a type that is not hidden (`@utype.apply`) and whose `pre_validate` hands the value on -/
theorem C03_result_satisfies_constraints (P : Prims) (d : Decl) (v r : PyVal)
    (hpre : d.pre v = .ok v) (happ : d.applied = false)
    (hp : ∀ c ∈ d.validators, ∃ f, validatorOf c.1 = some f ∧ Preserving f) (hpost : PostPreserving d)
    (h : parseTyped P d v = .ok r) :
    applyArgs d v = .ok r ∧
    (∀ c ∈ d.validators, ∃ f, validatorOf c.1 = some f ∧ f P r c.2 = .ok r) ∧
    ContainsHolds d.acc d.cont r ∧ d.post r = .ok r := by
  rw [parseTyped_eq_core P d v hpre happ] at h
  exact C03_result_satisfies_constraints_core P d v r hp hpost h

open Utv.C02D in
/-- **… and therefore re-parses to itself** as soon as converting and packing it again gives it back (`hfix`; discharged
below for item converters that take items of the item type as they are, `applyArgs_fix_*`) -/
theorem C03_container_reparse_core (P : Prims) (d : Decl) (v r : PyVal)
    (hp : ∀ c ∈ d.validators, ∃ f, validatorOf c.1 = some f ∧ Preserving f) (hpost : PostPreserving d)
    (h : parseCore P d v = .ok r) (hfix : applyArgs d r = .ok r) :
    parseCore P d r = .ok r := by
  obtain ⟨_, hall, hch, hpo⟩ := C03_result_satisfies_constraints_core P d v r hp hpost h
  unfold parseCore
  simp only [hfix, bind, Except.bind]
  have hv : validate P d.validators r = .ok r := (C02_validate_iff P d.validators r r hp).mpr ⟨hall, rfl⟩
  simp only [hv]
  have hc : parseContains d.acc d.cont r = .ok r := (C02_contains_iff d.acc d.cont r r).mpr ⟨hch, rfl⟩
  simp only [hc, hpo]

open Utv.C02D in
theorem C03_container_reparse (P : Prims) (d : Decl) (v r : PyVal)
    (hpre : ∀ x, d.pre x = .ok x) (happ : d.applied = false)
    (hp : ∀ c ∈ d.validators, ∃ f, validatorOf c.1 = some f ∧ Preserving f) (hpost : PostPreserving d)
    (h : parseTyped P d v = .ok r) (hfix : applyArgs d r = .ok r) :
    parseTyped P d r = .ok r := by
  rw [parseTyped_eq_core P d v (hpre v) happ] at h
  rw [parseTyped_eq_core P d r (hpre r) happ]
  exact C03_container_reparse_core P d v r hp hpost h hfix

/-! #### `hfix` discharged: an item converter that takes values of the item type as they are, a container that packs to itself -/

/-- converting a sequence item by item with a converter that is the identity on the items present gives the sequence back -/
theorem mapM_id_of_fix (conv : PyVal → M PyVal) : ∀ xs : List PyVal, (∀ x ∈ xs, conv x = .ok x) → xs.mapM conv = .ok xs := by
  intro xs
  induction xs with
  | nil => intro _; rfl
  | cons x xs ih =>
    intro h
    rw [List.mapM_cons, h x (by simp), ih (fun y hy => h y (by simp [hy]))]
    rfl

/-- every output of a successful `mapM` is the image of some input -/
theorem mem_mapM_ok (conv : PyVal → M PyVal) : ∀ (xs ys : List PyVal), xs.mapM conv = .ok ys →
    ∀ y ∈ ys, ∃ x, x ∈ xs ∧ conv x = .ok y := by
  intro xs
  induction xs with
  | nil => intro ys h y hy; simp [List.mapM_nil, pure, Except.pure] at h; subst h; cases hy
  | cons x xs ih =>
    intro ys h y hy
    rw [List.mapM_cons] at h
    cases hx : conv x with
    | error e => simp [hx, bind, Except.bind] at h
    | ok x' =>
      cases hm : xs.mapM conv with
      | error e => simp [hx, hm, bind, Except.bind] at h
      | ok ys' =>
        simp only [hx, hm, bind, Except.bind, pure, Except.pure, Except.ok.injEq] at h
        subst h
        rcases List.mem_cons.mp hy with rfl | hy'
        · exact ⟨x, by simp, hx⟩
        · obtain ⟨z, hz, hc⟩ := ih ys' hm y hy'
          exact ⟨z, by simp [hz], hc⟩

open Utv.C02D in
/-- the item-wise args parser of a sequence type (rule.py `_parse_seq_args`): every item through the item type's parse -/
def seqArgs (conv : PyVal → M PyVal) (v : PyVal) : M PyVal :=
  match v with
  | .seq k xs => do pure (.seq k (← xs.mapM conv))
  | _ => throw .typeError

open Utv.C02D in
/-- **for a list / tuple type**: if the item type's parse is idempotent (its outputs are fixed points) then so is the
conversion-and-packing step of the container: `applyArgs d r = .ok r` for every output `r` -/
theorem applyArgs_fix_seq (d : Decl) (conv : PyVal → M PyVal) (k : Cls) (v r : PyVal)
    (hk : k = .list ∨ k = .tuple)
    (hargs : d.args = some (seqArgs conv)) (hpack : d.pack = Py.construct k)
    (hidem : ∀ x y, conv x = .ok y → conv y = .ok y)
    (h : applyArgs d v = .ok r) : applyArgs d r = .ok r := by
  unfold applyArgs at h ⊢
  simp only [hargs, hpack, bind, Except.bind] at h ⊢
  cases v with
  | seq k' xs =>
    simp only [seqArgs, bind, Except.bind, pure, Except.pure] at h
    cases hm : xs.mapM conv with
    | error e => simp [hm] at h
    | ok ys =>
      simp only [hm] at h
      have hys : ∀ y ∈ ys, conv y = .ok y := by
        intro y hy
        obtain ⟨x, _, hx⟩ := mem_mapM_ok conv xs ys hm y hy
        exact hidem x y hx
      have hr : r = .seq k ys := by
        rcases hk with rfl | rfl <;> simp [Py.construct, Py.iter, bind, Except.bind, pure, Except.pure] at h <;> exact h.symm
      subst hr
      simp only [seqArgs, bind, Except.bind, pure, Except.pure, mapM_id_of_fix conv ys hys]
      rcases hk with rfl | rfl <;> simp [Py.construct, Py.iter, bind, Except.bind, pure, Except.pure]
  | _ => simp [seqArgs, throw, throwThe, MonadExceptOf.throw] at h

open Utv.C02D in
/-- the `Set[int]`, `min_length = 2` example: `[1, '1']` converts to `[1, 1]`, packs to `{1}`, and is **rejected** (the
length is checked after de-duplication); `[1, '2']` gives `{1, 2}`, which re-parses -/
theorem C03_set_min_length_example (P : Prims) :
    let conv : PyVal → M PyVal := fun v => match v with
      | .seq k xs => pure (.seq k (xs.map fun x => match x with | .str "1" => .int 1 | .str "2" => .int 2 | y => y))
      | y => pure y
    let d : Decl := { validators := [("min_length", .int 2)], args := some conv, cont := ⟨false, none, none⟩,
                      acc := fun _ => false, post := pure, pack := Py.construct .set }
    parseTyped P d (.seq .list [.int 1, .str "1"]) = .error .valueError ∧
    parseTyped P d (.seq .list [.int 1, .str "2"]) = .ok (.seq .set [.int 1, .int 2]) ∧
    parseTyped P d (.seq .set [.int 1, .int 2]) = .ok (.seq .set [.int 1, .int 2]) := by
  refine ⟨?_, ?_, ?_⟩ <;> rfl

/-! ### whole-type idempotence on the fragment where it holds (induction on the type), and Lean witnesses that it is
false by design for `|`, `&`, `^` -/

section Fragment
open Utv.C03F Utv.C02D

/-- the declarations of the fragment: constraint lists over the twelve input-preserving strict validators, containers are
lists or tuples -/
def WFTy : Ty → Prop
  | .plain _ cs => ∀ c ∈ cs, c.1 ∈ strictPreservingNames
  | .seq k item cs => (k = .list ∨ k = .tuple) ∧ (∀ c ∈ cs, c.1 ∈ strictPreservingNames) ∧ WFTy item

theorem toCls_typed (C : Conv) (c : Cls) (v w : PyVal) (h : toCls C c v = .ok w) : typeOf w = c := by
  unfold toCls at h
  by_cases ht : (typeOf v == c) = true
  · simp only [ht, if_true, pure, Except.pure, Except.ok.injEq] at h
    subst h; simpa using ht
  · simp only [ht] at h
    exact C.typed c v w h

theorem toCls_fix (C : Conv) (c : Cls) (w : PyVal) (h : typeOf w = c) : toCls C c w = .ok w := by
  simp [toCls, h, pure, Except.pure]

theorem seq_of_typeOf (w : PyVal) (k : Cls) (hk : k = .list ∨ k = .tuple) (h : typeOf w = k) : ∃ xs, w = .seq k xs := by
  cases w <;> simp [typeOf] at h <;> rcases hk with rfl | rfl <;> simp_all

/-- **parsing is idempotent on the fragment**: plain origins and strict rules over the twelve input-preserving constraints,
lists and tuples of such types nested to any depth, with constraint lists of their own — for every converter family whose
outputs have the class asked for, every input, every `Prims`: the result of a successful parse re-parses to itself -/
theorem C03_parse_idempotent (P : Prims) (C : Conv) : ∀ (T : Ty), WFTy T → ∀ v r, parse P C T v = .ok r → parse P C T r = .ok r
  | .plain c cs, hwf, v, r, h => by
    simp only [parse, bind, Except.bind] at h ⊢
    cases hw : toCls C c v with
    | error e => simp [hw] at h
    | ok w =>
      simp only [hw] at h
      obtain ⟨hall, rfl⟩ := (C02_validate_iff_names P cs w r hwf).mp h
      rw [toCls_fix C c r (toCls_typed C c v r hw)]
      exact h
  | .seq k item cs, hwf, v, r, h => by
    obtain ⟨hk, hcs, hitem⟩ := hwf
    simp only [parse, bind, Except.bind] at h ⊢
    cases hw : toCls C k v with
    | error e => simp [hw] at h
    | ok w =>
      simp only [hw] at h
      obtain ⟨xs, rfl⟩ := seq_of_typeOf w k hk (toCls_typed C k v w hw)
      simp only at h
      cases hm : xs.mapM (parse P C item) with
      | error e => simp [hm] at h
      | ok ys =>
        simp only [hm] at h
        obtain ⟨hall, rfl⟩ := (C02_validate_iff_names P cs (.seq k ys) r hcs).mp h
        have hfix : ∀ y ∈ ys, parse P C item y = .ok y := by
          intro y hy
          obtain ⟨x, _, hx⟩ := mem_mapM_ok (parse P C item) xs ys hm y hy
          exact C03_parse_idempotent P C item hitem x y hx
        rw [toCls_fix C k (.seq k ys) rfl]
        simp only [mapM_id_of_fix (parse P C item) ys hfix]
        exact h

/-- non-vacuity: a converter family with the law (here: only exact classes convert), a nested well-formed type
`List[Tuple[Rule[int](ge=0, le=10), ...]](max_length=2)`, and a parse that succeeds -/
example (P : Prims) :
    let C : Conv := ⟨fun c v => if typeOf v == c then .ok v else .error .typeError, by
      intro c v r h
      by_cases ht : (typeOf v == c) = true
      · simp [ht] at h; subst h; simpa using ht
      · simp [ht] at h⟩
    let T : Ty := .seq .list (.seq .tuple (.plain .int [("ge", .int 0), ("le", .int 10)]) []) [("max_length", .int 2)]
    WFTy T ∧ parse P C T (.seq .list [.seq .tuple [.int 1, .int 10]]) = .ok (.seq .list [.seq .tuple [.int 1, .int 10]]) ∧
      parse P C T (.seq .list [.seq .tuple [.int 11]]) = .error .valueError := by
  refine ⟨?_, rfl, rfl⟩
  simp [WFTy, strictPreservingNames]

/-- `~A` is idempotent for every member parser (the input itself is returned) -/
theorem C03_neg_idempotent (m : PyVal → M PyVal) (v r : PyVal) (h : negParse m v = .ok r) : negParse m r = .ok r := by
  unfold negParse at h ⊢
  cases hm : m v with
  | ok x => simp [hm, throw, throwThe, MonadExceptOf.throw] at h
  | error e =>
    simp only [hm, pure, Except.pure, Except.ok.injEq] at h
    subst h
    simp [hm, pure, Except.pure]

/-- the exact-type shortcut of a union (rule.py:385-387) makes a result whose class is a plain member final -/
theorem C03_union_exact_idempotent (ms : List Member) (stages : List Nat) (r : PyVal)
    (h : ms.any (fun m => m.exact r) = true) : unionParse ms stages r = .ok r := by
  simp [unionParse, h, pure, Except.pure]

/-- a union whose winning member is the FIRST one is idempotent when that member is (a later member can never overtake it) -/
theorem C03_union_first_member_idempotent (p : Nat → PyVal → M PyVal) (others : List Member) (i : Nat) (rest : List Nat)
    (v r : PyVal) (hex : ∀ w, (Member.rule p :: others).any (fun m => m.exact w) = false)
    (hidem : ∀ x y, p i x = .ok y → p i y = .ok y)
    (h : p i v = .ok r) :
    unionParse (.rule p :: others) (i :: rest) v = .ok r ∧ unionParse (.rule p :: others) (i :: rest) r = .ok r := by
  constructor <;> simp [unionParse, hex, tryStages, tryMembers, Member.run, h, hidem v r h, pure, Except.pure]

/-! #### false by design: every member idempotent, the combination not (known findings `union-winner-differs`,
`allof-threading`, `xor-result-reaccepted`) -/

/-- members over ints: `a` takes 1 ↦ 2 and 2 ↦ 2, `b` takes 0 ↦ 1 and 1 ↦ 1 (both idempotent) -/
def wA : PyVal → M PyVal := fun v => match v with | .int 1 => .ok (.int 2) | .int 2 => .ok (.int 2) | _ => .error .valueError
def wB : PyVal → M PyVal := fun v => match v with | .int 0 => .ok (.int 1) | .int 1 => .ok (.int 1) | _ => .error .valueError

/-- **union**: `(A | B)(0) = 1` through `B` (A refuses 0), but `(A | B)(1) = 2`: the earlier member takes the result -/
theorem C03_union_winner_differs_witness :
    (∀ x y, wA x = .ok y → wA y = .ok y) ∧ (∀ x y, wB x = .ok y → wB y = .ok y) ∧
    unionParse [.rule (fun _ => wA), .rule (fun _ => wB)] [0, 1, 2] (.int 0) = .ok (.int 1) ∧
    unionParse [.rule (fun _ => wA), .rule (fun _ => wB)] [0, 1, 2] (.int 1) = .ok (.int 2) := by
  refine ⟨?_, ?_, rfl, rfl⟩
  · intro x y h; unfold wA at h; split at h <;> simp at h <;> subst h <;> rfl
  · intro x y h; unfold wB at h; split at h <;> simp at h <;> subst h <;> rfl

/-- members: `c` takes 0 ↦ 1, 1 ↦ 1 and refuses 2; `d` takes 1 ↦ 2, 2 ↦ 2 -/
def wC : PyVal → M PyVal := fun v => match v with | .int 0 => .ok (.int 1) | .int 1 => .ok (.int 1) | _ => .error .valueError
def wD : PyVal → M PyVal := fun v => match v with | .int 1 => .ok (.int 2) | .int 2 => .ok (.int 2) | _ => .error .valueError

/-- **conjunction**: `(C & D)(0) = D(C(0)) = 2`, and re-parsing 2 fails at `C` -/
theorem C03_allof_threading_witness :
    (∀ x y, wC x = .ok y → wC y = .ok y) ∧ (∀ x y, wD x = .ok y → wD y = .ok y) ∧
    allParse [wC, wD] (.int 0) = .ok (.int 2) ∧ allParse [wC, wD] (.int 2) = .error .valueError := by
  refine ⟨?_, ?_, rfl, rfl⟩
  · intro x y h; unfold wC at h; split at h <;> simp at h <;> subst h <;> rfl
  · intro x y h; unfold wD at h; split at h <;> simp at h <;> subst h <;> rfl

/-- member `e` takes only 1 ↦ 1 -/
def wE : PyVal → M PyVal := fun v => match v with | .int 1 => .ok (.int 1) | _ => .error .valueError

/-- **exactly-one**: `(C ^ E)(0) = 1` (only `C` accepts 0), and re-parsing 1 fails because both accept it -/
theorem C03_xor_result_reaccepted_witness :
    (∀ x y, wC x = .ok y → wC y = .ok y) ∧ (∀ x y, wE x = .ok y → wE y = .ok y) ∧
    xorParse [wC, wE] (.int 0) = .ok (.int 1) ∧ xorParse [wC, wE] (.int 1) = .error .valueError := by
  refine ⟨?_, ?_, rfl, rfl⟩
  · intro x y h; unfold wC at h; split at h <;> simp at h <;> subst h <;> rfl
  · intro x y h; unfold wE at h; split at h <;> simp at h <;> subst h <;> rfl

end Fragment

end Utv.C03
