import Utv.GenEq.Support
import Utv.Gen.Field
import Utv.Gen.Options
import Utv.Model.C11
/-!
C11 — T1 obligations: `Req.holds` / `RunOpts.ignoresRequired` (what `FieldDecl.resolveR` takes a field's `required` to
be under the running options) are `ParserField.is_required` and the `force_default ⇒ ignore_required` line of
`Options.__init__`, regenerated from the source on every run.  Modes are characters, mode sets Python mode strings;
C11's fragment has no `no_input`, no field `mode`, no `final`.
-/
namespace Utv.GenEq.C11
open Utv.Obj Utv.C11 Utv.Gen

variable {α : Type}

def encReq : Req Char → OVal α
  | .no => .bool false
  | .yes => .bool true
  | .modes ms => .str (String.ofList ms)

def encField (r : Req Char) : OVal α :=
  .obj "ParserField" [("required", encReq r), ("default", .unprovided), ("default_factory", .none),
    ("no_input", .bool false), ("mode", .none), ("final", .bool false)]

def encMode : Option Char → OVal α
  | none => .none
  | some c => .str (String.singleton c)

def encOptVal : Option α → OVal α
  | none => .unprovided
  | some v => .val v

/-- `is_required(options)` for the options `Options.__init__` makes of the running options -/
theorem C11_gen_is_required (W : Obj.World α) (req : Req Char) (mode : Option Char) (ir : Bool) :
    Field.is_required W (encField req) (.obj "Options" [("mode", encMode mode), ("ignore_required", .bool ir)])
      = .ok (.bool (!ir && req.holds mode)) := by
  gen_obligation "C11_gen_is_required: the regenerated code (Utv.Gen) is no longer equal to the hand model here" by
    cases req <;> cases mode <;> cases ir <;>
      obj_simp [Field.is_required, Field.always_no_input, Field.no_default, encField, encReq, encMode, getattr, lookupAttr,
        isinstance, contains, isInfixB_singleton, SeqK.name, OVal.isTrue, OVal.isUnprovided, Req.holds]
    all_goals (try grind)

/-- `Options(mode=…, ignore_required=…, force_default=…)` stores `ignore_required = ignoresRequired` -/
theorem C11_gen_options_init (W : Obj.World α) (self : OVal α) (r : RunOpts Char α) :
    (Options.Options_init W self [("mode", encMode r.mode), ("ignore_required", .bool r.ignoreRequired),
        ("force_default", encOptVal r.forceDefault)] >>= fun x => getattr x "ignore_required")
      = .ok (.bool r.ignoresRequired) := by
  gen_obligation "C11_gen_options_init: the regenerated code (Utv.Gen) is no longer equal to the hand model here" by
    obtain ⟨mode, ir, fd⟩ := r
    cases fd <;>
      obj_simp [Options.Options_init, Options.multi, lookupAttr, isinstance, callable, OVal.isUnprovided, OVal.isNone,
        getattr, encOptVal, RunOpts.ignoresRequired]

end Utv.GenEq.C11
