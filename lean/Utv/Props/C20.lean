import Utv.Lemmas.C20
import Utv.Lemmas.C20Reg
import Utv.Lemmas.C20Term
/-!
C20 — concurrent use is safe, including the first use of a type.

Model: `Utv/Model/C20.lean` (threads = sequences of calls on one shared parser; one atomic step = one source
line that touches shared state; a schedule = the list of thread ids taking the successive steps).
The theorems below are about the code *with* fixes/C20-first-parse-race.patch (`lg = false`) and hold for
every declaration (`World`), every number of threads, every program of calls per thread and every schedule —
they are proved through the inductive invariant `Inv` (Lemmas/C20.lean: `inv_init`, `inv_step`), not by search.
The pre-fix code (`lg = true`) violates the property; the witnesses at the end are replayed on the real code
by the harness (harness/corpus/C20.jsonl).
-/
namespace Utv.C20

/-- **C20.**  Under every schedule, the outcomes of the calls a thread has completed are exactly the outcomes
these calls have when run alone, in order. -/
theorem C20_linearizable (W : World) (prog : Nat → List Call) (sched : List Nat) (k : Nat) :
    ((run W false (init W prog) sched).th k).outs <+: (prog k).map (alone W) :=
  ⟨_, ((inv_reachable W prog sched).tinv k).hist⟩

/-- … and a thread that has finished has completed all of its calls. -/
theorem C20_finished_all (W : World) (prog : Nat → List Call) (sched : List Nat) (k : Nat)
    (h : ((run W false (init W prog) sched).th k).pc = .fin) :
    ((run W false (init W prog) sched).th k).outs = (prog k).map (alone W) := by
  have T := (inv_reachable W prog sched).tinv k
  have := T.hist
  rw [T.finE h] at this
  simpa using this

theorem parseOutcome_range (W : World) (c : List Use) : parseOutcome W c = .ok ∨ parseOutcome W c = .perr := by
  induction c with
  | nil => exact Or.inl rfl
  | cons u us ih => simp only [parseOutcome]; split <;> simp [ih]

/-- No schedule makes a call fail with an internal error (`KeyError`), return an unparsed value (`wrong`)
or leave the modelled behaviour: a call ends as it does alone — value, `ParseError`, or the `NameError` of a
class whose annotation names nothing (which it raises alone, too). -/
theorem C20_no_internal_error (W : World) (prog : Nat → List Call) (sched : List Nat) (k : Nat) :
    ∀ o ∈ ((run W false (init W prog) sched).th k).outs,
      o = .ok ∨ o = .perr ∨ (o = .nameError ∧ W.isFn = false ∧ undefinedRef W = true) := by
  intro o ho
  obtain ⟨c, _, hc⟩ := List.mem_map.mp ((C20_linearizable W prog sched k).subset ho)
  subst hc
  unfold alone
  split
  · rename_i h
    simp only [Bool.and_eq_true, Bool.not_eq_true'] at h
    exact Or.inr (Or.inr ⟨rfl, h⟩)
  · rcases parseOutcome_range W c with h | h <;> simp [h]

/-- Mutual exclusion: at most one thread is between the acquisition and the release of the lock. -/
theorem C20_mutual_exclusion (W : World) (prog : Nat → List Call) (sched : List Nat) (j k : Nat)
    (hj : ((run W false (init W prog) sched).th j).pc.inCS = true)
    (hk : ((run W false (init W prog) sched).th k).pc.inCS = true) : j = k := by
  have I := inv_reachable W prog sched
  have h1 := (I.tinv j).lockI.mp hj
  have h2 := (I.tinv k).lockI.mp hk
  rw [h1] at h2
  exact Option.some.inj h2

/-- No half-initialised type is observed: while any thread is parsing (its `resolve_forward_refs` has
returned), every field whose annotation names something that exists carries the fully rewritten type, and
the names still listed are exactly those that do not exist. -/
theorem C20_parsing_sees_resolved (W : World) (prog : Nat → List Call) (sched : List Nat) (k : Nat)
    (hk : ((run W false (init W prog) sched).th k).pc.parsing = true) :
    let g := (run W false (init W prog) sched).g
    (∀ i, W.ref i = true → W.defd i = true → g.fty i = .res .parsed) ∧ (∀ i ∈ g.pending, W.defd i = false) := by
  have I := inv_reachable W prog sched
  have P := (I.tinv k).pinv
  have R : Resolved W (run W false (init W prog) sched).g := by
    cases hpc : ((run W false (init W prog) sched).th k).pc <;>
      simp only [PInv, hpc, PC.parsing] at P hk <;> first | exact P | exact P.1 | cases hk
  exact ⟨fun i hr hd => resolved_fty I.ginv R hr hd, fun i hi => (R i hi).1⟩

/-- When nobody holds the lock, no field is half-way: a listed name still has its `ForwardRef`, a name that was
taken off the list has its final type (or the class can never be instantiated). -/
theorem C20_quiescent (W : World) (prog : Nat → List Call) (sched : List Nat)
    (hl : (run W false (init W prog) sched).g.lock = none) (i : Nat) (hr : W.ref i = true) (hd : W.defd i = true) :
    let g := (run W false (init W prog) sched).g
    (i ∈ g.pending ∧ g.fty i = .ref) ∨ (i ∉ g.pending ∧ g.fty i = .res .parsed)
      ∨ (W.isFn = false ∧ undefinedRef W = true) := by
  have I := inv_reachable W prog sched
  by_cases hp : i ∈ (run W false (init W prog) sched).g.pending
  · exact Or.inl ⟨hp, I.ginv.free hl i hp⟩
  · rcases I.ginv.done i hr hd hp with h | h
    · exact Or.inr (Or.inl ⟨hp, h⟩)
    · exact Or.inr (Or.inr h)

/-- Resolution is permanent: once nothing is left to resolve (e.g. once any call has got as far as parsing),
every later state, under every continuation of the schedule, still has every existing name rewritten. -/
theorem C20_resolved_forever (W : World) (prog : Nat → List Call) (sched sched' : List Nat)
    (hR : Resolved W (run W false (init W prog) sched).g) :
    let g' := (run W false (init W prog) (sched ++ sched')).g
    Resolved W g' ∧ ∀ i, W.ref i = true → W.defd i = true → g'.fty i = .res .parsed := by
  have I := inv_reachable W prog sched
  have I' := inv_reachable W prog (sched ++ sched')
  have hR' : Resolved W (run W false (init W prog) (sched ++ sched')).g := by
    rw [run_append]
    exact hR.mono (run_pending_mono sched' I)
  exact ⟨hR', fun i hr hd => resolved_fty I'.ginv hR' hr hd⟩

/-- No dead-lock: as long as some thread has not finished, some unfinished thread is not blocked (and no
thread is ever outside the modelled lines). -/
theorem C20_no_deadlock (W : World) (prog : Nat → List Call) (sched : List Nat)
    (h : ∃ k, ((run W false (init W prog) sched).th k).pc ≠ .fin) :
    ∃ k, ((run W false (init W prog) sched).th k).pc ≠ .fin ∧ ¬ blocked (run W false (init W prog) sched) k
      ∧ ((run W false (init W prog) sched).th k).pc.dead = false := by
  have I := inv_reachable W prog sched
  cases hl : (run W false (init W prog) sched).g.lock with
  | none =>
    obtain ⟨k, hk⟩ := h
    exact ⟨k, hk, fun hb => hb.2 hl, (I.tinv k).alive⟩
  | some o =>
    have hcs := (I.tinv o).lockI.mpr hl
    refine ⟨o, ?_, ?_, (I.tinv o).alive⟩
    · intro hf; simp [hf, PC.inCS] at hcs
    · intro hb; simp [hb.1, PC.inCS] at hcs

/-- Termination: with `n` threads, a schedule in which every step is taken by a thread that is neither finished
nor waiting for the lock (`EffRun`) is no longer than the explicit bound `total W n (init W prog)` (linear in
the number of calls, keywords, fields and pending names). -/
theorem C20_terminates (W : World) (prog : Nat → List Call) (n : Nat) (sched : List Nat)
    (h : EffRun W n (init W prog) sched) : sched.length ≤ total W n (init W prog) := by
  have := effRun_bounded (inv_init W prog) h
  omega

/-- … and when such a schedule cannot be extended, every one of the `n` threads has finished all its calls
(with the outcomes `C20_finished_all` states): every call returns. -/
theorem C20_maximal_run_finishes (W : World) (prog : Nat → List Call) (n : Nat) (sched : List Nat)
    (h : EffRun W n (init W prog) sched)
    (hmax : ∀ k, k < n → ¬ effective (run W false (init W prog) sched) k) (k : Nat) (hk : k < n) :
    ((run W false (init W prog) sched).th k).pc = .fin := by
  have I := inv_reachable W prog sched
  apply Classical.byContradiction
  intro hne
  have hb : blocked (run W false (init W prog) sched) k := by
    apply Classical.byContradiction
    intro hb; exact hmax k hk ⟨hne, hb⟩
  obtain ⟨_, hl⟩ := hb
  cases hlk : (run W false (init W prog) sched).g.lock with
  | none => exact hl hlk
  | some o =>
    have hcs := (I.tinv o).lockI.mpr hlk
    have ho : o < n := by
      apply Classical.byContradiction
      intro hno
      have := effRun_idle h o (by omega)
      rw [this] at hcs
      simp [init, PC.inCS] at hcs
    refine hmax o ho ⟨?_, ?_⟩
    · intro hf; simp [hf, PC.inCS] at hcs
    · intro hb; simp [hb.1, PC.inCS] at hcs

/-- The specification `alone` is what the model itself does when a single thread runs a single call. -/
theorem C20_alone_is_sequential (W : World) (c : Call) (n : Nat)
    (h : ((run W false (init W fun _ => [c]) (List.replicate n 0)).th 0).pc = .fin) :
    ((run W false (init W fun _ => [c]) (List.replicate n 0)).th 0).outs = [alone W c] := by
  simpa using C20_finished_all W (fun _ => [c]) (List.replicate n 0) 0 h

/-! ### Non-vacuity: concrete runs of the fixed model -/

/-- one field `f0: 'B'`, class-level parser, not function-local -/
def W1 : World :=
  { nf := 1, isRef := fun _ => true, defd := fun _ => true, rawOk := fun _ => true, isLocal := false, isFn := false }
/-- the same in a function-local class (evaluated references are cleared again) -/
def W1loc : World := { W1 with isLocal := true }
/-- `f0: 'List[B]'` in a function-local class -/
def W1gen : World := { W1loc with rawOk := fun _ => false }
/-- two threads, one call `A(f0=…)` each -/
def P2 : Nat → List Call := fun k => if k < 2 then [[⟨0, false⟩]] else []

/-- thread 0 is preempted inside the critical section, thread 1 finds the lock taken (its step is not enabled,
the state does not change), thread 0 finishes, thread 1 runs: both calls return their value. -/
example :
    let s := run W1loc false (init W1loc P2) ([0,0,0,0,0,0] ++ [1,1,1,1,1] ++ List.replicate 25 0 ++ List.replicate 12 1)
    (s.th 0).pc = .fin ∧ (s.th 1).pc = .fin ∧ (s.th 0).outs = [.ok] ∧ (s.th 1).outs = [.ok] := by
  decide +kernel

/-- a complete run in which every step is effective (thread 1 is never scheduled while it would wait for the
lock): the hypotheses of `C20_terminates` / `C20_maximal_run_finishes` are satisfiable, and the run ends with both
threads finished -/
example :
    let sched := [0,0,0,0,0,0] ++ [1,1,1] ++ List.replicate 20 0 ++ List.replicate 7 1
    EffRun W1loc 2 (init W1loc P2) sched ∧ sched.length ≤ total W1loc 2 (init W1loc P2)
      ∧ ((run W1loc false (init W1loc P2) sched).th 0).pc = .fin
      ∧ ((run W1loc false (init W1loc P2) sched).th 1).pc = .fin :=
  ⟨effRun_of_B (by decide +kernel), by decide +kernel, by decide +kernel, by decide +kernel⟩

/-! ### The code before the fix (negation witnesses; replayed on the real pre-fix code by the harness) -/

/-- Pre-fix: two first parses; thread 0 is preempted after `list(self.forward_refs)`, thread 1 resolves and pops
`$f0`, thread 0 then looks the name up: `KeyError('$f0')` escapes. -/
theorem C20_legacy_keyerror_witness :
    ((run W1 true (init W1 P2) ([0,0,0,0] ++ List.replicate 30 1 ++ List.replicate 30 0)).th 0).outs = [.keyError] := by
  decide +kernel

/-- Pre-fix, function-local class: thread 1 sees an empty `forward_refs` while thread 0 has popped the name but
not yet rewritten the field; it reads the `ForwardRef`, thread 0 then clears it: "ForwardRef not evaluated". -/
theorem C20_legacy_half_initialised_witness :
    ((run W1loc true (init W1loc P2) (List.replicate 11 0 ++ [1,1,1,1] ++ List.replicate 30 0 ++ List.replicate 30 1)).th 1).outs
      = [.perr] ∧ alone W1loc [⟨0, false⟩] = .ok := by
  decide +kernel

/-- Pre-fix, `f0: 'List[B]'`: thread 1 re-evaluates the reference after thread 0 stored the parsed annotation;
thread 0 writes the raw `typing` object into `fields['f0'].type` — every later call fails, also sequentially. -/
theorem C20_legacy_corrupted_type_witness :
    let s := run W1gen true (init W1gen fun k => if k < 2 then [[⟨0, false⟩], [⟨0, false⟩]] else [])
      (List.replicate 10 0 ++ List.replicate 6 1 ++ List.replicate 40 0 ++ List.replicate 40 1)
    s.g.fty 0 = .res .raw ∧ (s.th 0).outs = [.perr, .perr] := by
  decide +kernel

/-- The property is false of the pre-fix model. -/
theorem C20_legacy_not_linearizable :
    ¬ ∀ (W : World) (prog : Nat → List Call) (sched : List Nat) (k : Nat),
        ((run W true (init W prog) sched).th k).outs <+: (prog k).map (alone W) := by
  intro h
  have h1 := h W1 P2 ([0,0,0,0] ++ List.replicate 30 1 ++ List.replicate 30 0) 0
  rw [C20_legacy_keyerror_witness] at h1
  have : (P2 0).map (alone W1) = [.ok] := by decide
  rw [this] at h1
  have := h1.length_le
  obtain ⟨t, ht⟩ := h1
  cases t <;> simp at ht


/-! ## Lookups in the shared converter registry (`TypeRegistry.resolve`, cache fill) -/

open Utv.C16 (World Entry Det lookup) in
/-- **C20, registry.**  Threads that only look converters up (what parsing does): under every schedule, for
every class world, every registry content whose cache is consistent, with or without the cache, before or
after the lookup patch — every finished lookup returned what it returns alone, i.e. the first matching entry. -/
theorem C20_registry_lookups_linearizable (W : Utv.C16.World) (co lg : Bool) (g : Reg.G)
    (prog : Nat → List Reg.Op) (hn : ∀ k, Reg.noRegister (prog k) = true)
    (hc : Reg.CacheOK W g.entries g.cache) (sched : List Nat) (k : Nat) :
    ((Reg.run W co lg (Reg.init g prog) sched).th k).outs <+: Reg.answers W g.entries (prog k) :=
  ⟨_, ((Reg.inv_run sched (Reg.inv_init (lg := lg) hn hc)).tinv k).hist⟩

theorem C20_registry_finished_all (W : Utv.C16.World) (co lg : Bool) (g : Reg.G)
    (prog : Nat → List Reg.Op) (hn : ∀ k, Reg.noRegister (prog k) = true)
    (hc : Reg.CacheOK W g.entries g.cache) (sched : List Nat) (k : Nat)
    (h : ((Reg.run W co lg (Reg.init g prog) sched).th k).pc = .fin) :
    ((Reg.run W co lg (Reg.init g prog) sched).th k).outs = Reg.answers W g.entries (prog k) := by
  have T := (Reg.inv_run (co := co) sched (Reg.inv_init (lg := lg) hn hc)).tinv k
  have := T.hist
  rw [T.finE h] at this
  simpa [Reg.answers] using this

/-- the cache stays consistent with the entries, so later sequential lookups are right as well -/
theorem C20_registry_cache_consistent (W : Utv.C16.World) (co lg : Bool) (g : Reg.G)
    (prog : Nat → List Reg.Op) (hn : ∀ k, Reg.noRegister (prog k) = true)
    (hc : Reg.CacheOK W g.entries g.cache) (sched : List Nat) :
    let s := Reg.run W co lg (Reg.init g prog) sched
    s.g.entries = g.entries ∧ Reg.CacheOK W g.entries s.g.cache :=
  let I := Reg.inv_run (co := co) sched (Reg.inv_init (lg := lg) hn hc)
  ⟨I.ent, I.cache⟩

/-! ### The hypothesis `noRegister` is needed: a registration that races with a lookup -/

/-- class 2 is a subclass of class 1 -/
def Wr : Utv.C16.World where
  issub t c := t == c || (t == 2 && c == 1)
  isinst _ _ := false
  hasattr _ _ := false
  custom _ _ := none
  shortcut _ := none
  fallback _ := none

def eB : Utv.C16.Entry := ⟨.std [1] true none none, 20, 0⟩   -- register(C1) -> f20
def eC : Utv.C16.Entry := ⟨.std [2] true none none, 30, 0⟩   -- register(C2) -> f30
def gB : Reg.G := { entries := [eB], cache := [] }
def raceProg : Nat → List Reg.Op := fun k => if k = 0 then [.res 2, .res 2] else if k = 1 then [.reg eC] else []

/-- non-vacuity of the hypotheses of `C20_registry_lookups_linearizable` -/
example : (∀ k, Reg.noRegister ((fun k => if k < 3 then [Reg.Op.res 2, .res 1] else []) k) = true)
    ∧ Reg.CacheOK Wr gB.entries gB.cache :=
  ⟨fun k => by by_cases h : k < 3 <;> simp [h, Reg.noRegister], fun _ _ h => by simp [gB, Utv.C16.lookup] at h⟩

/-- Before fixes/C20-registry-cache-lookup.patch: thread 0 finds class 2 in the cache, thread 1 registers a
converter (which clears the cache), thread 0 then indexes the cache: `KeyError` out of `resolve`. -/
theorem C20_registry_legacy_keyerror_witness :
    ((Reg.run Wr true true (Reg.init gB raceProg) [0,0,0,0,0, 1,1,1,1, 0]).th 0).outs
      = [.fn (some 20), .keyError] := by
  decide +kernel

/-- With the lookup patch no error escapes, but a registration that races with a lookup can still be lost for
the class being looked up: thread 0 has found the old converter, thread 1 registers a better one and clears the
cache, thread 0 stores the old converter — the *next* lookup (started after the registration returned) still
gets the old one although the registry now selects the new one.  (Known finding `register-races-with-lookup`.) -/
theorem C20_registry_register_race_witness :
    let s := Reg.run Wr true false (Reg.init gB raceProg) [0,0,0, 1,1,1,1, 0,0]
    (s.th 0).outs = [.fn (some 20), .fn (some 20)] ∧ (s.th 1).pc = .fin
      ∧ Reg.answer Wr s.g.entries 2 = some 30 := by
  decide +kernel

end Utv.C20
