/-
C16 — model of `utype.utils.base.TypeRegistry` (register / resolve), utils/base.py:11-128 (utype ea05768: the
registry list is published as a whole under `self._lock` and counted in `self._generation`).

Hand-written, branch for branch.  Tied to the code twice:
* T1 (lean/Utv/GenEq/C16.lean): `register` — the outer call base.py:50-64 (`registerOuter`), the detector closure
  base.py:66-79 (`detClosure`), the inner `decorator` base.py:81-94 (`register`) — and `resolve` (base.py:101-128) are
  regenerated from the source text on every run and proved equal to the functions below;
* T2 (harness/c16.py): the same histories of public calls are run on a real `TypeRegistry` (fresh, with a live base
  registry, and the library's own transformer / encoder registries through `utype.register_transformer` /
  `utype.register_encoder`) and on `runCalls` / `run2` below; every answer is compared.

Classes, callables, metaclasses and attribute names are natural numbers; the class world (`issubclass`,
`isinstance(cls, meta)`, `hasattr`, behaviour of custom detectors, the shortcut attribute, the validator, the
default) is an abstract structure, so every theorem holds for every class hierarchy.

Sequential reading of the lock / generation code: `with self._lock` has no sequential effect; `generation` read at
base.py:113 is compared with `self._generation` at base.py:120 and nothing that the model's world can do in between
changes it (detectors are functions of the class only: a detector that itself registers into the registry it is
called from is outside the model), so the comparison is always true and the found converter is always cached when
`cache=True`.  The counter itself is write-only here; it is carried by the T1 encoding (`encReg … gen …`) and by
`Utv.Lemmas.C16Gen` (= number of accepted registrations so far).
-/
namespace Utv.C16

structure World where
  issub    : Nat → Nat → Bool          -- issubclass(t, c)   (raising on a non-class `t` = no match, base.py:123)
  isinst   : Nat → Nat → Bool          -- isinstance(t, metaclass)
  hasattr  : Nat → Nat → Bool          -- hasattr(t, attr)
  custom   : Nat → Nat → Option Bool   -- custom detector k on t; none = raises TypeError/ValueError
  shortcut : Nat → Option Nat          -- shortcut attribute of t that passes the validator (base.py:104-106)
  fallback : Nat → Option Nat          -- base.resolve(t) if a base registry is given, else default (base.py:125-128)
  valid    : Nat → Bool := fun _ => true   -- self.validator(f) (base.py:82); `callable` in both library registries

/-- A detector as data: the closure built in `register` (base.py:66-79) or a user function. -/
inductive Det where
  | std (classes : List Nat) (allowSub : Bool) (metacls attr : Option Nat)
  | custom (k : Nat)
  deriving Repr, DecidableEq

/-- The closure `detector(_cls)` built by `register`, base.py:66-79, statement for statement:
```
if classes:
    if allow_subclasses:
        if not issubclass(_cls, classes): return False      # a tuple of classes: any of them
    else:
        if _cls not in classes: return False
if metaclass:
    if not isinstance(_cls, metaclass): return False
if attr and not hasattr(_cls, attr): return False
return True
``` -/
def detClosure (W : World) (classes : List Nat) (allowSub : Bool) (metacls attr : Option Nat) (t : Nat) : Bool :=
  if (!classes.isEmpty) && (if allowSub then !(classes.any fun c => W.issub t c) else !(classes.contains t)) then false
  else if (match metacls with | some m => !(W.isinst t m) | none => false) then false
  else if (match attr with | some a => !(W.hasattr t a) | none => false) then false
  else true

def Det.matches (W : World) : Det → Nat → Bool
  | .std cs sub m a, t => detClosure W cs sub m a t
  -- `except (TypeError, ValueError): continue` (base.py:123-124): raising = no match
  | .custom k, t => (W.custom k t).getD false

structure Entry where
  det  : Det
  fn   : Nat
  prio : Int
  deriving Repr, DecidableEq

structure Reg where
  entries : List Entry := []
  cache   : List (Nat × Nat) := []     -- most recent first
  cacheOn : Bool
  deriving Repr

/-- Stable insertion used to model `list.sort(key=lambda v: -v[2])` (Python's sort is stable). -/
def ins (e : Entry) : List Entry → List Entry
  | [] => [e]
  | x :: xs => if x.prio > e.prio then x :: ins e xs else e :: x :: xs

def sortPrio : List Entry → List Entry
  | [] => []
  | e :: es => ins e (sortPrio es)

/-- `decorator(f)` once the validator has accepted `f` — base.py:84-94: drop the lookup cache, put the new entry in
front of a copy of the list, re-sort by priority (stable), publish, count the generation. -/
def register (r : Reg) (e : Entry) : Reg :=
  { r with entries := sortPrio (e :: r.entries), cache := [] }

/-- The behaviour before the first `fix:` (61137ef), kept only so that the two fixed findings stay replayable
against the model (`legacy_*_witness` in Props/C16; not part of the claim): the sort is skipped for priority 0 and
the cache is never invalidated. -/
def registerLegacy (r : Reg) (e : Entry) : Reg :=
  { r with entries := if e.prio != 0 then sortPrio (e :: r.entries) else e :: r.entries }

def lookup (t : Nat) : List (Nat × Nat) → Option Nat
  | [] => none
  | (k, v) :: rest => if k == t then some v else lookup t rest

/-- `resolve(t)` — base.py:101-128. -/
def resolve (W : World) (r : Reg) (t : Nat) : Reg × Option Nat :=
  match W.shortcut t with
  | some f => (r, some f)
  | none =>
    match (if r.cacheOn then lookup t r.cache else none) with
    | some f => (r, some f)
    | none =>
      match r.entries.find? (fun e => e.det.matches W t) with
      | some e => (if r.cacheOn then { r with cache := (t, e.fn) :: r.cache } else r, some e.fn)
      | none => (r, W.fallback t)

inductive Op where
  | reg (e : Entry)
  | res (t : Nat)
  deriving Repr

def step (W : World) (r : Reg) : Op → Reg × Option (Option Nat)
  | .reg e => (register r e, none)
  | .res t => let (r', o) := resolve W r t; (r', some o)

def stepLegacy (W : World) (r : Reg) : Op → Reg × Option (Option Nat)
  | .reg e => (registerLegacy r e, none)
  | .res t => let (r', o) := resolve W r t; (r', some o)

/-- Run a history, collecting the answer of every resolve. -/
def runWith (stp : Reg → Op → Reg × Option (Option Nat)) : Reg → List Op → Reg × List (Option Nat)
  | r, [] => (r, [])
  | r, op :: ops =>
    let (r1, o) := stp r op
    let (r2, outs) := runWith stp r1 ops
    (r2, match o with | some a => a :: outs | none => outs)

def run (W : World) := runWith (step W)
def runLegacy (W : World) := runWith (stepLegacy W)

/-! ### The public call `register(*classes, attr=, detector=, metaclass=, allow_subclasses=, priority=)(f)` -/

/-- one positional argument of `register` -/
inductive ClsArg where
  | cls (c : Nat)
  | notClass                      -- anything `inspect.isclass` refuses
  deriving Repr, DecidableEq

/-- the `attr=` argument -/
inductive AttrArg where
  | absent                        -- None / '' / anything falsy: `if attr:` is not taken
  | name (a : Nat)                -- a non-empty string
  | notStr                        -- truthy, not a `str`
  deriving Repr, DecidableEq

structure RegArgs where
  classes   : List ClsArg := []
  attr      : AttrArg := .absent
  detector  : Option Nat := none      -- a custom detector (number k of the world); none = not given
  metaclass : Option Nat := none
  allowSub  : Bool := true
  priority  : Int := 0
  deriving Repr

inductive RegErr where
  | valueError | assertionError | typeError
  deriving Repr, DecidableEq

def RegArgs.classIds (a : RegArgs) : List Nat :=
  a.classes.filterMap fun | .cls c => some c | .notClass => none

def RegArgs.attrName (a : RegArgs) : Option Nat :=
  match a.attr with | .name n => some n | _ => none

/-- The outer `register`, base.py:50-79: with a custom detector nothing else is looked at (not even checked);
otherwise the arguments are checked in this order and the closure is built. -/
def registerOuter (a : RegArgs) : Except RegErr Det :=
  match a.detector with
  | some k => .ok (.custom k)                                                   -- base.py:50 `if not detector:`
  | none =>
    if a.classes.isEmpty && a.attr == .absent && a.metaclass.isNone then .error .valueError   -- base.py:51-54
    else if a.classes.any (· == .notClass) then .error .assertionError          -- base.py:56-59
    else if a.attr == .notStr then .error .assertionError                       -- base.py:61-64
    else .ok (.std a.classIds a.allowSub a.metaclass a.attrName)                -- base.py:66-79

/-- `register(…)(f)`: base.py:50-94 as a whole.  A refused call leaves the registry as it was. -/
def registerCall (W : World) (r : Reg) (a : RegArgs) (f : Nat) : Reg × Option RegErr :=
  match registerOuter a with
  | .error e => (r, some e)
  | .ok d =>
    if W.valid f then (register r ⟨d, f, a.priority⟩, none)
    else (r, some .typeError)                                                   -- base.py:82-83

inductive Call where
  | register (a : RegArgs) (f : Nat)
  | resolve (t : Nat)
  deriving Repr

inductive Out where
  | conv (o : Option Nat)         -- what a resolve returned
  | err (e : RegErr)              -- a refused registration
  deriving Repr, DecidableEq

/-- a history of public calls: every resolve answers, every refused registration reports its error -/
def runCalls (W : World) : Reg → List Call → Reg × List Out
  | r, [] => (r, [])
  | r, .register a f :: cs =>
    match registerCall W r a f with
    | (r1, some e) => let (r2, outs) := runCalls W r1 cs; (r2, .err e :: outs)
    | (r1, none) => runCalls W r1 cs
  | r, .resolve t :: cs =>
    let (r1, o) := resolve W r t
    let (r2, outs) := runCalls W r1 cs
    (r2, .conv o :: outs)

/-! ### A live base registry (`TypeRegistry(base=…)`, base.py:125-127)

The base is a registry of its own (own list, own cache, own shortcut attribute and default = its own world `Wb`,
same classes); it can be registered into and resolved directly at any point of the history. -/

/-- does `own.resolve(t)` return before reaching `if self.base:` (base.py:104-122)? -/
def found (W : World) (r : Reg) (t : Nat) : Bool :=
  (W.shortcut t).isSome || (r.cacheOn && (lookup t r.cache).isSome) || r.entries.any (fun e => e.det.matches W t)

/-- `own.resolve(t)` when `own.base = base`: the base is asked (and may fill its own cache) only when nothing of
the own registry answers; what the base answers is never cached in the own registry. -/
def resolve2 (W Wb : World) (own base : Reg) (t : Nat) : Reg × Reg × Option Nat :=
  if found W own t then ((resolve W own t).1, base, (resolve W own t).2)
  else ((resolve W own t).1, (resolve Wb base t).1, (resolve Wb base t).2)

inductive Op2 where
  | reg (e : Entry)        -- own.register(…)(f)
  | regBase (e : Entry)    -- base.register(…)(f)
  | res (t : Nat)          -- own.resolve(t)
  | resBase (t : Nat)      -- base.resolve(t)
  deriving Repr

def run2 (W Wb : World) : Reg → Reg → List Op2 → List (Option Nat)
  | _, _, [] => []
  | own, base, .reg e :: ops => run2 W Wb (register own e) base ops
  | own, base, .regBase e :: ops => run2 W Wb own (register base e) ops
  | own, base, .res t :: ops =>
    let (own', base', o) := resolve2 W Wb own base t
    o :: run2 W Wb own' base' ops
  | own, base, .resBase t :: ops =>
    let (base', o) := resolve Wb base t
    o :: run2 W Wb own base' ops

/-! ### Consumers declared during the history

A Schema / dataclass field, an item type of a generic (`List[T]`, `Dict[str, T]`, `Tuple[T, …]`), the return annotation
of a `@property` or of a parsed function, a function parameter: each converts values to a class `t` whenever it is
used.  Declaring one looks the converter up (field.py:588,604, rule.py:1262,1309: for the warnings; this fills the
lookup cache) — and, after `fixes/C16-declared-types-late-registration`, remembers nothing: every use is a lookup made
at that moment (`TypeTransformer.__call__`, transform.py:737-748; rule.py `_arg_transformer`).  `legacy = true` is
the code before that fix for item types and Rule origins: the converter found at declaration, if any, is used forever
(rule.py `__arg_transformers__`, `__origin_transformer__`). -/

inductive OpD where
  | reg (e : Entry)
  | res (t : Nat)
  | decl (t : Nat)        -- declare a consumer of class `t` (its number = how many were declared before)
  | use (k : Nat)         -- convert through the k-th declared consumer
  deriving Repr

def runD (legacy : Bool) (W : World) : Reg → List (Nat × Option Nat) → List OpD → List (Option Nat)
  | _, _, [] => []
  | r, ds, .reg e :: ops => runD legacy W (register r e) ds ops
  | r, ds, .res t :: ops => (resolve W r t).2 :: runD legacy W (resolve W r t).1 ds ops
  | r, ds, .decl t :: ops => runD legacy W (resolve W r t).1 (ds ++ [(t, (resolve W r t).2)]) ops
  | r, ds, .use k :: ops =>
    match ds[k]? with
    | none => none :: runD legacy W r ds ops
    | some (t, bound) =>
      if legacy && bound.isSome then bound :: runD legacy W r ds ops
      else (resolve W r t).2 :: runD legacy W (resolve W r t).1 ds ops

/-! ### Specification: a function of the registration history only -/

/-- Chronological fold: a later matching registration replaces the current best when its
priority is at least as high ("highest priority, most recent wins ties"). -/
def best (W : World) (t : Nat) (regs : List Entry) : Option Entry :=
  regs.foldl (fun acc e =>
    if e.det.matches W t then
      match acc with
      | none => some e
      | some b => if e.prio ≥ b.prio then some e else some b
    else acc) none

def specResolve (W : World) (regs : List Entry) (t : Nat) : Option Nat :=
  match W.shortcut t with
  | some f => some f
  | none => match best W t regs with
    | some e => some e.fn
    | none => W.fallback t

/-- Spec of a whole history: each resolve answers from the registrations made before it. -/
def specRun (W : World) : List Entry → List Op → List (Option Nat)
  | _, [] => []
  | regs, .reg e :: ops => specRun W (regs ++ [e]) ops
  | regs, .res t :: ops => specResolve W regs t :: specRun W regs ops

/-- with declared consumers: a use answers what the registrations made so far select for the consumer's class —
when the consumer was declared plays no part -/
def specRunD (W : World) : List Entry → List Nat → List OpD → List (Option Nat)
  | _, _, [] => []
  | regs, ds, .reg e :: ops => specRunD W (regs ++ [e]) ds ops
  | regs, ds, .res t :: ops => specResolve W regs t :: specRunD W regs ds ops
  | regs, ds, .decl t :: ops => specRunD W regs (ds ++ [t]) ops
  | regs, ds, .use k :: ops =>
    (match ds[k]? with | none => none | some t => specResolve W regs t) :: specRunD W regs ds ops

/-- with a live base: the own registry's fallback is what the base's own registrations so far select -/
def specRun2 (W Wb : World) : List Entry → List Entry → List Op2 → List (Option Nat)
  | _, _, [] => []
  | regs, bregs, .reg e :: ops => specRun2 W Wb (regs ++ [e]) bregs ops
  | regs, bregs, .regBase e :: ops => specRun2 W Wb regs (bregs ++ [e]) ops
  | regs, bregs, .res t :: ops =>
    specResolve { W with fallback := fun t' => specResolve Wb bregs t' } regs t :: specRun2 W Wb regs bregs ops
  | regs, bregs, .resBase t :: ops => specResolve Wb bregs t :: specRun2 W Wb regs bregs ops

/-! ### The property's sentence, written on the arguments of the registrations (independent of `Det.matches`,
`detClosure`, `find?`, `best`): read off the signature and comments of `TypeRegistry.register` (base.py:35-48:
"detect class by issubclass or hasattr … the latest function will have the final effect") and the property text
("exact class, subclass, metaclass, attribute, detector"). -/

/-- a registration as the caller wrote it -/
structure Registration where
  args : RegArgs
  fn   : Nat

/-- `t` meets the registration's own criteria.  A custom detector stands for the whole criterion (the code does not
look at the other arguments then: base.py:50); it accepts when it returns true — raising is not accepting. -/
def Accepts (W : World) (a : RegArgs) (t : Nat) : Prop :=
  match a.detector with
  | some k => W.custom k t = some true
  | none =>
    (a.classIds ≠ [] →
      (a.allowSub = true → ∃ c, c ∈ a.classIds ∧ W.issub t c = true)      -- a subclass of one of the classes
      ∧ (a.allowSub = false → t ∈ a.classIds))                            -- exactly one of the classes
    ∧ (∀ m, a.metaclass = some m → W.isinst t m = true)                  -- an instance of the metaclass
    ∧ (∀ n, a.attr = .name n → W.hasattr t n = true)                     -- has the attribute

/-- the call is accepted by `register` (has an effect at all): something to match by, classes are classes, the
attribute name is a string, the target passes the registry's validator -/
def WellFormed (W : World) (a : RegArgs) (f : Nat) : Prop :=
  W.valid f = true ∧
  (a.detector = none →
    (a.classes ≠ [] ∨ a.attr ≠ .absent ∨ a.metaclass ≠ none)
    ∧ (∀ c, c ∈ a.classes → c ≠ .notClass) ∧ a.attr ≠ .notStr)

/-- "the converter used for `t` is the matching registration with the highest priority, the most recent one winning
ties" — `regs` in the order the registrations were made. -/
inductive Chosen (W : World) (regs : List Registration) (t : Nat) : Option Nat → Prop where
  /-- the class carries its own converter (the registry's shortcut attribute) -/
  | shortcut (f : Nat) : W.shortcut t = some f → Chosen W regs t (some f)
  /-- `e` matches; nothing made before it that matches has a higher priority, nothing made after it that matches
  has a priority as high -/
  | reg (l₁ l₂ : List Registration) (e : Registration) :
      W.shortcut t = none → regs = l₁ ++ e :: l₂ → Accepts W e.args t →
      (∀ x, x ∈ l₁ → Accepts W x.args t → x.args.priority ≤ e.args.priority) →
      (∀ x, x ∈ l₂ → Accepts W x.args t → x.args.priority < e.args.priority) →
      Chosen W regs t (some e.fn)
  /-- no registration matches: the base registry / default decides -/
  | fallback : W.shortcut t = none → (∀ x, x ∈ regs → ¬ Accepts W x.args t) → Chosen W regs t (W.fallback t)

/-- a whole history of public calls against the sentence above: a well-formed registration joins the registrations
made so far and answers nothing; any other registration is refused with an error and changes nothing; every resolve
answers the `Chosen` converter. -/
inductive SpecCalls (W : World) : List Registration → List Call → List Out → Prop where
  | nil (regs) : SpecCalls W regs [] []
  | accepted (regs a f cs outs) : WellFormed W a f → SpecCalls W (regs ++ [⟨a, f⟩]) cs outs →
      SpecCalls W regs (.register a f :: cs) outs
  | refused (regs a f cs outs e) : ¬ WellFormed W a f → SpecCalls W regs cs outs →
      SpecCalls W regs (.register a f :: cs) (.err e :: outs)
  | resolve (regs t cs outs o) : Chosen W regs t o → SpecCalls W regs cs outs →
      SpecCalls W regs (.resolve t :: cs) (.conv o :: outs)

end Utv.C16
