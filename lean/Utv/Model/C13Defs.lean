import Utv.Model.C13
/-!
C13 — `$defs` mode of `JsonSchemaGenerator` (`defs=` / `names=` registry shared by several calls):
`get_def_name` / `set_def` (generator.py:212-236) and the registry-dependent branches of `generate_for_rule`
(166-210) and `generate_for_dataclass` (289-353).  The registry is keyed by the *identity* of the type (`uid`);
names are de-duplicated with `_1`, `_2`, ….
-/
namespace Utv.C13
open Utv.JsonSchema

structure Entry where
  uid : Nat
  name : String
  data : Option Obj            -- `None` while the class is being generated (reserved name)
  deriving Repr, Inhabited

abbrev Reg := List Entry

/-- `get_def_name(t)` -/
def Reg.nameOf (reg : Reg) (uid : Nat) : Option String :=
  match reg with
  | [] => none
  | e :: rest => if e.uid == uid then some e.name else Reg.nameOf rest uid

def Reg.used (reg : Reg) (n : String) : Bool := reg.any fun e => e.name == n

/-- `name + (f'_{n}' if n else '')` -/
def candidate (name : String) (n : Nat) : String := if n == 0 then name else name ++ "_" ++ toString n

/-- the `while True` loop of `set_def`: the first candidate that is not taken.  Among `length + 1` candidates one is
free; `none` is never returned on a real run (the driver reports it if it were). -/
def freeName (reg : Reg) (name : String) : Option String :=
  ((List.range (reg.length + 1)).map (candidate name)).find? fun c => !reg.used c

def Reg.fill (reg : Reg) (uid : Nat) (d : Obj) : Reg :=
  match reg with
  | [] => []
  | e :: rest => (if e.uid == uid then { e with data := some d } else e) :: Reg.fill rest uid d

/-- `set_def(name, t, data)`: returns the name to refer to `t` by, and the new registry.
NB (generator.py:220-224): for a registered type the *argument* `name` is returned as it is. -/
def setDef (reg : Reg) (name : String) (uid : Nat) (data : Option Obj) : String × Reg :=
  if (reg.nameOf uid).isSome then
    (name, match data with
      | some d => reg.fill uid d
      | none => reg)
  else match freeName reg name with
    | some n => (n, reg ++ [⟨uid, n, data⟩])
    | none => (name, reg)

/-- `get_defs()` -/
def getDefs (reg : Reg) : Obj :=
  reg.map fun e => (e.name, match e.data with
    | some d => Json.obj d
    | none => Json.null)

def refTo (n : String) : Obj := [("$ref", .str ("#/$defs/" ++ n))]

/-- a rule class that is registered under its `__qualname__` (generator.py:168-171, 206-209) -/
def ruleD (reg : Reg) (uid : Nat) (name : String) (data : Obj) : Obj × Reg :=
  match reg.nameOf uid with
  | some n => (refTo n, reg)
  | none =>
    let r := setDef reg name uid (some data)
    (refTo r.1, r.2)

/-- `ClassParser.in_out_identical` (cls.py:35-42) -/
def inOutIdentical (ms : List FieldMeta) : Bool :=
  ms.all fun f => (f.noInput == .yes && f.noOutput == .yes) || (f.noInput == .no && f.noOutput == .no)

/-- the name a data class asks for (generator.py:292-297) -/
def className (cfg : Cfg) (c : ClassMeta) (ms : List FieldMeta) : String :=
  c.name ++ (match c.opts.mode with
    | some m => "_" ++ String.singleton m
    | none => "") ++ (if cfg.output && !inOutIdentical ms then "_O" else "")

mutual
/-- `generate_for_type` with a registry -/
def genD (cfg : Cfg) (reg : Reg) (t : Ty) : Obj × Reg :=
  match t with
  | .any => ([], reg)
  | .plain p => (plainSchema p, reg)
  | .scalar p m cs => ruleD reg m.uid m.name (ruleHead (some p) m ++ consSchema (rulePrimitive (some p) m) cs)
  | .derived p m cs0 site cs =>
    match reg.nameOf site with
    | some n => (refTo n, reg)
    | none =>
      -- `data = dict(generate_for_type(origin))` is the reference to the named rule: no `type`, so the site's
      -- constraints are mapped with the default primitive (generator.py:180, 192-199)
      let b := ruleD reg m.uid m.name (ruleHead (some p) m ++ consSchema (rulePrimitive (some p) m) cs0)
      let data := b.1 ++ optStr "format" (match m.format with
        | some f => some f
        | none => getFormat p) ++ consSchema DEFAULT_PRIMITIVE cs
      let r := setDef b.2 m.name site (some data)
      (refTo r.1, r.2)
  | .seq p m cs item =>
    let it := genD cfg reg item
    (ruleHead (some p) m ++ consSchema (rulePrimitive (some p) m) cs ++ [("items", .obj it.1)], it.2)
  | .tup m cs items =>
    let its := genListD cfg reg items
    (ruleHead (some .tuple) m ++ consSchema (rulePrimitive (some .tuple) m) cs ++ [("prefixItems", .arr its.1)], its.2)
  | .map m cs key val =>
    let k := genD cfg reg key
    let v := genD cfg k.2 val
    (ruleHead (some .dict) m ++ consSchema (rulePrimitive (some .dict) m) cs ++
      [("patternProperties", .obj [(keyPattern k.1, .obj v.1)])], v.2)
  | .enum e => (enumSchema e, reg)
  | .logic op ts =>
    let its := genListD cfg reg ts
    ([(opName op, .arr its.1)], its.2)
  | .data c fields addTy =>
    match reg.nameOf c.uid with
    | some n => (refTo n, reg)
    | none =>
      let o := effOpts cfg c
      let ms := fields.map Fld.meta
      let reserved := setDef reg (className cfg c ms) c.uid none
      let props := genFieldsD cfg o reserved.2 fields
      let add := genD cfg props.2 addTy          -- read only when `addition` is a type
      let regA := if o.addition == .convert then add.2 else props.2
      let data : Obj :=
        [("type", .str "object"), ("properties", .obj props.1)] ++
        reqSeg cfg o ms ++ depSeg cfg o ms ++ addSeg o add.1 ++ classAnnotations o
      let fin := setDef regA reserved.1 c.uid (some data)
      (refTo fin.1, fin.2)
termination_by structural t
def genListD (cfg : Cfg) (reg : Reg) (ts : List Ty) : List Json × Reg :=
  match ts with
  | [] => ([], reg)
  | t :: rest =>
    let a := genD cfg reg t
    let b := genListD cfg a.2 rest
    (.obj a.1 :: b.1, b.2)
termination_by structural ts
def genFieldsD (cfg : Cfg) (o : Opts) (reg : Reg) (fs : List Fld) : List (String × Json) × Reg :=
  match fs with
  | [] => ([], reg)
  | .mk m ty :: rest =>
    if fieldVisible cfg o m then
      let a := genD cfg reg ty
      let b := genFieldsD cfg o a.2 rest
      ((m.name, .obj (a.1 ++ fieldExtras m)) :: b.1, b.2)
    else genFieldsD cfg o reg rest
termination_by structural fs
end

/-- the document a caller assembles: what the call returned plus the registry's definitions -/
def documentD (top : Obj) (reg : Reg) : Json := .obj (top ++ [("$defs", .obj (getDefs reg))])

end Utv.C13
