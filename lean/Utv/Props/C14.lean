import Utv.Lemmas.C14Decl
import Utv.Lemmas.C14P0
/-!
C14 — JSON encoding round-trips through the parser.

Full statement (the property): for every data class over the listed field types and every instance `x`
in the JSON-faithful domain, `encode x` succeeds, the text is standard JSON, and
`parse T (loads (dumps (encode x)))` returns an instance equal to `x` (Python `==`: `canon y = canon x`).

* `C14_roundtrip_partial` / `C14_roundtrip_text_partial` — the round trip, for every implementation `P` of
  the CPython builtins that satisfies `PrimLaws`, every declared type (no bound on nesting, sizes, digits)
  and every in-domain instance, on the repaired code (`Cfg.fixed`); partial because one `KnownDefect`
  stays: `Ty.setOfContainers` (a `Set[Tuple[...]]` field cannot be parsed back).
* `C14_standard_partial` — the encoded tree is standard JSON unless the instance holds an infinite float
  (`KnownDefect` `Val.hasInf`: `json.dumps` writes `Infinity`).
* witnesses (`by decide` on the concrete builtins `P0`) that both exclusions are real, that each of the four
  repaired defects was one (`Cfg.legacy`), and non-vacuity: `PrimLaws P0` (`C14_primlaws_P0`).
-/
namespace Utv.C14

/-- what the round trip establishes for one value `x` of declared type `T` and its encoding `j`:
under the default preferences and under `no_data_loss` the parser returns a value equal to `x`; under the
strict preferences (first union stage of an enclosing `Optional`) it does so or refuses -/
structure Good (P : Prims) (d : Nat) (T : Ty) (x : Val) (j : Js) : Prop where
  enc : encode Cfg.fixed P x = .ok j
  len : Strong (parse Cfg.fixed P .lenient d T j) x
  nol : Strong (parse Cfg.fixed P .noloss d T j) x
  str : Weak (parse Cfg.fixed P .strict d T j) x
  std : x.hasInf = false → j.standard = true
  wf : j.wf = true
  nn : j = .null → x = .none

theorem Good.ofAll {P : Prims} {d : Nat} {T : Ty} {x : Val} {j : Js} (enc : encode Cfg.fixed P x = .ok j)
    (h : ∀ m, Strong (parse Cfg.fixed P m d T j) x) (std : x.hasInf = false → j.standard = true)
    (wf : j.wf = true) (nn : j = .null → x = .none) : Good P d T x j :=
  ⟨enc, h .lenient, h .noloss, (h .strict).weak, std, wf, nn⟩

theorem Good.mode {P : Prims} {d : Nat} {T : Ty} {x : Val} {j : Js} (g : Good P d T x j) (m : Mode) :
    Weak (parse Cfg.fixed P m d T j) x := by
  cases m
  · exact g.len.weak
  · exact g.nol.weak
  · exact g.str

theorem encList_good (P : Prims) (d : Nat) (t : Ty)
    (ih : ∀ x, inDomain Cfg.fixed d t x = true → ∃ j, Good P d t x j) :
    ∀ xs : List Val, xs.all (inDomain Cfg.fixed d t) = true →
      ∃ js, encodeList Cfg.fixed P xs = .ok js ∧ All2 (fun x j => inDomain Cfg.fixed d t x = true ∧ Good P d t x j) xs js
        ∧ (hasInfList xs = false → standardList js = true) ∧ wfList js = true
  | [], _ => ⟨[], rfl, .nil, fun _ => rfl, rfl⟩
  | x :: xs, h => by
    simp only [List.all_cons, Bool.and_eq_true] at h
    obtain ⟨j, g⟩ := ih x h.1
    obtain ⟨js, h1, h2, h4, h5⟩ := encList_good P d t ih xs h.2
    refine ⟨j :: js, ?_, .cons ⟨h.1, g⟩ h2, ?_, ?_⟩
    · simp [encodeList, g.enc, h1]
    · intro hi
      simp only [hasInfList, Bool.or_eq_false_iff] at hi
      simp [standardList, g.std hi.1, h4 hi.2]
    · simp [wfList, g.wf, h5]

/-- a value of a type that is not written as an array/object is not encoded as one -/
theorem enc_scalar (P : Prims) (d : Nat) : (t : Ty) → (x : Val) → (j : Js) → t.arrivesAsContainer = false →
    inDomain Cfg.fixed d t x = true → encode Cfg.fixed P x = .ok j → j.isContainer = false
  | .optional t, x, j, ht, hd, he => by
    simp only [inDomain, Bool.and_eq_true, Bool.or_eq_true] at hd
    rcases hd.2 with h | h
    · cases x <;> simp at h
      simp [encode] at he; subst he; rfl
    · exact enc_scalar P d t x j (by simpa [Ty.arrivesAsContainer] using ht) h he
  | .list _, _, _, ht, _, _ => by simp [Ty.arrivesAsContainer] at ht
  | .set _, _, _, ht, _, _ => by simp [Ty.arrivesAsContainer] at ht
  | .tupleVar _, _, _, ht, _, _ => by simp [Ty.arrivesAsContainer] at ht
  | .dict _ _, _, _, ht, _, _ => by simp [Ty.arrivesAsContainer] at ht
  | .tuple _, _, _, ht, _, _ => by simp [Ty.arrivesAsContainer] at ht
  | .data _ _, _, _, ht, _, _ => by simp [Ty.arrivesAsContainer] at ht
  | .cut, _, _, _, hd, _ => by simp [inDomain] at hd
  | .dec, x, j, _, hd, he => by
    cases x <;> simp [inDomain] at hd
    simp [encode] at he
    rename_i d
    subst he
    unfold fromDecimal
    cases d <;> simp only [] <;> (repeat' split) <;> rfl
  | .enum decl, x, j, _, hd, he => by
    cases x <;> simp [inDomain] at hd
    simp [encode] at he
    split at he
    · rename_i nm v hv
      have := wf_scalar _ hd.1.1.2 _ (nm, v) (hd.1.1.1 ▸ hv)
      simp at he; subst he; exact this
    · simp at he
  | .none, x, j, _, hd, he => by
    cases x <;> simp [inDomain] at hd <;> simp [encode] at he <;> (subst he; rfl)
  | .bool, x, j, _, hd, he => by
    cases x <;> simp [inDomain] at hd <;> simp [encode] at he <;> (subst he; rfl)
  | .int, x, j, _, hd, he => by
    cases x <;> simp [inDomain] at hd <;> simp [encode] at he <;> (subst he; rfl)
  | .float, x, j, _, hd, he => by
    cases x <;> simp [inDomain] at hd <;> simp [encode] at he <;> (subst he; rfl)
  | .str, x, j, _, hd, he => by
    cases x <;> simp [inDomain] at hd <;> simp [encode] at he <;> (subst he; rfl)
  | .bytes, x, j, _, hd, he => by
    cases x <;> simp [inDomain] at hd <;> simp [encode] at he <;> (subst he; rfl)
  | .date, x, j, _, hd, he => by
    cases x <;> simp [inDomain] at hd <;> simp [encode] at he <;> (subst he; rfl)
  | .datetime, x, j, _, hd, he => by
    cases x <;> simp [inDomain] at hd <;> simp [encode] at he <;> (subst he; rfl)
  | .time, x, j, _, hd, he => by
    cases x <;> simp [inDomain] at hd <;> simp [encode] at he <;> (subst he; rfl)
  | .delta, x, j, _, hd, he => by
    cases x <;> simp [inDomain] at hd <;> simp [encode] at he <;> (subst he; rfl)
  | .uuid, x, j, _, hd, he => by
    cases x <;> simp [inDomain] at hd <;> simp [encode] at he <;> (subst he; rfl)

theorem no_container (P : Prims) (d : Nat) (t : Ty) (ht : t.arrivesAsContainer = false) {xs : List Val} {js : List Js}
    (h : All2 (fun x j => inDomain Cfg.fixed d t x = true ∧ Good P d t x j) xs js) :
    js.any Js.isContainer = false := by
  induction h with
  | nil => rfl
  | cons g _ ih => simp [enc_scalar P d t _ _ ht g.1 g.2.enc, ih]

theorem toNull_strict {j : Js} (h : j ≠ .null) : toNull .strict j = .perr := by
  cases j <;> simp_all [toNull, Mode.noExplicitCast]

theorem parse_optional {P : Prims} {d : Nat} {t : Ty} {j : Js} (h : j ≠ .null) (m : Mode) :
    parse Cfg.fixed P m d (.optional t) j =
      (match m with
      | .strict => orElse (parse Cfg.fixed P .strict d t j) fun _ => toNull .strict j
      | .noloss => orElse (parse Cfg.fixed P .strict d t j) fun _ => orElse (toNull .strict j) fun _ =>
          orElse (parse Cfg.fixed P .noloss d t j) fun _ => toNull .noloss j
      | .lenient => orElse (parse Cfg.fixed P .strict d t j) fun _ => orElse (toNull .strict j) fun _ =>
          orElse (parse Cfg.fixed P .noloss d t j) fun _ => orElse (toNull .noloss j) fun _ =>
          orElse (parse Cfg.fixed P .lenient d t j) fun _ => toNull .lenient j) := by
  cases j <;> first | exact absurd rfl h | (simp only [parse]; cases m <;> rfl)

theorem optional_good {P : Prims} {d : Nat} {t : Ty} {x : Val} {j : Js} (g : Good P d t x j) (hx : x ≠ .none) :
    Good P d (.optional t) x j := by
  have hj : j ≠ .null := fun e => hx (g.nn e)
  have hn := toNull_strict hj
  obtain ⟨yn, hyn, hcn⟩ := g.nol
  refine ⟨g.enc, ?_, ?_, ?_, g.std, g.wf, g.nn⟩
  · rw [parse_optional hj]
    rcases g.str with hs | ⟨y, hy, hc⟩
    · exact ⟨yn, by simp [orElse, hs, hn, hyn], hcn⟩
    · exact ⟨y, by simp [orElse, hy], hc⟩
  · rw [parse_optional hj]
    rcases g.str with hs | ⟨y, hy, hc⟩
    · exact ⟨yn, by simp [orElse, hs, hn, hyn], hcn⟩
    · exact ⟨y, by simp [orElse, hy], hc⟩
  · rw [parse_optional hj]
    rcases g.str with hs | ⟨y, hy, hc⟩
    · left; simp [orElse, hs, hn]
    · right; exact ⟨y, by simp [orElse, hy], hc⟩

theorem encKVs_good (P : Prims) (d : Nat) (k : KeyTy) (t : Ty)
    (ih : ∀ x, inDomain Cfg.fixed d t x = true → ∃ j, Good P d t x j) :
    ∀ kvs : List (Key × Val), kvs.all (fun kv => kv.1.hasTy k && inDomain Cfg.fixed d t kv.2) = true →
      ∃ js, encodeKVs Cfg.fixed P kvs = .ok js
        ∧ All2 (fun kv sj => sj.1 = kv.1.toStr ∧ kv.1.hasTy k = true ∧ Good P d t kv.2 sj.2) kvs js
        ∧ (hasInfKVs kvs = false → standardKVs js = true) ∧ wfKVs js = true
        ∧ js.map (·.1) = kvs.map (fun kv => kv.1.toStr)
  | [], _ => ⟨[], rfl, .nil, fun _ => rfl, rfl, rfl⟩
  | (key, x) :: kvs, h => by
    simp only [List.all_cons, Bool.and_eq_true] at h
    obtain ⟨j, g⟩ := ih x h.1.2
    obtain ⟨js, h1, h2, h5, h6, h7⟩ := encKVs_good P d k t ih kvs h.2
    refine ⟨(key.toStr, j) :: js, ?_, .cons ⟨rfl, h.1.1, g⟩ h2, ?_, ?_, ?_⟩
    · simp [encodeKVs, g.enc, h1]
    · intro hi
      simp only [hasInfKVs, Bool.or_eq_false_iff] at hi
      simp [standardKVs, g.std hi.1, h5 hi.2]
    · simp [wfKVs, g.wf, h6]
    · simp [h7]

/-- list-level outcomes -/
def WeakL (r : Res (List Val)) (xs : List Val) : Prop := r = .perr ∨ ∃ ys, r = .ok ys ∧ canonList ys = canonList xs
def StrongL (r : Res (List Val)) (xs : List Val) : Prop := ∃ ys, r = .ok ys ∧ canonList ys = canonList xs

theorem wrap_strong {r : Res (List Val)} {xs : List Val} (c : List Val → Val) (h : StrongL r xs)
    (hc : ∀ ys, canonList ys = canonList xs → (c ys).canon = (c xs).canon) :
    Strong (do pure (c (← r))) (c xs) := by
  obtain ⟨ys, hr, hcs⟩ := h
  exact ⟨c ys, by simp [hr], hc ys hcs⟩

theorem wrap_weak {r : Res (List Val)} {xs : List Val} (c : List Val → Val) (h : WeakL r xs)
    (hc : ∀ ys, canonList ys = canonList xs → (c ys).canon = (c xs).canon) :
    Weak (do pure (c (← r))) (c xs) := by
  rcases h with hp | ⟨ys, hr, hcs⟩
  · left; simp [hp]
  · right; exact ⟨c ys, by simp [hr], hc ys hcs⟩

theorem inDomainFields_sublist (d : Nat) : ∀ (fs : List (FieldMeta × Ty)) (acc : List (Str × Val)) (vs : List (Str × Val)),
    inDomainFields Cfg.fixed d acc fs vs = true → (vs.map (·.1)).Sublist (fs.map (·.1.name))
  | [], acc, vs, h => by
    cases vs <;> simp [inDomainFields] at h
    exact List.Sublist.refl _
  | (f, t) :: fs, acc, vs, h => by
    unfold inDomainFields at h
    cases hkind : f.kind with
    | noOutput =>
      simp only [hkind] at h
      exact (inDomainFields_sublist d fs acc vs h).cons _
    | noInput dflt =>
      simp only [hkind] at h
      cases vs with
      | nil => simp at h
      | cons v vs =>
        obtain ⟨n, x⟩ := v
        simp only [Bool.and_eq_true, beq_iff_eq] at h
        obtain ⟨⟨hn, _⟩, hr⟩ := h
        subst hn
        exact (inDomainFields_sublist d fs _ vs hr).cons₂ _
    | prop e =>
      simp only [hkind] at h
      cases vs with
      | nil => simp at h
      | cons v vs =>
        obtain ⟨n, x⟩ := v
        simp only [Bool.and_eq_true, beq_iff_eq] at h
        obtain ⟨⟨hn, _⟩, hr⟩ := h
        subst hn
        exact (inDomainFields_sublist d fs _ vs hr).cons₂ _
    | input req dflt =>
      simp only [hkind] at h
      cases vs with
      | nil =>
        simp only [Bool.and_eq_true] at h
        exact (inDomainFields_sublist d fs acc [] h.2).cons _
      | cons v vs =>
        obtain ⟨n, x⟩ := v
        by_cases hn : (n == f.name) = true
        · simp only [hn, ↓reduceIte, Bool.and_eq_true] at h
          have e : n = f.name := by simpa using hn
          subst e
          exact (inDomainFields_sublist d fs _ vs h.2).cons₂ _
        · simp only [hn, Bool.false_eq_true, ↓reduceIte, Bool.and_eq_true] at h
          exact (inDomainFields_sublist d fs acc _ h.2).cons _

mutual
theorem rt (P : Prims) (hP : PrimLaws P) : (T : Ty) → (d : Nat) → (x : Val) → inDomain Cfg.fixed d T x = true →
    T.setOfContainers = false → ∃ j, Good P d T x j
  | .none, d, x, hd, _ => by
    cases x <;> simp [inDomain] at hd
    exact ⟨.null, Good.ofAll (by simp [encode]) (fun m => ⟨.none, by simp [parse, toNull], rfl⟩) (fun _ => rfl) rfl (fun _ => rfl)⟩
  | .bool, d, x, hd, _ => by
    cases x <;> simp [inDomain] at hd
    rename_i b
    exact ⟨.bool b, Good.ofAll (by simp [encode]) (fun m => ⟨.bool b, by simp [parse], rfl⟩) (fun _ => rfl) rfl (by simp)⟩
  | .int, d, x, hd, _ => by
    cases x <;> simp [inDomain] at hd
    rename_i i
    exact ⟨.int i, Good.ofAll (by simp [encode]) (fun m => ⟨.int i, by simp [parse], rfl⟩) (fun _ => rfl) rfl (by simp)⟩
  | .float, d, x, hd, _ => by
    cases x <;> simp [inDomain] at hd
    rename_i f
    refine ⟨.float f, Good.ofAll (by simp [encode]) (fun m => ⟨.float f, by simp [parse], rfl⟩) ?_ rfl (by simp)⟩
    intro hi
    cases f <;> simp_all [Val.hasInf, Js.standard, F.isFinite, F.isNan]
  | .str, d, x, hd, _ => by
    cases x <;> simp [inDomain] at hd
    rename_i s
    exact ⟨.str s, Good.ofAll (by simp [encode]) (fun m => ⟨.str s, by simp [parse], rfl⟩) (fun _ => rfl) rfl (by simp)⟩
  | .bytes, d, x, hd, _ => by
    cases x <;> simp [inDomain] at hd
    rename_i b
    exact ⟨.str (P.utf8Decode b), Good.ofAll (by simp [encode])
      (fun m => ⟨.bytes b, by simp [parse, hP.utf8_rt b hd], rfl⟩) (fun _ => rfl) rfl (by simp)⟩
  | .dec, d, x, hd, _ => by
    cases x <;> simp [inDomain] at hd
    rename_i d
    refine ⟨fromDecimal Cfg.fixed P d, Good.ofAll (by simp [encode]) ?_ ?_ ?_ ?_⟩
    · intro m
      obtain ⟨d', h1, h2⟩ := rt_dec P hP m d hd
      exact ⟨.dec d', by simp [parse, h1], by simp [Val.canon, h2]⟩
    · intro _
      unfold fromDecimal
      cases d with
      | fin neg c e =>
        simp only []
        (repeat' split) <;> try rfl
        rename_i hu _ ht
        simp only [Dec.inDomain, Bool.and_eq_true, decide_eq_true_eq] at hd
        have := (hP.dec_float neg c e hd.1.1 (by simpa using hu) (by simpa [Cfg.fixed] using ht)).1
        simpa [Js.standard] using this
      | inf _ => rfl
      | nan => rfl
    · unfold fromDecimal
      cases d <;> simp only [] <;> (repeat' split) <;> rfl
    · unfold fromDecimal
      cases d <;> simp only [] <;> (repeat' split) <;> simp
  | .date, d, x, hd, _ => by
    cases x <;> simp [inDomain] at hd
    rename_i d
    exact ⟨.str (isoDate d), Good.ofAll (by simp [encode])
      (fun m => ⟨.date d, by simp [parse, rt_date P hP m d hd], rfl⟩) (fun _ => rfl) rfl (by simp)⟩
  | .datetime, d, x, hd, _ => by
    cases x <;> simp [inDomain] at hd
    rename_i dt
    exact ⟨.str (isoDateTime dt), Good.ofAll (by simp [encode])
      (fun m => ⟨.datetime dt, by simp [parse, rt_datetime P hP m dt hd.1], rfl⟩) (fun _ => rfl) rfl (by simp)⟩
  | .time, d, x, hd, _ => by
    cases x <;> simp [inDomain] at hd
    rename_i t
    exact ⟨.str (fromTime Cfg.fixed t), Good.ofAll (by simp [encode])
      (fun m => ⟨.time t, by simp [parse, rt_time P hP m t hd.1.1.1 hd.1.1.2 hd.1.2], rfl⟩) (fun _ => rfl) rfl (by simp)⟩
  | .delta, d, x, hd, _ => by
    cases x <;> simp [inDomain] at hd
    rename_i us
    exact ⟨.str (durationIso us), Good.ofAll (by simp [encode])
      (fun m => ⟨.delta us, by simp [parse, rt_delta P hP m us hd], rfl⟩) (fun _ => rfl) rfl (by simp)⟩
  | .uuid, d, x, hd, _ => by
    cases x <;> simp [inDomain] at hd
    rename_i n
    exact ⟨.str (P.uuidStr n), Good.ofAll (by simp [encode])
      (fun m => ⟨.uuid n, by simp [parse, hP.uuid_rt n hd], rfl⟩) (fun _ => rfl) rfl (by simp)⟩
  | .enum decl, d, x, hd, _ => by
    cases x <;> simp [inDomain] at hd
    rename_i decl' i
    obtain ⟨⟨⟨hdecl, hwf⟩, hi⟩, _⟩ := hd
    subst hdecl
    obtain ⟨mem, hm, _⟩ := rt_enum .lenient decl i hwf hi
    refine ⟨mem.2.toJson, Good.ofAll (by simp [encode, hm]) ?_ ?_ ?_ ?_⟩
    · intro m
      obtain ⟨mem', hm', hto⟩ := rt_enum m decl i hwf hi
      have : mem' = mem := by rw [hm] at hm'; exact (Option.some.inj hm').symm
      subst this
      exact ⟨.enum decl i, by simp [parse, hto], rfl⟩
    · intro _
      have := wf_scalar decl hwf i mem hm
      cases hv : mem.2 <;> simp_all [EVal.toJson, Js.standard, Js.isContainer]
    · have := wf_scalar decl hwf i mem hm
      cases hv : mem.2 <;> simp_all [EVal.toJson, Js.wf, Js.isContainer]
    · cases mem.2 <;> simp [EVal.toJson]
  | .list t, d, x, hd, hk => by
    cases x <;> simp [inDomain] at hd
    rename_i xs
    have hk' : t.setOfContainers = false := by simpa [Ty.setOfContainers] using hk
    obtain ⟨js, h1, h2, h4, h5⟩ :=
      encList_good P d t (fun x hx => rt P hP t d x hx hk') xs (by simpa using hd)
    have hc : ∀ ys, canonList ys = canonList xs → (Val.list ys).canon = (Val.list xs).canon := by
      intro ys h; simp [Val.canon, h]
    refine ⟨.arr js, by simp [encode, h1], ?_, ?_, ?_, by simpa [Val.hasInf, Js.standard] using h4,
      by simpa [Js.wf] using h5, by simp⟩
    · simpa [parse] using wrap_strong Val.list (mapRes_strong _ (h2.imp fun _ _ g => g.2.len)) hc
    · simpa [parse] using wrap_strong Val.list (mapRes_strong _ (h2.imp fun _ _ g => g.2.nol)) hc
    · simpa [parse] using wrap_weak Val.list (mapRes_weak _ (h2.imp fun _ _ g => g.2.str)) hc
  | .tupleVar t, d, x, hd, hk => by
    cases x <;> simp [inDomain] at hd
    rename_i xs
    have hk' : t.setOfContainers = false := by simpa [Ty.setOfContainers] using hk
    obtain ⟨js, h1, h2, h4, h5⟩ :=
      encList_good P d t (fun x hx => rt P hP t d x hx hk') xs (by simpa using hd)
    have hc : ∀ ys, canonList ys = canonList xs → (Val.tuple ys).canon = (Val.tuple xs).canon := by
      intro ys h; simp [Val.canon, h]
    refine ⟨.arr js, by simp [encode, h1], ?_, ?_, ?_, by simpa [Val.hasInf, Js.standard] using h4,
      by simpa [Js.wf] using h5, by simp⟩
    · simpa [parse] using wrap_strong Val.tuple (mapRes_strong _ (h2.imp fun _ _ g => g.2.len)) hc
    · simpa [parse] using wrap_strong Val.tuple (mapRes_strong _ (h2.imp fun _ _ g => g.2.nol)) hc
    · simpa [parse] using wrap_weak Val.tuple (mapRes_weak _ (h2.imp fun _ _ g => g.2.str)) hc
  | .set t, d, x, hd, hk => by
    cases x <;> simp [inDomain] at hd
    rename_i xs
    simp only [Ty.setOfContainers, Bool.or_eq_false_iff] at hk
    obtain ⟨js, h1, h2, h4, h5⟩ :=
      encList_good P d t (fun x hx => rt P hP t d x hx hk.2) xs (by simpa using hd.1)
    have hnc : js.any Js.isContainer = false := no_container P d t hk.1 h2
    have e := dedup_of_distinct xs xs rfl hd.2
    have hc : ∀ ys, canonList ys = canonList xs → (Val.set (dedupVals ys)).canon = (Val.set (dedupVals xs)).canon := by
      intro ys h; simp [Val.canon, dedup_of_distinct ys xs h hd.2, e, h]
    refine ⟨.arr js, by simp [encode, h1], ?_, ?_, ?_, by simpa [Val.hasInf, Js.standard] using h4,
      by simpa [Js.wf] using h5, by simp⟩
    · have := wrap_strong (fun ys => Val.set (dedupVals ys)) (mapRes_strong _ (h2.imp fun _ _ g => g.2.len)) hc
      simpa [parse, hnc, e] using this
    · have := wrap_strong (fun ys => Val.set (dedupVals ys)) (mapRes_strong _ (h2.imp fun _ _ g => g.2.nol)) hc
      simpa [parse, hnc, e] using this
    · have := wrap_weak (fun ys => Val.set (dedupVals ys)) (mapRes_weak _ (h2.imp fun _ _ g => g.2.str)) hc
      simpa [parse, hnc, e] using this
  | .tuple ts, d, x, hd, hk => by
    cases x <;> simp [inDomain] at hd
    rename_i xs
    obtain ⟨js, h1, hl, hn, hs, h4, h5⟩ := rtTuple P hP ts d xs hd (by simpa [Ty.setOfContainers] using hk)
    have hc : ∀ ys, canonList ys = canonList xs → (Val.tuple ys).canon = (Val.tuple xs).canon := by
      intro ys h; simp [Val.canon, h]
    refine ⟨.arr js, by simp [encode, h1], ?_, ?_, ?_, by simpa [Val.hasInf, Js.standard] using h4,
      by simpa [Js.wf] using h5, by simp⟩
    · simpa [parse] using wrap_strong Val.tuple hl hc
    · simpa [parse] using wrap_strong Val.tuple hn hc
    · simpa [parse] using wrap_weak Val.tuple hs hc
  | .dict k t, d, x, hd, hk => by
    cases x <;> simp [inDomain] at hd
    rename_i kvs
    have hk' : t.setOfContainers = false := by simpa [Ty.setOfContainers] using hk
    have hall : kvs.all (fun kv => kv.1.hasTy k && inDomain Cfg.fixed d t kv.2) = true := by
      simp only [List.all_eq_true, Bool.and_eq_true]
      intro kv hkv
      exact hd.1 kv.1 kv.2 hkv
    obtain ⟨js, h1, h2, h5, h6, h7⟩ :=
      encKVs_good P d k t (fun x hx => rt P hP t d x hx hk') kvs hall
    have hdk : distinct (js.map (·.1)) = true := by
      have e : kvs.map (fun kv => kv.1.toStr) = (kvs.map (·.1)).map Key.toStr := by simp
      rw [h7, e]
      apply distinct_map_of_inj Key.toStr _ _ hd.2
      intro a ha b hb hab
      obtain ⟨⟨a', xa⟩, hma, rfl⟩ := List.mem_map.mp ha
      obtain ⟨⟨b', xb⟩, hmb, rfl⟩ := List.mem_map.mp hb
      exact Key.toStr_inj (hd.1 a' xa hma).1 (hd.1 b' xb hmb).1 hab
    have hkey : ∀ (m : Mode), m.noExplicitCast = false → ∀ key : Key, key.hasTy k = true →
        parseKey m P k key.toStr = .ok key := by
      intro m hm key hty
      cases k <;> cases key <;> simp [Key.hasTy] at hty
      · rfl
      · simp [parseKey, Key.toStr, rt_intKey P hP m hm]
    have hkeyS : ∀ key : Key, key.hasTy k = true →
        parseKey .strict P k key.toStr = .perr ∨ parseKey .strict P k key.toStr = .ok key := by
      intro key hty
      cases k <;> cases key <;> simp [Key.hasTy] at hty
      · right; rfl
      · left; simp [parseKey, Key.toStr, rt_intKey_strict]
    refine ⟨.obj js, by simp [encode, h1], ?_, ?_, ?_, by simpa [Val.hasInf, Js.standard] using h5,
      by simp [Js.wf, h6, hdk], by simp⟩
    · obtain ⟨ys, hy, hcs, _⟩ := parseMap_strong (parseKey .lenient P k) (parse Cfg.fixed P .lenient d t)
        (h2.imp fun kv sj g => ⟨by rw [g.1]; exact hkey .lenient rfl _ g.2.1, g.2.2.len⟩) hd.2
      exact ⟨.dict ys, by simp [parse, hy], by simp [Val.canon, hcs]⟩
    · obtain ⟨ys, hy, hcs, _⟩ := parseMap_strong (parseKey .noloss P k) (parse Cfg.fixed P .noloss d t)
        (h2.imp fun kv sj g => ⟨by rw [g.1]; exact hkey .noloss rfl _ g.2.1, g.2.2.nol⟩) hd.2
      exact ⟨.dict ys, by simp [parse, hy], by simp [Val.canon, hcs]⟩
    · rcases parseMap_weak (parseKey .strict P k) (parse Cfg.fixed P .strict d t)
        (h2.imp fun kv sj g => ⟨by rw [g.1]; exact hkeyS _ g.2.1, g.2.2.str⟩) hd.2 with hp | ⟨ys, hy, hcs, _⟩
      · left; simp [parse, hp]
      · right; exact ⟨.dict ys, by simp [parse, hy], by simp [Val.canon, hcs]⟩
  | .data fs o, d, x, hd, hk => by
    cases x <;> simp [inDomain] at hd
    rename_i vs
    obtain ⟨⟨⟨hdeep, hchk⟩, hnames⟩, hdf⟩ := hd
    have hka := keysAccepted_of_declChecked hchk o.dataFirst
    have hsub := inDomainFields_sublist (d + 1) fs [] vs hdf
    obtain ⟨js, h1, h2, hpar, h6, h7⟩ :=
      rtFields P hP (d + 1) (fs.map (·.1)) o.dataFirst hka fs [] [] vs (fun ft hft => List.mem_map.mpr ⟨ft, hft, rfl⟩) rfl hdf
        (by simpa [Ty.setOfContainers] using hk)
        (by
          have : distinct (fs.map (·.1.name)) = true := hnames
          exact this)
    have hvd : distinct (vs.map (·.1)) = true := distinct_of_sublist hsub hnames
    have hdk : distinct (js.map (·.1)) = true := by rw [h2]; exact hvd
    obtain ⟨ys, hp, hcs⟩ := hpar js (fun kv h => h)
      (by
        intro kv hkv
        have : kv.1 ∈ vs.map (·.1) := by rw [← h2]; exact List.mem_map.mpr ⟨kv, hkv, rfl⟩
        have := hsub.subset this
        obtain ⟨ft, hft, hn⟩ := List.mem_map.mp this
        exact ⟨ft.1, List.mem_map.mpr ⟨ft, hft, rfl⟩, hn⟩)
      hdk (by intro ft _ hn; rw [h2]; exact hn)
    have hnd : tooDeep o (d + 1) = false := by simpa using hdeep
    exact ⟨.obj js, Good.ofAll (by simp [encode, h1])
      (fun m => ⟨.data ys, by simp [parse, hnd, hp], by simp [Val.canon, hcs]⟩)
      (by simpa [Val.hasInf, Js.standard] using h6) (by simp [Js.wf, h7, hdk]) (by simp)⟩
  | .cut, d, x, hd, _ => by simp [inDomain] at hd
  | .optional t, d, x, hd, hk => by
    simp only [inDomain, Bool.and_eq_true, Bool.or_eq_true] at hd
    have hk' : t.setOfContainers = false := by simpa [Ty.setOfContainers] using hk
    by_cases hx : x = .none
    · subst hx
      exact ⟨.null, Good.ofAll (by simp [encode]) (fun m => ⟨.none, by simp [parse], rfl⟩) (fun _ => rfl) rfl (fun _ => rfl)⟩
    · have hdx : inDomain Cfg.fixed d t x = true := by
        rcases hd.2 with h | h
        · cases x <;> simp at h
          exact absurd rfl hx
        · exact h
      obtain ⟨j, g⟩ := rt P hP t d x hdx hk'
      exact ⟨j, optional_good g hx⟩
theorem rtTuple (P : Prims) (hP : PrimLaws P) : (ts : List Ty) → (d : Nat) → (xs : List Val) →
    inDomainTuple Cfg.fixed d ts xs = true → setOfContainersList ts = false →
    ∃ js, encodeList Cfg.fixed P xs = .ok js
      ∧ StrongL (parseTuple Cfg.fixed P .lenient d ts js) xs ∧ StrongL (parseTuple Cfg.fixed P .noloss d ts js) xs
      ∧ WeakL (parseTuple Cfg.fixed P .strict d ts js) xs
      ∧ (hasInfList xs = false → standardList js = true) ∧ wfList js = true
  | [], d, xs, hd, _ => by
    cases xs <;> simp [inDomainTuple] at hd
    exact ⟨[], rfl, ⟨[], by simp [parseTuple], rfl⟩, ⟨[], by simp [parseTuple], rfl⟩,
      Or.inr ⟨[], by simp [parseTuple], rfl⟩, fun _ => rfl, rfl⟩
  | t :: ts, d, xs, hd, hk => by
    cases xs with
    | nil => simp [inDomainTuple] at hd
    | cons x xs =>
      simp only [inDomainTuple, Bool.and_eq_true] at hd
      simp only [setOfContainersList, Bool.or_eq_false_iff] at hk
      obtain ⟨j, g⟩ := rt P hP t d x hd.1 hk.1
      obtain ⟨js, h1, hl, hn, hs, h4, h5⟩ := rtTuple P hP ts d xs hd.2 hk.2
      refine ⟨j :: js, by simp [encodeList, g.enc, h1], ?_, ?_, ?_, ?_, by simp [wfList, g.wf, h5]⟩
      · obtain ⟨y, hy, hc⟩ := g.len
        obtain ⟨ys, hys, hcs⟩ := hl
        exact ⟨y :: ys, by simp [parseTuple, hy, hys], by simp [canonList, hc, hcs]⟩
      · obtain ⟨y, hy, hc⟩ := g.nol
        obtain ⟨ys, hys, hcs⟩ := hn
        exact ⟨y :: ys, by simp [parseTuple, hy, hys], by simp [canonList, hc, hcs]⟩
      · rcases g.str with hp | ⟨y, hy, hc⟩
        · left; simp [parseTuple, hp]
        · rcases hs with hp | ⟨ys, hys, hcs⟩
          · left; simp [parseTuple, hy, hp]
          · right; exact ⟨y :: ys, by simp [parseTuple, hy, hys], by simp [canonList, hc, hcs]⟩
      · intro hi
        simp only [hasInfList, Bool.or_eq_false_iff] at hi
        simp [standardList, g.std hi.1, h4 hi.2]
theorem rtFields (P : Prims) (hP : PrimLaws P) (d : Nat) (ms : List FieldMeta) (df : Bool)
    (hka : keysAccepted ms df = true) : (fs : List (FieldMeta × Ty)) → (accX accY : List (Str × Val)) →
    (vs : List (Str × Val)) → (∀ ft ∈ fs, ft.1 ∈ ms) → canonFields accY = canonFields accX →
    inDomainFields Cfg.fixed d accX fs vs = true → setOfContainersFields fs = false →
    distinct (fs.map (·.1.name)) = true →
    ∃ js, encodeFields Cfg.fixed P vs = .ok js ∧ js.map (·.1) = vs.map (·.1)
      ∧ (∀ all : List (Str × Js), (∀ kv ∈ js, kv ∈ all) → (∀ kv ∈ all, ∃ g ∈ ms, g.name = kv.1) →
          distinct (all.map (·.1)) = true →
          (∀ ft ∈ fs, ft.1.name ∉ vs.map (·.1) → ft.1.name ∉ all.map (·.1)) →
          ∃ ys, parseFields Cfg.fixed P d ms df accY fs all = .ok ys ∧ canonFields ys = canonFields vs)
      ∧ (hasInfFields vs = false → standardKVs js = true) ∧ wfKVs js = true
  | [], accX, accY, vs, _, _, hd, _, _ => by
    cases vs <;> simp [inDomainFields] at hd
    exact ⟨[], rfl, rfl, fun _ _ _ _ _ => ⟨[], by simp [parseFields], rfl⟩, fun _ => rfl, rfl⟩
  | (f, t) :: fs, accX, accY, vs, hms, hacc, hd, hk, hdn => by
    have hf : f ∈ ms := hms (f, t) (by simp)
    have hms' : ∀ ft ∈ fs, ft.1 ∈ ms := fun ft h => hms ft (by simp [h])
    simp only [setOfContainersFields, Bool.or_eq_false_iff] at hk
    have hdn' : distinct (fs.map (·.1.name)) = true := by
      simp only [List.map_cons, distinct, Bool.and_eq_true] at hdn; exact hdn.2
    have hfresh : f.name ∉ fs.map (·.1.name) := by
      simp only [List.map_cons, distinct, Bool.and_eq_true] at hdn
      intro h
      have : (fs.map (·.1.name)).contains f.name = true := by simpa using h
      rw [this] at hdn; simp at hdn
    -- the condition on the fields that are not written passes to the remaining fields
    have htail : ∀ (x : Val) (vs' : List (Str × Val)) (all : List (Str × Js)),
        (∀ ft ∈ (f, t) :: fs, ft.1.name ∉ ((f.name, x) :: vs').map (·.1) → ft.1.name ∉ all.map (·.1)) →
        ∀ ft ∈ fs, ft.1.name ∉ vs'.map (·.1) → ft.1.name ∉ all.map (·.1) := by
      intro x vs' all h ft hft hn
      apply h ft (by simp [hft])
      simp only [List.map_cons, List.mem_cons, not_or]
      refine ⟨?_, hn⟩
      intro e
      exact hfresh (e ▸ List.mem_map.mpr ⟨ft, hft, rfl⟩)
    unfold inDomainFields at hd
    cases hkind : f.kind with
    | noOutput =>
      simp only [hkind] at hd
      obtain ⟨js, h1, h2, hpar, h6, h7⟩ := rtFields P hP d ms df hka fs accX accY vs hms' hacc hd hk.2 hdn'
      refine ⟨js, h1, h2, ?_, h6, h7⟩
      intro all hsub hkeys hdist hall
      have hnv : f.name ∉ vs.map (·.1) := fun h => hfresh ((inDomainFields_sublist d fs accX vs hd).subset h)
      have hab := findValue_absent ms df hka all hkeys f hf (hall (f, t) (by simp) hnv)
      obtain ⟨ys, hp, hcs⟩ := hpar all hsub hkeys hdist (fun ft hft hn => hall ft (by simp [hft]) hn)
      exact ⟨ys, by simp [parseFields, hkind, hab, hp], hcs⟩
    | noInput dflt =>
      simp only [hkind] at hd
      cases vs with
      | nil => simp at hd
      | cons v vs =>
        obtain ⟨n, x⟩ := v
        simp only [Bool.and_eq_true, beq_iff_eq] at hd
        obtain ⟨⟨hn, hx⟩, hdr⟩ := hd
        subst hn
        have hxv : x = dflt.toVal := beq_lit hx
        subst hxv
        obtain ⟨js, h1, h2, hpar, h6, h7⟩ := rtFields P hP d ms df hka fs ((f.name, dflt.toVal) :: accX)
          ((f.name, dflt.toVal) :: accY) vs hms' (by simp [canonFields, hacc]) hdr hk.2 hdn'
        have henc : ∃ j, encode Cfg.fixed P dflt.toVal = .ok j ∧ j.standard = true ∧ j.wf = true := by
          cases dflt with
          | none => exact ⟨.null, by simp [Lit.toVal, encode], rfl, rfl⟩
          | bool b => exact ⟨.bool b, by simp [Lit.toVal, encode], rfl, rfl⟩
          | int i => exact ⟨.int i, by simp [Lit.toVal, encode], rfl, rfl⟩
          | str s => exact ⟨.str s, by simp [Lit.toVal, encode], rfl, rfl⟩
        obtain ⟨j, hj, hjs, hjw⟩ := henc
        refine ⟨(f.name, j) :: js, by simp [encodeFields, hj, h1], by simp [h2], ?_, ?_, by simp [wfKVs, hjw, h7]⟩
        · intro all hsub hkeys hdist hall
          obtain ⟨ys, hp, hcs⟩ := hpar all (fun kv h => hsub kv (by simp [h])) hkeys hdist (htail _ vs all hall)
          exact ⟨(f.name, dflt.toVal) :: ys, by simp [parseFields, hkind, hp], by simp [canonFields, hcs]⟩
        · intro hi
          simp only [hasInfFields, Bool.or_eq_false_iff] at hi
          simp [standardKVs, hjs, h6 hi.2]
    | prop e =>
      simp only [hkind] at hd
      cases vs with
      | nil => simp at hd
      | cons v vs =>
        obtain ⟨n, x⟩ := v
        simp only [Bool.and_eq_true, beq_iff_eq] at hd
        obtain ⟨⟨hn, hx⟩, hdr⟩ := hd
        subst hn
        cases hev : evalProp accX e with
        | none => simp [hev] at hx
        | some v =>
          simp only [hev] at hx
          have hxv : x = v := by
            rcases evalProp_scalar hev with ⟨i, rfl⟩ | ⟨s, rfl⟩
            · exact beq_int hx
            · exact beq_str hx
          subst hxv
          have hevY : evalProp accY e = some x := by rw [evalProp_canon e accY accX hacc]; exact hev
          obtain ⟨js, h1, h2, hpar, h6, h7⟩ := rtFields P hP d ms df hka fs ((f.name, x) :: accX)
            ((f.name, x) :: accY) vs hms' (by simp [canonFields, hacc]) hdr hk.2 hdn'
          have henc : ∃ j, encode Cfg.fixed P x = .ok j ∧ j.standard = true ∧ j.wf = true := by
            rcases evalProp_scalar hev with ⟨i, rfl⟩ | ⟨s, rfl⟩
            · exact ⟨.int i, by simp [encode], rfl, rfl⟩
            · exact ⟨.str s, by simp [encode], rfl, rfl⟩
          obtain ⟨j, hj, hjs, hjw⟩ := henc
          refine ⟨(f.name, j) :: js, by simp [encodeFields, hj, h1], by simp [h2], ?_, ?_, by simp [wfKVs, hjw, h7]⟩
          · intro all hsub hkeys hdist hall
            obtain ⟨ys, hp, hcs⟩ := hpar all (fun kv h => hsub kv (by simp [h])) hkeys hdist (htail _ vs all hall)
            exact ⟨(f.name, x) :: ys, by simp [parseFields, hkind, hevY, hp], by simp [canonFields, hcs]⟩
          · intro hi
            simp only [hasInfFields, Bool.or_eq_false_iff] at hi
            simp [standardKVs, hjs, h6 hi.2]
    | input req dflt =>
      simp only [hkind] at hd
      -- the field is written (its item is the next one) or it is an optional field that was not given
      have hskip : ∀ (vs : List (Str × Val)), (!req && dflt.isNone && inDomainFields Cfg.fixed d accX fs vs) = true →
          f.name ∉ vs.map (·.1) →
          ∃ js, encodeFields Cfg.fixed P vs = .ok js ∧ js.map (·.1) = vs.map (·.1)
            ∧ (∀ all : List (Str × Js), (∀ kv ∈ js, kv ∈ all) → (∀ kv ∈ all, ∃ g ∈ ms, g.name = kv.1) →
                distinct (all.map (·.1)) = true →
                (∀ ft ∈ (f, t) :: fs, ft.1.name ∉ vs.map (·.1) → ft.1.name ∉ all.map (·.1)) →
                ∃ ys, parseFields Cfg.fixed P d ms df accY ((f, t) :: fs) all = .ok ys ∧ canonFields ys = canonFields vs)
            ∧ (hasInfFields vs = false → standardKVs js = true) ∧ wfKVs js = true := by
        intro vs h hnv
        simp only [Bool.and_eq_true, Bool.not_eq_eq_eq_not, Bool.not_true] at h
        obtain ⟨⟨hreq, hdf⟩, hdr⟩ := h
        have hdnone : dflt = none := by cases dflt <;> simp_all
        obtain ⟨js, h1, h2, hpar, h6, h7⟩ := rtFields P hP d ms df hka fs accX accY vs hms' hacc hdr hk.2 hdn'
        refine ⟨js, h1, h2, ?_, h6, h7⟩
        intro all hsub hkeys hdist hall
        have hab := findValue_absent ms df hka all hkeys f hf (hall (f, t) (by simp) hnv)
        obtain ⟨ys, hp, hcs⟩ := hpar all hsub hkeys hdist (fun ft hft hn => hall ft (by simp [hft]) hn)
        exact ⟨ys, by simp [parseFields, hkind, hab, hreq, hdnone, hp], hcs⟩
      cases vs with
      | nil => exact hskip [] (by simpa using hd) (by simp)
      | cons v vs =>
        obtain ⟨n, x⟩ := v
        by_cases hn : (n == f.name) = true
        · simp only [hn, ↓reduceIte, Bool.and_eq_true] at hd
          have e : n = f.name := by simpa using hn
          subst e
          obtain ⟨j, g⟩ := rt P hP t d x hd.1 hk.1
          obtain ⟨y, hy, hc⟩ := g.len
          obtain ⟨js, h1, h2, hpar, h6, h7⟩ := rtFields P hP d ms df hka fs ((f.name, x) :: accX)
            ((f.name, y) :: accY) vs hms' (by simp [canonFields, hacc, hc]) hd.2 hk.2 hdn'
          refine ⟨(f.name, j) :: js, by simp [encodeFields, g.enc, h1], by simp [h2], ?_, ?_, by simp [wfKVs, g.wf, h7]⟩
          · intro all hsub hkeys hdist hall
            have hone := findValue_present ms df hka all hkeys hdist f hf j (hsub _ (by simp))
            obtain ⟨ys, hp, hcs⟩ := hpar all (fun kv h => hsub kv (by simp [h])) hkeys hdist (htail _ vs all hall)
            exact ⟨(f.name, y) :: ys, by simp [parseFields, hkind, hone, hy, hp], by simp [canonFields, hc, hcs]⟩
          · intro hi
            simp only [hasInfFields, Bool.or_eq_false_iff] at hi
            simp [standardKVs, g.std hi.1, h6 hi.2]
        · simp only [hn, Bool.false_eq_true, ↓reduceIte] at hd
          have hdr : inDomainFields Cfg.fixed d accX fs ((n, x) :: vs) = true := by
            simp only [Bool.and_eq_true] at hd; exact hd.2
          exact hskip ((n, x) :: vs) hd
            (fun h => hfresh ((inDomainFields_sublist d fs accX _ hdr).subset h))
end



/-! ### encoding alone (no exclusion: a `Set[Tuple[...]]` is written, it is the parser that refuses it) -/

structure EncOk (P : Prims) (x : Val) (j : Js) : Prop where
  enc : encode Cfg.fixed P x = .ok j
  std : x.hasInf = false → j.standard = true
  wf : j.wf = true

theorem Good.encOk {P : Prims} {d : Nat} {T : Ty} {x : Val} {j : Js} (g : Good P d T x j) : EncOk P x j :=
  ⟨g.enc, g.std, g.wf⟩

theorem encList_ok (P : Prims) (d : Nat) (t : Ty)
    (ih : ∀ x, inDomain Cfg.fixed d t x = true → ∃ j, EncOk P x j) :
    ∀ xs : List Val, xs.all (inDomain Cfg.fixed d t) = true →
      ∃ js, encodeList Cfg.fixed P xs = .ok js ∧ (hasInfList xs = false → standardList js = true) ∧ wfList js = true
  | [], _ => ⟨[], rfl, fun _ => rfl, rfl⟩
  | x :: xs, h => by
    simp only [List.all_cons, Bool.and_eq_true] at h
    obtain ⟨j, g⟩ := ih x h.1
    obtain ⟨js, h1, h4, h5⟩ := encList_ok P d t ih xs h.2
    refine ⟨j :: js, by simp [encodeList, g.enc, h1], ?_, by simp [wfList, g.wf, h5]⟩
    intro hi
    simp only [hasInfList, Bool.or_eq_false_iff] at hi
    simp [standardList, g.std hi.1, h4 hi.2]

theorem encKVs_ok (P : Prims) (d : Nat) (k : KeyTy) (t : Ty)
    (ih : ∀ x, inDomain Cfg.fixed d t x = true → ∃ j, EncOk P x j) :
    ∀ kvs : List (Key × Val), kvs.all (fun kv => kv.1.hasTy k && inDomain Cfg.fixed d t kv.2) = true →
      ∃ js, encodeKVs Cfg.fixed P kvs = .ok js ∧ (hasInfKVs kvs = false → standardKVs js = true) ∧ wfKVs js = true
        ∧ js.map (·.1) = kvs.map (fun kv => kv.1.toStr)
  | [], _ => ⟨[], rfl, fun _ => rfl, rfl, rfl⟩
  | (key, x) :: kvs, h => by
    simp only [List.all_cons, Bool.and_eq_true] at h
    obtain ⟨j, g⟩ := ih x h.1.2
    obtain ⟨js, h1, h5, h6, h7⟩ := encKVs_ok P d k t ih kvs h.2
    refine ⟨(key.toStr, j) :: js, by simp [encodeKVs, g.enc, h1], ?_, by simp [wfKVs, g.wf, h6], by simp [h7]⟩
    intro hi
    simp only [hasInfKVs, Bool.or_eq_false_iff] at hi
    simp [standardKVs, g.std hi.1, h5 hi.2]

mutual
theorem encOk (P : Prims) (hP : PrimLaws P) : (T : Ty) → (d : Nat) → (x : Val) → inDomain Cfg.fixed d T x = true →
    ∃ j, EncOk P x j
  | .none, d, x, hd => by obtain ⟨j, g⟩ := rt P hP .none d x hd rfl; exact ⟨j, g.encOk⟩
  | .bool, d, x, hd => by obtain ⟨j, g⟩ := rt P hP .bool d x hd rfl; exact ⟨j, g.encOk⟩
  | .int, d, x, hd => by obtain ⟨j, g⟩ := rt P hP .int d x hd rfl; exact ⟨j, g.encOk⟩
  | .float, d, x, hd => by obtain ⟨j, g⟩ := rt P hP .float d x hd rfl; exact ⟨j, g.encOk⟩
  | .str, d, x, hd => by obtain ⟨j, g⟩ := rt P hP .str d x hd rfl; exact ⟨j, g.encOk⟩
  | .bytes, d, x, hd => by obtain ⟨j, g⟩ := rt P hP .bytes d x hd rfl; exact ⟨j, g.encOk⟩
  | .dec, d, x, hd => by obtain ⟨j, g⟩ := rt P hP .dec d x hd rfl; exact ⟨j, g.encOk⟩
  | .date, d, x, hd => by obtain ⟨j, g⟩ := rt P hP .date d x hd rfl; exact ⟨j, g.encOk⟩
  | .datetime, d, x, hd => by obtain ⟨j, g⟩ := rt P hP .datetime d x hd rfl; exact ⟨j, g.encOk⟩
  | .time, d, x, hd => by obtain ⟨j, g⟩ := rt P hP .time d x hd rfl; exact ⟨j, g.encOk⟩
  | .delta, d, x, hd => by obtain ⟨j, g⟩ := rt P hP .delta d x hd rfl; exact ⟨j, g.encOk⟩
  | .uuid, d, x, hd => by obtain ⟨j, g⟩ := rt P hP .uuid d x hd rfl; exact ⟨j, g.encOk⟩
  | .enum decl, d, x, hd => by obtain ⟨j, g⟩ := rt P hP (.enum decl) d x hd rfl; exact ⟨j, g.encOk⟩
  | .cut, d, x, hd => by simp [inDomain] at hd
  | .optional t, d, x, hd => by
    simp only [inDomain, Bool.and_eq_true, Bool.or_eq_true] at hd
    by_cases hx : x = .none
    · subst hx; exact ⟨.null, by simp [encode], fun _ => rfl, rfl⟩
    · have hdx : inDomain Cfg.fixed d t x = true := by
        rcases hd.2 with h | h
        · cases x <;> simp at h
          exact absurd rfl hx
        · exact h
      exact encOk P hP t d x hdx
  | .list t, d, x, hd => by
    cases x <;> simp [inDomain] at hd
    rename_i xs
    obtain ⟨js, h1, h4, h5⟩ := encList_ok P d t (fun x hx => encOk P hP t d x hx) xs (by simpa using hd)
    exact ⟨.arr js, by simp [encode, h1], by simpa [Val.hasInf, Js.standard] using h4, by simpa [Js.wf] using h5⟩
  | .tupleVar t, d, x, hd => by
    cases x <;> simp [inDomain] at hd
    rename_i xs
    obtain ⟨js, h1, h4, h5⟩ := encList_ok P d t (fun x hx => encOk P hP t d x hx) xs (by simpa using hd)
    exact ⟨.arr js, by simp [encode, h1], by simpa [Val.hasInf, Js.standard] using h4, by simpa [Js.wf] using h5⟩
  | .set t, d, x, hd => by
    cases x <;> simp [inDomain] at hd
    rename_i xs
    obtain ⟨js, h1, h4, h5⟩ := encList_ok P d t (fun x hx => encOk P hP t d x hx) xs (by simpa using hd.1)
    exact ⟨.arr js, by simp [encode, h1], by simpa [Val.hasInf, Js.standard] using h4, by simpa [Js.wf] using h5⟩
  | .tuple ts, d, x, hd => by
    cases x <;> simp [inDomain] at hd
    rename_i xs
    obtain ⟨js, h1, h4, h5⟩ := encTupleOk P hP ts d xs hd
    exact ⟨.arr js, by simp [encode, h1], by simpa [Val.hasInf, Js.standard] using h4, by simpa [Js.wf] using h5⟩
  | .dict k t, d, x, hd => by
    cases x <;> simp [inDomain] at hd
    rename_i kvs
    have hall : kvs.all (fun kv => kv.1.hasTy k && inDomain Cfg.fixed d t kv.2) = true := by
      simp only [List.all_eq_true, Bool.and_eq_true]
      intro kv hkv
      exact hd.1 kv.1 kv.2 hkv
    obtain ⟨js, h1, h5, h6, h7⟩ := encKVs_ok P d k t (fun x hx => encOk P hP t d x hx) kvs hall
    have hdk : distinct (js.map (·.1)) = true := by
      have e : kvs.map (fun kv => kv.1.toStr) = (kvs.map (·.1)).map Key.toStr := by simp
      rw [h7, e]
      apply distinct_map_of_inj Key.toStr _ _ hd.2
      intro a ha b hb hab
      obtain ⟨⟨a', xa⟩, hma, rfl⟩ := List.mem_map.mp ha
      obtain ⟨⟨b', xb⟩, hmb, rfl⟩ := List.mem_map.mp hb
      exact Key.toStr_inj (hd.1 a' xa hma).1 (hd.1 b' xb hmb).1 hab
    exact ⟨.obj js, by simp [encode, h1], by simpa [Val.hasInf, Js.standard] using h5, by simp [Js.wf, h6, hdk]⟩
  | .data fs o, d, x, hd => by
    cases x <;> simp [inDomain] at hd
    rename_i vs
    obtain ⟨⟨⟨_, _⟩, hnames⟩, hdf⟩ := hd
    have hsub := inDomainFields_sublist (d + 1) fs [] vs hdf
    obtain ⟨js, h1, h2, h6, h7⟩ := encFieldsOk P hP (d + 1) fs [] vs hdf
    have hdk : distinct (js.map (·.1)) = true := by rw [h2]; exact distinct_of_sublist hsub hnames
    exact ⟨.obj js, by simp [encode, h1], by simpa [Val.hasInf, Js.standard] using h6, by simp [Js.wf, h7, hdk]⟩
theorem encTupleOk (P : Prims) (hP : PrimLaws P) : (ts : List Ty) → (d : Nat) → (xs : List Val) →
    inDomainTuple Cfg.fixed d ts xs = true →
    ∃ js, encodeList Cfg.fixed P xs = .ok js ∧ (hasInfList xs = false → standardList js = true) ∧ wfList js = true
  | [], d, xs, hd => by
    cases xs <;> simp [inDomainTuple] at hd
    exact ⟨[], rfl, fun _ => rfl, rfl⟩
  | t :: ts, d, xs, hd => by
    cases xs with
    | nil => simp [inDomainTuple] at hd
    | cons x xs =>
      simp only [inDomainTuple, Bool.and_eq_true] at hd
      obtain ⟨j, g⟩ := encOk P hP t d x hd.1
      obtain ⟨js, h1, h4, h5⟩ := encTupleOk P hP ts d xs hd.2
      refine ⟨j :: js, by simp [encodeList, g.enc, h1], ?_, by simp [wfList, g.wf, h5]⟩
      intro hi
      simp only [hasInfList, Bool.or_eq_false_iff] at hi
      simp [standardList, g.std hi.1, h4 hi.2]
theorem encFieldsOk (P : Prims) (hP : PrimLaws P) (d : Nat) : (fs : List (FieldMeta × Ty)) → (acc : List (Str × Val)) →
    (vs : List (Str × Val)) → inDomainFields Cfg.fixed d acc fs vs = true →
    ∃ js, encodeFields Cfg.fixed P vs = .ok js ∧ js.map (·.1) = vs.map (·.1)
      ∧ (hasInfFields vs = false → standardKVs js = true) ∧ wfKVs js = true
  | [], acc, vs, hd => by
    cases vs <;> simp [inDomainFields] at hd
    exact ⟨[], rfl, rfl, fun _ => rfl, rfl⟩
  | (f, t) :: fs, acc, vs, hd => by
    unfold inDomainFields at hd
    -- an item whose value is a literal / a computed int or str
    have scalar : ∀ (x : Val) (vs' : List (Str × Val)) (acc' : List (Str × Val)),
        ((∃ i, x = .int i) ∨ (∃ s, x = .str s) ∨ (∃ b, x = .bool b) ∨ x = .none) →
        inDomainFields Cfg.fixed d acc' fs vs' = true →
        ∃ js, encodeFields Cfg.fixed P ((f.name, x) :: vs') = .ok js ∧ js.map (·.1) = ((f.name, x) :: vs').map (·.1)
          ∧ (hasInfFields ((f.name, x) :: vs') = false → standardKVs js = true) ∧ wfKVs js = true := by
      intro x vs' acc' hx hr
      obtain ⟨js, h1, h2, h6, h7⟩ := encFieldsOk P hP d fs acc' vs' hr
      have henc : ∃ j, encode Cfg.fixed P x = .ok j ∧ j.standard = true ∧ j.wf = true := by
        rcases hx with ⟨i, rfl⟩ | ⟨s, rfl⟩ | ⟨b, rfl⟩ | rfl
        · exact ⟨.int i, by simp [encode], rfl, rfl⟩
        · exact ⟨.str s, by simp [encode], rfl, rfl⟩
        · exact ⟨.bool b, by simp [encode], rfl, rfl⟩
        · exact ⟨.null, by simp [encode], rfl, rfl⟩
      obtain ⟨j, hj, hjs, hjw⟩ := henc
      refine ⟨(f.name, j) :: js, by simp [encodeFields, hj, h1], by simp [h2], ?_, by simp [wfKVs, hjw, h7]⟩
      intro hi
      simp only [hasInfFields, Bool.or_eq_false_iff] at hi
      simp [standardKVs, hjs, h6 hi.2]
    cases hkind : f.kind with
    | noOutput => simp only [hkind] at hd; exact encFieldsOk P hP d fs acc vs hd
    | noInput dflt =>
      simp only [hkind] at hd
      cases vs with
      | nil => simp at hd
      | cons v vs =>
        obtain ⟨n, x⟩ := v
        simp only [Bool.and_eq_true, beq_iff_eq] at hd
        obtain ⟨⟨hn, hx⟩, hdr⟩ := hd
        subst hn
        have hxv : x = dflt.toVal := beq_lit hx
        refine scalar x vs _ ?_ hdr
        subst hxv
        cases dflt with
        | none => exact Or.inr (Or.inr (Or.inr rfl))
        | bool b => exact Or.inr (Or.inr (Or.inl ⟨b, rfl⟩))
        | int i => exact Or.inl ⟨i, rfl⟩
        | str s => exact Or.inr (Or.inl ⟨s, rfl⟩)
    | prop e =>
      simp only [hkind] at hd
      cases vs with
      | nil => simp at hd
      | cons v vs =>
        obtain ⟨n, x⟩ := v
        simp only [Bool.and_eq_true, beq_iff_eq] at hd
        obtain ⟨⟨hn, hx⟩, hdr⟩ := hd
        subst hn
        cases hev : evalProp acc e with
        | none => simp [hev] at hx
        | some v =>
          simp only [hev] at hx
          refine scalar x vs _ ?_ hdr
          rcases evalProp_scalar hev with ⟨i, rfl⟩ | ⟨s, rfl⟩
          · exact Or.inl ⟨i, beq_int hx⟩
          · exact Or.inr (Or.inl ⟨s, beq_str hx⟩)
    | input req dflt =>
      simp only [hkind] at hd
      cases vs with
      | nil =>
        simp only [Bool.and_eq_true] at hd
        exact encFieldsOk P hP d fs acc [] hd.2
      | cons v vs =>
        obtain ⟨n, x⟩ := v
        by_cases hn : (n == f.name) = true
        · simp only [hn, ↓reduceIte, Bool.and_eq_true] at hd
          have e : n = f.name := by simpa using hn
          subst e
          obtain ⟨j, g⟩ := encOk P hP t d x hd.1
          obtain ⟨js, h1, h2, h6, h7⟩ := encFieldsOk P hP d fs _ vs hd.2
          refine ⟨(f.name, j) :: js, by simp [encodeFields, g.enc, h1], by simp [h2], ?_, by simp [wfKVs, g.wf, h7]⟩
          intro hi
          simp only [hasInfFields, Bool.or_eq_false_iff] at hi
          simp [standardKVs, g.std hi.1, h6 hi.2]
        · simp only [hn, Bool.false_eq_true, ↓reduceIte, Bool.and_eq_true] at hd
          exact encFieldsOk P hP d fs acc _ hd.2
end

/-! ### the property -/

/-- **Round trip** (tree level).  Full statement: for every lawful `P`, declared type `T` and in-domain
instance `x`: `encode x = ok j`, `parse T j = ok y`, `y == x`.  Partial: `T` has no `Set[<container>]`
(known finding `set-of-tuples-unhashable`, see `C14_set_of_tuples_witness`).  `inDomain` asks of a data class
declaration exactly `keysAccepted` (every output name is taken by its own field and no other, under the class's
lookup strategy), distinct output names and the depth limit; of an instance that it is in the state the public API
leaves it in (output properties computed from the current values). -/
theorem C14_roundtrip_partial (P : Prims) (hP : PrimLaws P) (T : Ty) (x : Val)
    (hd : inDomain Cfg.fixed 0 T x = true) (hk : T.setOfContainers = false) :
    ∃ j y, encode Cfg.fixed P x = .ok j ∧ parse Cfg.fixed P .lenient 0 T j = .ok y ∧ y.canon = x.canon := by
  obtain ⟨j, g⟩ := rt P hP T 0 x hd hk
  obtain ⟨y, hy, hc⟩ := g.len
  exact ⟨j, y, g.enc, hy, hc⟩

/-- **Round trip through the text**: `Cls.__from__(json.dumps(inst, cls=JSONEncoder))` equals `inst` for every
data class — with aliases, generated aliases, case-insensitive fields, either lookup strategy, defaults, optional /
no_output / no_input fields, output properties, `max_depth` — the JSON text layer is `P.jsonDumps` / `P.jsonLoads`
under the law `json_rt`. -/
theorem C14_roundtrip_text_partial (P : Prims) (hP : PrimLaws P) (fs : List (FieldMeta × Ty)) (o : ClassOpts) (x : Val)
    (hd : inDomain Cfg.fixed 0 (.data fs o) x = true) (hk : (Ty.data fs o).setOfContainers = false) :
    ∃ j y, encode Cfg.fixed P x = .ok j ∧ parseText Cfg.fixed P fs o (P.jsonDumps j) = .ok y ∧ y.canon = x.canon := by
  obtain ⟨j, g⟩ := rt P hP (.data fs o) 0 x hd hk
  obtain ⟨y, hy, hc⟩ := g.len
  exact ⟨j, y, g.enc, by simp [parseText, hP.json_rt j g.wf, hy], hc⟩

/-- the members of a JSON object have no order: the encoded object of an instance parses back to an equal instance
in **every order of its members** (so it does not matter in which order the real instance holds its items, e.g. after
an optional field was assigned later; `Val.data` lists them in declaration order) -/
theorem C14_roundtrip_member_order (P : Prims) (hP : PrimLaws P) (fs : List (FieldMeta × Ty)) (o : ClassOpts) (vs : List (Str × Val))
    (hd : inDomain Cfg.fixed 0 (.data fs o) (.data vs) = true) (hk : (Ty.data fs o).setOfContainers = false) :
    ∃ js, encode Cfg.fixed P (.data vs) = .ok (.obj js) ∧
      ∀ kvs, kvs.Perm js → ∃ y, parse Cfg.fixed P .lenient 0 (.data fs o) (.obj kvs) = .ok y ∧ y.canon = (Val.data vs).canon := by
  simp [inDomain] at hd
  obtain ⟨⟨⟨hdeep, hchk⟩, hnames⟩, hdf⟩ := hd
  have hka := keysAccepted_of_declChecked hchk o.dataFirst
  have hsub := inDomainFields_sublist 1 fs [] vs hdf
  obtain ⟨js, h1, h2, hpar, _, _⟩ :=
    rtFields P hP 1 (fs.map (·.1)) o.dataFirst hka fs [] [] vs (fun ft hft => List.mem_map.mpr ⟨ft, hft, rfl⟩) rfl hdf
      (by simpa [Ty.setOfContainers] using hk) hnames
  have hvd : distinct (vs.map (·.1)) = true := distinct_of_sublist hsub hnames
  have hdk : distinct (js.map (·.1)) = true := by rw [h2]; exact hvd
  refine ⟨js, by simp [encode, h1], ?_⟩
  intro kvs hperm
  have hmem : ∀ kv, kv ∈ kvs ↔ kv ∈ js := fun kv => hperm.mem_iff
  obtain ⟨ys, hp, hcs⟩ := hpar kvs (fun kv h => (hmem kv).mpr h)
    (by
      intro kv hkv
      have : kv.1 ∈ vs.map (·.1) := by rw [← h2]; exact List.mem_map.mpr ⟨kv, (hmem kv).mp hkv, rfl⟩
      have := hsub.subset this
      obtain ⟨ft, hft, hn⟩ := List.mem_map.mp this
      exact ⟨ft.1, List.mem_map.mpr ⟨ft, hft, rfl⟩, hn⟩)
    (by
      rw [distinct_iff_nodup]
      exact ((hperm.map (·.1)).nodup_iff).mpr ((distinct_iff_nodup _).mp hdk))
    (by
      intro ft _ hn hin
      apply hn
      rw [← h2]
      obtain ⟨kv, hkv, e⟩ := List.mem_map.mp hin
      exact List.mem_map.mpr ⟨kv, (hmem kv).mp hkv, e⟩)
  have hnd : tooDeep o 1 = false := by simpa using hdeep
  exact ⟨.data ys, by simp [parse, hnd, hp], by simp [Val.canon, hcs]⟩

/-- under the default preferences and under `no_data_loss`, at every nesting depth, the parser returns a value equal
to the instance; under the strict preferences (the first union stage of an enclosing `Optional[...]`) it does so or
refuses (then a later stage takes over) — never a different value -/
theorem C14_roundtrip_modes_partial (P : Prims) (hP : PrimLaws P) (T : Ty) (d : Nat) (x : Val)
    (hd : inDomain Cfg.fixed d T x = true) (hk : T.setOfContainers = false) :
    ∃ j, encode Cfg.fixed P x = .ok j
      ∧ (∃ y, parse Cfg.fixed P .lenient d T j = .ok y ∧ y.canon = x.canon)
      ∧ (∃ y, parse Cfg.fixed P .noloss d T j = .ok y ∧ y.canon = x.canon)
      ∧ (parse Cfg.fixed P .strict d T j = .perr ∨ ∃ y, parse Cfg.fixed P .strict d T j = .ok y ∧ y.canon = x.canon) := by
  obtain ⟨j, g⟩ := rt P hP T d x hd hk
  exact ⟨j, g.enc, g.len, g.nol, g.str⟩

/-- **Encoding succeeds** on the whole domain (no exclusion) and yields a tree `json.loads` can return. -/
theorem C14_encode_succeeds (P : Prims) (hP : PrimLaws P) (T : Ty) (x : Val)
    (hd : inDomain Cfg.fixed 0 T x = true) : ∃ j, encode Cfg.fixed P x = .ok j ∧ j.wf = true := by
  obtain ⟨j, g⟩ := encOk P hP T 0 x hd
  exact ⟨j, g.enc, g.wf⟩

/-- **Standard JSON**.  Full statement: the encoded tree of every in-domain instance has only finite numbers.
Partial: the instance holds no infinite float (known finding `float-inf-nonstandard-json`). -/
theorem C14_standard_partial (P : Prims) (hP : PrimLaws P) (T : Ty) (x : Val)
    (hd : inDomain Cfg.fixed 0 T x = true) (hi : x.hasInf = false) :
    ∃ j, encode Cfg.fixed P x = .ok j ∧ j.standard = true := by
  obtain ⟨j, g⟩ := encOk P hP T 0 x hd
  exact ⟨j, g.enc, g.std hi⟩

/-! ### the exclusions are real (negations with witnesses), for every `P` -/

/-- `Set[Tuple[int, int]]`, `{(1, 2)}`: in the domain, encodes to `[[1, 2]]`, does not parse back. -/
theorem C14_set_of_tuples_witness (P : Prims) :
    let T := Ty.set (.tuple [.int, .int])
    let x := Val.set [.tuple [.int 1, .int 2]]
    inDomain Cfg.fixed 0 T x = true ∧ T.setOfContainers = true
      ∧ encode Cfg.fixed P x = .ok (.arr [.arr [.int 1, .int 2]])
      ∧ parse Cfg.fixed P .lenient 0 T (.arr [.arr [.int 1, .int 2]]) = .perr := by
  refine ⟨by decide +kernel, by decide, ?_, ?_⟩
  · simp [encode, encodeList]
  · simp [parse, Js.isContainer]

/-- `float('inf')` is in the domain (a float that is not NaN), round-trips, but its encoding is not standard JSON. -/
theorem C14_inf_not_standard_witness (P : Prims) :
    inDomain Cfg.fixed 0 .float (.float (.inf false)) = true
      ∧ encode Cfg.fixed P (.float (.inf false)) = .ok (.float (.inf false))
      ∧ (Js.float (.inf false)).standard = false
      ∧ parse Cfg.fixed P .lenient 0 .float (.float (.inf false)) = .ok (.float (.inf false)) := by
  refine ⟨by decide, ?_, by decide, ?_⟩
  · simp [encode]
  · simp [parse]

def pairEnum : EnumDecl := ⟨.none, [("B".toList, .tuple [1, 2])]⟩

/-- `class E(Enum): B = (1, 2)`: the member is written as `[1, 2]` and `E([1, 2])` is not a member — an Enum whose
value JSON cannot carry in its own type does not come back (known finding `enum-non-json-value`; `inDomain` excludes
it through `EnumDecl.wf`, the `KnownDefect` predicate is `EnumDecl.nonJsonValue`) -/
theorem C14_enum_tuple_value_witness (P : Prims) :
    pairEnum.nonJsonValue = true ∧ pairEnum.wf = false
      ∧ encode Cfg.fixed P (.enum pairEnum 0) = .ok (.arr [.int 1, .int 2])
      ∧ parse Cfg.fixed P .lenient 0 (.enum pairEnum) (.arr [.int 1, .int 2]) = .perr := by
  refine ⟨by decide, by decide, ?_, ?_⟩
  · simp [encode, pairEnum, EVal.toJson]
  · simp [parse, toEnum, pairEnum]

/-! ### the repaired defects were defects (model of the code before each `fix:` patch) -/

def shadowEnum : EnumDecl := ⟨.none, [("A".toList, .str "B".toList), ("B".toList, .str "C".toList)]⟩

/-- `class E(Enum): A = 'B'; B = 'C'` — before the repair `E.A` came back as `E.B`; after it as `E.A`. -/
theorem C14_enum_shadow_legacy_witness (P : Prims) :
    encode Cfg.legacy P (.enum shadowEnum 0) = .ok (.str "B".toList)
      ∧ parse Cfg.legacy P .lenient 0 (.enum shadowEnum) (.str "B".toList) = .ok (.enum shadowEnum 1)
      ∧ parse Cfg.fixed P .lenient 0 (.enum shadowEnum) (.str "B".toList) = .ok (.enum shadowEnum 0) := by
  refine ⟨?_, ?_, ?_⟩
  · simp [encode, shadowEnum, EVal.toJson]
  · simp [parse, toEnum, shadowEnum, findIdx?, Cfg.legacy, Mode.noExplicitCast, Mode.noDataLoss]
  · simp [parse, toEnum, shadowEnum, findIdx?, Cfg.fixed, Mode.noExplicitCast, Mode.noDataLoss]

/-- `Decimal('1E-400')`: where `float(d)` underflows to zero (CPython), the old encoder wrote `0.0` and the
value came back as `Decimal('0')`; the repaired encoder writes the string `str(d)`. -/
theorem C14_dec_tiny_legacy_witness (P : Prims) (h0 : (P.floatOfDec (.fin false 1 (-400))).isZero = true) :
    ∃ j, encode Cfg.legacy P (.dec (.fin false 1 (-400))) = .ok j
      ∧ parse Cfg.legacy P .lenient 0 .dec j = .ok (.dec (.fin false 0 0))
      ∧ (Val.dec (.fin false 0 0)).canon ≠ (Val.dec (.fin false 1 (-400))).canon
      ∧ encode Cfg.fixed P (.dec (.fin false 1 (-400))) = .ok (.str (P.decStr (.fin false 1 (-400)))) := by
  have hu : jsUnsafe 1 (-400) = false := by decide +kernel
  have ht : decTiny 1 (-400) = true := by decide +kernel
  refine ⟨.float (P.floatOfDec (.fin false 1 (-400))), ?_, ?_, by simp [Val.canon, Dec.canon, stripZeros], ?_⟩
  · simp [encode, fromDecimal, hu, Cfg.legacy]
  · simp [parse, toDecimal, h0, Mode.noExplicitCast]
  · simp [encode, fromDecimal, hu, ht, Cfg.fixed]


def Res.isPerr {α : Type} : Res α → Bool
  | .perr => true
  | _ => false

def Res.isOkWith {α : Type} (p : α → Bool) : Res α → Bool
  | .ok a => p a
  | _ => false

def nyWinter : DateTime := ⟨⟨2020, 1, 2⟩, ⟨3, 4, 5, 0⟩, some (-18000000000)⟩     -- 2020-01-02T03:04:05-05:00

/-- a datetime with a negative UTC offset: `invalid datetime` before the repair (`'+' in data` was the only
offset detector), parsed back after it (concrete builtins `P0`). -/
theorem C14_negative_offset_legacy_witness :
    (parse Cfg.legacy P0 .lenient 0 .datetime (.str (isoDateTime nyWinter))).isPerr = true
      ∧ (parse Cfg.fixed P0 .lenient 0 .datetime (.str (isoDateTime nyWinter))).isOkWith (fun y => y.beq (.datetime nyWinter)) = true := by
  constructor <;> decide +kernel

def teaTime : TimeV := ⟨⟨3, 4, 5, 123000⟩, some 7200000000⟩                     -- 03:04:05.123+02:00

/-- an aware time with milliseconds: the old `r[:12]` cut the offset off, so the value came back naive. -/
theorem C14_time_tz_legacy_witness :
    fromTime Cfg.legacy teaTime = "03:04:05.123".toList
      ∧ (parse Cfg.legacy P0 .lenient 0 .time (.str (fromTime Cfg.legacy teaTime))).isOkWith
          (fun y => y.beq (.time ⟨teaTime.clock, none⟩)) = true
      ∧ (parse Cfg.fixed P0 .lenient 0 .time (.str (fromTime Cfg.fixed teaTime))).isOkWith (fun y => y.beq (.time teaTime)) = true := by
  refine ⟨by decide +kernel, by decide +kernel, by decide +kernel⟩

def plain (n : String) : FieldMeta := ⟨n.toList, [n.toList], false, .input true none⟩

/-! ### what the round trip needs from a declaration -/

/-- `keysAccepted` — every output name is taken by its own field and by no other, under the class's lookup
strategy — is what `parse` uses of a declaration.  It follows, for the field-first search (the default) and for the
data-first search, from `declChecked`: the conditions under which utype accepts a declaration at all (otherwise
`ConfigError`), stated on the declaration alone — accepted keys start with the output name, output names and `fields`
keys distinct, no alias is a field key, aliases do not clash, no case-sensitive key meets a case-insensitive name. -/
theorem C14_decl_keys_accepted (ms : List FieldMeta) (h : declChecked ms = true) (dataFirst : Bool) :
    keysAccepted ms dataFirst = true :=
  keysAccepted_of_declChecked h dataFirst

/-- a declaration utype refuses (`a: int = Field(alias_from=['b']); b: int` → ConfigError "aliases conflict with
fields") fails `declChecked`, and indeed the field-first search would give `a` the member written for `b` -/
theorem C14_decl_refused_witness :
    let ms : List FieldMeta := [⟨"a".toList, ["a".toList, "b".toList], false, .input true none⟩, plain "b"]
    declChecked ms = false ∧ keysAccepted ms false = false := by
  constructor <;> decide +kernel

/-! ### non-vacuity -/

/-- the hypotheses of the theorems are satisfiable: `P0` is lawful … -/
theorem C14_primlaws_P0 : PrimLaws P0 := primLaws_P0

/-- the builtins with a `float(Decimal)` that underflows below the normal range, as CPython's does -/
def P1 : Prims := { P0 with floatOfDec := fun d => match d with
  | .fin neg c e => if decTiny c e then .fin neg 0 0 else .fin neg c e
  | .inf neg => .inf neg
  | .nan => .nan }

/-- the hypothesis of `C14_dec_tiny_legacy_witness` is satisfiable by lawful builtins -/
theorem C14_primlaws_P1 : PrimLaws P1 ∧ (P1.floatOfDec (.fin false 1 (-400))).isZero = true := by
  refine ⟨{ primLaws_P0 with dec_float := ?_ }, by decide +kernel⟩
  intro neg c e _ _ ht
  show (P1.floatOfDec (.fin neg c e)).isFinite = true ∧ _ ∧ _
  simp only [P1, ht, Bool.false_eq_true, ↓reduceIte]
  exact P0.law_dec_float neg c e

/-- … so the round trip holds outright for the concrete builtins -/
theorem C14_roundtrip_P0 (fs : List (FieldMeta × Ty)) (o : ClassOpts) (x : Val)
    (hd : inDomain Cfg.fixed 0 (.data fs o) x = true) (hk : (Ty.data fs o).setOfContainers = false) :
    ∃ j y, encode Cfg.fixed P0 x = .ok j ∧ parseText Cfg.fixed P0 fs o (P0.jsonDumps j) = .ok y ∧ y.canon = x.canon :=
  C14_roundtrip_text_partial P0 primLaws_P0 fs o x hd hk

/-- … and the domain is inhabited by an instance with a negative offset, a negative microsecond duration,
a tiny Decimal, an aware millisecond time, an enum whose value is another member's name, Optional fields, nested in
containers -/
example : ∃ fs o x, inDomain Cfg.fixed 0 (.data fs o) x = true ∧ (Ty.data fs o).setOfContainers = false ∧ x.hasInf = false :=
  ⟨[(plain "a", .datetime), (plain "b", .list .delta), (plain "c", .dict .int .dec), (plain "d", .set .time),
    (plain "e", .tuple [.enum shadowEnum, .data [(plain "n", .none)] ⟨none, false⟩]),
    (plain "o", .optional (.dict .int (.optional .dec))), (plain "p", .optional .date)], ⟨none, false⟩,
   .data [("a".toList, .datetime nyWinter), ("b".toList, .list [.delta (-90061000005)]),
    ("c".toList, .dict [(.int (-7), .dec (.fin false 1 (-400)))]), ("d".toList, .set [.time teaTime]),
    ("e".toList, .tuple [.enum shadowEnum 0, .data [("n".toList, .none)]]),
    ("o".toList, .dict [(.int 1, .dec (.fin true 0 (-1))), (.int 0, .none)]), ("p".toList, .none)],
   by decide +kernel, by decide +kernel, by decide +kernel⟩

/-- a declaration in the manner of the missed seeds: generated camelCase names, one case-insensitive field with an
extra key, a case-sensitive field with capitals, an optional field that is not given, a no_output field, a no_input
field, an output property over two fields, `max_depth=3` with a self-reference two levels deep; both lookup strategies -/
def orderFields (inner : Ty) : List (FieldMeta × Ty) :=
  [(⟨"requestId".toList, ["requestId".toList, "request_id".toList, "x-request".toList], true, .input true none⟩, .uuid),
   (⟨"createdAt".toList, ["createdAt".toList, "created_at".toList], false, .input true none⟩, .datetime),
   (⟨"price".toList, ["price".toList], false, .input true none⟩, .int),
   (⟨"quantity".toList, ["quantity".toList], false, .input false (some (.int 1))⟩, .int),
   (⟨"note".toList, ["note".toList], false, .input false none⟩, .str),
   (⟨"secret".toList, ["secret".toList], false, .noOutput⟩, .str),
   (⟨"version".toList, ["version".toList], false, .noInput (.int 3)⟩, .int),
   (⟨"grandTotal".toList, ["grandTotal".toList, "total".toList], false, .prop (.sumInt ["price".toList, "quantity".toList])⟩, .int),
   (⟨"inReplyTo".toList, ["inReplyTo".toList, "in_reply_to".toList], false, .input false (some .none)⟩, .optional inner)]

def orderItems (price qty : Int) (parent : Val) : Val :=
  .data [("requestId".toList, .uuid 7), ("createdAt".toList, .datetime nyWinter), ("price".toList, .int price),
    ("quantity".toList, .int qty), ("version".toList, .int 3), ("grandTotal".toList, .int (price + qty)),
    ("inReplyTo".toList, parent)]

example : ∀ df : Bool,
    inDomain Cfg.fixed 0 (.data (orderFields (.data (orderFields .cut) ⟨some 3, df⟩)) ⟨some 3, df⟩)
      (orderItems 5 2 (orderItems 1 1 .none)) = true := by
  intro df; cases df <;> decide +kernel

end Utv.C14
