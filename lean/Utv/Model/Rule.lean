import Utv.Gen.Constraints
/-!
The validator phase of `Rule.parse` (rule.py:1745-1762) and `LogicalType.__instancecheck__`
(rule.py:101-117), hand-written on top of the *generated* validators (`Utv.Gen.Constraints`, T1).
-/
namespace Utv.Rule
open Utv.Py Utv.Gen

abbrev Validator := Prims → PyVal → PyVal → M PyVal

/-- `getattr(Constraints, name)` for the names `generate_validators` can produce (rule.py:853-866) -/
def validatorOf : String → Option Validator
  | "gt" => some Constraints.gt
  | "ge" => some Constraints.ge
  | "lt" => some Constraints.lt
  | "le" => some Constraints.le
  | "const" => some Constraints.const
  | "enum" => some Constraints.enum
  | "regex" => some Constraints.regex
  | "decimal_places" => some Constraints.decimal_places
  | "multiple_of" => some Constraints.multiple_of
  | "max_digits" => some Constraints.max_digits
  | "length" => some Constraints.length
  | "max_length" => some Constraints.max_length
  | "min_length" => some Constraints.min_length
  | "unique_items" => some Constraints.unique_items
  | "lax_ge" => some Constraints.lax_ge
  | "lax_le" => some Constraints.lax_le
  | "lax_const" => some Constraints.lax_const
  | "lax_enum" => some Constraints.lax_enum
  | "lax_decimal_places" => some Constraints.lax_decimal_places
  | "lax_multiple_of" => some Constraints.lax_multiple_of
  | "lax_max_digits" => some Constraints.lax_max_digits
  | "lax_length" => some Constraints.lax_length
  | "lax_max_length" => some Constraints.lax_max_length
  | "lax_unique_items" => some Constraints.lax_unique_items
  | _ => none

/-- fail-fast validator loop: `for key, constraint, validator in cls.__validators__: value = validator(value, constraint)`;
the first exception aborts (wrapped into ConstraintError by the caller). -/
def validate (P : Prims) : List (String × PyVal) → PyVal → M PyVal
  | [], v => pure v
  | (name, bound) :: cs, v =>
    match validatorOf name with
    | none => throw (.unmodelled "unknown validator")
    | some f => do
      let v' ← f P v bound
      validate P cs v'

/-- constraint key of a validator name (`lax_x` validates constraint `x`) -/
def baseKey (name : String) : String :=
  if name.startsWith "lax_" then (name.drop 4).toString else name

/-- `generate_validators` iterates `__constraints__` in order (rule.py:836-846) -/
def ordered (cs : List (String × PyVal)) : List (String × PyVal) :=
  Tables.constraintOrder.flatMap fun key => cs.filter fun c => baseKey c.1 == key

/-- `validate_constraints` (rule.py:763-827), the part that decides *which* validators are generated:
`const` stands alone, else `enum` stands alone; otherwise `None` bounds are dropped, a false `unique_items` is
dropped, `length` removes `min_length`/`max_length` and a zero `min_length` is removed (`valid_length`,
rule.py:542-574).  The ConfigError branches (illegal declarations) are not part of the model: the theorems
quantify over the constraint sets the library accepted. -/
def normalise (cs : List (String × PyVal)) : List (String × PyVal) :=
  match cs.find? (fun c => baseKey c.1 == "const") with
  | some c => [c]
  | none => match cs.find? (fun c => baseKey c.1 == "enum") with
    | some c => [c]
    | none =>
      let cs := cs.filter fun c => !(match c.2 with | .none => true | _ => false)
      let cs := cs.filter fun c => !(baseKey c.1 == "unique_items" && !Py.truthy c.2)
      let hasLength := cs.any fun c => baseKey c.1 == "length"
      cs.filter fun c =>
        if baseKey c.1 == "min_length" then !hasLength && Py.truthy c.2
        else if baseKey c.1 == "max_length" then !hasLength
        else true

/-- `isinstance(obj, T)` for a constrained type with a class origin (rule.py:109-117):
origin isinstance check, then a full parse.  `parse` is the type's own parse. -/
def instancecheck (originOk : PyVal → Bool) (parse : PyVal → M PyVal) (v : PyVal) : Bool :=
  if !originOk v then false
  else match parse v with
    | .ok _ => true
    | .error _ => false

end Utv.Rule
