import Utv.Model.C10
/-!
Helper lemmas for C10: context operations, the generic parse loop, and the two-mode agreement of one
level of the type tree (`Good rec → Good (parseStep W rec)`).
-/
namespace Utv.C10

/-! ### context operations -/

theorem handleError_fst (c : Ctx) (e : Err) (f : Bool) :
    (c.handleError e f).1 = { c with errors := c.errors ++ [e] } := by
  simp only [Ctx.handleError]
  split
  · rfl
  · split
    · split <;> rfl
    · rfl

theorem handleError_errors (c : Ctx) (e : Err) (f : Bool) :
    (c.handleError e f).1.errors = c.errors ++ [e] := by
  rw [handleError_fst]

theorem handleError_ne_nil (c : Ctx) (e : Err) (f : Bool) : (c.handleError e f).1.errors ≠ [] := by
  rw [handleError_errors]; simp

theorem handleError_mode (c : Ctx) (e : Err) (f : Bool) : (c.handleError e f).1.mode = c.mode := by
  rw [handleError_fst]

theorem handleError_o (c : Ctx) (e : Err) (f : Bool) : (c.handleError e f).1.o = c.o := by
  rw [handleError_fst]

theorem handleError_tmp (c : Ctx) (e : Err) (f : Bool) : (c.handleError e f).1.tmp = c.tmp := by
  rw [handleError_fst]

/-- fail-fast: `handle_error` raises the error it was handed -/
theorem handleError_ff (c : Ctx) (h : c.mode.collect = false) (e : Err) (f : Bool) :
    (c.handleError e f).2 = some (.raw e) := by
  unfold Ctx.handleError
  simp [h]

/-- without `max_errors`, a collecting `handle_error` never raises -/
theorem handleError_collect_none (c : Ctx) (h : c.mode.collect = true) (hm : c.mode.maxErrors = none) (e : Err) :
    (c.handleError e).2 = none := by
  unfold Ctx.handleError
  simp [h, hm]

/-- a collecting `handle_error` raises only a `CollectedParseError`, and only when the cap is reached -/
theorem handleError_collect_some (c : Ctx) (h : c.mode.collect = true) (e : Err) (x : Exc)
    (hx : (c.handleError e).2 = some x) :
    ∃ m, c.mode.maxErrors = some m ∧ m ≤ c.errors.length + 1 ∧ x = .collected (c.errors ++ [e] ++ c.tmp) := by
  unfold Ctx.handleError at hx
  simp only [h, Bool.not_true, Bool.or_self, Bool.false_eq_true, ↓reduceIte] at hx
  cases hm : c.mode.maxErrors with
  | none => simp [hm] at hx
  | some m =>
    simp only [hm] at hx
    split at hx
    · rename_i hge
      refine ⟨m, rfl, ?_, ?_⟩
      · simpa using hge
      · simpa using hx.symm
    · simp at hx

theorem raiseError_clean (m : Mode) (o : Opts) : (clean0 m o).raiseError = none := by
  simp [Ctx.raiseError, clean0]

theorem raiseError_dirty (c : Ctx) (h : c.errors ≠ []) : ∃ x, c.raiseError = some x := by
  unfold Ctx.raiseError
  cases he : c.errors with
  | nil => exact absurd he h
  | cons a as => simp

theorem finish_clean (m : Mode) (o : Opts) (v : α) : finish (clean0 m o) v = (clean0 m o, .ok v) := by
  simp [finish, raiseError_clean]

theorem finish_dirty (c : Ctx) (h : c.errors ≠ []) (v : α) : ∃ x, finish c v = (c, .error x) := by
  obtain ⟨x, hx⟩ := raiseError_dirty c h
  exact ⟨x, by simp [finish, hx]⟩

/-- a context is the clean one as soon as its lists are empty -/
theorem eq_clean0 (c : Ctx) (he : c.errors = []) (ht : c.tmp = []) : c = clean0 c.mode c.o := by
  cases c; simp_all [clean0]

/-! ### the generic loop -/

/-- an outcome that ends in rejection: an exception, or a context that holds an error -/
def Bad (r : Ctx × Res α) : Prop := (∃ x, r.2 = .error x) ∨ r.1.errors ≠ []

/-- the accumulator after the loop when no iteration reports anything -/
def quiet (step : α → ι → Step α) : List ι → α → Option α
  | [], a => some a
  | i :: is, a =>
    match step a i with
    | .keep a' => quiet step is a'
    | _ => none

theorem runLoop_quiet (step : α → ι → Step α) (c : Ctx) (items : List ι) (a a' : α)
    (h : quiet step items a = some a') : runLoop step c items a = (c, .ok a') := by
  induction items generalizing a with
  | nil => simp [quiet] at h; simp [runLoop, h]
  | cons i is ih =>
    simp only [quiet] at h
    simp only [runLoop]
    split at h
    · rename_i a1 hs
      simp only [hs]
      exact ih a1 h
    · simp at h

/-- errors of a context only grow in a loop; mode and options stay -/
theorem runLoop_grows (step : α → ι → Step α) (c : Ctx) (items : List ι) (a : α) :
    ∃ es, (runLoop step c items a).1 = { c with errors := c.errors ++ es } := by
  induction items generalizing a c with
  | nil => exact ⟨[], by simp [runLoop]⟩
  | cons i is ih =>
    simp only [runLoop]
    split
    · exact ih c _
    · rename_i e a1 hs
      have hf := handleError_fst c e false
      split
      · rename_i c' x hh
        have : c' = (c.handleError e).1 := by rw [hh]
        exact ⟨[e], by rw [this, hf]⟩
      · rename_i c' hh
        have hc : c' = (c.handleError e).1 := by rw [hh]
        obtain ⟨es, hes⟩ := ih c' a1
        refine ⟨e :: es, ?_⟩
        rw [hes, hc, hf]
        simp
    · rename_i e x hs
      have hf := handleError_fst c e false
      split
      · rename_i c' x' hh
        have : c' = (c.handleError e).1 := by rw [hh]
        exact ⟨[e], by rw [this, hf]⟩
      · rename_i c' hh
        have : c' = (c.handleError e).1 := by rw [hh]
        exact ⟨[e], by rw [this, hf]⟩

theorem runLoop_dirty (step : α → ι → Step α) (c : Ctx) (items : List ι) (a : α) (h : c.errors ≠ []) :
    Bad (runLoop step c items a) := by
  obtain ⟨es, hes⟩ := runLoop_grows step c items a
  right
  rw [hes]
  simp [h]

theorem runLoop_mode (step : α → ι → Step α) (c : Ctx) (items : List ι) (a : α) :
    (runLoop step c items a).1.mode = c.mode ∧ (runLoop step c items a).1.o = c.o ∧
    (runLoop step c items a).1.tmp = c.tmp := by
  obtain ⟨es, hes⟩ := runLoop_grows step c items a
  rw [hes]; simp

/-- some iteration reports: whatever the mode, the loop ends in rejection -/
theorem runLoop_loud (step : α → ι → Step α) (c : Ctx) (items : List ι) (a : α)
    (h : quiet step items a = none) : Bad (runLoop step c items a) := by
  induction items generalizing a with
  | nil => simp [quiet] at h
  | cons i is ih =>
    simp only [quiet] at h
    simp only [runLoop]
    split
    · rename_i a1 hs
      simp only [hs] at h
      exact ih a1 h
    · rename_i e a1 hs
      split
      · left; exact ⟨_, rfl⟩
      · rename_i c' hh
        have hc : c' = (c.handleError e).1 := by rw [hh]
        exact runLoop_dirty step c' is a1 (by rw [hc]; exact handleError_ne_nil c e false)
    · split
      · left; exact ⟨_, rfl⟩
      · left; exact ⟨_, rfl⟩

/-- fail-fast: the first report raises -/
theorem runLoop_loud_ff (step : α → ι → Step α) (c : Ctx) (hc : c.mode.collect = false) (items : List ι) (a : α)
    (h : quiet step items a = none) : ∃ c' x, runLoop step c items a = (c', .error x) := by
  induction items generalizing a with
  | nil => simp [quiet] at h
  | cons i is ih =>
    simp only [quiet] at h
    simp only [runLoop]
    split
    · rename_i a1 hs
      simp only [hs] at h
      exact ih a1 h
    · rename_i e a1 hs
      have := handleError_ff c hc e false
      split
      · exact ⟨_, _, rfl⟩
      · rename_i c' hh
        rw [hh] at this
        simp at this
    · split
      · exact ⟨_, _, rfl⟩
      · exact ⟨_, _, rfl⟩

/-- fail-fast loops: either nothing is reported and the context is untouched, or an exception leaves -/
theorem runLoop_ff_cases (step : α → ι → Step α) (c : Ctx) (hc : c.mode.collect = false) (items : List ι) (a : α) :
    (∃ a', quiet step items a = some a' ∧ runLoop step c items a = (c, .ok a')) ∨
    (quiet step items a = none ∧ ∃ c' x, runLoop step c items a = (c', .error x)) := by
  cases hq : quiet step items a with
  | some a' => exact Or.inl ⟨a', rfl, runLoop_quiet step c items a a' hq⟩
  | none => exact Or.inr ⟨rfl, runLoop_loud_ff step c hc items a hq⟩

/-! ### agreement of the two modes: vocabulary -/

/-- the sub-term parser agrees between fail-fast and the collecting mode `mC` when started on clean
contexts: same verdict, same value, and an accepted value leaves the context clean -/
def Good (p : P) (mC : Mode) : Prop :=
  ∀ T o v,
    (∀ cF a, p T (clean0 .ff o) v = (cF, .ok a) →
        cF = clean0 .ff o ∧ p T (clean0 mC o) v = (clean0 mC o, .ok a)) ∧
    (∀ cF e, p T (clean0 .ff o) v = (cF, .error e) → ∃ cC e', p T (clean0 mC o) v = (cC, .error e'))

theorem Good.verdict_eq {p : P} {mC : Mode} (h : Good p mC) (T : Ty) (o : Opts) (v : Val) :
    verdict p T .ff o v = verdict p T mC o v := by
  unfold verdict
  obtain ⟨h1, h2⟩ := h T o v
  cases hF : p T (clean0 .ff o) v with
  | mk cF r =>
    cases r with
    | ok a =>
      obtain ⟨_, hC⟩ := h1 cF a hF
      simp [hC]
    | error e =>
      obtain ⟨cC, e', hC⟩ := h2 cF e hF
      simp [hC]

/-- relation between the fail-fast and the collecting outcome of one phase started on clean contexts -/
def Sim (o : Opts) (mC : Mode) (rF rC : Ctx × Res α) : Prop :=
  (∃ a, rF = (clean0 .ff o, .ok a) ∧ rC = (clean0 mC o, .ok a)) ∨
  ((∃ c x, rF = (c, .error x)) ∧ Bad rC)

theorem sim_andThen {o : Opts} {mC : Mode} {rF rC : Ctx × Res α} {k : Ctx → α → Ctx × Res β}
    (h : Sim o mC rF rC)
    (hk : ∀ a, Sim o mC (k (clean0 .ff o) a) (k (clean0 mC o) a))
    (hd : ∀ c a, c.errors ≠ [] → Bad (k c a)) :
    Sim o mC (andThen rF k) (andThen rC k) := by
  rcases h with ⟨a, hF, hC⟩ | ⟨⟨c, x, hF⟩, hB⟩
  · subst hF hC
    exact hk a
  · subst hF
    right
    refine ⟨⟨c, x, rfl⟩, ?_⟩
    obtain ⟨cC, r⟩ := rC
    cases r with
    | error y => left; exact ⟨y, rfl⟩
    | ok a =>
      rcases hB with ⟨y, hy⟩ | hB
      · simp at hy
      · exact hd cC a hB

theorem bad_andThen {r : Ctx × Res α} {k : Ctx → α → Ctx × Res β}
    (h : Bad r) (hd : ∀ c a, c.errors ≠ [] → Bad (k c a)) : Bad (andThen r k) := by
  obtain ⟨c, r⟩ := r
  cases r with
  | error y => left; exact ⟨y, rfl⟩
  | ok a =>
    rcases h with ⟨y, hy⟩ | h
    · simp at hy
    · exact hd c a h

theorem runLoop_sim (step : α → ι → Step α) (mC : Mode) (o : Opts) (items : List ι) (a : α) :
    Sim o mC (runLoop step (clean0 .ff o) items a) (runLoop step (clean0 mC o) items a) := by
  rcases runLoop_ff_cases step (clean0 .ff o) rfl items a with ⟨a', hq, hr⟩ | ⟨hq, c', x, hr⟩
  · left
    exact ⟨a', hr, runLoop_quiet step _ items a a' hq⟩
  · right
    exact ⟨⟨c', x, hr⟩, runLoop_loud step _ items a hq⟩

theorem sim_pure (o : Opts) (mC : Mode) (a : α) : Sim o mC (clean0 .ff o, (.ok a : Res α)) (clean0 mC o, .ok a) :=
  Or.inl ⟨a, rfl, rfl⟩

theorem bad_of_dirty (c : Ctx) (r : Res α) (h : c.errors ≠ []) : Bad (c, r) := Or.inr h

theorem finish_sim (o : Opts) (mC : Mode) (a : α) : Sim o mC (finish (clean0 .ff o) a) (finish (clean0 mC o) a) := by
  rw [finish_clean, finish_clean]; exact sim_pure o mC a

theorem finish_bad (c : Ctx) (a : α) (h : c.errors ≠ []) : Bad (finish c a) := by
  obtain ⟨x, hx⟩ := finish_dirty c h a
  rw [hx]; left; exact ⟨x, rfl⟩

/-- after the final `raise_error()` a bad outcome is an exception -/
theorem andThen_finish_error (r : Ctx × Res α) (h : Bad r) : ∃ c x, andThen r finish = (c, .error x) := by
  obtain ⟨c, r⟩ := r
  cases r with
  | error y => exact ⟨c, y, rfl⟩
  | ok a =>
    rcases h with ⟨y, hy⟩ | h
    · simp at hy
    · obtain ⟨x, hx⟩ := finish_dirty c h a
      exact ⟨c, x, hx⟩

/-! ### argument parsers -/

theorem seqStep_eq {rec : P} {mC : Mode} (h : Good rec mC) (T : Ty) (o : Opts) :
    seqStep rec T .ff o = seqStep rec T mC o := by
  funext acc it
  simp [seqStep, h.verdict_eq]

theorem tupleStep_eq {rec : P} {mC : Mode} (h : Good rec mC) (o : Opts) (xs : List Val) :
    tupleStep rec .ff o xs = tupleStep rec mC o xs := by
  funext acc it
  simp [tupleStep, h.verdict_eq]

theorem tupleAddStep_eq {rec : P} {mC : Mode} (h : Good rec mC) (T : Ty) (o : Opts) :
    tupleAddStep rec T .ff o = tupleAddStep rec T mC o := by
  funext acc it
  simp [tupleAddStep, h.verdict_eq]

theorem mapStep_eq {rec : P} {mC : Mode} (h : Good rec mC) (K : Ty) (V : Option Ty) (o : Opts) :
    mapStep rec K V .ff o = mapStep rec K V mC o := by
  funext acc kv
  simp [mapStep, h.verdict_eq]

@[simp] theorem clean0_mode (m : Mode) (o : Opts) : (clean0 m o).mode = m := rfl
@[simp] theorem clean0_o (m : Mode) (o : Opts) : (clean0 m o).o = o := rfl
@[simp] theorem clean0_errors (m : Mode) (o : Opts) : (clean0 m o).errors = [] := rfl
@[simp] theorem clean0_tmp (m : Mode) (o : Opts) : (clean0 m o).tmp = [] := rfl

theorem parseArgs_sim {rec : P} {mC : Mode} (h : Good rec mC) (kind : ArgKind) (args : List Ty) (o : Opts) (v : Val) :
    Sim o mC (parseArgs rec kind args (clean0 .ff o) v) (parseArgs rec kind args (clean0 mC o) v) := by
  unfold parseArgs
  split
  · simp only [clean0_mode, clean0_o]
    rw [seqStep_eq h]
    exact sim_andThen (runLoop_sim _ mC o _ _) (fun a => sim_pure o mC _) (fun c a hd => bad_of_dirty c _ hd)
  · unfold parseTuple
    simp only [clean0_mode, clean0_o]
    simp only [tupleStep_eq h, tupleAddStep_eq h]
    refine sim_andThen (runLoop_sim _ mC o _ _) (fun _ => ?_) (fun c a hd => ?_)
    · refine sim_andThen (runLoop_sim _ mC o _ _) (fun a => ?_) (fun c a hd => ?_)
      · cases ha : o.addition with
        | typed T =>
          simp only
          exact sim_andThen (runLoop_sim _ mC o _ _) (fun a => sim_pure o mC _) (fun c a hd => bad_of_dirty c _ hd)
        | none => exact sim_pure o mC _
        | no => exact sim_pure o mC _
        | yes => exact sim_pure o mC _
      · cases o.addition with
        | typed T => exact bad_andThen (runLoop_dirty _ c _ _ hd) (fun c a hd => bad_of_dirty c _ hd)
        | none => exact bad_of_dirty c _ hd
        | no => exact bad_of_dirty c _ hd
        | yes => exact bad_of_dirty c _ hd
    · refine bad_andThen (runLoop_dirty _ c _ _ hd) (fun c a hd => ?_)
      cases o.addition with
      | typed T => exact bad_andThen (runLoop_dirty _ c _ _ hd) (fun c a hd => bad_of_dirty c _ hd)
      | none => exact bad_of_dirty c _ hd
      | no => exact bad_of_dirty c _ hd
      | yes => exact bad_of_dirty c _ hd
  · simp only [clean0_mode, clean0_o]
    rw [mapStep_eq h]
    exact sim_andThen (runLoop_sim _ mC o _ _) (fun a => sim_pure o mC _) (fun c a hd => bad_of_dirty c _ hd)
  · exact sim_pure o mC v

theorem parseArgs_dirty (rec : P) (kind : ArgKind) (args : List Ty) (c : Ctx) (v : Val) (hd : c.errors ≠ []) :
    Bad (parseArgs rec kind args c v) := by
  unfold parseArgs
  split
  · exact bad_andThen (runLoop_dirty _ c _ _ hd) (fun c a hd => bad_of_dirty c _ hd)
  · unfold parseTuple
    refine bad_andThen (runLoop_dirty _ c _ _ hd) (fun c1 a hd1 =>
      bad_andThen (runLoop_dirty _ c1 _ _ hd1) (fun c2 a hd2 => ?_))
    cases c.o.addition with
    | typed T => exact bad_andThen (runLoop_dirty _ c2 _ _ hd2) (fun c a hd => bad_of_dirty c _ hd)
    | none => exact bad_of_dirty c2 _ hd2
    | no => exact bad_of_dirty c2 _ hd2
    | yes => exact bad_of_dirty c2 _ hd2
  · exact bad_andThen (runLoop_dirty _ c _ _ hd) (fun c a hd => bad_of_dirty c _ hd)
  · exact bad_of_dirty c _ hd

/-! ### one level of the type tree -/

/-- both modes accept with the same value and clean contexts, or both raise -/
def StrongSim (o : Opts) (mC : Mode) (rF rC : Ctx × Res α) : Prop :=
  (∃ a, rF = (clean0 .ff o, .ok a) ∧ rC = (clean0 mC o, .ok a)) ∨
  ((∃ c x, rF = (c, .error x)) ∧ ∃ c x, rC = (c, .error x))

theorem Good.strong {p : P} {mC : Mode} (h : Good p mC) (T : Ty) (o : Opts) (v : Val) :
    StrongSim o mC (p T (clean0 .ff o) v) (p T (clean0 mC o) v) := by
  obtain ⟨h1, h2⟩ := h T o v
  cases hF : p T (clean0 .ff o) v with
  | mk cF r =>
    cases r with
    | ok a =>
      obtain ⟨hc, hC⟩ := h1 cF a hF
      left; exact ⟨a, by rw [hc], hC⟩
    | error e =>
      obtain ⟨cC, e', hC⟩ := h2 cF e hF
      right; exact ⟨⟨cF, e, rfl⟩, cC, e', hC⟩

theorem good_of_strong {p : P} {mC : Mode}
    (h : ∀ T o v, StrongSim o mC (p T (clean0 .ff o) v) (p T (clean0 mC o) v)) : Good p mC := by
  intro T o v
  rcases h T o v with ⟨a, hF, hC⟩ | ⟨⟨c, x, hF⟩, c', x', hC⟩
  · refine ⟨fun cF a' h1 => ?_, fun cF e h1 => ?_⟩
    · rw [hF] at h1
      simp only [Prod.mk.injEq, Except.ok.injEq] at h1
      obtain ⟨h1a, h1b⟩ := h1
      subst h1a h1b
      exact ⟨rfl, hC⟩
    · rw [hF] at h1; simp at h1
  · refine ⟨fun cF a' h1 => ?_, fun cF e h1 => ⟨c', x', hC⟩⟩
    rw [hF] at h1; simp at h1

theorem strongSim_sim {o : Opts} {mC : Mode} {rF rC : Ctx × Res α} (h : StrongSim o mC rF rC) : Sim o mC rF rC := by
  rcases h with h | ⟨hF, c, x, hC⟩
  · exact Or.inl h
  · right; exact ⟨hF, Or.inl ⟨x, by rw [hC]⟩⟩

/-- a phase followed by the closing `raise_error()` -/
theorem sim_finish {o : Opts} {mC : Mode} {rF rC : Ctx × Res α} (h : Sim o mC rF rC) :
    StrongSim o mC (andThen rF finish) (andThen rC finish) := by
  rcases h with ⟨a, hF, hC⟩ | ⟨⟨c, x, hF⟩, hB⟩
  · subst hF hC
    left
    exact ⟨a, by simp [andThen, finish_clean], by simp [andThen, finish_clean]⟩
  · subst hF
    right
    exact ⟨⟨c, x, rfl⟩, andThen_finish_error rC hB⟩

theorem sim_andThen_strong {o : Opts} {mC : Mode} {rF rC : Ctx × Res α} {k : Ctx → α → Ctx × Res β}
    (h : Sim o mC rF rC)
    (hk : ∀ a, StrongSim o mC (k (clean0 .ff o) a) (k (clean0 mC o) a))
    (hd : ∀ c a, c.errors ≠ [] → ∃ c' x, k c a = (c', .error x)) :
    StrongSim o mC (andThen rF k) (andThen rC k) := by
  rcases h with ⟨a, hF, hC⟩ | ⟨⟨c, x, hF⟩, hB⟩
  · subst hF hC
    exact hk a
  · subst hF
    right
    refine ⟨⟨c, x, rfl⟩, ?_⟩
    obtain ⟨cC, r⟩ := rC
    cases r with
    | error y => exact ⟨cC, y, rfl⟩
    | ok a =>
      rcases hB with ⟨y, hy⟩ | hB
      · simp at hy
      · exact hd cC a hB

theorem parseRule_strong {W : World} {rec : P} {mC : Mode} (h : Good rec mC)
    (origin : Ty) (kind : ArgKind) (args : List Ty) (cons : List Nat) (o : Opts) (v : Val) :
    StrongSim o mC (parseRule W rec origin kind args cons (clean0 .ff o) v)
      (parseRule W rec origin kind args cons (clean0 mC o) v) := by
  unfold parseRule
  rcases h.strong origin o v with ⟨v1, hF, hC⟩ | ⟨⟨c, x, hF⟩, c', x', hC⟩
  · rw [hF, hC]
    simp only
    split
    · left; exact ⟨v1, rfl, rfl⟩
    · refine sim_andThen_strong (parseArgs_sim h kind args o v1) (fun v2 => ?_) (fun c2 v2 hd => ?_)
      · exact sim_finish (runLoop_sim _ mC o _ _)
      · exact andThen_finish_error _ (runLoop_dirty _ c2 _ _ hd)
  · rw [hF, hC]
    right
    exact ⟨⟨_, _, rfl⟩, _, _, rfl⟩

/-- the sub-term parser leaves mode and options of the context alone (it is the same Python object) -/
def Pres (p : P) : Prop := ∀ T c v, (p T c v).1.mode = c.mode ∧ (p T c v).1.o = c.o

theorem andThen_pres {r : Ctx × Res α} {k : Ctx → α → Ctx × Res β} {m : Mode} {o : Opts}
    (hr : r.1.mode = m ∧ r.1.o = o) (hk : ∀ c a, c.mode = m ∧ c.o = o → (k c a).1.mode = m ∧ (k c a).1.o = o) :
    (andThen r k).1.mode = m ∧ (andThen r k).1.o = o := by
  obtain ⟨c, r⟩ := r
  cases r with
  | error y => exact hr
  | ok a => exact hk c a hr

theorem runLoop_pres (step : α → ι → Step α) (c : Ctx) (items : List ι) (a : α) {m : Mode} {o : Opts}
    (hc : c.mode = m ∧ c.o = o) : (runLoop step c items a).1.mode = m ∧ (runLoop step c items a).1.o = o := by
  obtain ⟨h1, h2, _⟩ := runLoop_mode step c items a
  rw [h1, h2]; exact hc

theorem finish_pres (c : Ctx) (a : α) : (finish c a).1 = c := by
  unfold finish; split <;> rfl

theorem parseArgs_pres (rec : P) (kind : ArgKind) (args : List Ty) (c : Ctx) (v : Val) :
    (parseArgs rec kind args c v).1.mode = c.mode ∧ (parseArgs rec kind args c v).1.o = c.o := by
  unfold parseArgs
  split
  · exact andThen_pres (runLoop_pres _ c _ _ ⟨rfl, rfl⟩) (fun c1 a h1 => h1)
  · unfold parseTuple
    refine andThen_pres (runLoop_pres _ c _ _ ⟨rfl, rfl⟩) (fun c1 a h1 =>
      andThen_pres (runLoop_pres _ c1 _ _ h1) (fun c2 a h2 => ?_))
    cases c.o.addition with
    | typed T => exact andThen_pres (runLoop_pres _ c2 _ _ h2) (fun c3 a h3 => h3)
    | none => exact h2
    | no => exact h2
    | yes => exact h2
  · exact andThen_pres (runLoop_pres _ c _ _ ⟨rfl, rfl⟩) (fun c1 a h1 => h1)
  · exact ⟨rfl, rfl⟩

theorem parseRule_pres {W : World} {rec : P} (hp : Pres rec)
    (origin : Ty) (kind : ArgKind) (args : List Ty) (cons : List Nat) (c : Ctx) (v : Val) :
    (parseRule W rec origin kind args cons c v).1.mode = c.mode ∧
    (parseRule W rec origin kind args cons c v).1.o = c.o := by
  unfold parseRule
  have h0 := hp origin c v
  split
  · rename_i c1 e heq
    rw [heq] at h0
    simp only [handleError_mode, handleError_o]
    exact h0
  · rename_i c1 v1 heq
    rw [heq] at h0
    split
    · exact h0
    · refine andThen_pres ?_ (fun c2 v2 h2 => andThen_pres (runLoop_pres _ c2 _ _ h2) (fun c3 v3 h3 => ?_))
      · have := parseArgs_pres rec kind args c1 v1
        rw [this.1, this.2]; exact h0
      · rw [finish_pres]; exact h3

/-! ### `&` -/

theorem allLoop_sim {rec : P} {mC : Mode} (h : Good rec mC) (hp : Pres rec) (o : Opts) (v : Val) (ts : List Ty) :
    Sim o mC (allLoop rec (clean0 .ff o) v ts) (allLoop rec (clean0 mC o) v ts) := by
  induction ts generalizing v with
  | nil => exact sim_pure o mC v
  | cons t ts ih =>
    simp only [allLoop]
    rcases h.strong t o v with ⟨v1, hF, hC⟩ | ⟨⟨c, x, hF⟩, c', x', hC⟩
    · rw [hF, hC]
      exact ih v1
    · rw [hF, hC]
      simp only
      right
      constructor
      · have hm : c.mode.collect = false := by
          have := (hp t (clean0 .ff o) v).1
          rw [hF] at this
          simp only [clean0_mode] at this
          rw [this]; rfl
        have := handleError_ff c hm (asParseError x).toErr false
        cases hh : c.handleError (asParseError x).toErr with
        | mk c2 r =>
          rw [hh] at this
          simp only at this
          subst this
          exact ⟨_, _, rfl⟩
      · cases hh : c'.handleError (asParseError x').toErr with
        | mk c2 r =>
          have hc2 : c2 = (c'.handleError (asParseError x').toErr).1 := by rw [hh]
          cases r with
          | some y =>
            left
            cases y with
            | raw e0 => exact ⟨_, rfl⟩
            | collected es => exact ⟨_, rfl⟩
          | none => right; show c2.errors ≠ []; rw [hc2]; exact handleError_ne_nil _ _ _

theorem allLoop_pres {rec : P} (hp : Pres rec) (c : Ctx) (v : Val) (ts : List Ty) :
    (allLoop rec c v ts).1.mode = c.mode ∧ (allLoop rec c v ts).1.o = c.o := by
  induction ts generalizing c v with
  | nil => exact ⟨rfl, rfl⟩
  | cons t ts ih =>
    simp only [allLoop]
    have h0 := hp t c v
    split
    · rename_i c1 v1 heq
      rw [heq] at h0
      have := ih c1 v1
      rw [this.1, this.2]; exact h0
    · rename_i c1 e heq
      rw [heq] at h0
      have hm := handleError_mode c1 (asParseError e).toErr false
      have ho := handleError_o c1 (asParseError e).toErr false
      cases hh : c1.handleError (asParseError e).toErr with
      | mk c2 r =>
        rw [hh] at hm ho
        simp only at hm ho
        cases r with
        | none => simp only [hm, ho]; exact h0
        | some y =>
          cases y with
          | raw e0 => simp only [hm, ho]; exact h0
          | collected es => simp only [hm, ho]; exact h0

/-! ### `|` -/

/-- the first argument whose isolated parse succeeds -/
def firstOk (rec : P) (m : Mode) (o : Opts) (v : Val) : List Ty → Option Val
  | [] => none
  | t :: ts =>
    match verdict rec t m o v with
    | some r => some r
    | none => firstOk rec m o v ts

theorem firstOk_eq {rec : P} {mC : Mode} (h : Good rec mC) (o : Opts) (v : Val) (ts : List Ty) :
    firstOk rec .ff o v ts = firstOk rec mC o v ts := by
  induction ts with
  | nil => rfl
  | cons t ts ih => simp only [firstOk, h.verdict_eq, ih]

/-- a context without handled errors whose mode/options are `m`/`o` -/
def Quiet (c : Ctx) (m : Mode) (o : Opts) : Prop := c.errors = [] ∧ c.mode = m ∧ c.o = o

theorem quiet_clean0 (m : Mode) (o : Opts) : Quiet (clean0 m o) m o := ⟨rfl, rfl, rfl⟩

theorem Quiet.clear {c : Ctx} {m : Mode} {o : Opts} (h : Quiet c m o) : c.clearTmp = clean0 m o := by
  obtain ⟨h1, h2, h3⟩ := h
  cases c; simp_all [Ctx.clearTmp, clean0]

theorem Quiet.eq_clean {c : Ctx} {m : Mode} {o : Opts} (h : Quiet c m o) (ht : c.tmp = []) : c = clean0 m o := by
  obtain ⟨h1, h2, h3⟩ := h
  cases c; simp_all [clean0]

theorem anyLoop_spec (rec : P) (ov : Override) (v : Val) (m : Mode) (o : Opts) (c : Ctx) (hc : Quiet c m o)
    (ts : List Ty) :
    match firstOk rec m (o.merge ov) v ts with
    | some r => anyLoop rec ov v c ts = (clean0 m o, some r)
    | none => ∃ c', anyLoop rec ov v c ts = (c', none) ∧ Quiet c' m o ∧ (c'.tmp = [] ↔ c.tmp = [] ∧ ts = []) := by
  induction ts generalizing c with
  | nil =>
    simp only [firstOk, anyLoop]
    exact ⟨c, rfl, hc, by simp⟩
  | cons t ts ih =>
    simp only [firstOk, anyLoop]
    have hent : c.enter ov = clean0 m (o.merge ov) := by
      obtain ⟨_, h2, h3⟩ := hc
      simp [Ctx.enter, h2, h3]
    unfold verdict
    rw [hent]
    cases hr : (rec t (clean0 m (o.merge ov)) v).2 with
    | ok r =>
      simp only
      rw [hc.clear]
    | error e =>
      simp only
      have hc' : Quiet (c.collectTmp e.toErr) m o := by
        obtain ⟨h1, h2, h3⟩ := hc
        exact ⟨h1, h2, h3⟩
      have := ih (c.collectTmp e.toErr) hc'
      revert this
      cases firstOk rec m (o.merge ov) v ts with
      | some r => exact id
      | none =>
        rintro ⟨c', h1, h2, h3⟩
        refine ⟨c', h1, h2, ?_⟩
        rw [h3]
        simp [Ctx.collectTmp]

def alt (a b : Option α) : Option α :=
  match a with
  | some r => some r
  | none => b

def stagePure (rec : P) (on : Bool) (m : Mode) (o : Opts) (ov : Override) (v : Val) (ts : List Ty) : Option Val :=
  if on then firstOk rec m (o.merge ov) v ts else none

/-- what `|` returns on a clean context, as a function of the isolated verdicts of its arguments -/
def anyPure (W : World) (rec : P) (m : Mode) (o : Opts) (ts : List Ty) (v : Val) : Option Val :=
  if ts.any (exactTy W v) then some v
  else
    alt (stagePure rec (!o.ndl || !o.nec) m o .strict v ts) <|
    alt (stagePure rec (!o.ndl && !o.nec) m o .noLoss v ts) <|
    alt (stagePure rec true m o .none v ts) <|
    if ts = [] then some v else none

/-- the outcome `r` on a clean context of mode `m` is the one `p` describes -/
def Spec (m : Mode) (o : Opts) (p : Option Val) (r : Ctx × Res Val) : Prop :=
  match p with
  | some x => r = (clean0 m o, .ok x)
  | none => ∃ c x, r = (c, .error x)

theorem finish_quiet {c : Ctx} {m : Mode} {o : Opts} (hc : Quiet c m o) (v : α) :
    if c.tmp = [] then finish c v = (clean0 m o, .ok v) else ∃ x, finish c v = (c, .error x) := by
  split
  · rename_i ht
    rw [hc.eq_clean ht, finish_clean]
  · rename_i ht
    unfold finish Ctx.raiseError
    cases hh : c.tmp with
    | nil => exact absurd hh ht
    | cons a as => simp

theorem stage_step (rec : P) (on : Bool) (ov : Override) (v : Val) (m : Mode) (o : Opts) (c : Ctx) (ts : List Ty)
    (hc : Quiet c m o) (hct : ts = [] → c.tmp = [])
    (K : Ctx → Ctx × Res Val) (Kp : Option Val)
    (hK : ∀ c', Quiet c' m o → (ts = [] → c'.tmp = []) → (on = true → ts ≠ [] → c'.tmp ≠ []) → Spec m o Kp (K c')) :
    Spec m o (alt (stagePure rec on m o ov v ts) Kp) (orElse (stage rec on ov v c ts) K) := by
  unfold stagePure stage
  cases on with
  | false =>
    simp only [Bool.false_eq_true, if_false, alt, orElse]
    exact hK c hc hct (by simp)
  | true =>
    simp only [if_true]
    have := anyLoop_spec rec ov v m o c hc ts
    revert this
    cases firstOk rec m (o.merge ov) v ts with
    | some r =>
      intro h
      simp only at h
      simp only [alt, h, orElse, Spec]
    | none =>
      rintro ⟨c', h1, h2, h3⟩
      simp only [alt, h1, orElse]
      apply hK c' h2
      · intro hts; rw [h3]; exact ⟨hct hts, hts⟩
      · intro _ hts hh; rw [h3] at hh; exact hts hh.2

theorem parseAny_spec (W : World) (rec : P) (ts : List Ty) (m : Mode) (o : Opts) (v : Val) :
    Spec m o (anyPure W rec m o ts v) (parseAny W rec ts (clean0 m o) v) := by
  unfold anyPure parseAny
  by_cases hex : ts.any (exactTy W v) = true
  · simp only [hex, if_true, Spec]
  · simp only [hex, Bool.false_eq_true, if_false, clean0_o]
    apply stage_step rec _ _ v m o _ ts (quiet_clean0 m o) (fun _ => rfl)
    intro c2 hq2 ht2 _
    apply stage_step rec _ _ v m o _ ts hq2 ht2
    intro c3 hq3 ht3 _
    apply stage_step rec _ _ v m o _ ts hq3 ht3
    intro c4 hq4 ht4 hne4
    have hf := finish_quiet hq4 v
    by_cases hts : ts = []
    · simp only [ht4 hts, if_true] at hf
      simp only [hts, if_true, Spec]
      exact hf
    · simp only [hts, if_false, Spec]
      simp only [hne4 rfl hts, if_false] at hf
      obtain ⟨x, hx⟩ := hf
      exact ⟨c4, x, hx⟩

theorem anyPure_eq {W : World} {rec : P} {mC : Mode} (h : Good rec mC) (o : Opts) (ts : List Ty) (v : Val) :
    anyPure W rec .ff o ts v = anyPure W rec mC o ts v := by
  simp only [anyPure, stagePure, firstOk_eq h]

theorem parseAny_strong {W : World} {rec : P} {mC : Mode} (h : Good rec mC) (ts : List Ty) (o : Opts) (v : Val) :
    StrongSim o mC (parseAny W rec ts (clean0 .ff o) v) (parseAny W rec ts (clean0 mC o) v) := by
  have hF := parseAny_spec W rec ts .ff o v
  have hC := parseAny_spec W rec ts mC o v
  rw [anyPure_eq h] at hF
  revert hF hC
  cases anyPure W rec mC o ts v with
  | some r => intro hF hC; left; exact ⟨r, hF, hC⟩
  | none =>
    intro hF hC
    obtain ⟨c, x, hF⟩ := hF
    obtain ⟨c', x', hC⟩ := hC
    right; exact ⟨⟨c, x, hF⟩, c', x', hC⟩

/-! ### `^` -/

/-- the `^` loop as a function of the isolated verdicts: none = a second argument accepted (violation);
some (value of the accepting argument if any, number of failed arguments) otherwise -/
def onePure (rec : P) (m : Mode) (o : Opts) (v : Val) : Option Val → List Ty → Option (Option Val × Nat)
  | r, [] => some (r, 0)
  | r, t :: ts =>
    match verdict rec t m o v with
    | none => (onePure rec m o v r ts).map fun p => (p.1, p.2 + 1)
    | some v1 =>
      match r with
      | none => onePure rec m o v (some v1) ts
      | some _ => none

theorem onePure_eq {rec : P} {mC : Mode} (h : Good rec mC) (o : Opts) (v : Val) (r : Option Val) (ts : List Ty) :
    onePure rec .ff o v r ts = onePure rec mC o v r ts := by
  induction ts generalizing r with
  | nil => rfl
  | cons t ts ih =>
    simp only [onePure, h.verdict_eq]
    cases verdict rec t mC o v with
    | none => simp only [ih]
    | some v1 => cases r <;> simp only [ih]

theorem enter_none (c : Ctx) : c.enter = clean0 c.mode c.o := rfl

theorem oneLoop_none (rec : P) (v : Val) (c : Ctx) (r : Option Val) (ts : List Ty)
    (h : onePure rec c.mode c.o v r ts = none) : Bad (oneLoop rec v c r ts) := by
  induction ts generalizing c r with
  | nil => simp [onePure] at h
  | cons t ts ih =>
    simp only [onePure, verdict] at h
    simp only [oneLoop, enter_none]
    cases hr : (rec t (clean0 c.mode c.o) v).2 with
    | error e =>
      simp only [hr, Option.map_eq_none_iff] at h
      exact ih (c.collectTmp e.toErr) r h
    | ok v1 =>
      simp only [hr] at h
      cases r with
      | none => exact ih c (some v1) h
      | some r0 =>
        simp only
        split
        · left; exact ⟨_, rfl⟩
        · rename_i c2 hh
          have hc2 : c2 = (c.handleError { kind := .oneOf }).1 := by rw [hh]
          right
          show c2.errors ≠ []
          rw [hc2]; exact handleError_ne_nil _ _ _

theorem oneLoop_some (rec : P) (v : Val) (c : Ctx) (r : Option Val) (ts : List Ty) (r' : Option Val) (k : Nat)
    (h : onePure rec c.mode c.o v r ts = some (r', k)) :
    ∃ es, es.length = k ∧ oneLoop rec v c r ts = ({ c with tmp := c.tmp ++ es }, .ok r') := by
  induction ts generalizing c r k with
  | nil =>
    simp only [onePure, Option.some.injEq, Prod.mk.injEq] at h
    obtain ⟨h1, h2⟩ := h
    subst h1 h2
    exact ⟨[], rfl, by simp [oneLoop]⟩
  | cons t ts ih =>
    simp only [onePure, verdict] at h
    simp only [oneLoop, enter_none]
    cases hr : (rec t (clean0 c.mode c.o) v).2 with
    | error e =>
      simp only [hr, Option.map_eq_some_iff] at h
      obtain ⟨⟨r2, k2⟩, h1, h2⟩ := h
      simp only [Prod.mk.injEq] at h2
      obtain ⟨h2a, h2b⟩ := h2
      subst h2a h2b
      obtain ⟨es, hes, hl⟩ := ih (c.collectTmp e.toErr) r k2 h1
      refine ⟨e.toErr :: es, by simp [hes], ?_⟩
      simp only
      rw [hl]
      simp [Ctx.collectTmp]
    | ok v1 =>
      simp only [hr] at h
      cases r with
      | none => exact ih c (some v1) k h
      | some r0 => simp at h

/-- what `^` returns on a clean context -/
def oneRes (rec : P) (m : Mode) (o : Opts) (ts : List Ty) (v : Val) : Option Val :=
  match onePure rec m o v none ts with
  | none => none
  | some (some res, _) => some res
  | some (none, k) => if k == 0 then some v else none

theorem parseOne_spec (rec : P) (ts : List Ty) (m : Mode) (o : Opts) (v : Val) :
    Spec m o (oneRes rec m o ts v) (parseOne rec ts (clean0 m o) v) := by
  unfold oneRes parseOne
  cases hp : onePure rec m o v none ts with
  | none =>
    have hb := oneLoop_none rec v (clean0 m o) none ts hp
    simp only [Spec]
    cases hl : oneLoop rec v (clean0 m o) none ts with
    | mk c1 r =>
      rw [hl] at hb
      cases r with
      | error x => exact ⟨c1, x, rfl⟩
      | ok r =>
        rcases hb with ⟨y, hy⟩ | hb
        · simp at hy
        · simp only [andThen]
          cases r with
          | none =>
            obtain ⟨y, hy⟩ := finish_dirty c1 hb v
            exact ⟨_, y, hy⟩
          | some res =>
            obtain ⟨y, hy⟩ := finish_dirty c1.clearTmp hb res
            exact ⟨_, y, hy⟩
  | some p =>
    obtain ⟨r', k⟩ := p
    obtain ⟨es, hes, hl⟩ := oneLoop_some rec v (clean0 m o) none ts r' k hp
    rw [hl]
    simp only [andThen, clean0_tmp, List.nil_append]
    cases r' with
    | some res =>
      simp only [Spec]
      have : ({ clean0 m o with tmp := es } : Ctx).clearTmp = clean0 m o := rfl
      rw [this, finish_clean]
    | none =>
      simp only
      cases k with
      | zero =>
        have : es = [] := List.eq_nil_of_length_eq_zero hes
        subst this
        simp only [BEq.rfl, if_true, Spec]
        exact finish_clean m o v
      | succ k =>
        have : (Nat.succ k == 0) = false := by simp
        simp only [this, Bool.false_eq_true, if_false, Spec]
        cases es with
        | nil => simp at hes
        | cons e es => simp [finish, Ctx.raiseError, clean0]

theorem parseOne_strong {rec : P} {mC : Mode} (h : Good rec mC) (ts : List Ty) (o : Opts) (v : Val) :
    StrongSim o mC (parseOne rec ts (clean0 .ff o) v) (parseOne rec ts (clean0 mC o) v) := by
  have hF := parseOne_spec rec ts .ff o v
  have hC := parseOne_spec rec ts mC o v
  have he : oneRes rec .ff o ts v = oneRes rec mC o ts v := by simp only [oneRes, onePure_eq h]
  rw [he] at hF
  revert hF hC
  cases oneRes rec mC o ts v with
  | some r => intro hF hC; left; exact ⟨r, hF, hC⟩
  | none =>
    intro hF hC
    obtain ⟨c, x, hF⟩ := hF
    obtain ⟨c', x', hC⟩ := hC
    right; exact ⟨⟨c, x, hF⟩, c', x', hC⟩

/-! ### `~` -/

theorem negLoop_dirty (rec : P) (v : Val) (c : Ctx) (ts : List Ty) (hd : c.errors ≠ []) :
    (negLoop rec v c ts).errors ≠ [] := by
  induction ts generalizing c with
  | nil => exact hd
  | cons t ts ih =>
    simp only [negLoop]
    split
    · exact hd
    · split
      · rename_i c2 ex hh
        have hc2 : c2 = (c.handleError { kind := .negate }).1 := by rw [hh]
        rw [hc2]; exact handleError_ne_nil _ _ _
      · rename_i c2 hh
        have hc2 : c2 = (c.handleError { kind := .negate }).1 := by rw [hh]
        apply ih
        rw [hc2]; exact handleError_ne_nil _ _ _

/-- `~` accepts iff its (first) argument rejects -/
def negRes (rec : P) (m : Mode) (o : Opts) (ts : List Ty) (v : Val) : Option Val :=
  match ts with
  | [] => some v
  | t :: _ => match verdict rec t m o v with
    | none => some v
    | some _ => none

theorem parseNeg_spec (rec : P) (ts : List Ty) (m : Mode) (o : Opts) (v : Val) :
    Spec m o (negRes rec m o ts v) (finish (negLoop rec v (clean0 m o) ts) v) := by
  cases ts with
  | nil => simp only [negRes, negLoop, Spec, finish_clean]
  | cons t ts =>
    simp only [negRes, negLoop, verdict, enter_none, clean0_mode, clean0_o]
    cases hr : (rec t (clean0 m o) v).2 with
    | error e => simp only [Spec, finish_clean]
    | ok v1 =>
      simp only [Spec]
      have hd : (match (clean0 m o).handleError { kind := .negate } with
          | (c2, some _) => c2
          | (c2, none) => negLoop rec v c2 ts).errors ≠ [] := by
        split
        · rename_i c2 ex hh
          have hc2 : c2 = ((clean0 m o).handleError { kind := .negate }).1 := by rw [hh]
          rw [hc2]; exact handleError_ne_nil _ _ _
        · rename_i c2 hh
          have hc2 : c2 = ((clean0 m o).handleError { kind := .negate }).1 := by rw [hh]
          apply negLoop_dirty
          rw [hc2]; exact handleError_ne_nil _ _ _
      obtain ⟨y, hy⟩ := finish_dirty _ hd v
      exact ⟨_, y, hy⟩

theorem parseNeg_strong {rec : P} {mC : Mode} (h : Good rec mC) (ts : List Ty) (o : Opts) (v : Val) :
    StrongSim o mC (finish (negLoop rec v (clean0 .ff o) ts) v) (finish (negLoop rec v (clean0 mC o) ts) v) := by
  have hF := parseNeg_spec rec ts .ff o v
  have hC := parseNeg_spec rec ts mC o v
  have he : negRes rec .ff o ts v = negRes rec mC o ts v := by
    cases ts with
    | nil => rfl
    | cons t ts => simp only [negRes, h.verdict_eq]
  rw [he] at hF
  revert hF hC
  cases negRes rec mC o ts v with
  | some r => intro hF hC; left; exact ⟨r, hF, hC⟩
  | none =>
    intro hF hC
    obtain ⟨c, x, hF⟩ := hF
    obtain ⟨c', x', hC⟩ := hC
    right; exact ⟨⟨c, x, hF⟩, c', x', hC⟩

/-! ### mode/options are never touched -/

theorem anyLoop_pres (rec : P) (ov : Override) (v : Val) (c : Ctx) (ts : List Ty) :
    (anyLoop rec ov v c ts).1.mode = c.mode ∧ (anyLoop rec ov v c ts).1.o = c.o := by
  induction ts generalizing c with
  | nil => exact ⟨rfl, rfl⟩
  | cons t ts ih =>
    simp only [anyLoop]
    split
    · exact ⟨rfl, rfl⟩
    · exact ih _

theorem stage_pres (rec : P) (on : Bool) (ov : Override) (v : Val) (c : Ctx) (ts : List Ty) :
    (stage rec on ov v c ts).1.mode = c.mode ∧ (stage rec on ov v c ts).1.o = c.o := by
  unfold stage
  split
  · exact anyLoop_pres rec ov v c ts
  · exact ⟨rfl, rfl⟩

theorem orElse_pres {s : Ctx × Option Val} {k : Ctx → Ctx × Res Val} {m : Mode} {o : Opts}
    (hs : s.1.mode = m ∧ s.1.o = o) (hk : ∀ c, c.mode = m ∧ c.o = o → (k c).1.mode = m ∧ (k c).1.o = o) :
    (orElse s k).1.mode = m ∧ (orElse s k).1.o = o := by
  obtain ⟨c, r⟩ := s
  cases r with
  | some r => exact hs
  | none => exact hk c hs

theorem oneLoop_pres (rec : P) (v : Val) (c : Ctx) (r : Option Val) (ts : List Ty) :
    (oneLoop rec v c r ts).1.mode = c.mode ∧ (oneLoop rec v c r ts).1.o = c.o := by
  induction ts generalizing c r with
  | nil => exact ⟨rfl, rfl⟩
  | cons t ts ih =>
    simp only [oneLoop]
    split
    · exact ih _ _
    · cases r with
      | none => exact ih _ _
      | some r0 =>
        simp only
        have hm := handleError_mode c { kind := .oneOf } false
        have ho := handleError_o c { kind := .oneOf } false
        split
        · rename_i c2 ex hh
          rw [hh] at hm ho
          exact ⟨hm, ho⟩
        · rename_i c2 hh
          rw [hh] at hm ho
          exact ⟨hm, ho⟩

theorem negLoop_pres (rec : P) (v : Val) (c : Ctx) (ts : List Ty) :
    (negLoop rec v c ts).mode = c.mode ∧ (negLoop rec v c ts).o = c.o := by
  induction ts generalizing c with
  | nil => exact ⟨rfl, rfl⟩
  | cons t ts ih =>
    simp only [negLoop]
    split
    · exact ⟨rfl, rfl⟩
    · have hm := handleError_mode c { kind := .negate } false
      have ho := handleError_o c { kind := .negate } false
      split
      · rename_i c2 ex hh
        rw [hh] at hm ho
        exact ⟨hm, ho⟩
      · rename_i c2 hh
        rw [hh] at hm ho
        have := ih c2
        rw [this.1, this.2]
        exact ⟨hm, ho⟩

theorem parseComb_pres {W : World} {rec : P} (hp : Pres rec) (op : Comb) (ts : List Ty) (c : Ctx) (v : Val) :
    (parseComb W rec op ts c v).1.mode = c.mode ∧ (parseComb W rec op ts c v).1.o = c.o := by
  unfold parseComb
  cases op with
  | all =>
    simp only
    exact andThen_pres (allLoop_pres hp c v ts) (fun c1 a h1 => by rw [finish_pres]; exact h1)
  | any =>
    simp only
    unfold parseAny
    split
    · exact ⟨rfl, rfl⟩
    · refine orElse_pres (stage_pres _ _ _ _ c _) (fun c2 h2 => ?_)
      refine orElse_pres (by have := stage_pres rec (!c.o.ndl && !c.o.nec) .noLoss v c2 ts; rw [this.1, this.2]; exact h2) (fun c3 h3 => ?_)
      refine orElse_pres (by have := stage_pres rec true .none v c3 ts; rw [this.1, this.2]; exact h3) (fun c4 h4 => ?_)
      rw [finish_pres]; exact h4
  | one =>
    simp only
    unfold parseOne
    refine andThen_pres (oneLoop_pres rec v c none ts) (fun c1 r h1 => ?_)
    cases r with
    | none => rw [finish_pres]; exact h1
    | some res => rw [finish_pres]; exact h1
  | neg =>
    simp only [finish_pres]
    exact negLoop_pres rec v c ts

theorem parseStep_pres {W : World} {rec : P} (hp : Pres rec) : Pres (parseStep W rec) := by
  intro T c v
  cases T with
  | leaf t =>
    simp only [parseStep]
    split <;> exact ⟨rfl, rfl⟩
  | rule origin kind args cons => exact parseRule_pres hp origin kind args cons c v
  | comb op ts => exact parseComb_pres hp op ts c v

theorem parseComb_strong {W : World} {rec : P} {mC : Mode} (h : Good rec mC) (hp : Pres rec)
    (op : Comb) (ts : List Ty) (o : Opts) (v : Val) :
    StrongSim o mC (parseComb W rec op ts (clean0 .ff o) v) (parseComb W rec op ts (clean0 mC o) v) := by
  unfold parseComb
  cases op with
  | all => exact sim_finish (allLoop_sim h hp o v ts)
  | any => exact parseAny_strong h ts o v
  | one => exact parseOne_strong h ts o v
  | neg => exact parseNeg_strong h ts o v

theorem parseStep_good {W : World} {rec : P} {mC : Mode} (h : Good rec mC) (hp : Pres rec) :
    Good (parseStep W rec) mC := by
  apply good_of_strong
  intro T o v
  cases T with
  | leaf t =>
    simp only [parseStep, clean0_o]
    cases W.conv o.ndl o.nec t v with
    | some r => left; exact ⟨r, rfl, rfl⟩
    | none => right; exact ⟨⟨_, _, rfl⟩, _, _, rfl⟩
  | rule origin kind args cons => exact parseRule_strong h origin kind args cons o v
  | comb op ts => exact parseComb_strong h hp op ts o v

theorem noFuel_good (mC : Mode) : Good noFuel mC := by
  apply good_of_strong
  intro T o v
  right; exact ⟨⟨_, _, rfl⟩, _, _, rfl⟩

theorem noFuel_pres : Pres noFuel := fun _ _ _ => ⟨rfl, rfl⟩

theorem parse_pres (W : World) (n : Nat) : Pres (parse W n) := by
  induction n with
  | zero => exact noFuel_pres
  | succ n ih => exact parseStep_pres ih

/-- fail-fast and collecting parses of any type agree on verdict and value, for every fuel -/
theorem parse_good (W : World) (mC : Mode) (n : Nat) : Good (parse W n) mC := by
  induction n with
  | zero => exact noFuel_good mC
  | succ n ih => exact parseStep_good ih (parse_pres W n)

end Utv.C10
