import Utv.Util.J
import Utv.Py.Basic
/-! JSON codec for `PyVal` and `Prims` tables (drivers only). -/
namespace Utv.PyJson
open Lean Utv.J Utv.Py

def clsOfName : String → Cls
  | "NoneType" => .noneType | "bool" => .bool | "int" => .int | "float" => .float | "Decimal" => .decimal
  | "str" => .str | "list" => .list | "tuple" => .tuple | "set" => .set | "frozenset" => .frozenset
  | "EnumMeta" => .enumMeta | "Enum" => .enum | _ => .other 99

def clsName : Cls → String
  | .noneType => "NoneType" | .bool => "bool" | .int => "int" | .float => "float" | .decimal => "Decimal"
  | .str => "str" | .list => "list" | .tuple => "tuple" | .set => "set" | .frozenset => "frozenset"
  | .enumMeta => "EnumMeta" | .enum => "Enum" | .other n => s!"other{n}"

def intOfJson (j : Json) : Int :=
  match j with
  | .str s => s.toInt?.getD 0
  | _ => int! j

def decodeFloat (j : Json) : FloatV :=
  match j with
  | .str "inf" => .inf false
  | .str "-inf" => .inf true
  | .str "nan" => .nan
  | _ => match arr! j with
    | [m, e] => .fin (intOfJson m) (intOfJson e)
    | _ => .nan

def decodeDec (j : Json) : DecV :=
  match j with
  | .str "inf" => .inf false
  | .str "-inf" => .inf true
  | .str "nan" => .nan false
  | .str "snan" => .nan true
  | _ => match arr! j with
    | [s, c, e] => .fin (intOfJson s != 0) (intOfJson c).toNat (intOfJson e)
    | _ => .nan false

instance : Inhabited PyVal := ⟨.none⟩

partial def decode (j : Json) : PyVal :=
  match j with
  | .null => .none
  | .bool b => .bool b
  | _ =>
    match obj? j "i" with
    | some x => .int (intOfJson x)
    | none =>
    match obj? j "f" with
    | some x => .float (decodeFloat x)
    | none =>
    match obj? j "d" with
    | some x => .dec (decodeDec x)
    | none =>
    match obj? j "s" with
    | some x => .str (str! x)
    | none =>
    match obj? j "l" with
    | some x => .seq .list ((arr! x).map decode)
    | none =>
    match obj? j "t" with
    | some x => .seq .tuple ((arr! x).map decode)
    | none =>
    match obj? j "S" with
    | some x => .seq .set ((arr! x).map decode)
    | none =>
    match obj? j "F" with
    | some x => .seq .frozenset ((arr! x).map decode)
    | none =>
    match obj? j "c" with
    | some x => .cls (clsOfName (str! x))
    | none =>
    match obj? j "o" with
    | some x => .opaque (nat! x)
    | none => .opaque 0

def encFloat : FloatV → Json
  | .fin m e => Json.arr #[Json.str (toString m), Json.str (toString e)]
  | .inf false => Json.str "inf"
  | .inf true => Json.str "-inf"
  | .nan => Json.str "nan"

def encDec : DecV → Json
  | .fin s c e => Json.arr #[Json.str (if s then "1" else "0"), Json.str (toString c), Json.str (toString e)]
  | .inf false => Json.str "inf"
  | .inf true => Json.str "-inf"
  | .nan false => Json.str "nan"
  | .nan true => Json.str "snan"

partial def encode : PyVal → Json
  | .none => Json.null
  | .bool b => Json.bool b
  | .int i => Json.mkObj [("i", Json.str (toString i))]
  | .float f => Json.mkObj [("f", encFloat f)]
  | .dec d => Json.mkObj [("d", encDec d)]
  | .str s => Json.mkObj [("s", Json.str s)]
  | .seq k xs =>
    let tag := match k with | .list => "l" | .tuple => "t" | .set => "S" | .frozenset => "F" | _ => "l"
    Json.mkObj [(tag, Json.arr (xs.map encode).toArray)]
  | .cls c => Json.mkObj [("c", Json.str (clsName c))]
  | .opaque n => Json.mkObj [("o", Json.num n)]

def excName : Exc → String
  | .valueError => "ValueError" | .typeError => "TypeError" | .zeroDivision => "ZeroDivisionError"
  | .indexError => "IndexError" | .invalidOperation => "InvalidOperation" | .unmodelled w => "unmodelled:" ++ w

def encodeOutcome (r : M PyVal) : Json :=
  match r with
  | .ok v => Json.mkObj [("ok", encode v)]
  | .error (.unmodelled w) => Json.mkObj [("unmodelled", Json.str w)]
  | .error e => Json.mkObj [("err", Json.str (excName e))]

/-- canonical float key: finite floats arrive with odd mantissa (or 0) -/
def decodePrims (j : Json) : Prims :=
  let fr := (arr! (fld j "floatRepr")).map fun p => match arr! p with
    | [f, s] => (decodeFloat f, str! s) | _ => (FloatV.nan, "")
  let ds := (arr! (fld j "decStr")).map fun p => match arr! p with
    | [d, s] => (decodeDec d, str! s) | _ => (DecV.nan false, "")
  let fd := (arr! (fld j "floatToDec")).map fun p => match arr! p with
    | [f, d] => (decodeFloat f, if isNull d then none else some (decodeDec d)) | _ => (FloatV.nan, none)
  let re := (arr! (fld j "re")).map fun p => match arr! p with
    | [pat, s, b] => ((str! pat, str! s), if isNull b then none else some (bool! b)) | _ => (("", ""), none)
  let rd := (arr! (fld j "floatRound")).map fun p => match arr! p with
    | [f, k, g] => ((decodeFloat f, intOfJson k), decodeFloat g) | _ => ((FloatV.nan, 0), FloatV.nan)
  { floatRepr := fun f => (fr.lookup f).getD "<prim-miss floatRepr>"
    decStr := fun d => (ds.lookup d).getD "<prim-miss decStr>"
    floatToDec := fun f => (fd.lookup f).getD none
    reFullmatch := fun pat s => (re.lookup (pat, s)).getD none
    floatRound := fun f k => (rd.lookup (f, k)).getD .nan }

end Utv.PyJson
