import Utv.Lemmas.C15Build3
/-! Building succeeds: objects, combinators, one schema object. -/
set_option linter.unusedSimpArgs false
set_option linter.unusedVariables false
namespace Utv.C15
open Utv.JsonSchema
open KnownDefect

theorem const_object (kvs : Obj) (v : Json) (h : constMisfit kvs v "object" = false) : ∃ o, v = .obj o := by
  unfold constMisfit at h
  simp only [Bool.or_eq_false_iff, Bool.and_eq_false_imp] at h
  have h' := h (by decide)
  obtain ⟨⟨h1, _⟩, _⟩ := h'
  cases v <;> simp [typeIs] at h1
  exact ⟨_, rfl⟩

/-- `parse_object` builds -/
theorem object_builds (N : Names) (kvs : Obj) (hd : strDistinct (keys kvs) = true) (hf : fragKws kvs kvs = true)
    (hb : boundsBad kvs = false) (hs : sizesBad kvs = false)
    (hcm : ∀ v, lookup "const" kvs = some v → constMisfit kvs v "object" = false)
    (ihOne : ∀ k v, (k, v) ∈ kvs → oneKeywords.contains k = true → inFragment v = true → (parse N v).isSome = true)
    (ihProps : ∀ ps, ("properties", Json.obj ps) ∈ kvs → ∀ p ∈ ps, (parse N p.2).isSome = true) :
    (parseObject N kvs (parseKws N kvs) (getConstraints kvs (some "object"))).isSome = true := by
  unfold parseObject
  by_cases hsingle : (keys kvs == ["type"] && (getConstraints kvs (some "object")).isEmpty) = true
  · rw [if_pos hsingle]; rfl
  · rw [if_neg hsingle]
    simp only
    -- the additional type builds when it is a schema
    have hadd : ∀ o, lookup "additionalProperties" kvs = some (.obj o) →
        ∃ t, subOne (parseKws N kvs) "additionalProperties" = some t := by
      intro o hl
      have hm := mem_of_lookup kvs _ _ hl
      rcases frag_additional kvs hf _ hm with ⟨b, hb'⟩ | ⟨_, hfr⟩
      · cases hb'
      · rw [subOne_additional N kvs _ hl]
        exact Option.isSome_iff_exists.mp (ihOne _ _ hm (by simp [oneKeywords]) hfr)
    by_cases hplain : ((declaredProps kvs (parseKws N kvs)).isEmpty && (implicitNames kvs (parseKws N kvs)).isEmpty &&
        !((lookup "additionalProperties" kvs).map isFalse).getD false) = true
    · rw [if_pos hplain]
      have hmv : ∃ v, mapValue kvs (parseKws N kvs) = some v := by
        unfold mapValue
        cases hl : lookup "additionalProperties" kvs with
        | none => exact ⟨_, rfl⟩
        | some av =>
          cases av with
          | obj o => simpa using hadd o hl
          | _ => exact ⟨_, rfl⟩
      obtain ⟨v, hv⟩ := hmv
      rw [hv]
      simp only
      apply annotate_isSome
      · apply mkRule_plain_isSome _ _ (rest_no_const _) (rest_no_enum _)
        · apply checkBounds_ok kvs hd hf _ _ _ hb
          intro hdec; simp [originOf] at hdec
        · exact checkLength_ok kvs hd hf _ (by intro t ht; cases ht; simp [primitiveNames]) (by intro h; cases h) _ hs
      · intro c hc h1
        have hlc := const_source kvs hd hf _ c hc h1
        obtain ⟨o, ho⟩ := const_object kvs c.2 (hcm c.2 hlc)
        exact ⟨.dict, rfl, by rw [ho]; rfl⟩
    · rw [if_neg hplain]
      have hao : ∃ a, additionOf kvs (parseKws N kvs) = some a := by
        unfold additionOf
        cases hl : lookup "additionalProperties" kvs with
        | none => exact ⟨_, rfl⟩
        | some av =>
          cases av with
          | obj o =>
            obtain ⟨t, ht⟩ := hadd o hl
            exact ⟨(.typed, t), by simp [ht]⟩
          | bool b => cases b <;> exact ⟨_, rfl⟩
          | _ => exact ⟨_, rfl⟩
      obtain ⟨⟨addK, addTy⟩, ha⟩ := hao
      rw [ha]
      simp only
      have hit : ∃ t, implicitTy kvs (parseKws N kvs) = some t := by
        unfold implicitTy
        cases hl : lookup "additionalProperties" kvs with
        | none => exact ⟨_, rfl⟩
        | some av =>
          cases av with
          | obj o => simpa using hadd o hl
          | bool b => cases b <;> exact ⟨_, rfl⟩
          | _ => exact ⟨_, rfl⟩
      have hdecl : ∀ p ∈ declaredProps kvs (parseKws N kvs), p.2.isSome = true := by
        intro p hp
        cases hl : lookup "properties" kvs with
        | none => rw [declared_none N kvs hl] at hp; simp at hp
        | some pv =>
          have hm := mem_of_lookup kvs _ _ hl
          obtain ⟨ps, rfl, _, _⟩ := frag_properties kvs hf pv hm
          rw [declared_names N kvs ps hl] at hp
          obtain ⟨q, hq, rfl⟩ := List.mem_map.mp hp
          exact ihProps ps hm q hq
      have hall : (allSome (((declaredProps kvs (parseKws N kvs)) ++ (implicitNames kvs (parseKws N kvs)).map
          (fun n => (n, implicitTy kvs (parseKws N kvs)))).map fun p => p.2.map fun t => (p.1, t))).isSome = true := by
        apply allSome_isSome
        intro x hx
        obtain ⟨p, hp, rfl⟩ := List.mem_map.mp hx
        rcases List.mem_append.mp hp with h | h
        · have := hdecl p h
          obtain ⟨t, ht⟩ := Option.isSome_iff_exists.mp this
          simp [ht]
        · obtain ⟨n, _, rfl⟩ := List.mem_map.mp h
          obtain ⟨t, ht⟩ := hit
          simp [ht]
      obtain ⟨props, hprops⟩ := Option.isSome_iff_exists.mp hall
      rw [hprops]
      rfl

/-- the conditions build when the listed schemas do -/
theorem conditions_builds (N : Names) (kvs : Obj) (hf : fragKws kvs kvs = true)
    (ihMany : ∀ k ss, (k, Json.arr ss) ∈ kvs → manyKeywords.contains k = true → ∀ s ∈ ss, (parse N s).isSome = true) :
    (conditions kvs (parseKws N kvs)).isSome = true := by
  have group : ∀ k op, manyKeywords.contains k = true → (condGroup kvs (parseKws N kvs) k op).isSome = true := by
    intro k op hk
    unfold condGroup
    cases hl : lookup k kvs with
    | none => rfl
    | some v =>
      simp only
      by_cases htr : truthy v = true
      · rw [if_pos htr]
        have hm := mem_of_lookup kvs _ _ hl
        have hfe := fragKws_mem kvs kvs hf _ _ hm
        simp only [fragEntry, Bool.and_eq_true] at hfe
        have h2 := hfe.2
        have hnot : (k == "items" || k == "additionalProperties") = false := by
          simp [manyKeywords] at hk
          rcases hk with rfl | rfl | rfl | rfl <;> simp
        simp only [hnot, hk, Bool.false_eq_true, if_false, if_true] at h2
        cases v with
        | arr ss =>
          rw [subMany_of N kvs k hk ss hl]
          have : (allSome (ss.map (parse N))).isSome = true := by
            apply allSome_isSome
            intro x hx
            obtain ⟨s, hs, rfl⟩ := List.mem_map.mp hx
            exact ihMany k ss hm hk s hs
          obtain ⟨ts, hts⟩ := Option.isSome_iff_exists.mp this
          rw [hts]; rfl
        | _ => simp at h2
      · rw [if_neg htr]; rfl
  unfold conditions
  obtain ⟨a, ha⟩ := Option.isSome_iff_exists.mp (group "anyOf" .any (by simp [manyKeywords]))
  obtain ⟨b, hb⟩ := Option.isSome_iff_exists.mp (group "oneOf" .one (by simp [manyKeywords]))
  obtain ⟨c, hc⟩ := Option.isSome_iff_exists.mp (group "allOf" .all (by simp [manyKeywords]))
  rw [ha, hb, hc]
  rfl

/-- `parse_type` once the primitive type is fixed builds -/
theorem with_builds (N : Names) (kvs : Obj) (hd : strDistinct (keys kvs) = true) (hf : fragKws kvs kvs = true)
    (hb : boundsBad kvs = false) (hs : sizesBad kvs = false) (hct : closedTupleBad kvs = false)
    (ty : Option String) (hty : ∀ t, ty = some t → primitiveNames.contains t = true)
    (hcm : ∀ t v, (ty <|> inferType kvs) = some t → lookup "const" kvs = some v → constMisfit kvs v t = false)
    (ihOne : ∀ k v, (k, v) ∈ kvs → oneKeywords.contains k = true → inFragment v = true → (parse N v).isSome = true)
    (ihMany : ∀ k ss, (k, Json.arr ss) ∈ kvs → manyKeywords.contains k = true → ∀ s ∈ ss, (parse N s).isSome = true)
    (ihProps : ∀ ps, ("properties", Json.obj ps) ∈ kvs → ∀ p ∈ ps, (parse N p.2).isSome = true) :
    (assembleWith N kvs (parseKws N kvs) ty).isSome = true := by
  have hprim : ∀ t, (ty <|> inferType kvs) = some t → primitiveNames.contains t = true := by
    intro t ht
    cases ty with
    | some t' => simp at ht; subst ht; exact hty t' rfl
    | none => simp at ht; exact inferType_prim kvs t ht
  have hnone : (ty <|> inferType kvs) = none → inferType kvs = none := by
    intro h
    cases ty with
    | some t => simp at h
    | none => simpa using h
  have hbase : (baseType N kvs (parseKws N kvs) ty).isSome = true := by
    unfold baseType
    simp only
    by_cases ha : ((ty <|> inferType kvs) == some "array") = true
    · rw [if_pos ha]
      have hta : (ty <|> inferType kvs) = some "array" := by simpa using ha
      rw [hta]
      exact array_builds N kvs hd hf hb hs hct (fun v hv => hcm "array" v hta hv) ihOne ihMany
    · rw [if_neg ha]
      by_cases ho : ((ty <|> inferType kvs) == some "object") = true
      · rw [if_pos ho]
        have hto : (ty <|> inferType kvs) = some "object" := by simpa using ho
        rw [hto]
        exact object_builds N kvs hd hf hb hs (fun v hv => hcm "object" v hto hv) ihOne ihProps
      · rw [if_neg ho]
        exact scalar_builds kvs hd hf _ hprim hnone hb hs hcm
  obtain ⟨t0, ht0⟩ := Option.isSome_iff_exists.mp hbase
  obtain ⟨cs, hcs⟩ := Option.isSome_iff_exists.mp (conditions_builds N kvs hf ihMany)
  unfold assembleWith
  rw [ht0, hcs]
  cases cs <;> rfl

end Utv.C15
