import Utv.GenEq.Support
import Utv.Gen.Parse
import Utv.Model.C02Decl
/-!
C02 — T1 obligations: `Rule._parse_contains` (the counting loop and the three bound checks) and the bound part of
`Rule._validate_contains`, regenerated from `utype/parser/rule.py` on every run (`Utv.Gen.Parse.*`), are the hand
model's `parseContains` / `countLoop` (`Model/C02Decl.lean`).

Encoding: the model's values (`PyVal`) are the abstract values of the object layer; a sequence value is the Python
sequence of its items; the class is the `Rule` subclass with its three attributes (`unprovided` = not declared); the
context is a fail-fast one.  Entering the item context and converting the item there are the world's: the conversion
succeeds exactly on the items the model's acceptor `acc` accepts.
-/
namespace Utv.GenEq.C02
open Utv.Obj Utv.C02D Utv.Gen
open Utv.Py (PyVal)

abbrev P := OVal PyVal

def encBound : Option Int → P
  | none => .unprovided
  | some m => .int m

/-- the `Rule` subclass a `ContainsCfg` stands for -/
def encCls (c : ContainsCfg) : P :=
  .obj "Rule" [("contains", if c.declared then .cls 0 else .none), ("min_contains", encBound c.minC),
    ("max_contains", encBound c.maxC)]

def encSeqK : Utv.Py.Cls → SeqK
  | .tuple => .tuple
  | .set => .set
  | .frozenset => .frozenset
  | _ => .list

def encSeq (k : Utv.Py.Cls) (xs : List PyVal) : P := .seq (encSeqK k) (xs.map .val)

/-- a fail-fast context that has collected nothing yet -/
def ctx0 : P :=
  .obj "RuntimeContext" [("errors", .seq .list []), ("tmp_errors", .seq .list []),
    ("options", .obj "Options" [("collect_errors", .bool false), ("max_errors", .none)])]

structure WorldOk (W : Obj.World PyVal) (acc : PyVal → Bool) : Prop where
  enter : ∀ i : Nat, W.ext "enter" [ctx0, .int i, .none] = .ok (.obj "RuntimeContext" [("transformer", .fn 0)])
  conv : ∀ x, W.call (.fn 0) [.val x, .cls 0] = if acc x then .ok (.val x) else .error .typeError

/-- what the caller gets: the value handed back, or nothing when `handle_error` raised a `ConstraintError` -/
def decode : P × Outcome PyVal → Option P
  | (_, .ret v) => some v
  | (_, .raise _) => none

/-- the counting loop: every item the world converts counts one -/
theorem forIn_count (g : P → P → M PyVal (ForInStep P)) (acc : PyVal → Bool)
    (hg : ∀ (i : Nat) (x : PyVal) (n : Nat),
      g (.seq .tuple [.int i, .val x]) (.int n) = .ok (.yield (.int ((if acc x then n + 1 else n : Nat) : Int)))) :
    ∀ (xs : List PyVal) (i n : Nat),
      forIn (enumFrom i (xs.map OVal.val)) (OVal.int (n : Int)) g = .ok (.int ((countLoop acc xs n : Nat) : Int)) := by
  intro xs
  induction xs with
  | nil => intro i n; rfl
  | cons x xs ih =>
    intro i n
    simp only [List.map_cons, enumFrom, List.forIn_cons, hg, countLoop, bind, Except.bind, ih]

/-- `handle_error` on the fail-fast context: the error is recorded and raised -/
theorem handle_error_ff (W : Obj.World PyVal) (e : P) :
    Options.handle_error W ctx0 e (.bool false)
      = .ok (.obj "RuntimeContext" [("errors", .seq .list [e]), ("tmp_errors", .seq .list []),
          ("options", .obj "Options" [("collect_errors", .bool false), ("max_errors", .none)])], Outcome.raise e) := by
  obj_simp [Options.handle_error, ctx0, getattr, setattr, lookupAttr, setAttrL, append]

theorem forIn_count0 (g : P → P → M PyVal (ForInStep P)) (acc : PyVal → Bool)
    (hg : ∀ (i : Nat) (x : PyVal) (n : Nat),
      g (.seq .tuple [.int i, .val x]) (.int n) = .ok (.yield (.int ((if acc x then n + 1 else n : Nat) : Int))))
    (xs : List PyVal) :
    forIn (enumFrom 0 (xs.map OVal.val)) (OVal.int 0) g = .ok (.int ((countLoop acc xs 0 : Nat) : Int)) := by
  simpa using forIn_count g acc hg xs 0 0

theorem C02_gen_parse_contains (W : Obj.World PyVal) (acc : PyVal → Bool) (c : ContainsCfg) (k : Utv.Py.Cls)
    (xs : List PyVal) (hw : WorldOk W acc) :
    (Parse.parse_contains W (encCls c) (encSeq k xs) ctx0).map decode
      = .ok (match parseContains acc c (.seq k xs) with
        | .ok _ => some (encSeq k xs)
        | .error _ => none) := by
  gen_obligation "C02_gen_parse_contains: the regenerated code (Utv.Gen) is no longer equal to the hand model here" by
    obtain ⟨declared, minC, maxC⟩ := c
    cases declared with
    | false => obj_simp [Parse.parse_contains, encCls, getattr, lookupAttr, parseContains, Except.map, decode]
    | true =>
      have hri : Parse.read_items W (.obj "Rule" [("contains", .cls 0), ("min_contains", encBound minC),
          ("max_contains", encBound maxC)]) (encSeq k xs) ctx0 (.bool false)
          = .ok (ctx0, Outcome.ret (.seq .list (xs.map .val))) := by
        unfold Parse.read_items
        simp only [truthy_bool, encSeq, toList, iter, bind, Except.bind, pure, Except.pure, Bool.false_eq_true, if_false,
          tryCatch, tryCatchThe, MonadExceptOf.tryCatch, Except.tryCatch]
        rfl
      obj_simp [Parse.parse_contains, encCls, getattr, lookupAttr, hri, enumerate, iter]
      rw [forIn_count0 (acc := acc)]
      · simp only [handle_error_ff]
        cases minC <;> cases maxC <;>
          obj_simp [encBound, OVal.isUnprovided, OVal.isNone, lt, gt, intOf?, parseContains, Py.iter, decode, Except.map]
        all_goals (generalize countLoop acc xs 0 = n; grind)
      · intro i x n
        have hc := hw.conv x
        cases ha : acc x <;> rw [ha] at hc <;>
          obj_simp [unpack2, hw.enter, getattr, lookupAttr, hc, tryCatch, tryCatchThe, MonadExceptOf.tryCatch,
            Except.tryCatch, Exc.isA, concat, add, intOf?] <;> rfl

/-! ### `Rule._validate_contains` (declaration time) — no hand-written counterpart: characterised directly -/

/-- the class at declaration time: `contains` (a type or None), the two bounds, and the origin class -/
def encDecl (c : ContainsCfg) (origin : P) : P :=
  .obj "Rule" [("contains", if c.declared then .cls 0 else .none), ("min_contains", encBound c.minC),
    ("max_contains", encBound c.maxC), ("__origin__", origin)]

/-- a declaration is refused (`ConfigError`) exactly when a bound is declared without `contains`, or the bounds cross
(`max_contains < min_contains`), or `contains` is declared / bounded on an origin class that is not iterable; a bound
of 0 is a declared bound -/
def declRefused (c : ContainsCfg) (iterable : Bool) : Bool :=
  ((c.minC.isSome || c.maxC.isSome) && !c.declared) ||
  (match c.minC, c.maxC with
   | some m, some M => decide (M < m)
   | _, _ => false) ||
  ((c.declared || c.minC.isSome || c.maxC.isSome) && !iterable)

theorem C02_gen_validate_contains (W : Obj.World PyVal) (c : ContainsCfg) (iterable : Bool)
    (hw : W.issubclass (.cls 1) ["Iterable"] = .ok iterable) :
    Parse.validate_contains W (encDecl c (.cls 1)) =
      if declRefused c iterable then .error (.raised (.obj "ConfigError" [])) else .ok .none := by
  gen_obligation "C02_gen_validate_contains: the regenerated code (Utv.Gen) is no longer equal to the hand model here" by
    obtain ⟨declared, minC, maxC⟩ := c
    cases declared <;> cases minC <;> cases maxC <;> cases iterable <;>
      obj_simp [Parse.validate_contains, encDecl, encBound, getattr, lookupAttr, OVal.isUnprovided, OVal.isNone, isinstance,
        hw, lt, intOf?, declRefused]
    all_goals (try grind)

end Utv.GenEq.C02
