import Utv.GenEq.C16
import Utv.Props.C16
/-!
C16 — the T1 obligations lifted over histories.

`Utv.GenEq.C16` proves, call by call, that the code regenerated from `utype/utils/base.py` (`Utv.Gen.Registry`:
the inner `decorator` of `register`, and `resolve`) is the hand model's `register` / `resolve` — `C16_gen_resolve`
under the hypothesis that no class is cached twice.  Here that hypothesis is discharged (it is a clause of the
invariant `Inv`, preserved by every operation) and the generated code itself is run over a whole history:
its answers are the specification's.
-/
namespace Utv.C16
open Utv.Obj Utv.Gen Utv.GenEq.C16

/-- the regenerated Python run over a history on one `TypeRegistry` object; the answers of the resolves are
collected (a `raise` statement reached in `resolve` would be an error here — there is none) -/
def genRun (W : Obj.World Det) : D → List Op → M Det (D × List D)
  | self, [] => .ok (self, [])
  | self, .reg e :: ops =>
    match Registry.register_decorator W self (.val e.det) (.int e.prio) (.fn e.fn) with
    | .ok (s, _) => genRun W s ops
    | .error x => .error x
  | self, .res t :: ops =>
    match Registry.resolve W self (.cls t) with
    | .ok (s, .ret v) =>
      (match genRun W s ops with
       | .ok (s', outs) => .ok (s', v :: outs)
       | .error x => .error x)
    | .ok (_, .raise x) => .error (.raised x)
    | .error x => .error x

theorem genRun_model (W : Obj.World Det) (W16 : C16.World) (scn : String) (vd base dflt : D) (b : Bool)
    (hscn : scn.toList ≠ []) (hw : WorldOk W W16 scn vd base dflt b) (ops : List Op) :
    ∀ (r : Reg) (gen : Int) (regs : List Entry), Inv W16 r regs →
      genRun W (encReg r gen (.str scn) vd base dflt) ops =
        .ok (encReg (run W16 r ops).1 (gen + (regsOf ops).length) (.str scn) vd base dflt,
             (run W16 r ops).2.map encOptFn) := by
  induction ops with
  | nil => intro r gen regs _; simp [genRun, run, runWith, regsOf]
  | cons op ops ih =>
    intro r gen regs hinv
    cases op with
    | reg e =>
      have h := C16_gen_register W r e gen (.str scn) vd base dflt (hw.valid e.fn)
      simp only [genRun, h]
      rw [ih _ _ _ (inv_register W16 r regs e hinv)]
      have : gen + 1 + ((regsOf ops).length : Int) = gen + ((regsOf (Op.reg e :: ops)).length : Int) := by
        simp only [regsOf, List.length_cons]; omega
      simp [run, runWith, step, this]
    | res t =>
      have h := C16_gen_resolve W W16 r t gen scn vd base dflt b hscn hw hinv.nodup
      simp only [genRun, h]
      rw [ih _ _ _ (resolve_spec W16 r regs t hinv).2]
      simp [run, runWith, step, regsOf]

/-- **C16 for the regenerated code.**  The functions translated from the current source text of
`TypeRegistry.register` (inner `decorator`) and `TypeRegistry.resolve`, run over any history on a fresh registry in
any world that answers as the model's world does (`WorldOk`), return what the specification computes from the
registrations made so far; the generation counter counts the registrations. -/
theorem C16_gen_history_refines (W : Obj.World Det) (W16 : C16.World) (scn : String) (vd base dflt : D) (b : Bool)
    (hscn : scn.toList ≠ []) (hw : WorldOk W W16 scn vd base dflt b) (cacheOn : Bool) (h : List Op) :
    ∃ final, genRun W (encReg { cacheOn := cacheOn } 0 (.str scn) vd base dflt) h =
      .ok (final, (specRun W16 [] h).map encOptFn) := by
  have := genRun_model W W16 scn vd base dflt b hscn hw h _ 0 [] (inv_init W16 cacheOn)
  rw [C16_resolve_refines] at this
  exact ⟨_, this⟩

/-- non-vacuity: for every model world there is a world of the translated code satisfying `WorldOk` (the encoding
of the model's world, `Utv.GenEq.C16.encWorld`), so the theorem above speaks about every model world -/
example (W16 : C16.World) (cacheOn : Bool) (h : List Op) :
    ∃ final, genRun (encWorld W16 "__transformer__") (encReg { cacheOn := cacheOn } 0 (.str "__transformer__")
        (.fn 0) (.obj "TypeRegistry" []) .none) h = .ok (final, (specRun W16 [] h).map encOptFn) :=
  C16_gen_history_refines _ W16 "__transformer__" (.fn 0) (.obj "TypeRegistry" []) .none true (by decide)
    ⟨fun _ _ => rfl, fun _ => by simp [encWorld], fun _ => rfl, rfl, fun _ => rfl⟩ cacheOn h

end Utv.C16
