import Utv.Lemmas.C15Sound
/-! The scalar case: the type built for a schema whose primitive type is neither array nor object. -/
set_option linter.unusedSimpArgs false
set_option linter.unusedVariables false
namespace Utv.C15
open Utv.JsonSchema

theorem inferType_cases (kvs : Obj) : inferType kvs = none ∨ inferType kvs = some "number" ∨ inferType kvs = some "array" ∨
    inferType kvs = some "object" ∨ inferType kvs = some "string" ∨ inferType kvs = some "null" := by
  unfold inferType
  cases h : typeGroups.find? (fun g => g.2.any fun k => hasKey k kvs && !defaultKeywords.contains k) with
  | some g =>
    have := List.mem_of_find?_eq_some h
    simp [typeGroups] at this
    rcases this with rfl | rfl | rfl | rfl | rfl <;> simp
  | none =>
    cases h2 : typeKeywords.find? (fun g => g.2.any fun k => hasKey k kvs) with
    | none => left; rfl
    | some g =>
      have := List.mem_of_find?_eq_some h2
      simp [typeKeywords] at this
      rcases this with rfl | rfl <;> simp

theorem inferType_prim (kvs : Obj) (t : String) (h : inferType kvs = some t) : primitiveNames.contains t = true := by
  rcases inferType_cases kvs with h1 | h1 | h1 | h1 | h1 | h1 <;> rw [h1] at h <;> simp at h <;> subst h <;>
    simp [primitiveNames]

/-- the keywords that are about one primitive type -/
def typedKeywords' : List String :=
  ["multipleOf", "maximum", "exclusiveMaximum", "minimum", "exclusiveMinimum", "maxItems", "minItems", "uniqueItems",
   "maxProperties", "minProperties", "pattern", "maxLength", "minLength", "properties", "required", "additionalProperties",
   "dependentRequired", "items", "prefixItems"]

/-- without a type to infer, none of the keywords that are about one primitive type is there -/
theorem inferType_none_absent (kvs : Obj) (h : inferType kvs = none) (k : String) (hk : k ∈ typedKeywords') :
    hasKey k kvs = false := by
  unfold inferType at h
  cases h1 : typeGroups.find? (fun g => g.2.any fun k => hasKey k kvs && !defaultKeywords.contains k) with
  | some g =>
    rw [h1] at h
    have := List.mem_of_find?_eq_some h1
    simp [typeGroups] at this
    rcases this with rfl | rfl | rfl | rfl | rfl <;> simp at h
  | none =>
    rw [h1] at h
    simp only [Option.map_eq_none_iff] at h
    have a1 := List.find?_eq_none.mp h1
    have a2 := List.find?_eq_none.mp h
    simp [typeGroups, defaultKeywords] at a1
    simp [typeKeywords] at a2
    simp [typedKeywords'] at hk
    rcases hk with rfl | rfl | rfl | rfl | rfl | rfl | rfl | rfl | rfl | rfl | rfl | rfl | rfl | rfl | rfl | rfl | rfl | rfl | rfl <;>
      simp_all

/-- the members of a schema object of the fragment, by the role of their keyword -/
theorem frag_keyword_cases (k : String) (h : fragmentKeywords.contains k = true) :
    k = "type" ∨ k = "format" ∨ (∃ name, (k, name) ∈ simpleKws) ∨
    k ∈ ["items", "prefixItems", "properties", "required", "additionalProperties", "dependentRequired"] ∨
    (k = "anyOf" ∨ k = "oneOf" ∨ k = "allOf") := by
  simp [fragmentKeywords] at h
  rcases h with rfl | rfl | rfl | rfl | rfl | rfl | rfl | rfl | rfl | rfl | rfl | rfl | rfl | rfl | rfl | rfl | rfl | rfl | rfl |
    rfl | rfl | rfl | rfl | rfl | rfl | rfl <;> simp [simpleKws]

theorem frag_cmap_simple (k name : String) (h : fragmentKeywords.contains k = true) (hc : cmapOf k = some name) :
    (k, name) ∈ simpleKws := by
  simp [fragmentKeywords] at h
  rcases h with rfl | rfl | rfl | rfl | rfl | rfl | rfl | rfl | rfl | rfl | rfl | rfl | rfl | rfl | rfl | rfl | rfl | rfl | rfl |
    rfl | rfl | rfl | rfl | rfl | rfl | rfl <;> simp [cmapOf, constraintsMap, List.lookup] at hc <;> subst hc <;> simp [simpleKws]

/-- a typed simple keyword is one of the keywords that are about one primitive type -/
theorem simple_typed (k name : String) (h : (k, name) ∈ simpleKws) : k = "enum" ∨ k = "const" ∨ k ∈ typedKeywords' := by
  simp [simpleKws] at h
  rcases h with ⟨rfl, rfl⟩ | ⟨rfl, rfl⟩ | ⟨rfl, rfl⟩ | ⟨rfl, rfl⟩ | ⟨rfl, rfl⟩ | ⟨rfl, rfl⟩ | ⟨rfl, rfl⟩ | ⟨rfl, rfl⟩ |
    ⟨rfl, rfl⟩ | ⟨rfl, rfl⟩ | ⟨rfl, rfl⟩ | ⟨rfl, rfl⟩ | ⟨rfl, rfl⟩ | ⟨rfl, rfl⟩ | ⟨rfl, rfl⟩ <;> simp [typedKeywords']

/-- a constraint other than const / enum says nothing about null -/
theorem sat_null_other (R : Rx) (c : String × Json) (h1 : (c.1 == "const") = false) (h2 : (c.1 == "enum") = false) :
    sat R c .null = true := by
  obtain ⟨n, v⟩ := c
  simp only at h1 h2
  simp only [sat, h1, h2]
  cases v <;> simp [numSat, lenSat, sizeOf?]

/-- `nullPasses`: every constraint holds of null -/
theorem nullPasses_sat (R : Rx) (cons : Cons) (h : nullPasses cons = true) : ∀ c ∈ cons, sat R c .null = true := by
  intro c hcm
  have := List.all_eq_true.mp h c hcm
  obtain ⟨n, v⟩ := c
  simp only at this
  by_cases h1 : (n == "const") = true
  · have hn : n = "const" := by simpa using h1
    subst hn
    simp at this
    cases v <;> simp at this
    simp [sat, Json.eqv]
  · have h1' : (n == "const") = false := by simpa using h1
    simp only [h1', Bool.false_eq_true, if_false] at this
    by_cases h2 : (n == "enum") = true
    · have hn : n = "enum" := by simpa using h2
      subst hn
      simp at this
      cases v <;> simp at this
      obtain ⟨x, hx, hxn⟩ := this
      simp [sat, memEqv]
      refine ⟨x, hx, ?_⟩
      cases x <;> simp at hxn
      simp [Json.eqv]
    · exact sat_null_other R (n, v) h1' (by simpa using h2)

/-- the constraints on a scalar class hold of what conforms to the constrained class -/
theorem constrain_ok (R : Rx) (p : Prim) (cons : Cons) (t0 : Ty) (j : Json) (h : constrain (.prim p) cons = some t0)
    (hc : conforms R t0 j = true) : primOk p j = true ∧ ∀ c ∈ cons, sat R c j = true := by
  unfold constrain at h
  by_cases he : cons.isEmpty = true
  · simp only [he, if_true] at h
    cases h
    refine ⟨by simpa [conforms] using hc, fun c hcm => ?_⟩
    have : cons = [] := by simpa using he
    rw [this] at hcm; simp at hcm
  · simp only [he, Bool.false_eq_true, if_false] at h
    by_cases hn : p = .null
    · subst hn
      simp only at h
      by_cases hp : nullPasses cons = true
      · simp only [hp, if_true] at h
        cases h
        have hj : j = .null := by
          cases j <;> simp [conforms, primOk] at hc
          rfl
        subst hj
        exact ⟨rfl, nullPasses_sat R cons hp⟩
      · simp only [hp, Bool.false_eq_true, if_false] at h
        cases h
        simp [Ty.never, conforms, conformsAny] at hc
    · have hm : (match Ty.prim p with
          | .prim .null => some (if nullPasses cons then Ty.prim p else Ty.never)
          | _ => annotate (Ty.prim p) false cons) = annotate (Ty.prim p) false cons := by
        cases p <;> simp at hn ⊢
      have := annotate_conforms R (.prim p) false _ t0 j (by simp) (hm.symm.trans h) hc
      exact ⟨by simpa [bareOrigin, conforms] using this.1, this.2.1⟩

theorem formatClass_primitive (kvs : Obj) (t : String) (p : Prim) (h : formatClass kvs t = some p) : primitiveOf p = t := by
  unfold formatClass at h
  split at h
  · split at h
    · split at h
      · rename_i hpe; cases h; simpa using hpe
      · simp at h
    · simp at h
  · simp at h

/-- the class of a schema with a (declared or inferred) scalar primitive type is of that primitive type -/
theorem scalarClass_some (kvs : Obj) (t : String) (ht : primitiveNames.contains t = true) :
    ∃ p, scalarClass kvs (some t) = .prim p ∧ primitiveOf p = t := by
  obtain ⟨p0, hp0⟩ := typeMap_some t ht
  cases hf : formatClass kvs t with
  | none => exact ⟨p0, by simp [scalarClass, hf, hp0], typeMap_primitive t p0 ht hp0⟩
  | some p => exact ⟨p, by simp [scalarClass, hf], formatClass_primitive kvs t p hf⟩

/-- structural keywords are vacuous on a scalar -/
theorem structural_vacuous_scalar (C : Ctx) (all : Obj) (k : String) (v j : Json)
    (hj : (∀ xs, j ≠ .arr xs) ∧ (∀ o, j ≠ .obj o))
    (hk : k ∈ ["items", "prefixItems", "properties", "required", "additionalProperties", "dependentRequired"]) :
    validateEntry C all k v j = true := by
  simp at hk
  rcases hk with rfl | rfl | rfl | rfl | rfl | rfl <;> cases j <;> simp [validateEntry, checkSimple, kRequired, kDependentRequired] <;>
    first
      | (exact absurd rfl (hj.1 _))
      | (exact absurd rfl (hj.2 _))
      | (cases v <;> simp)

theorem typeIs_scalar (t : String) (j : Json) (ht : primitiveNames.contains t = true) (h1 : (t == "array") = false)
    (h2 : (t == "object") = false) (h : typeIs t j = true) : (∀ xs, j ≠ .arr xs) ∧ (∀ o, j ≠ .obj o) := by
  constructor
  · intro xs hx; subst hx; simp [typeIs] at h; simp [h] at h1
  · intro o hx; subst hx; simp [typeIs] at h; simp [h] at h2

/-- the scalar part of `baseType`: the value is of the schema's primitive type and meets the kept constraints -/
theorem scalar_ok (N : Names) (R : Rx) (kvs : Obj) (j : Json) (hd : strDistinct (keys kvs) = true)
    (hf : fragKws kvs kvs = true) (hne : emptyEnum kvs = false) (ty : Option String)
    (hty : ∀ t, ty = some t → primitiveNames.contains t = true)
    (ha : ((ty <|> inferType kvs) == some "array") = false) (ho : ((ty <|> inferType kvs) == some "object") = false)
    (t0 : Ty) (hb : baseType N kvs (parseKws N kvs) ty = some t0) (hc : conforms R t0 j = true) :
    (∀ t, (ty <|> inferType kvs) = some t → typeIs t j = true) ∧
    (∀ c ∈ getConstraints kvs (ty <|> inferType kvs), sat R c j = true) := by
  unfold baseType at hb
  simp only [ha, ho, Bool.false_eq_true, if_false] at hb
  have hprim : ∀ t, (ty <|> inferType kvs) = some t → primitiveNames.contains t = true := by
    intro t ht
    cases ty with
    | some t' => simp at ht; subst ht; exact hty t' rfl
    | none => simp at ht; exact inferType_prim kvs t ht
  cases hty' : (ty <|> inferType kvs) with
  | some t =>
    rw [hty'] at hb
    obtain ⟨p, hp, hpt⟩ := scalarClass_some kvs t (hprim t hty')
    rw [hp] at hb
    have := constrain_ok R p _ t0 j hb hc
    refine ⟨fun t' ht' => ?_, this.2⟩
    cases ht'
    rw [← hpt]
    exact primOk_typeIs p j this.1
  | none =>
    rw [hty'] at hb
    refine ⟨fun t' ht' => (by cases ht'), ?_⟩
    by_cases he : (getConstraints kvs none).isEmpty = true
    · intro c hcm
      have : getConstraints kvs none = [] := by simpa using he
      rw [this] at hcm; simp at hcm
    · -- some constraint is there: it is enum or const, so the class is the class of a listed value
      have hinf : inferType kvs = none := by
        cases ty with
        | some t => simp at hty'
        | none => simpa using hty'
      have hp : ∃ p, scalarClass kvs none = Ty.prim p := by
        unfold scalarClass
        simp only
        cases hcst : lookup "const" kvs with
        | some v => exact ⟨_, rfl⟩
        | none =>
          have : ∃ c, c ∈ getConstraints kvs none := by
            cases hg : getConstraints kvs none with
            | nil => simp [hg] at he
            | cons c _ => exact ⟨c, by simp⟩
          obtain ⟨c, hcm⟩ := this
          unfold getConstraints at hcm
          obtain ⟨⟨k, v⟩, hkv, hkc⟩ := List.mem_filterMap.mp hcm
          simp only [groupKeywords] at hkc
          cases hcm2 : cmapOf k with
          | none => simp [hcm2] at hkc
          | some name =>
            have hfe := fragKws_mem kvs kvs hf k v hkv
            have hfk : fragmentKeywords.contains k = true := by
              simp only [fragEntry, Bool.and_eq_true] at hfe; exact hfe.1
            have hs := frag_cmap_simple k name hfk hcm2
            have hlk := lookup_of_mem_distinct kvs hd k v hkv
            rcases simple_typed k name hs with rfl | rfl | htyped
            · -- enum: a non-empty array
              simp only [fragEntry, Bool.and_eq_true] at hfe
              have h3 := hfe.2
              simp [manyKeywords, fragSimple] at h3
              rw [hlk]
              cases v with
              | arr xs =>
                cases xs with
                | nil => simp [emptyEnum, hlk] at hne
                | cons x rest => exact ⟨_, rfl⟩
              | _ => simp at h3
            · rw [hlk] at hcst; simp at hcst
            · have := inferType_none_absent kvs hinf k htyped
              rw [hasKey_of_mem kvs k v hkv] at this
              simp at this
      obtain ⟨p, hp⟩ := hp
      rw [hp] at hb
      exact (constrain_ok R p _ t0 j hb hc).2

end Utv.C15
