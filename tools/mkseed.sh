#!/bin/bash
# usage: tools/mkseed.sh Cxx -> scratch worktree /tmp/s/Cxx/repo for a seeding (mutation) sub-agent + TASK.md (property text only)
set -e
P=$1
R=${2:-}
D=$P$R
mkdir -p /tmp/s/$D/out
git -C /repo worktree add -f --detach /tmp/s/$D/repo HEAD >/dev/null
/venv/bin/python - "$P" "$D" <<'PY'
import json,sys
pid=sys.argv[1]; d=sys.argv[2]
p=[json.loads(l) for l in open('/verif/properties.jsonl') if json.loads(l)['id']==pid][0]
open(f'/tmp/s/{d}/TASK.md','w').write(f"""# Task: seed realistic property-breaking changes into a Python library

The library is utilmeta/utype (runtime type declaration / parsing), checked out as a scratch git worktree at
/tmp/s/{d}/repo (work ONLY there and in /tmp/s/{d}/out; never touch /repo or /verif, do not read /verif).
Python: /venv/bin/python (utype's deps installed).  Test suite (must stay green, all 115 tests):
  cd /tmp/s/{d}/repo && /venv/bin/python -m pytest -q -p no:cacheprovider --timeout=900

## The property users rely on
{p['title']}.
{p['statement']}

## What to produce
THREE independent changes (A, B, C) to the library source under /tmp/s/{d}/repo/utype, each of which
* breaks the property above for some inputs,
* still imports/compiles and keeps the whole existing test suite passing (run it!),
* looks like a plausible maintenance edit (refactor slip, off-by-one, wrong operator, dropped branch, reordered
  statements, stale cache, swapped arguments, missing copy, a "performance shortcut"), not sabotage with a magic constant,
* needs something SPECIFIC to manifest — a boundary value, an unusual but legal input, a particular option combination,
  a multi-step sequence of operations, a particular interleaving, or two cooperating sites that each look fine alone —
  so that ordinary use and the existing tests would not expose it at once,
* is different in kind and location from the other two.
For each change X in A, B, C write into /tmp/s/{d}/out/X/:
  patch.diff   — `git diff` of that single change against the worktree's HEAD (apply with `git apply`), nothing else in it
  demo.py      — a small standalone program run as `PYTHONPATH=<repo> /venv/bin/python demo.py` that exits 0 on the
                 unchanged tree and exits 1 (printing what went wrong) with the change applied; it must show the PROPERTY
                 failing (not merely that behaviour differs)
  meta.json    — {{"property":"{pid}","what":"one-sentence description","needs":"what it needs to manifest",
                  "files":["utype/..."],"ran":["commands you ran and their outcome"]}}
Verify each yourself: apply patch -> test suite green, demo exits 1; `git checkout -- .` -> demo exits 0.
Leave the worktree clean (git checkout -- .) when done.  Final reply: 3 short paragraphs (one per change).
""")
PY
echo /tmp/s/$D
